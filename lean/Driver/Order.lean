import Driver.Util
import StoneVerif.Model.Order
/-! Protocol handlers of the `decl.order.*` ops (C12): the set-iteration site models of `Model/Order.lean`, run on the
iteration order (`pi`) the harness supplies.

* `decl.order.callers`  {"pi": [null | "caller", ..], "cls": "U", "members": ["caller", ..]}
      -> {"loop": [null | str ..], "loop_str": [..] (the loop before the repair: `key=str`), "struct_tables": [..],
          "union_tables": [..], "tagmaps": [line ..], "tagmaps_sorted": [..]}
* `decl.order.procs`    {"ns": "a", "kind": "prim|composite|subtypes|list|map", "inner": [[tyNs, tyName, code] ..],
                         "direct": [[owner, tyNs, tyName, inst, annNs, annName] ..], "rem": [..],
                         "extras": [[tyNs, tyName, inst, annNs, annName] ..]}
      -> {"procs": [[tyNs, tyName, code] ..], "emit": [[class, code] ..], "emit_by_name": [..] (the sort before the
          repair: by annotation-type name only)}
* `decl.order.imports`  {"self": "a", "package": "pkg", "st": [[ns, [alias, dataType, annotation, annotationType]] ..],
                         "pi": [ns ..], "flags": [m, a, t]} -> {"imported": [ns ..], "lines": [..]}
* `decl.order.sort`     {"pi": [str ..]} -> {"sorted": [..], "typing": [..], "adhoc": [..] (the stub's ad-hoc import block:
                         sorted), "adhoc_unsorted": [..] (the block before the stub repair: set order)}
* `decl.order.routes`   {"pi": [[name, version] ..]} -> {"routes": [[name, version] ..], "reprs": [..]}
* `decl.order.routeio`  {"self": "a", "pi": [[ns, name] ..]} -> {"types": [[ns, name] ..], "foreign": [ns ..]}
* `decl.order.outdir`   {"dir": [[path, [byte ..]] ..], "writes": [[path, "wb"|"ab", text] ..]}
      -> {"dir": [[path, [byte ..]] ..], "promised": [[path, [byte ..] | null] ..], "skip_text": [[path, [byte ..]] ..]}
      (`build` on the directory; `promised` for every written path; `skip_text` = the regression model)
* `decl.order.tables`   {} -> the coverage tables (sites, sort sites with key class, class state)
-/
open Lean
namespace Driver.Order
open StoneVerif StoneVerif.Order

def callerOfJson (j : Json) : Except String Caller :=
  match j with
  | .null => pure none
  | .str s => pure (some s)
  | _ => throw "caller: null or string expected"

def callerToJson : Caller → Json
  | none => Json.null
  | some s => Json.str s

def jstrs (l : List String) : Json := Json.arr (l.map Json.str).toArray

def strs (j : Json) : Except String (List String) := do
  (← j.getArr?).toList.mapM asStr

def annOf (l : List String) : Except String Ann :=
  match l with
  | [a, b, c, d, e] => pure ⟨a, b, c, d, e⟩
  | _ => throw "annotation: [tyNs, tyName, inst, annNs, annName] expected"

def ownedAnnOf (l : List String) : Except String (String × Ann) :=
  match l with
  | [o, a, b, c, d, e] => pure (o, ⟨a, b, c, d, e⟩)
  | _ => throw "owned annotation: [owner, tyNs, tyName, inst, annNs, annName] expected"

def procOf (l : List String) : Except String Proc :=
  match l with
  | [a, b, c] => pure ⟨a, b, c⟩
  | _ => throw "processor: [tyNs, tyName, code] expected"

def kindOf (s : String) : Except String Kind :=
  match s with
  | "prim" => pure .prim
  | "composite" => pure .composite
  | "subtypes" => pure .subtypes
  | "list" => pure .list
  | "map" => pure .map
  | _ => throw s!"unknown kind {s}"

def rows (j : Json) (k : String) : Except String (List (List String)) := do
  (← jarr j k).toList.mapM strs

def keyClassName : KeyClass → String
  | .strings => "strings"
  | .callerKey => "callerKey"
  | .nsName => "nsName"
  | .typeName => "typeName"
  | .annTypeKey => "annTypeKey"
  | .annNsName => "annNsName"

def site4 (r : String × String × Nat × String) : Json :=
  Json.arr #[Json.str r.1, Json.str r.2.1, Json.num r.2.2.1, Json.str r.2.2.2]

def bytesToJson (b : Bytes) : Json := Json.arr (b.map fun n => toJson n).toArray

def dirToJson (d : Dir) : Json := Json.arr (d.map fun e => Json.arr #[Json.str e.1, bytesToJson e.2]).toArray

def handle (op : String) (j : Json) : Except String Json := do
  match op with
  | "decl.order.outdir" =>
    let dir ← (← jarr j "dir").toList.mapM fun e => do
      match (← e.getArr?).toList with
      | [p, b] => pure ((← p.getStr?), (← (← b.getArr?).toList.mapM fun n => n.getNat?))
      | _ => throw "[path, bytes] expected"
    let ws ← (← jarr j "writes").toList.mapM fun e => do
      match (← e.getArr?).toList with
      | [p, m, t] => do
        match modeOfString (← m.getStr?) with
        | some mode => pure ({ path := (← p.getStr?), mode := mode, out := utf8 (← t.getStr?) } : Write)
        | none => throw "mode: wb or ab expected"
      | _ => throw "[path, mode, text] expected"
    pure <| ok [("dir", dirToJson (build dir ws)),
                ("promised", Json.arr (ws.map fun w => Json.arr #[Json.str w.path,
                    match promised ws w.path with | some b => bytesToJson b | none => Json.null]).toArray),
                ("skip_text", dirToJson (buildSkipText dir ws))]
  | "decl.order.callers" =>
    let pi ← (← jarr j "pi").toList.mapM callerOfJson
    let cls ← jstr j "cls"
    let members ← strList j "members"
    pure <| ok [("loop", Json.arr ((callerLoop pi).map callerToJson).toArray),
                ("loop_str", Json.arr ((callerLoopStr pi).map callerToJson).toArray),
                ("struct_tables", jstrs (structTableNames pi)),
                ("union_tables", jstrs (unionTableNames pi)),
                ("tagmaps", jstrs (tagmapsLine cls members)),
                ("tagmaps_sorted", jstrs (tagmapsLineSorted cls members))]
  | "decl.order.procs" =>
    let ns ← jstr j "ns"
    let kind ← kindOf (← jstr j "kind")
    let inner ← (← rows j "inner").mapM procOf
    let direct ← (← rows j "direct").mapM ownedAnnOf
    let rem ← (← rows j "rem").mapM ownedAnnOf
    let extras ← (← rows j "extras").mapM annOf
    let ps := procsOf ns kind inner direct rem extras
    pure <| ok [("procs", Json.arr (ps.map fun p => jstrs [p.tyNs, p.tyName, p.code]).toArray),
                ("emit", Json.arr ((emitProcs ns ps).map fun e => jstrs [e.1, e.2]).toArray),
                ("emit_by_name", Json.arr ((emitProcsByName ns ps).map fun e => jstrs [e.1, e.2]).toArray)]
  | "decl.order.imports" =>
    let self ← jstr j "self"
    let package ← jstr j "package"
    let st ← (← jarr j "st").toList.mapM fun e => do
      match (← e.getArr?).toList with
      | [n, fl] => do
        match ← (← fl.getArr?).toList.mapM (fun b => b.getBool?) with
        | [a, d, an, at'] => pure ((← n.getStr?), ({ alias := a, dataType := d, annotation := an, annotationType := at' } : Reason))
        | _ => throw "four flags expected"
      | _ => throw "[ns, flags] expected"
    let pi ← strList j "pi"
    let (m, a, t) ← match ← (← jarr j "flags").toList.mapM (fun b => b.getBool?) with
      | [m, a, t] => pure (m, a, t)
      | _ => throw "three flags expected"
    pure <| ok [("imported", jstrs (importedNamespaces m a t (addAnnotationTypeImports self st pi))),
                ("lines", jstrs (importLines package self st pi))]
  | "decl.order.sort" =>
    let pi ← strList j "pi"
    pure <| ok [("sorted", jstrs (sortBy id strLe pi)), ("typing", jstrs (typingImportLines pi)),
                ("adhoc", jstrs (adhocImportLines pi)), ("adhoc_unsorted", jstrs (adhocImportLinesUnsorted pi))]
  | "decl.order.routes" =>
    let pi ← (← jarr j "pi").toList.mapM fun e => do
      match (← e.getArr?).toList with
      | [n, v] => pure ((← n.getStr?), (← v.getNat?))
      | _ => throw "[name, version] expected"
    let rs := sortBy id pairLe pi
    pure <| ok [("routes", Json.arr (rs.map fun r => Json.arr #[Json.str r.1, Json.num r.2]).toArray),
                ("reprs", jstrs (rs.map routeRepr))]
  | "decl.order.routeio" =>
    let self ← jstr j "self"
    let pi ← (← rows j "pi").mapM fun r => match r with
      | [a, b] => pure ((a, b) : TyRef)
      | _ => throw "[ns, name] expected"
    pure <| ok [("types", Json.arr ((routeIoTypes pi).map fun t => jstrs [t.1, t.2]).toArray),
                ("foreign", jstrs (routeIoForeign self pi))]
  | "decl.order.tables" =>
    pure <| ok [("modelled_sites", Json.arr (modelledSites.map site4).toArray),
                ("extracted_sites", Json.arr (Tables.setIterSites.map site4).toArray),
                ("sort_sites", Json.arr (modelledSortSites.map fun r =>
                    Json.arr #[site4 r.1, Json.str (keyClassName r.2)]).toArray),
                ("extracted_sort_sites", Json.arr (Tables.setSortSites.map site4).toArray),
                ("class_state", Json.arr (Tables.classMutableState.map fun r => jstrs [r.1, r.2.1, r.2.2]).toArray),
                ("site_src", jstrs Tables.setIterSiteSrc)]
  | _ => throw s!"unknown op {op}"

end Driver.Order
