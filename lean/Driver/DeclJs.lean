import Driver.Util
import StoneVerif.Model.DeclJs
/-! Protocol handlers of the `decl.js.*` / `decl.tsd.*` ops (C16).

API encoding (arrays keep order):
`{"namespaces": [{"name", "imports": [..], "types": [T..], "aliases": [[ns, name, ty]..], "routes": [R..]}..],
  "schema": [attr names]}` with
`T = ["struct", ns, name, parent | null, [[field, ty, hasDefault]..], [[tag, [ns, name]]..], catchAll]`
  `| ["union", ns, name, parent | null, [[tag, ty]..]]`, `parent = [ns, name]`,
`R = [name, version, arg, result, error, [[attr, val]..]]`,
`ty = ["prim", P] | ["list", ty] | ["map", ty, ty] | ["nullable", ty] | ["struct", ns, name] | ["union", ns, name]
     | ["alias", ns, name, ty]`,
`val = ["null"] | ["bool", b] | ["int", "digits"] | ["float", repr] | ["str", s] | ["unsupported", python type]`.

Ops:
* `decl.js.names`  `{"items": [[name, version]..]}` → `{"out": [[fmt_camel, fmt_pascal, fmt_func]..]}`
* `decl.js.run`    `{"api", "jobs": [J..]}` → `{"out": [..]}` with
    `J = {"job": "fmt", "mapper": "js" | "js_name" | "tsd" | "tsd_name", "inside": ns | null, "types": [ty..]}`
        → `[text..]`
      `| {"job": "decls", "backend": "js_types" | "js_client" | "tsd_types" | "tsd_client", "opts": {..}}`
        → `{"ok": ..} | {"error": text}`
      `| {"job": "wf", "opts": {..}}` → `{"wf", "tsd_inj", "js_inj", "route_inj"}` -/
open Lean
namespace Driver.DeclJs
open StoneVerif StoneVerif.DeclJs

def arrOf (j : Json) : Except String (List Json) := do pure (← j.getArr?).toList

def primOf (s : String) : Except String Prim :=
  match s with
  | "Boolean" => pure .boolean | "Bytes" => pure .bytes | "Float32" => pure .float32 | "Float64" => pure .float64
  | "Int32" => pure .int32 | "Int64" => pure .int64 | "UInt32" => pure .uint32 | "UInt64" => pure .uint64
  | "String" => pure .string | "Timestamp" => pure .timestamp | "Void" => pure .void
  | _ => throw s!"bad primitive {s}"

partial def tyOf (j : Json) : Except String IrTy := do
  match ← arrOf j with
  | [k, a] =>
    match ← k.getStr? with
    | "prim" => pure (.prim (← primOf (← a.getStr?)))
    | "list" => pure (.list (← tyOf a))
    | "nullable" => pure (.nullable (← tyOf a))
    | s => throw s!"bad type {s}"
  | [k, a, b] =>
    match ← k.getStr? with
    | "map" => pure (.map (← tyOf a) (← tyOf b))
    | "struct" => pure (.struct ⟨← a.getStr?, ← b.getStr?⟩)
    | "union" => pure (.union ⟨← a.getStr?, ← b.getStr?⟩)
    | s => throw s!"bad type {s}"
  | [k, a, b, c] =>
    match ← k.getStr? with
    | "alias" => pure (.alias ⟨← a.getStr?, ← b.getStr?⟩ (← tyOf c))
    | s => throw s!"bad type {s}"
  | _ => throw "bad type"

def qnameOf (j : Json) : Except String QName := do
  match ← arrOf j with
  | [a, b] => pure ⟨← a.getStr?, ← b.getStr?⟩
  | _ => throw "bad qname"

def optQ (j : Json) : Except String (Option QName) :=
  match j with
  | .null => pure none
  | _ => do pure (some (← qnameOf j))

def valOf (j : Json) : Except String AttrVal := do
  match ← arrOf j with
  | [k] => match ← k.getStr? with
    | "null" => pure .null
    | s => throw s!"bad value {s}"
  | [k, a] =>
    match ← k.getStr? with
    | "bool" => pure (.bool (← a.getBool?))
    | "int" => match (← a.getStr?).toInt? with
      | some n => pure (.int n)
      | none => throw "bad int"
    | "float" => pure (.float (← a.getStr?))
    | "str" => pure (.str (← a.getStr?))
    | "unsupported" => pure (.unsupported (← a.getStr?))
    | s => throw s!"bad value {s}"
  | _ => throw "bad value"

def dataTypeOf (j : Json) : Except String DataType := do
  match ← arrOf j with
  | [k, ns, name, parent, fields, subs, ca] =>
    if (← k.getStr?) != "struct" then throw "struct expected"
    let fs ← (← arrOf fields).mapM fun f => do
      match ← arrOf f with
      | [n, t, d] => pure (⟨← n.getStr?, ← tyOf t, ← d.getBool?⟩ : FieldD)
      | _ => throw "bad field"
    let ss ← (← arrOf subs).mapM fun s => do
      match ← arrOf s with
      | [t, q] => pure (← t.getStr?, ← qnameOf q)
      | _ => throw "bad subtype"
    pure (.struct ⟨⟨← ns.getStr?, ← name.getStr?⟩, ← optQ parent, fs, ss, ← ca.getBool?⟩)
  | [k, ns, name, parent, tags] =>
    if (← k.getStr?) != "union" then throw "union expected"
    let ts ← (← arrOf tags).mapM fun t => do
      match ← arrOf t with
      | [n, ty] => pure (⟨← n.getStr?, ← tyOf ty⟩ : TagD)
      | _ => throw "bad tag"
    pure (.union ⟨⟨← ns.getStr?, ← name.getStr?⟩, ← optQ parent, ts⟩)
  | _ => throw "bad data type"

def routeOf (j : Json) : Except String RouteD := do
  match ← arrOf j with
  | [name, version, a, r, e, attrs] =>
    let avs ← (← arrOf attrs).mapM fun p => do
      match ← arrOf p with
      | [k, v] => pure (← k.getStr?, ← valOf v)
      | _ => throw "bad attr"
    pure ⟨← name.getStr?, ← version.getNat?, ← tyOf a, ← tyOf r, ← tyOf e, avs⟩
  | _ => throw "bad route"

def nsOf (j : Json) : Except String NamespaceD := do
  let types ← (← jarr j "types").toList.mapM dataTypeOf
  let aliases ← (← jarr j "aliases").toList.mapM fun a => do
    match ← arrOf a with
    | [ns, name, t] => pure (⟨⟨← ns.getStr?, ← name.getStr?⟩, ← tyOf t⟩ : AliasD)
    | _ => throw "bad alias"
  let routes ← (← jarr j "routes").toList.mapM routeOf
  pure ⟨← jstr j "name", types, aliases, routes, ← strList j "imports"⟩

def apiOf (j : Json) : Except String Api := do
  pure ⟨← (← jarr j "namespaces").toList.mapM nsOf, ← strList j "schema"⟩

def optsOf (j : Json) : Except String Opts := do
  let b (k : String) : Bool := match j.getObjValAs? Bool k with | .ok v => v | .error _ => false
  let s (k : String) (d : String) : String := match j.getObjValAs? String k with | .ok v => v | .error _ => d
  pure { filename := (jopt j "filename").bind (fun v => v.getStr?.toOption), exportNamespaces := b "export",
         excludeErrorTypes := b "exclude_error", importNamespaces := b "import_ns",
         wrapResponse := s "wrap_response" "", wrapError := s "wrap_error" "",
         requestOptions := b "request_options", out := s "out" "out" }

def jOptStr : Option String → Json
  | some s => Json.str s
  | none => Json.null

def refToJson (r : Ref) : Json := Json.arr #[jOptStr r.ns, Json.str r.name]

def texprToJson : TExpr → Json
  | .name r => Json.arr #["name", jOptStr r.ns, Json.str r.name]
  | .app h a => Json.arr #["app", Json.str h, texprToJson a]
  | .dict k v => Json.arr #["dict", Json.str k, texprToJson v]
  | .union rs => Json.arr #["union", Json.arr (rs.map refToJson).toArray]
  | .lits ls => Json.arr #["lits", Json.arr (ls.map Json.str).toArray]

def kindStr : Kind → String
  | .typedef => "typedef" | .interface => "interface" | .typeAlias => "type"

def declToJson (d : Decl) : Json :=
  Json.mkObj [("file", Json.str d.file), ("scope", jOptStr d.scope), ("kind", Json.str (kindStr d.kind)),
    ("name", Json.str d.name), ("tparams", Json.arr (d.tparams.map Json.str).toArray),
    ("ext", Json.arr (d.ext.map refToJson).toArray),
    ("members", Json.arr (d.members.map fun m =>
        Json.arr #[Json.str m.name, texprToJson m.ty, Json.bool m.optional]).toArray),
    ("rhs", match d.rhs with | some t => texprToJson t | none => Json.null)]

def valToJson : AttrVal → Json
  | .null => Json.arr #["null"]
  | .bool b => Json.arr #["bool", Json.bool b]
  | .int n => Json.arr #["int", Json.str (toString n)]
  | .float t => Json.arr #["float", Json.str t]
  | .str s => Json.arr #["str", Json.str s]
  | .unsupported t => Json.arr #["unsupported", Json.str t]

def callToJson : CallArg → Json
  | .arg => Json.str "arg"
  | .null => Json.str "null"
  | .options => Json.str "options"
  | .attr v => Json.arr #["attr", valToJson v]

def fnToJson (f : FnDecl) : Json :=
  Json.mkObj [("name", Json.str f.name), ("params", Json.arr (f.params.map Json.str).toArray),
    ("arg", match f.argTy with | some t => texprToJson t | none => Json.null),
    ("result", texprToJson f.resultTy), ("error", texprToJson f.errorTy), ("url", Json.str f.url),
    ("call", Json.arr (f.call.map callToJson).toArray)]

def exceptJson {α : Type} (f : α → Json) : Except String α → Json
  | .ok a => Json.mkObj [("ok", f a)]
  | .error e => Json.mkObj [("error", Json.str e)]

def runJob (api : Api) (j : Json) : Except String Json := do
  match ← jstr j "job" with
  | "fmt" =>
    let mapper ← jstr j "mapper"
    let inside : Option String := (jopt j "inside").bind (fun v => v.getStr?.toOption)
    let tys ← (← jarr j "types").toList.mapM tyOf
    let f : IrTy → String ← match mapper with
      | "js" => pure (fun t => renderJs (jsFmtType api t))
      | "js_name" => pure (fun t => renderJs (jsTypeName api t))
      | "tsd" => pure (fun t => renderTs (tsdFmt api inside true t))
      | "tsd_name" => pure (fun t => renderTs (tsdFmt api inside false t))
      | m => throw s!"unknown mapper {m}"
    pure (Json.arr ((tys.map fun t => Json.str (f t)).toArray))
  | "decls" =>
    let opts ← optsOf (← jobj j "opts")
    match ← jstr j "backend" with
    | "js_types" => pure (exceptJson (fun ds => Json.arr (ds.map declToJson).toArray) (jsTypes opts api))
    | "js_client" => pure (exceptJson (fun fs => Json.arr (fs.map fnToJson).toArray) (jsClient opts api))
    | "tsd_types" =>
      pure (exceptJson (fun (o : TypesOut) => Json.mkObj [
        ("decls", Json.arr (o.decls.map declToJson).toArray),
        ("imports", Json.arr (o.imports.map fun p => Json.arr #[Json.str p.1, Json.str p.2]).toArray)])
        (tsdTypes opts api))
    | "tsd_client" =>
      pure (exceptJson (fun (o : ClientOut) => Json.mkObj [
        ("imports", Json.arr (o.imports.map Json.str).toArray),
        ("methods", Json.arr (o.methods.map fnToJson).toArray)]) (tsdClient opts api))
    | b => throw s!"unknown backend {b}"
  | "wf" =>
    let opts ← optsOf (← jobj j "opts")
    pure (Json.mkObj [
      ("wf", Json.bool (apiWF api)),
      ("tsd_inj", Json.bool (api.namespaces.all fun n => decide (tsdNames opts api n).Nodup)),
      ("js_inj", Json.bool (decide (jsNamesList api).Nodup)),
      ("route_inj", Json.bool (decide (routeNamesList api).Nodup))])
  | k => throw s!"unknown job {k}"

def handle (op : String) (j : Json) : Except String Json := do
  match op with
  | "decl.js.names" =>
    let items ← jarr j "items"
    let out ← items.toList.mapM fun it => do
      match ← arrOf it with
      | [n, v] =>
        let name ← n.getStr?
        let ver ← v.getNat?
        pure (Json.arr #[Json.str (fmtCamel name), Json.str (fmtPascal name), Json.str (fmtFunc name ver)])
      | _ => throw "bad item"
    pure (ok [("out", Json.arr out.toArray)])
  | "decl.js.run" =>
    let api ← apiOf (← jobj j "api")
    let jobs ← jarr j "jobs"
    let out ← jobs.toList.mapM (runJob api)
    pure (ok [("out", Json.arr out.toArray)])
  | _ => throw s!"unknown op {op}"

end Driver.DeclJs
