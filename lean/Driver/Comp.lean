import Driver.Util
/-!
`comp.*` ops: the compile model (Model/FeCompile.lean) run on concrete spec ASTs. Stub until the model lands.
-/
open Lean

namespace Driver.Comp

def handle (op : String) (_j : Json) : Except String Json :=
  throw s!"unknown op {op}"

end Driver.Comp
