import Driver.Util
import Driver.FeRules
import Driver.IrCheck
import StoneVerif.Model.FeCompile
import StoneVerif.Model.FeAttrVal
/-!
`comp.*` ops: the compile model (Model/FeCompile.lean) run on concrete spec ASTs.

`comp.compile` request `{"op":"comp.compile","files":[{"ns":n,"decls":[D,..]},..],"rx":[[pattern,bool],..]}`
  `D` = `{"k":"struct","name":s,"extends":R|null,"fields":[F,..],"subtypes":null|{"tags":[[tag,R],..],"catch_all":b}}`
      | `{"k":"union","name":s,"closed":b,"extends":R|null,"fields":[F,..]}`
      | `{"k":"alias","name":s,"ref":R}`
      | `{"k":"route","name":s,"version":int,"arg":R,"result":R,"error":R|null,"deprecated":null|{"by":null|[name,version]},
         "attrs":[[name,V],..]}` with `V` = `["n"]` | `["b",bool]` | `["i","<dec>"]` | `["f","<bits, dec>"]` | `["s",str]` | `["T",tag]`
      | `{"k":"patch","name":s,"struct":b,"closed":b,"fields":[F,..]}`
      | `{"k":"import","target":s}` | `{"k":"annot","name":s,"kind":"deprecated"|"omitted"|"preview"|"redacted"|"custom"}`
      | `{"k":"annot_type","name":s}` | `{"k":"alias_annots","name":s,"annots":[[ns|null,name],..]}`
  `F` = `{"name":s,"ty":R|null,"has_default":b,"annots":[[ns|null,name],..]}`
  `R` = `{"ns":s|null,"name":s,"pos":[A,..],"kw":[[key,L],..],"nullable":b}`; `A` = `L` | `{"ref":R}`;
  `L` = literal in the encoding of `fe.params` (`{"int":"<dec>"}`, `{"float":..}`, `{"str":s}`, `{"bool":b}`, `{"null":true}`)
  reply `{"out":"ok","api":..,"closed":b}` | `{"out":"error","kind":k}`;
  optional `"ext"` / `"cext"`: the tables of external calls for the values of route attributes (format of `decl.ircheck.*`);
  with `"denote":true` also `"denote":"equal"|"differs"|"none"` (the specification-level image compared).
`comp.hyps` request as `comp.compile`; reply: the decidable facts the theorems speak about, evaluated.
-/
open Lean
open StoneVerif StoneVerif.FeCompile
open StoneVerif.FeParams (Arg)

namespace Driver.Comp

def avalOfJson (j : Json) : Except String AVal := do
  match j with
  | .arr #[.str "n"] => pure .null
  | .arr #[.str "b", .bool b] => pure (.bool b)
  | .arr #[.str "i", .str n] => pure (.int (← Driver.FeRules.parseInt n))
  | .arr #[.str "f", .str n] => pure (.flt (← Driver.FeRules.parseInt n).toNat)
  | .arr #[.str "s", .str s] => pure (.str s)
  | .arr #[.str "T", .str t] => pure (.tag t)
  | _ => throw "bad attribute value"

def litOfJson (j : Json) : Except String Arg := do
  if let some v := jopt j "int" then
    return .int (← Driver.FeRules.parseInt (← v.getStr?))
  if let some v := jopt j "float" then
    match v with
    | .str "inf" => return .float .pinf
    | .str "-inf" => return .float .ninf
    | .arr #[n, d] =>
      let n ← Driver.FeRules.parseInt (← n.getStr?)
      let d ← Driver.FeRules.parseInt (← d.getStr?)
      return .float (.fin n d.toNat)
    | _ => throw "bad float"
  if let some v := jopt j "str" then
    return .str (← v.getStr?)
  if let some v := jopt j "bool" then
    return .bool (← v.getBool?)
  if let some _ := jopt j "null" then
    return .null
  throw "literal expected (reference outside the modelled subset)"

partial def refOfJson (j : Json) : Except String TRef := do
  let ns ← match jopt j "ns" with
    | some v => pure (some (← v.getStr?))
    | none => pure none
  let name ← jstr j "name"
  let nullable ← jbool j "nullable"
  let kw ← (← pairList j "kw").mapM fun (k, v) => do pure (k, ← litOfJson v)
  let h : RefHead := { ns, name, kw, nullable }
  let pos := (← jarr j "pos").toList
  let isRef (a : Json) : Bool := (jopt a "ref").isSome
  match pos with
  | [a] =>
    if isRef a then return .app1 h (← refOfJson (← jobj a "ref"))
    else return .leaf h [← litOfJson a]
  | [a, b] =>
    if isRef a && isRef b then return .app2 h (← refOfJson (← jobj a "ref")) (← refOfJson (← jobj b "ref"))
    else if !isRef a && !isRef b then return .leaf h [← litOfJson a, ← litOfJson b]
    else throw "mixed positional arguments are outside the modelled subset"
  | _ =>
    if pos.any isRef then throw "three or more positional arguments with a type are outside the modelled subset"
    else return .leaf h (← pos.mapM litOfJson)

def optRef (j : Json) (k : String) : Except String (Option TRef) :=
  match jopt j k with
  | some v => do pure (some (← refOfJson v))
  | none => pure none

def arefOfJson (j : Json) : Except String ARef := do
  match j with
  | .arr #[n, a] =>
    let ns ← match n with
      | .null => pure none
      | v => do pure (some (← v.getStr?))
    pure { ns, name := ← a.getStr? }
  | _ => throw "annotation reference [ns|null, name] expected"

def annotsOf (j : Json) (k : String) : Except String (List ARef) :=
  match jopt j k with
  | some v => do (← v.getArr?).toList.mapM arefOfJson
  | none => pure []

def annotKindOf (s : String) : Except String AnnotKind :=
  match s with
  | "deprecated" => pure .deprecated
  | "omitted" => pure .omitted
  | "preview" => pure .preview
  | "redacted" => pure .redacted
  | "custom" => pure .custom
  | _ => throw s!"unknown annotation kind {s}"

def fieldOfJson (j : Json) : Except String AField := do
  pure { name := ← jstr j "name", ty := ← optRef j "ty", hasDefault := ← jbool j "has_default",
         annots := ← annotsOf j "annots" }

def declOfJson (j : Json) : Except String Decl := do
  let k ← jstr j "k"
  match k with
  | "struct" =>
    let subtypes ← match jopt j "subtypes" with
      | none => pure none
      | some s => do
        let tags ← (← pairList s "tags").mapM fun (t, r) => do pure (t, ← refOfJson r)
        pure (some (tags, ← jbool s "catch_all"))
    let fields ← (← jarr j "fields").toList.mapM fieldOfJson
    pure (.type { name := ← jstr j "name", kind := .struct, «extends» := ← optRef j "extends", fields, subtypes })
  | "union" =>
    let fields ← (← jarr j "fields").toList.mapM fieldOfJson
    pure (.type { name := ← jstr j "name", kind := .union (← jbool j "closed"), «extends» := ← optRef j "extends", fields })
  | "alias" => pure (.alias (← jstr j "name") (← refOfJson (← jobj j "ref")))
  | "route" =>
    let deprecated ← match jopt j "deprecated" with
      | none => pure none
      | some d => match jopt d "by" with
        | none => pure (some none)
        | some (.arr #[n, v]) => do pure (some (some (← n.getStr?, ← v.getInt?)))
        | some _ => throw "bad deprecated"
    let attrs ← match jopt j "attrs" with
      | none => pure []
      | some a => (← a.getArr?).toList.mapM fun p => do
        match p with
        | .arr #[n, v] => pure ((← n.getStr?), (← avalOfJson v))
        | _ => throw "attr pair expected"
    pure (.route { name := ← jstr j "name", version := ← jint j "version", arg := ← refOfJson (← jobj j "arg"),
                   result := ← refOfJson (← jobj j "result"), error := ← optRef j "error", deprecated, attrs })
  | "patch" =>
    let fields ← (← jarr j "fields").toList.mapM fieldOfJson
    let isStruct ← jbool j "struct"
    let closed ← jbool j "closed"
    let kind : TypeKind := if isStruct then .struct else .union closed
    pure (.patch { name := ← jstr j "name", kind, fields })
  | "import" => pure (.imp (← jstr j "target"))
  | "annot" => pure (.annot (← jstr j "name") (← annotKindOf (← jstr j "kind")))
  | "alias_annots" => pure (.aliasAnnots (← jstr j "name") (← annotsOf j "annots"))
  | "annot_type" => pure (.annotType (← jstr j "name"))
  | _ => throw s!"unknown declaration kind {k}"

def fileOfJson (j : Json) : Except String File := do
  pure { ns := ← jstr j "ns", decls := ← (← jarr j "decls").toList.mapM declOfJson }

def keyJ (k : Key) : Json := Json.arr #[k.1, k.2]

def tyToJson : Ty → Json
  | .prim v => Driver.FeRules.tyToJson v []
  | .list e mn mx => Json.mkObj [("k", "List"), ("elem", tyToJson e), ("min", Driver.FeRules.optJ Driver.FeRules.intJ mn),
                                 ("max", Driver.FeRules.optJ Driver.FeRules.intJ mx)]
  | .map k v => Json.mkObj [("k", "Map"), ("key", tyToJson k), ("val", tyToJson v)]
  | .nullable t => Json.mkObj [("k", "Nullable"), ("of", tyToJson t)]
  | .user k => Json.mkObj [("k", "user"), ("ref", keyJ k)]
  | .alias k => Json.mkObj [("k", "alias"), ("ref", keyJ k)]

def optKeyJ : Option Key → Json
  | some k => keyJ k
  | none => Json.null

def ctypeToJson (c : CType) : Json :=
  Json.mkObj [("struct", c.isStruct), ("closed", c.closed), ("parent", optKeyJ c.parent), ("catch_all", c.catchAll),
    ("fields", Json.arr (c.fields.map fun f => Json.arr #[f.name, tyToJson f.ty, f.hasDefault]).toArray)]

def deprecatedJ : Option (Option (String × Int)) → Json
  | none => Json.null
  | some none => Json.mkObj [("by", Json.null)]
  | some (some (n, v)) => Json.mkObj [("by", Json.arr #[n, Json.num (JsonNumber.fromInt v)])]

def routeToJson (r : CRoute) : Json :=
  Json.mkObj [("name", r.name), ("version", Json.num (JsonNumber.fromInt r.version)), ("arg", tyToJson r.arg),
    ("result", tyToJson r.result), ("error", tyToJson r.error), ("deprecated", deprecatedJ r.deprecated)]

def nsToJson (n : NsOut) : Json :=
  Json.mkObj [("name", n.name),
    ("types", Json.arr (n.types.map fun p => Json.arr #[p.1, ctypeToJson p.2]).toArray),
    ("aliases", Json.arr (n.aliases.map fun p => Json.arr #[p.1, tyToJson p.2]).toArray),
    ("routes", Json.arr (n.routes.map routeToJson).toArray),
    ("enums", Json.arr (n.enums.map fun p => Json.arr #[p.1, Json.mkObj [
        ("tags", Json.arr (p.2.1.map fun q => Json.arr #[q.1, keyJ q.2]).toArray), ("catch_all", p.2.2)]]).toArray)]

def apiToJson (a : Api) : Json := Json.mkObj [("nss", Json.arr (a.nss.map nsToJson).toArray)]

def errName (e : Err) : String :=
  match e with
  | .params r => "params." ++ Driver.FeRules.reasonStr r
  | .crash x => "crash." ++ Driver.FeRules.excStr x
  | e => ((reprStr e).replace "StoneVerif.FeCompile.Err." "").trimAscii.toString

/-- the value test of route attributes: C10's checker with the external calls answered from the tables of the request
(`"ext"`: `fltOfInt`, `pat`; `"cext"`: `intExact`, `strptimeOk`, as for `decl.ircheck.*`); `alt` = the answer to a
call the tables do not have -/
def vcOf (j : Json) (alt : Bool) : Except String ValCk := do
  let (ext, cext) ← Driver.IrCheck.tablesOf j
  pure (attrVal (Driver.Rt.mkExt ext alt) (Driver.IrCheck.mkCExt cext alt))

/-- evaluate under both miss policies: a difference means a table of external calls was incomplete -/
def bothVc (j : Json) (f : ValCk → Except String Json) : Except String Json := do
  let a ← f (← vcOf j false)
  let b ← f (← vcOf j true)
  if a.compress == b.compress then pure a
  else pure (Json.mkObj [("protocol_error", "ext-miss"), ("a", a), ("b", b)])

def parseReq (j : Json) : Except String ((String → Bool) × List File) := do
  let rxPairs ← match jopt j "rx" with
    | none => pure []
    | some v => (← v.getArr?).toList.mapM fun p => do
      match p with
      | .arr #[a, b] => pure ((← a.getStr?), (← b.getBool?))
      | _ => throw "rx pair expected"
  let rx : String → Bool := fun s => (rxPairs.lookup s).getD true
  let files ← (← jarr j "files").toList.mapM fileOfJson
  pure (rx, files)

def handleCompile (j : Json) : Except String Json := bothVc j fun vc => do
  let (rx, files) ← parseReq j
  let wantDenote := match jopt j "denote" with
    | some (.bool true) => true
    | _ => false
  match compileFull rx vc files with
  | .ok api =>
    let den : List (String × Json) :=
      if wantDenote then
        [("denote", Json.str (match denote rx files with
          | none => "none"
          | some a => if a == api then "equal" else "differs"))]
      else []
    pure (ok ([("out", Json.str "ok"), ("api", apiToJson api), ("closed", Json.bool api.closed)] ++ den))
  | .error e => pure (ok [("out", Json.str "error"), ("kind", Json.str (errName e))])

/-- the first clause of `Legal` that fails, by name (for failure signatures only) -/
def typeWhy (rx : String → Bool) (fs : List File) (ns : String) (d : TypeDecl) : String :=
  if !extendsLegal rx fs ns d then "extends"
  else if !(match d.kind with
      | .struct => d.fields.all (structMemberLegal rx fs ns)
      | .union _ => d.fields.all (unionMemberLegal rx fs ns)) then "member"
  else match denoteType rx fs ns d with
    | none => "denote"
    | some c =>
      if dupName (c.fields.map (·.name)) then "member-twice"
      else if !(match ancestorNames (typeS rx fs) (fuelT fs) c.parent with
        | .ok anc => !(c.fields.any fun f => anc.contains f.name)
        | .error _ => false) then "member-of-ancestor"
      else if !(match d.kind with
        | .struct => c.fields.all fun f =>
            isOk (defaultLegal (fuelA fs) (aliasS rx fs) (fun k => isUnionKind (kindS fs k)) f)
        | .union _ => true) then "default"
      else if !enumLegal rx fs ns d c then "enumerated-subtypes"
      else "?"

def legalWhy (rx : String → Bool) (vc : ValCk) (fs0 : List File) : String :=
  let fs := mergeFiles fs0
  if !namesLegal fs then "names"
  else if !importsLegal fs then "imports"
  else if !patchesLegal fs0 then "patches"
  else match (allPairs fs).find? (fun p => !declLegal rx fs p.1 p.2) with
    | some (ns, .type d) => "type." ++ typeWhy rx fs ns d
    | some (_, .alias _ _) => "alias"
    | some (_, .route _) => "route"
    | some _ => "?"
    | none =>
      match (allPairs fs).findSome? (fun p =>
          match declAnnots (raS fs) (aliasS rx fs) (typeS rx fs) (aliasRedacted (raS fs) fs) (fuelA fs) p.1 p.2 with
          | .error e => some e
          | .ok _ => none) with
      | some e => "annotations." ++ errName e
      | none =>
        match checkRouteAttrsG vc (aliasS rx fs) (typeS rx fs) (fuelA fs) (fuelT fs) fs with
        | .error e => "route-attrs." ++ errName e
        | .ok _ => "?"

/-- the hypotheses of the theorems of Props/C02Compile.lean and Props/C01Compile.lean and their decidable conclusions,
evaluated on one input: `compileFull fs = .ok api`, `LegalFull fs`, namespace names without `/` -/
def handleHyps (j : Json) : Except String Json := bothVc j fun vc => do
  let (rx, files) ← parseReq j
  let legal := LegalFull rx vc files
  let common : List (String × Json) :=
    [("legal", Json.bool legal), ("ns_lexical", Json.bool (nsLexical files))] ++
      (if legal then [] else [("why", Json.str (legalWhy rx vc files))])
  match compileFull rx vc files with
  | .ok api =>
    pure (ok ([("compile_ok", Json.bool true), ("closed", Json.bool api.closed),
              ("denote_equal", Json.bool (denote rx files == some api))] ++ common))
  | .error e => pure (ok ([("compile_ok", Json.bool false), ("kind", Json.str (errName e))] ++ common))

def handle (op : String) (j : Json) : Except String Json :=
  match op with
  | "comp.compile" => handleCompile j
  | "comp.hyps" => handleHyps j
  | _ => throw s!"unknown op {op}"

end Driver.Comp
