import Driver.Util
import StoneVerif.Model.DeclPyClient
/-! Protocol handlers of the `decl.pyclient.*` ops (C14).

Encodings
* type   `["p", name] | ["void"] | ["nullable", t] | ["list", t] | ["map", k, v] | ["alias", ns, name, t] |
          ["struct", ns, name] | ["union", ns, name]`
* lit    `["b", bool] | ["i", "<decimal>"] | ["f", "<bits>"] | ["s", text] | ["t", type, tag]` (type = the `union_data_type` of the
          `TagRef`: the union or an alias of it)
* val    `["none"] | ["lit", lit] | ["tagobj", union ns, union name, attribute] | ["tok", n]`
* api    `{"namespaces": [{"name", "dataTypes": [name], "aliases": [[name, type]], "routes": [{"name", "version", "arg", "result",
          "deprecated": null | {"by": null | [name, version]}, "style": null | text}]}],
          "structs": [{"ns", "name", "parent": null | [ns, name], "fields": [{"name", "ty", "dflt": null | lit}]}]}`
-/
open Lean
namespace Driver.DeclPyClient
open StoneVerif StoneVerif.DeclPyClient

abbrev PName := StoneVerif.DeclPyClient.Name

def s2l (s : String) : List Char := s.toList
def l2s (l : List Char) : String := String.ofList l
def jn (n : PName) : Json := Json.str (l2s n)

def arrOf (j : Json) : Except String (List Json) := do pure (← j.getArr?).toList
def strOf (j : Json) : Except String PName := do pure (s2l (← j.getStr?))

partial def tyOfJson (j : Json) : Except String Ty := do
  match ← arrOf j with
  | [k, a] =>
    match ← k.getStr? with
    | "p" => pure (.prim (← strOf a))
    | "nullable" => pure (.nullable (← tyOfJson a))
    | "list" => pure (.list (← tyOfJson a))
    | s => throw s!"bad type tag {s}"
  | [k] =>
    match ← k.getStr? with
    | "void" => pure .void
    | s => throw s!"bad type tag {s}"
  | [k, a, b] =>
    match ← k.getStr? with
    | "map" => pure (.map (← tyOfJson a) (← tyOfJson b))
    | "struct" => pure (.struct (← strOf a) (← strOf b))
    | "union" => pure (.union (← strOf a) (← strOf b))
    | s => throw s!"bad type tag {s}"
  | [k, a, b, c] =>
    match ← k.getStr? with
    | "alias" => pure (.alias (← strOf a) (← strOf b) (← tyOfJson c))
    | s => throw s!"bad type tag {s}"
  | _ => throw "bad type"

def intOfStr (s : String) : Except String Int :=
  match s.toInt? with
  | some n => pure n
  | none => throw s!"bad integer {s}"

def natOfStr (s : String) : Except String Nat :=
  match s.toNat? with
  | some n => pure n
  | none => throw s!"bad natural {s}"

def litOfJson (j : Json) : Except String Lit := do
  match ← arrOf j with
  | [k, a] =>
    match ← k.getStr? with
    | "b" => pure (.bool (← a.getBool?))
    | "i" => pure (.int (← intOfStr (← a.getStr?)))
    | "f" => pure (.float (← natOfStr (← a.getStr?)))
    | "s" => pure (.str (← strOf a))
    | s => throw s!"bad literal tag {s}"
  | [k, a, b] =>
    match ← k.getStr? with
    | "t" => pure (.tag (← tyOfJson a) (← strOf b))
    | s => throw s!"bad literal tag {s}"
  | _ => throw "bad literal"

def tyToJson : Ty → Json
  | .prim n => Json.arr #["p", jn n]
  | .void => Json.arr #["void"]
  | .nullable t => Json.arr #["nullable", tyToJson t]
  | .list t => Json.arr #["list", tyToJson t]
  | .map k v => Json.arr #["map", tyToJson k, tyToJson v]
  | .alias a b t => Json.arr #["alias", jn a, jn b, tyToJson t]
  | .struct a b => Json.arr #["struct", jn a, jn b]
  | .union a b => Json.arr #["union", jn a, jn b]

def litToJson : Lit → Json
  | .bool b => Json.arr #["b", Json.bool b]
  | .int i => Json.arr #["i", Json.str (toString i)]
  | .float n => Json.arr #["f", Json.str (toString n)]
  | .str s => Json.arr #["s", jn s]
  | .tag u t => Json.arr #["t", tyToJson u, jn t]

def valOfJson (j : Json) : Except String Val := do
  match ← arrOf j with
  | [k] =>
    match ← k.getStr? with
    | "none" => pure .none
    | s => throw s!"bad value tag {s}"
  | [k, a] =>
    match ← k.getStr? with
    | "lit" => pure (.lit (← litOfJson a))
    | "tok" => pure (.tok (← a.getNat?))
    | s => throw s!"bad value tag {s}"
  | [k, a, b, c] =>
    match ← k.getStr? with
    | "tagobj" => pure (.tagObj (← strOf a, ← strOf b) (← strOf c))
    | s => throw s!"bad value tag {s}"
  | _ => throw "bad value"

def valToJson : Val → Json
  | .none => Json.arr #["none"]
  | .lit l => Json.arr #["lit", litToJson l]
  | .tagObj r c => Json.arr #["tagobj", jn r.1, jn r.2, jn c]
  | .tok n => Json.arr #["tok", Json.num n]

def dfltToJson : Dflt → Json
  | .pyNone => Json.arr #["none"]
  | .lit l => Json.arr #["lit", litToJson l]
  | .tagAttr a b c => Json.arr #["tagattr", jn a, jn b, jn c]

def refOfJson (j : Json) : Except String Ref := do
  match ← arrOf j with
  | [a, b] => pure (← strOf a, ← strOf b)
  | _ => throw "bad ref"

def fieldOfJson (j : Json) : Except String Field := do
  let dflt ← match jopt j "dflt" with
    | some d => do pure (some (← litOfJson d))
    | none => pure none
  pure { name := s2l (← jstr j "name"), ty := ← tyOfJson (← jobj j "ty"), dflt }

def structOfJson (j : Json) : Except String StructDef := do
  let parent ← match jopt j "parent" with
    | some p => do pure (some (← refOfJson p))
    | none => pure none
  let fields ← (← jarr j "fields").toList.mapM fieldOfJson
  pure { ref := (s2l (← jstr j "ns"), s2l (← jstr j "name")), parent, fields }

def routeOfJson (j : Json) : Except String Route := do
  let deprecated ← match jopt j "deprecated" with
    | none => pure none
    | some d =>
      match jopt d "by" with
      | none => pure (some none)
      | some b => do
        match ← arrOf b with
        | [n, v] => pure (some (some (← strOf n, ← v.getNat?)))
        | _ => throw "bad deprecated.by"
  let style ← match jopt j "style" with
    | some s => do pure (some (← strOf s))
    | none => pure none
  pure { name := s2l (← jstr j "name"), version := ← jnat j "version", arg := ← tyOfJson (← jobj j "arg"),
         result := ← tyOfJson (← jobj j "result"), deprecated, style }

def nsOfJson (j : Json) : Except String Namespace := do
  let routes ← (← jarr j "routes").toList.mapM routeOfJson
  let dataTypes ← (← jarr j "dataTypes").toList.mapM strOf
  let aliases ← (← jarr j "aliases").toList.mapM fun p => do
    match ← arrOf p with
    | [n, t] => pure (← strOf n, ← tyOfJson t)
    | _ => throw "bad alias"
  pure { name := s2l (← jstr j "name"), dataTypes, aliases, routes }

def apiOfJson (j : Json) : Except String Api := do
  let namespaces ← (← jarr j "namespaces").toList.mapM nsOfJson
  let structs ← (← jarr j "structs").toList.mapM structOfJson
  pure { namespaces, structs }

def pyErrToJson : PyErr → Json
  | .syntaxError m w => Json.arr #["syntaxError", jn m, jn w]
  | .nameError n => Json.arr #["nameError", jn n]
  | .attributeError n => Json.arr #["attributeError", jn n]
  | .shadowed n => Json.arr #["shadowed", jn n]
  | .typeError => Json.arr #["typeError"]

def genErrToJson : GenErr → Json
  | .nameConflict ns => Json.arr #["nameConflict", jn ns]
  | .unhandledArgType ns r => Json.arr #["unhandledArgType", jn ns, jn r]
  | .defaultWithoutNamespace f => Json.arr #["defaultWithoutNamespace", jn f]
  | .defaultNotUserDefined f => Json.arr #["defaultNotUserDefined", jn f]

def argBuildToJson : ArgBuild → Json
  | .void => Json.arr #["void"]
  | .union => Json.arr #["union"]
  | .ctor m c ty args => Json.arr #["ctor", jn m, jn c, Json.arr (args.map jn).toArray, Json.arr #[jn ty.1, jn ty.2]]

def methodToJson (api : Api) (cm : ClientModule) (m : Method) : Json :=
  Json.mkObj [
    ("name", jn m.name),
    ("params", Json.arr (m.params.map fun p =>
      Json.arr #[jn p.name, match p.dflt with | some d => dfltToJson d | none => Json.null]).toArray),
    ("deprecated", Json.bool m.deprecated),
    ("successor", match m.successor with | some s => jn s | none => Json.null),
    ("arg", argBuildToJson m.argBuild),
    ("route", Json.arr #[jn m.routeMod, jn m.routeVar]),
    ("ns", jn m.nsLit),
    ("passBody", Json.bool m.passBody),
    ("toFile", Json.bool m.toFile),
    ("resultVoid", Json.bool m.resultVoid),
    ("routeNs", jn m.routeNs), ("routeName", jn m.routeName), ("version", Json.num m.version),
    ("loadErr", match loadMethod api cm m with | .error e => pyErrToJson e | .ok _ => Json.null),
    ("bparams", match loadMethod api cm m with
      | .error _ => Json.null
      | .ok ps => Json.arr (ps.map fun p =>
          Json.arr #[jn p.1, match p.2 with | some v => valToJson v | none => Json.null]).toArray),
    ("hygienic", Json.bool (hygienic cm m))]

def argObjToJson : ArgObj → Json
  | .none => Json.arr #["none"]
  | .value v => Json.arr #["value", valToJson v]
  | .struct m c fs => Json.arr #["struct", jn m, jn c, Json.arr (fs.map fun (n, v) => Json.arr #[jn n, valToJson v]).toArray]

def requestToJson (r : Request) : Json :=
  Json.mkObj [("route", Json.arr #[jn r.route.1, jn r.route.2]), ("ns", jn r.ns), ("arg", argObjToJson r.arg),
              ("body", match r.body with | some v => valToJson v | none => Json.null)]

def outcomeToJson (o : Outcome) : Json :=
  Json.mkObj [("requests", Json.arr (o.requests.map requestToJson).toArray), ("warned", Json.bool o.warned),
              ("saved", match o.saved with | some v => valToJson v | none => Json.null),
              ("ret", match o.ret with | .none => "none" | .result => "result" | .resultFst => "resultFst")]

def callOfJson (j : Json) : Except String (PName × Call) := do
  let pos ← (← jarr j "pos").toList.mapM valOfJson
  let kw ← (← jarr j "kw").toList.mapM fun p => do
    match ← arrOf p with
    | [k, v] => pure (← strOf k, ← valOfJson v)
    | _ => throw "bad keyword argument"
  pure (s2l (← jstr j "method"), { pos, kw })

def handle (op : String) (j : Json) : Except String Json := do
  match op with
  | "decl.pyclient.fmt" =>
    let names ← strList j "names"
    let version ← jnat j "version"
    pure (ok [("out", Json.arr (names.map fun n =>
      let n := s2l n
      Json.arr #[jn (fmtUnderscores n), jn (fmtPascal n), jn (fmtFunc n version), jn (fmtNamespace n), jn (fmtVarR n),
                 Json.arr ((splitWords n).map jn).toArray]).toArray)])
  | "decl.pyclient.keywords" =>
    pure (ok [("python", Json.arr (pyKeywords.map jn).toArray), ("reserved", Json.arr (reservedKeywords.map jn).toArray)])
  | "decl.pyclient.module" =>
    let api ← apiOfJson (← jobj j "api")
    match pyClient api with
    | .error e => pure (ok [("gen_error", genErrToJson e)])
    | .ok cm =>
      let ctors := api.structs.map fun s =>
        Json.arr #[jn s.ref.1, jn s.ref.2, Json.arr ((structCtorParams api s.ref).map jn).toArray,
                   Json.bool (noNullableAlias api s.ref), Json.bool (defaultsWellTyped api s.ref)]
      pure (ok [("imports", Json.arr (cm.imports.map jn).toArray), ("importsWarnings", Json.bool cm.importsWarnings),
                ("methods", Json.arr (cm.methods.map (methodToJson api cm)).toArray),
                ("load", match loadModule api cm with | .ok _ => Json.null | .error e => pyErrToJson e),
                ("nsPrefixFree", Json.bool (nsPrefixFree api)),
                ("ctors", Json.arr ctors.toArray)])
  | "decl.pyclient.calls" =>
    let api ← apiOfJson (← jobj j "api")
    match pyClient api with
    | .error e => pure (ok [("gen_error", genErrToJson e)])
    | .ok cm =>
      let calls ← (← jarr j "calls").toList.mapM callOfJson
      let outs := calls.map fun (name, c) =>
        match classAttr cm name with
        | none => Json.mkObj [("err", Json.arr #["noSuchMethod"])]
        | some m =>
          match callMethod api cm m c with
          | .ok o => Json.mkObj [("ok", outcomeToJson o)]
          | .error e => Json.mkObj [("err", pyErrToJson e)]
      pure (ok [("out", Json.arr outs.toArray)])
  | _ => throw s!"unknown op {op}"

end Driver.DeclPyClient
