import Driver.Util
import Driver.Rt
import StoneVerif.Model.Rt.Compat
import StoneVerif.Model.Rt.SpecC06
/-!
Protocol handler of the `decl.compat.*` ops (C07).  Stateless: every request carries both environments, the class
correspondence and the external-call tables, plus a list of cases evaluated against them.

  {"op": "decl.compat.batch", "envA": <env>, "envB": <env>, "rho": [[a, b] ...], "ext": <tables>,
   "cases": [ {"k": "sub", "tyA": <irty>, "tyB": <irty>}
            | {"k": "view", "tyA": <irty>, "v": <pyval>}
            | {"k": "lift", "tyB": <irty>, "v": <pyval>}
            | {"k": "mentions", "tyA": .., "tyB": .., "v": ..}
            | {"k": "nvr", "tyA": .., "v": ..}
            | {"k": "known", "tyA": .., "doc": <json>}
            | {"k": "nvrdoc", "tyA": .., "doc": <json>}
            | {"k": "tight", "side": "A"|"B", "ty": .., "doc": <json>}
            | {"k": "dec", "side": "A"|"B", "ty": .., "doc": .., "strict": bool}
            | {"k": "wire", "side": "A"|"B", "ty": .., "v": ..}          (also: valid / normal / valWF / ambiguousEmpty / tyWF)
            | {"k": "thmfwd", "tyA": .., "tyB": .., "v": ..}          hypotheses + right-hand side of C07.forward_compat
            | {"k": "thmbwd", "tyA": .., "tyB": .., "v": ..}          hypotheses + right-hand side of C07.backward_compat
            | {"k": "eq", "side": "A"|"B", "a": <pyval>, "b": <pyval>} ]}
-/
open Lean
namespace Driver.RtCompat
open StoneVerif.Rt StoneVerif.Rt.Compat Driver.Rt

def rhoOf (j : Json) : P Rho := do
  (← arrOf j).mapM fun p => do
    match ← arrOf p with
    | [a, b] => pure (← strOf a, ← strOf b)
    | _ => throw "rho pair"

def sideEnv (A B : Env) (j : Json) : P Env := do
  match ← jstr j "side" with
  | "A" => pure A
  | "B" => pure B
  | s => throw s!"side {s}"

def runCase (st : State) (ρ : Rho) (A B : Env) (c : Json) : P Json := do
  match ← jstr c "k" with
  | "sub" =>
    let tA ← tyOf (← jobj c "tyA")
    let tB ← tyOf (← jobj c "tyB")
    pure (Json.mkObj [("ok", tySub ρ tA tB)])
  | "view" =>
    let tA ← tyOf (← jobj c "tyA")
    let v ← pyValOf (← jobj c "v")
    pure (Json.mkObj [("ok", pyValTo (view ρ A tA v))])
  | "lift" =>
    let tB ← tyOf (← jobj c "tyB")
    let v ← pyValOf (← jobj c "v")
    pure (Json.mkObj [("ok", pyValTo (lift ρ B tB v))])
  | "mentions" =>
    let tA ← tyOf (← jobj c "tyA")
    let tB ← tyOf (← jobj c "tyB")
    let v ← pyValOf (← jobj c "v")
    pure (Json.mkObj [("ok", mentionsUnknown ρ A B tA tB v)])
  | "nvr" =>
    let tA ← tyOf (← jobj c "tyA")
    let v ← pyValOf (← jobj c "v")
    pure (Json.mkObj [("ok", noVoidToRequired ρ A B tA v)])
  | "known" =>
    let tA ← tyOf (← jobj c "tyA")
    let d ← jsonOf (← jobj c "doc")
    pure (Json.mkObj [("ok", knownDoc A tA d)])
  | "nvrdoc" =>
    let tA ← tyOf (← jobj c "tyA")
    let d ← jsonOf (← jobj c "doc")
    pure (Json.mkObj [("ok", nvrDoc ρ A B tA d)])
  | "tight" =>
    let env ← sideEnv A B c
    let t ← tyOf (← jobj c "ty")
    let d ← jsonOf (← jobj c "doc")
    pure (Json.mkObj [("ok", tightDoc env t d)])
  | "dec" =>
    let env ← sideEnv A B c
    let t ← tyOf (← jobj c "ty")
    let d ← jsonOf (← jobj c "doc")
    let strict ← jbool c "strict"
    pure (both st fun E => resTo pyValTo (jsonCompatObjDecode E env [] strict t d))
  | "wire" =>
    let env ← sideEnv A B c
    let t ← tyOf (← jobj c "ty")
    let v ← pyValOf (← jobj c "v")
    pure (both st fun E => Json.mkObj [("ok", jsonTo (wire E env t v)), ("valid", validB E env t v),
      ("normal", normalB env t v), ("valWF", RoundTrip.valWF E env t v),
      ("ambiguousEmpty", RoundTrip.ambiguousEmpty env t v), ("tyWF", tyWF env t)])
  | "thmfwd" =>
    -- C07.forward_compat: the value-level hypotheses (sender B) and `view ρ A tA (canon B tB v)`
    let tA ← tyOf (← jobj c "tyA")
    let tB ← tyOf (← jobj c "tyB")
    let v ← pyValOf (← jobj c "v")
    pure (both st fun E => Json.mkObj [("tySub", tySub ρ tA tB), ("tyWF_A", tyWF A tA), ("tyWF_B", tyWF B tB),
      ("valid", validB E B tB v), ("normal", normalB B tB v), ("valWF", RoundTrip.valWF E B tB v),
      ("ambiguousEmpty", RoundTrip.ambiguousEmpty B tB v),
      ("rhs", pyValTo (view ρ A tA (RoundTrip.canon B tB v)))])
  | "thmbwd" =>
    -- C07.backward_compat: the value-level hypotheses (sender A) and `lift ρ B tB (canon A tA v)`
    let tA ← tyOf (← jobj c "tyA")
    let tB ← tyOf (← jobj c "tyB")
    let v ← pyValOf (← jobj c "v")
    pure (both st fun E => Json.mkObj [("tySub", tySub ρ tA tB), ("tyWF_A", tyWF A tA),
      ("valid", validB E A tA v), ("normal", normalB A tA v), ("valWF", RoundTrip.valWF E A tA v),
      ("ambiguousEmpty", RoundTrip.ambiguousEmpty A tA v), ("noVoidToRequired", noVoidToRequired ρ A B tA v),
      ("rhs", pyValTo (lift ρ B tB (RoundTrip.canon A tA v)))])
  | "eq" =>
    let env ← sideEnv A B c
    let a ← pyValOf (← jobj c "a")
    let b ← pyValOf (← jobj c "b")
    pure (both st fun E => Json.mkObj [("ok", pyEq E env a b)])
  | k => throw s!"unknown case kind {k}"

def handle (op : String) (j : Json) : Except String Json := do
  match op with
  | "decl.compat.batch" =>
    let A ← envOf (← jobj j "envA")
    let B ← envOf (← jobj j "envB")
    let ρ ← rhoOf (← jobj j "rho")
    let ext ← match jopt j "ext" with
      | some e => extTablesOf e
      | none => pure {}
    let st : State := { env := A, ext }
    let cases ← jarr j "cases"
    let out := cases.map fun c => match runCase st ρ A B c with
      | .ok r => r
      | .error e => Json.mkObj [("protocol_error", e)]
    pure (Json.mkObj [("ok", true), ("envWF_A", envWF A), ("envWF_B", envWF B), ("rhoWF", ρ.wf),
      ("envWFU_A", envWFU A), ("envWFU_B", envWFU B), ("envWFX_A", envWFX A), ("fieldFlagsWF_A", fieldFlagsWF A),
      ("compatEnv", compatEnv ρ A B),
      -- the environment-level domain conditions of the wire-form theorems (C04's round trip for the sender)
      ("envRT_A", RoundTrip.envRT A), ("envRT_B", RoundTrip.envRT B),
      ("dfltsRefl_A", RoundTrip.dfltsReflB (mkExt ext false) A && RoundTrip.dfltsReflB (mkExt ext true) A),
      ("dfltsRefl_B", RoundTrip.dfltsReflB (mkExt ext false) B && RoundTrip.dfltsReflB (mkExt ext true) B),
      ("badPairs", Json.arr ((ρ.filter fun p => !pairOk ρ A B p).map fun p => Json.arr #[Json.str p.1, Json.str p.2]).toArray),
      ("results", Json.arr out)])
  | _ => throw s!"unknown op {op}"

end Driver.RtCompat
