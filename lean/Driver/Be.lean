import Driver.Util
import StoneVerif.Model.Fmt
/-! Protocol handlers of the `be.*` suites (C18). -/
open Lean
namespace Driver.Be
open StoneVerif

def optStr : Option (List Char) → Json
  | some s => Json.str (String.ofList s)
  | none => Json.null

def handle (op : String) (j : Json) : Except String Json := do
  match op with
  | "be.escape" =>
    let s ← jstr j "text"
    pure <| ok [("out", Json.str (String.ofList (Fmt.escape s.toList)))]
  | "be.format" =>
    let buf ← jstr j "buf"
    let pos ← strList j "pos"
    let named ← pairList j "named"
    let named' ← named.mapM fun (k, v) => do pure (k.toList, (← v.getStr?).toList)
    pure <| ok [("out", optStr (Fmt.pyFormat named' (pos.map String.toList) buf.toList))]
  | _ => throw s!"unknown op {op}"

end Driver.Be
