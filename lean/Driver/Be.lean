import Driver.Util
import StoneVerif.Model.Fmt
import StoneVerif.Model.Path
import StoneVerif.Model.Wrap
import StoneVerif.Model.Emit
import StoneVerif.Model.Manifest
/-! Protocol handlers of the `be.*` suites (C18). -/
open Lean
namespace Driver.Be
open StoneVerif

/-- The harness splits the driver's output with `str.splitlines()`, which also breaks at U+0085, U+2028 and
U+2029 (Lean's JSON printer leaves them unescaped). Those three and the escape character itself are sent as
U+E000 followed by four hex digits; `harness/suites/be.py` undoes this. -/
def hex4 (n : Nat) : List Char :=
  let d (k : Nat) : Char := "0123456789abcdef".toList.getD k '0'
  [d (n / 4096 % 16), d (n / 256 % 16), d (n / 16 % 16), d (n % 16)]

def wireEscape : List Char → List Char
  | [] => []
  | c :: cs =>
    if c.toNat == 0x85 || c.toNat == 0x2028 || c.toNat == 0x2029 || c.toNat == 0xE000 then
      Char.ofNat 0xE000 :: hex4 c.toNat ++ wireEscape cs
    else c :: wireEscape cs

def jsStr (s : List Char) : Json := Json.str (String.ofList (wireEscape s))

def optStr : Option (List Char) → Json
  | some s => jsStr s
  | none => Json.null

def strOf (j : Json) : Except String (List Char) := do pure (← j.getStr?).toList

def optStrOf (j : Json) : Except String (Option (List Char)) :=
  match j with
  | .null => pure none
  | _ => do pure (some (← j.getStr?).toList)

def optIntOf (j : Json) : Except String (Option Int) :=
  match j with
  | .null => pure none
  | _ => do pure (some (← j.getInt?))

/-- emit scripts are sent as nested arrays: `[tag, args…]`, bodies as arrays of ops -/
partial def parseOp (j : Json) : Except String Emit.Op := do
  let a ← j.getArr?
  let tag ← (a[0]?.getD Json.null).getStr?
  let arg (i : Nat) : Json := a[i]?.getD Json.null
  let body (i : Nat) : Except String (List Emit.Op) := do
    let b ← (arg i).getArr?
    b.toList.mapM parseOp
  match tag with
  | "emit" => pure (.emit (← strOf (arg 1)))
  | "raw" => pure (.emitRaw (← strOf (arg 1)))
  | "ph" => pure (.placeholder (← strOf (arg 1)))
  | "pos" => pure (.addPos (← strOf (arg 1)))
  | "named" => pure (.addNamed (← strOf (arg 1)) (← strOf (arg 2)))
  | "wrapped" =>
    pure (.wrapped (← strOf (arg 1)) (← strOf (arg 2)) (← strOf (arg 3)) (← strOf (arg 4)) (← (arg 5).getInt?))
  | "indent" => pure (.indent (← optIntOf (arg 1)) (← body 2))
  | "block" =>
    pure (.block (← strOf (arg 1)) (← strOf (arg 2)) (← optStrOf (arg 3)) (← optStrOf (arg 4))
      (← optIntOf (arg 5)) (← (arg 6).getBool?) (← body 7))
  | "mlist" =>
    let items ← (← (arg 1).getArr?).toList.mapM strOf
    pure (.mlist items (← strOf (arg 2)) (← strOf (arg 3)) (← strOf (arg 4)) (← strOf (arg 5))
      (← (arg 6).getBool?) (← strOf (arg 7)) (← (arg 8).getBool?))
  | t => throw s!"unknown emit op {t}"

def errName : Emit.Err → String
  | .newlineInEmit => "newlineInEmit"
  | .rawNoNewline => "rawNoNewline"
  | .negativeDent => "negativeDent"
  | .badWidth => "badWidth"
  | .format => "format"
  | .nameOutsideModel => "nameOutsideModel"

def parseMOp (j : Json) : Except String Manifest.Op := do
  let a ← j.getArr?
  let tag ← (a[0]?.getD Json.null).getStr?
  let arg (i : Nat) : Json := a[i]?.getD Json.null
  match tag with
  | "out" => pure (.out (← strOf (arg 1)) (← (arg 2).getBool?) (← strOf (arg 3)))
  | "copy" => pure (.copy (← strOf (arg 1)) (← strOf (arg 2)) (← strOf (arg 3)))
  | "swift" => pure (.swiftWrite (← strOf (arg 1)) (← strOf (arg 2)))
  | t => throw s!"unknown manifest op {t}"

def compsJson (c : List (List Char)) : Json := Json.arr (c.map jsStr).toArray

def handle (op : String) (j : Json) : Except String Json := do
  match op with
  | "be.escape" =>
    let s ← jstr j "text"
    pure <| ok [("out", jsStr (Fmt.escape s.toList))]
  | "be.format" =>
    let buf ← jstr j "buf"
    let pos ← strList j "pos"
    let named ← pairList j "named"
    let named' ← named.mapM fun (k, v) => do pure (k.toList, (← v.getStr?).toList)
    pure <| ok [("out", optStr (Fmt.pyFormat named' (pos.map String.toList) buf.toList))]
  | "be.path" =>
    -- {cwd, root, path, join}: `join` = the path is relative to root (`os.path.join(root, path)` first)
    let cwd := (← jstr j "cwd").toList
    let root := (← jstr j "root").toList
    let path := (← jstr j "path").toList
    let join ← jbool j "join"
    let full0 := if join then Path.join2 root path else path
    -- `then`: copy_to_path found `dst` to be a directory and appends basename(src)
    let full := match jopt j "then" with
      | some (Json.str t) => Path.join2 full0 t.toList
      | _ => full0
    let res := Path.relativeOutputPath cwd root full
    pure <| ok [("full", jsStr full),
                ("abs", jsStr (Path.abspath cwd full)),
                ("accepted", Json.bool res.toOption.isSome),
                ("rel", optStr res.toOption),
                ("rootComps", compsJson (Path.absComps cwd root)),
                ("pathComps", compsJson (Path.absComps cwd full)),
                ("dirname", jsStr (Path.dirname full)),
                ("basename", jsStr (Path.basename full))]
  | "be.emit" =>
    let tabs ← jbool j "tabs"
    let script ← (← jarr j "script").toList.mapM parseOp
    let ref := Emit.refText tabs script
    match Emit.runScript tabs script with
    | .ok t => pure <| ok [("ok", Json.bool true), ("out", jsStr t), ("ref", optStr ref)]
    | .error e => pure <| ok [("ok", Json.bool false), ("err", Json.str (errName e)), ("ref", optStr ref)]
  | "be.wrap" =>
    let text := (← jstr j "text").toList
    let ini := (← jstr j "ini").toList
    let sub := (← jstr j "sub").toList
    let width ← jint j "width"
    match Wrap.wrap width ini sub text with
    | .ok lines =>
      pure <| ok [("ok", Json.bool true), ("out", jsStr (Wrap.joinLines lines)),
                  ("lines", Json.arr (lines.map jsStr).toArray),
                  ("words", Json.arr ((Wrap.words text).map jsStr).toArray)]
    | .error _ => pure <| ok [("ok", Json.bool false)]
  | "be.manifest" =>
    let cwd := (← jstr j "cwd").toList
    let root := (← jstr j "root").toList
    let manifest ← jbool j "manifest"
    let dirs ← (← jarr j "dirs").toList.mapM fun d => do (← d.getArr?).toList.mapM strOf
    let ops ← (← jarr j "ops").toList.mapM parseMOp
    let cfg : Manifest.Cfg := { cwd := cwd, root := root }
    let fs0 : Manifest.FS := { files := [], dirs := dirs }
    let r := Manifest.run manifest cfg { fs := fs0, log := [] } ops
    let status := match r.2 with
      | none => "ok"
      | some .refused => "refused"
      | some .io => "io"
    pure <| ok [("status", Json.str status),
                ("log", Json.arr (r.1.log.map jsStr).toArray),
                ("outputs", Json.arr ((Manifest.sortDedup r.1.log).map jsStr).toArray),
                ("files", Json.arr (r.1.fs.files.map fun kv =>
                    Json.arr #[compsJson kv.1, jsStr kv.2]).toArray)]
  | _ => throw s!"unknown op {op}"

end Driver.Be
