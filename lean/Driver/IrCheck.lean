import Driver.Util
import Driver.Rt
import StoneVerif.Model.IrCheck
import StoneVerif.Model.Rt.WF
import StoneVerif.Model.Rt.WFExtra
/-! Protocol handlers `decl.ircheck.*` (C10: compile-time checks of defaults and examples).

Literals:  ["n"] ["b",bool] ["i",int] ["f",bits] ["s",str] ["T",tag]
Example values: ["L",lit] ["l",[..]] ["m",[[key,val]..]] ["r",label]
-/
open Lean
namespace Driver.IrCheck
open StoneVerif.Rt StoneVerif.IrCheck Driver.Rt

def litOf (j : Json) : P Lit := do
  match ← arrOf j with
  | [k] => match ← strOf k with
    | "n" => pure .null
    | s => throw s!"lit {s}"
  | [k, a] => match ← strOf k with
    | "b" => pure (.bool (← boolOf a))
    | "i" => pure (.int (← intOf' a))
    | "f" => pure (.flt (← natOf a))
    | "s" => pure (.str (← strOf a))
    | "T" => pure (.tagref (← strOf a))
    | s => throw s!"lit/2 {s}"
  | _ => throw "lit arity"

def litTo : Lit → Json
  | .null => Json.arr #["n"]
  | .bool b => Json.arr #["b", b]
  | .int n => Json.arr #["i", intTo n]
  | .flt x => Json.arr #["f", natTo x]
  | .str s => Json.arr #["s", s]
  | .tagref t => Json.arr #["T", t]

partial def exValOf (j : Json) : P ExVal := do
  match ← arrOf j with
  | [k, a] => match ← strOf k with
    | "L" => pure (.lit (← litOf a))
    | "l" => pure (.list (← (← arrOf a).mapM exValOf))
    | "m" => do
      let kvs ← (← arrOf a).mapM fun p => do
        match ← arrOf p with
        | [x, y] => pure (← strOf x, ← exValOf y)
        | _ => throw "map pair"
      pure (.map kvs)
    | "r" => pure (.ref (← strOf a))
    | s => throw s!"exval {s}"
  | _ => throw "exval arity"

def optStr (j : Json) (k : String) : P (Option String) := optOf strOf ((jopt j k).getD .null)

def cTagOf (j : Json) : P CTag := do
  pure { name := ← jstr j "name", ty := ← irTyOf (← jobj j "ty"), omitted := ← optStr j "om" }

def cFieldOf (j : Json) : P CField := do
  pure { name := ← jstr j "name", ty := ← irTyOf (← jobj j "ty"),
         dflt := ← optOf litOf ((jopt j "dflt").getD .null), omitted := ← optStr j "om" }

def chainOf {α} (f : Json → P α) (j : Json) : P (List (String × List α)) := do
  (← arrOf j).mapM fun l => do
    match ← arrOf l with
    | [c, ms] => pure (← strOf c, ← (← arrOf ms).mapM f)
    | _ => throw "chain level"

def cUnionOf (j : Json) : P CUnion := do
  pure { cls := ← jstr j "cls", chain := ← chainOf cTagOf (← jobj j "chain"), catchAll := ← optStr j "catchAll" }

def cStructOf (j : Json) : P CStruct := do
  let subtypes ← match jopt j "subtypes" with
    | none => pure none
    | some st => do
      let xs ← (← arrOf st).mapM fun e => do
        match ← arrOf e with
        | [tags, c, tr] => pure ((← (← arrOf tags).mapM strOf), ← strOf c, ← boolOf tr)
        | _ => throw "subtype entry"
      pure (some xs)
  pure { cls := ← jstr j "cls", chain := ← chainOf cFieldOf (← jobj j "chain"), subtypes,
         catchAll := (jbool j "catchAll").toOption.getD false }

def cApiOf (j : Json) : P CApi := do
  pure { structs := ← (← jarr j "structs").toList.mapM cStructOf,
         unions := ← (← jarr j "unions").toList.mapM cUnionOf }

structure CExtTables where
  intExact : Std.HashMap Int Bool := {}
  strptimeOk : Std.HashMap (String × String) Bool := {}

def cExtTablesOf (j : Json) : P CExtTables := do
  let rows (k : String) : P (List (List Json)) := do
    match jopt j k with
    | none => pure []
    | some a => (← arrOf a).mapM arrOf
  let mut t : CExtTables := {}
  for r in ← rows "intExact" do
    match r with
    | [a, b] => t := { t with intExact := t.intExact.insert (← intOf' a) (← boolOf b) }
    | _ => throw "intExact row"
  for r in ← rows "strptimeOk" do
    match r with
    | [a, b, c] => t := { t with strptimeOk := t.strptimeOk.insert (← strOf a, ← strOf b) (← boolOf c) }
    | _ => throw "strptimeOk row"
  pure t

/-- `alt` selects which of two different answers a table miss gets -/
def mkCExt (t : CExtTables) (alt : Bool) : CExt where
  intExact n := (t.intExact[n]?).getD alt
  strptimeOk f s := (t.strptimeOk[(f, s)]?).getD alt

/-- evaluate under both miss policies of both table sets -/
def both2 (ext : ExtTables) (cext : CExtTables) (f : Ext → CExt → Json) : Json :=
  let a := f (mkExt ext false) (mkCExt cext false)
  let b := f (mkExt ext true) (mkCExt cext true)
  if a.compress == b.compress then a else Json.mkObj [("protocol_error", "ext-miss"), ("a", a), ("b", b)]

def crTo {α} (f : α → Json) : CR α → Json
  | .ok a => Json.mkObj [("ok", f a)]
  | .error (.invalid h) => Json.mkObj [("invalid", h)]
  | .error (.crash e) => Json.mkObj [("crash", e)]

def tablesOf (j : Json) : P (ExtTables × CExtTables) := do
  let ext ← match jopt j "ext" with
    | some e => extTablesOf e
    | none => pure {}
  let cext ← match jopt j "cext" with
    | some e => cExtTablesOf e
    | none => pure {}
  pure (ext, cext)

def handle (op : String) (j : Json) : Except String Json := do
  match op with
  | "decl.ircheck.default" =>
    -- one field `f <ty> = <lit>`: compiler outcome, stored default, generated default value, and what the
    -- generated class's validator says about it
    let t ← irTyOf (← jobj j "ty")
    let lit ← litOf (← jobj j "lit")
    let us ← match jopt j "unions" with
      | some a => (← arrOf a).mapM cUnionOf
      | none => pure []
    let (ext, cext) ← tablesOf j
    pure (both2 ext cext fun E C =>
      let r := fieldDefault E C us t lit
      let env? := envOfC { structs := [], unions := us }
      let py := pyOfLit E C us t lit
      let rt : Json := match env?, validatorOf t, py with
        | some env, some vt, some v => resTo pyValTo (validate E env vt v)
        | _, _, _ => Json.null
      Json.mkObj [("check", crTo litTo r), ("py", optTo pyValTo py), ("validate", rt), ("tyKnown", Json.bool (tyKnown us t)),
        ("unionsAgree", match env? with | some env => Json.bool (unionsAgree us env) | none => Json.null)])
  | "decl.ircheck.example" =>
    let api ← cApiOf (← jobj j "api")
    let cls ← jstr j "cls"
    let kind ← jstr j "kind"
    let ex ← (← jarr j "ex").toList.mapM fun p => do
      match ← arrOf p with
      | [x, y] => pure (← strOf x, ← exValOf y)
      | _ => throw "example member"
    let (ext, cext) ← tablesOf j
    let (chk, doc, ty) ← match kind with
      | "struct" => match api.struct? cls with
        | some s => pure ((fun E C => addStructExample E C api.unions s ex), structExampleDoc s ex,
                          (PTy.struct {} cls))
        | none => throw s!"no struct {cls}"
      | "union" => match api.union? cls with
        | some u => pure ((fun E C => (unionExample E C api.unions u ex).map fun _ => ()), unionExampleDoc u ex, (PTy.union {} cls))
        | none => throw s!"no union {cls}"
      | k => throw s!"kind {k}"
    pure (both2 ext cext fun E C =>
      let r := chk E C
      let env? := envOfC api
      let run : Json := match r, doc, env? with
        | .ok _, some d, some env =>
          let dec := jsonCompatObjDecode E env [] true ty d
          let enc : Json := match dec with
            | .ok v => resTo jsonTo (jsonCompatObjEncode E env [] false ty v)
            | .error _ => Json.null
          Json.mkObj [("decode", resTo pyValTo dec), ("encode", enc)]
        | _, _, _ => Json.null
      Json.mkObj [("check", crTo (fun _ => Json.null) r), ("doc", optTo jsonTo doc), ("run", run),
        ("tyKnown", Json.bool (apiKnown api)),
        ("envWF", match env? with | some env => Json.bool (envWF env) | none => Json.null),
        ("envWFX", match env? with | some env => Json.bool (envWFX env) | none => Json.null),
        ("unionsAgree", match env? with | some env => Json.bool (unionsAgree api.unions env) | none => Json.null)])
  | _ => throw s!"unknown op {op}"

end Driver.IrCheck
