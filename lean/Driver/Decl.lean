import Driver.Util
/-! Protocol handlers of the `decl.*` suites. -/
open Lean
namespace Driver.Decl

def handle (op : String) (_j : Json) : Except String Json := do
  throw s!"unknown op {op}"

end Driver.Decl
