import Driver.Util
import Driver.RtCompat
import Driver.DeclPy
import Driver.IrCheck
import Driver.DeclStub
import Driver.DeclJs
import Driver.DeclPyClient
import Driver.Order
import Driver.DeclSwift
/-! Protocol handlers of the `decl.*` suites. -/
open Lean
namespace Driver.Decl

def handle (op : String) (j : Json) : Except String Json := do
  -- BEGIN C07: `decl.compat.*` (two-environment ops, Driver/RtCompat.lean)
  if op.startsWith "decl.compat." then return ← Driver.RtCompat.handle op j
  -- END C07
  -- BEGIN C09: `decl.py.*` (Driver/DeclPy.lean)
  if op.startsWith "decl.py." then return ← Driver.DeclPy.handle op j
  -- END C09
  -- BEGIN C10: `decl.ircheck.*` (Driver/IrCheck.lean)
  if op.startsWith "decl.ircheck." then return ← Driver.IrCheck.handle op j
  -- END C10
  -- BEGIN C15: `decl.stub.*` (Driver/DeclStub.lean)
  if op.startsWith "decl.stub" then return ← Driver.DeclStub.handle op j
  -- END C15
  -- BEGIN C16: `decl.js.*` / `decl.tsd.*` (Driver/DeclJs.lean)
  if op.startsWith "decl.js." || op.startsWith "decl.tsd." then return ← Driver.DeclJs.handle op j
  -- END C16
  -- BEGIN C14: `decl.pyclient.*` (Driver/DeclPyClient.lean)
  if op.startsWith "decl.pyclient." then return ← Driver.DeclPyClient.handle op j
  -- END C14
  -- BEGIN C12: `decl.order.*` (Driver/Order.lean)
  if op.startsWith "decl.order." then return ← Driver.Order.handle op j
  -- END C12
  -- BEGIN C17: `decl.swift.*` / `decl.objc.*` (Driver/DeclSwift.lean)
  if op.startsWith "decl.swift." || op.startsWith "decl.objc." then return ← Driver.DeclSwift.handle op j
  -- END C17
  throw s!"unknown op {op}"

end Driver.Decl
