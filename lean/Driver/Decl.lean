import Driver.Util
import Driver.RtCompat
import Driver.IrCheck
import Driver.DeclStub
/-! Protocol handlers of the `decl.*` suites. -/
open Lean
namespace Driver.Decl

def handle (op : String) (j : Json) : Except String Json := do
  -- BEGIN C07: `decl.compat.*` (two-environment ops, Driver/RtCompat.lean)
  if op.startsWith "decl.compat." then return ← Driver.RtCompat.handle op j
  -- END C07
  -- BEGIN C10: `decl.ircheck.*` (Driver/IrCheck.lean)
  if op.startsWith "decl.ircheck." then return ← Driver.IrCheck.handle op j
  -- END C10
  -- BEGIN C15: `decl.stub.*` (Driver/DeclStub.lean)
  if op.startsWith "decl.stub" then return ← Driver.DeclStub.handle op j
  -- END C15
  throw s!"unknown op {op}"

end Driver.Decl
