import Driver.Util
import StoneVerif.Model.DeclStub
/-! Protocol handlers of the `decl.stub.*` ops (C15).

API description (request): `{"namespaces": [{"name", "imports": [str], "annotation_types": [{"name", "params": [F]}],
"types": [{"kind": "struct"|"union", "name", "parent": null | [ns, name], "fields": [F]}],
"aliases": [{"name", "ty": T}], "routes": [{"name", "version": n}]}]}` with `F = {"name", "ty": T, "has_default": b}`
and `T = ["String"] | ["Bytes"] | ["Boolean"] | ["Float"] | ["Int"] | ["Void"] | ["Timestamp"] |
["Alias", ns, name, T] | ["User", ns, name] | ["List", T] | ["Map", T, T] | ["Nullable", T]`.

Type expressions (reply): `["name", s] | ["attr", E, a] | ["sub", E, E] | ["tup", E, E] | ["lst", E, E] | ["none"] |
["docList", E] | ["docMap", E, E]`. -/
open Lean
namespace Driver.DeclStub
open StoneVerif StoneVerif.DeclStub

partial def tyOfJson (j : Json) : Except String StoneTy := do
  let a ← j.getArr?
  match a.toList with
  | [Json.str "String"] => pure .string
  | [Json.str "Bytes"] => pure .bytes
  | [Json.str "Boolean"] => pure .boolean
  | [Json.str "Float"] => pure .float
  | [Json.str "Int"] => pure .integer
  | [Json.str "Void"] => pure .void
  | [Json.str "Timestamp"] => pure .timestamp
  | [Json.str "Alias", Json.str ns, Json.str name, t] => pure (.alias ns name (← tyOfJson t))
  | [Json.str "User", Json.str ns, Json.str name] => pure (.user ns name)
  | [Json.str "List", t] => pure (.list (← tyOfJson t))
  | [Json.str "Map", k, v] => pure (.map (← tyOfJson k) (← tyOfJson v))
  | [Json.str "Nullable", t] => pure (.nullable (← tyOfJson t))
  | _ => throw s!"bad type {j.compress}"

def fieldOfJson (j : Json) : Except String Field := do
  pure { name := ← jstr j "name", ty := ← tyOfJson (← jobj j "ty"),
         hasDefault := (jbool j "has_default").toOption.getD false }

def listOf {α : Type} (f : Json → Except String α) (j : Json) (k : String) : Except String (List α) := do
  (← jarr j k).toList.mapM f

def typeOfJson (j : Json) : Except String TypeDef := do
  let kind ← match ← jstr j "kind" with
    | "struct" => pure TyKind.struct
    | "union" => pure TyKind.union
    | k => throw s!"bad kind {k}"
  let parent ← match jopt j "parent" with
    | none => pure none
    | some p => do
      match (← p.getArr?).toList with
      | [Json.str a, Json.str b] => pure (some (a, b))
      | _ => throw "bad parent"
  pure { kind, name := ← jstr j "name", parent, fields := ← listOf fieldOfJson j "fields" }

def nsOfJson (j : Json) : Except String Namespace := do
  pure { name := ← jstr j "name",
         imports := ← strList j "imports",
         annoTypes := ← listOf (fun a => do
           pure { name := ← jstr a "name", params := ← listOf fieldOfJson a "params" }) j "annotation_types",
         types := ← listOf typeOfJson j "types",
         aliases := ← listOf (fun a => do pure { name := ← jstr a "name", ty := ← tyOfJson (← jobj a "ty") }) j "aliases",
         routes := ← listOf (fun r => do pure { name := ← jstr r "name", version := ← jnat r "version" }) j "routes",
         tsRouteAttr := (jbool j "ts_route_attr").toOption.getD false }

def apiOfJson (j : Json) : Except String Api := do
  pure { namespaces := ← listOf nsOfJson j "namespaces" }

def jarrL (l : List Json) : Json := Json.arr l.toArray
def jstrs (l : List String) : Json := jarrL (l.map Json.str)

def exprToJson : TExpr → Json
  | .name s => jarrL ["name", s]
  | .attr b a => jarrL ["attr", exprToJson b, a]
  | .sub f a => jarrL ["sub", exprToJson f, exprToJson a]
  | .tup a b => jarrL ["tup", exprToJson a, exprToJson b]
  | .lst a b => jarrL ["lst", exprToJson a, exprToJson b]
  | .none => jarrL ["none"]
  | .docList t => jarrL ["docList", exprToJson t]
  | .docMap k v => jarrL ["docMap", exprToJson k, exprToJson v]

def mkindStr : MKind → String
  | .attr => "attr" | .method => "method" | .classmethod => "classmethod" | .property => "property"
def ckindStr : CKind → String
  | .struct => "struct" | .union => "union" | .annotationType => "annotation_type"
def jkindStr : JKind → String
  | .cls => "class" | .validator => "validator" | .aliasName => "alias" | .route => "route"

def paramToJson (p : ParamDecl) : Json := jarrL [p.name, exprToJson p.ann]

def memberToJson (m : Member) : Json :=
  Json.mkObj [("kind", mkindStr m.kind), ("name", m.name), ("ann", exprToJson m.ann),
              ("params", jarrL (m.params.map paramToJson))]

def classToJson (c : ClassDecl) : Json :=
  Json.mkObj [("kind", ckindStr c.kind), ("name", c.name), ("base", exprToJson c.base),
              ("init", match c.init with | none => Json.null | some ps => jarrL (ps.map paramToJson)),
              ("members", jarrL (c.members.map memberToJson))]

def itemToJson : ModItem → Json
  | .typeVar n => jarrL ["typeVar", n]
  | .cls c => jarrL ["cls", classToJson c]
  | .validator n a => jarrL ["validator", n, exprToJson a]
  | .aliasName n t => jarrL ["aliasName", n, exprToJson t]
  | .route n a => jarrL ["route", n, exprToJson a]
  | .other n => jarrL ["other", n]

def importToJson : Import → Json
  | .typing ns => jarrL ["typing", jstrs ns]
  | .adhoc s => jarrL ["adhoc", s]
  | .lib m a => jarrL ["lib", m, a]
  | .ns m => jarrL ["ns", m]
  | .future n => jarrL ["future", n]

def modToJson : Except String ModDecl → Json
  | .error e => Json.mkObj [("error", e)]
  | .ok m => Json.mkObj [("file", m.file), ("imports", jarrL (m.imports.map importToJson)),
                         ("items", jarrL (m.items.map itemToJson)),
                         ("ann_names", jstrs m.annNames.eraseDups),
                         ("imported", jstrs m.imported), ("defined", jstrs m.defined),
                         ("unresolved", jstrs (dedup m.unresolved))]

def judgedToJson (l : List (JKind × String)) : Json := jarrL (l.map fun p => jarrL [jkindStr p.1, p.2])
def membersToJson (l : List (MKind × String)) : Json := jarrL (l.map fun p => jarrL [mkindStr p.1, p.2])

def closedB (m : ModDecl) : Bool := m.unresolved.isEmpty

def handleNs (j : Json) : Except String Json := do
  let api ← apiOfJson (← jobj j "api")
  let nsName ← jstr j "ns"
  let some ns := lookupNs api nsName | throw s!"unknown namespace {nsName}"
  let N := pyNaming
  let stub := stubNs N api ns
  let rt := rtNs N api ns
  let judged (m : Except String ModDecl) : Json := match m with
    | .ok d => judgedToJson (judgedNames d)
    | .error _ => Json.null
  let resolved := ns.types.map fun t =>
    Json.mkObj [("class", fmtClass N t.name),
                ("stub", membersToJson (resolve (stubOwn N api) api api.fuel ns.name t)),
                ("rt", membersToJson (resolve (rtOwn N api) api api.fuel ns.name t)),
                ("stub_ctor", match resolveCtor (fun n t => (stubType N api n t).1) api api.fuel ns.name t with
                  | some l => jstrs l | none => Json.null),
                ("rt_ctor", match resolveCtor (rtType N api) api api.fuel ns.name t with
                  | some l => jstrs l | none => Json.null)]
  let tys := (annotatedTypes api ns).map fun t =>
    Json.mkObj [("mapped", exprToJson (mapStoneType N ns.name t).1), ("pep484", exprToJson (pep484 N ns.name t)),
                ("norm_eq", Json.bool (normText (mapStoneType N ns.name t).1 == pep484 N ns.name t)),
                ("text_free", Json.bool (textFree N t))]
  pure <| ok [("stub", modToJson stub), ("rt", modToJson rt),
              ("judged_stub", judged stub), ("judged_rt", judged rt),
              ("resolved", jarrL resolved), ("types", jarrL tys),
              ("closed", match stub with | .ok d => Json.bool (closedB d) | .error _ => Json.null),
              ("wf", Json.mkObj [("chains", Json.bool (chainsOK api)), ("refs", Json.bool (refsCovered api ns)),
                                 ("own", Json.bool (ownRefsDefined api ns)),
                                 ("direct", Json.bool (directCovered ns)),
                                 ("alias_stable", Json.bool (aliasNamesStable N ns))])]

def handleFmt (j : Json) : Except String Json := do
  let names ← strList j "names"
  pure <| ok [("out", jarrL (names.map fun n =>
    jarrL [pascalOf n, underscoresOf n, fmtClass pyNaming n true, fmtVar pyNaming n true, fmtNamespace n]))]

def handle (op : String) (j : Json) : Except String Json :=
  match op with
  | "decl.stub.ns" => handleNs j
  | "decl.stub.fmt" => handleFmt j
  | _ => throw s!"unknown op {op}"

end Driver.DeclStub
