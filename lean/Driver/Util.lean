import Lean.Data.Json
/-! JSON helpers shared by the per-suite protocol handlers. -/
open Lean

namespace Driver

def jstr (j : Json) (k : String) : Except String String := j.getObjValAs? String k
def jint (j : Json) (k : String) : Except String Int := j.getObjValAs? Int k
def jnat (j : Json) (k : String) : Except String Nat := j.getObjValAs? Nat k
def jbool (j : Json) (k : String) : Except String Bool := j.getObjValAs? Bool k
def jarr (j : Json) (k : String) : Except String (Array Json) := do
  let v ← j.getObjVal? k
  v.getArr?
def jobj (j : Json) (k : String) : Except String Json := j.getObjVal? k
def jopt (j : Json) (k : String) : Option Json :=
  match j.getObjVal? k with
  | .ok .null => none
  | .ok v => some v
  | .error _ => none

def asStr (j : Json) : Except String String := j.getStr?
def asArr (j : Json) : Except String (Array Json) := j.getArr?

def strList (j : Json) (k : String) : Except String (List String) := do
  let a ← jarr j k
  a.toList.mapM asStr

/-- key/value pairs of a JSON object *in document order is not preserved by Lean's RBNode*;
protocol objects that need order are sent as arrays of pairs. -/
def pairList (j : Json) (k : String) : Except String (List (String × Json)) := do
  let a ← jarr j k
  a.toList.mapM fun p => do
    let q ← p.getArr?
    match q.toList with
    | [a, b] => do pure (← a.getStr?, b)
    | _ => throw "pair expected"

def ok (fields : List (String × Json)) : Json := Json.mkObj fields
def err (msg : String) : Json := Json.mkObj [("protocol_error", Json.str msg)]

end Driver
