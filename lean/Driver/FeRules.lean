import Driver.Util
import StoneVerif.Model.FeParams
import StoneVerif.Model.FeNames
/-! Protocol handlers `fe.params` / `fe.names` (C01 / C03 component models).

`fe.params`  request  `{"op":"fe.params","ty":T,"rx":[[pattern,bool],...]}`
  `T` = `{"k":<built-in type name>,"pos":[A,...],"kw":[[key,A],...],"nullable":bool}`
  `A` = `{"int":"<decimal>"}` | `{"float":["<num>","<den>"]}` | `{"float":"inf"|"-inf"}` | `{"str":s}` | `{"bool":b}`
      | `{"null":true}` | `{"ty":T}` (nested built-in reference) | `{"user":bool}` (a resolved user type / alias; the
        flag is `isinstance(·, String)`, false for both)
  reply `{"out":"ok","ty":D,"nullable":b}` | `{"out":"spec","reason":r}` | `{"out":"crash","exc":e}`,
  plus for the outermost reference `"legal"` (legalRef).
  Nested references are resolved first, left to right, positional before keyword (`_resolve_args`); the glue below
  only sequences the calls of `resolveBuiltin`.

`fe.names`  request `{"op":"fe.names","files":[{"ns":n,"items":[["type"|"alias"|"annotation"|"annotation_type",name] |
  ["route",name,version],...]},...]}`
  reply `{"out":"ok"|"spec"|"crash","reason"|"exc":..,"noclash":bool,"unambiguous":bool}`
-/
open Lean
namespace Driver.FeRules
open StoneVerif

section Params
open StoneVerif.FeParams

def parseInt (s : String) : Except String Int :=
  match s.toInt? with
  | some i => pure i
  | none => throw s!"bad integer {s}"

def fvalToJson : FVal → Json
  | .fin n d => Json.arr #[Json.str (toString n), Json.str (toString d)]
  | .pinf => "inf"
  | .ninf => "-inf"

def argToJson : Arg → Json
  | .int i => Json.mkObj [("int", Json.str (toString i))]
  | .float x => Json.mkObj [("float", fvalToJson x)]
  | .str s => Json.mkObj [("str", s)]
  | .bool b => Json.mkObj [("bool", b)]
  | .null => Json.mkObj [("null", true)]
  | .ty s => Json.mkObj [("ty", s)]

def optJ {α} (f : α → Json) : Option α → Json
  | some a => f a
  | none => Json.null

def intJ (i : Int) : Json := Json.str (toString i)

/-- dump of a constructed type; `nested` are the dumps of the type-valued positional arguments -/
def tyToJson (t : TyVal) (nested : List (Option Json)) : Json :=
  let nest (i : Nat) (a : Arg) : Json := match nested[i]? with
    | some (some j) => j
    | _ => argToJson a
  match t with
  | .plain k => Json.mkObj [("k", k.pyName)]
  | .int k lo hi => Json.mkObj [("k", k.pyName), ("lo", optJ intJ lo), ("hi", optJ intJ hi)]
  | .float k lo hi => Json.mkObj [("k", k.pyName), ("lo", optJ fvalToJson lo), ("hi", optJ fvalToJson hi)]
  | .string mn mx p => Json.mkObj [("k", "String"), ("min", optJ intJ mn), ("max", optJ intJ mx), ("pattern", optJ argToJson p)]
  | .timestamp f => Json.mkObj [("k", "Timestamp"), ("fmt", f)]
  | .list e mn mx => Json.mkObj [("k", "List"), ("elem", nest 0 e), ("min", optJ intJ mn), ("max", optJ intJ mx)]
  | .map k v => Json.mkObj [("k", "Map"), ("key", nest 0 k), ("val", nest 1 v)]

def reasonStr : Reason → String
  | .dupKeyword => "dupKeyword" | .missingPositional => "missingPositional" | .tooManyPositional => "tooManyPositional"
  | .unknownKeyword => "unknownKeyword" | .positionalAsKeyword => "positionalAsKeyword" | .badArgument => "badArgument"
  | .voidNullable => "voidNullable"

def excStr : PyExc → String
  | .typeError => "TypeError" | .attributeError => "AttributeError" | .assertionError => "AssertionError"
  | .keyError => "KeyError" | .valueError => "ValueError" | .notImplementedError => "NotImplementedError"
  | .indexError => "IndexError"

structure Resolved where
  ty : TyVal
  nullable : Bool
  dump : Json

mutual
  /-- a literal or nested reference to an `Arg` (+ the nested dump) -/
  partial def argOfJson (rx : String → Bool) (j : Json) : Except String (Except FeErr (Arg × Option Json)) := do
    if let some v := jopt j "int" then
      return .ok (.int (← parseInt (← v.getStr?)), none)
    if let some v := jopt j "float" then
      match v with
      | .str "inf" => return .ok (.float .pinf, none)
      | .str "-inf" => return .ok (.float .ninf, none)
      | .arr #[n, d] =>
        let n ← parseInt (← n.getStr?)
        let d ← parseInt (← d.getStr?)
        return .ok (.float (.fin n d.toNat), none)
      | _ => throw "bad float"
    if let some v := jopt j "str" then
      return .ok (.str (← v.getStr?), none)
    if let some v := jopt j "bool" then
      return .ok (.bool (← v.getBool?), none)
    if let some _ := jopt j "null" then
      return .ok (.null, none)
    if let some v := jopt j "user" then
      return .ok (.ty (← v.getBool?), some (Json.mkObj [("k", "user")]))
    if let some v := jopt j "ty" then
      match ← resolveJson rx v with
      | .error e => return .error e
      | .ok r =>
        -- a nullable reference is a `Nullable` instance: not a `String`
        let isStr := r.ty.isString && !r.nullable
        return .ok (.ty isStr, some (if r.nullable then Json.mkObj [("k", "Nullable"), ("of", r.dump)] else r.dump))
    throw "bad argument"

  partial def resolveJson (rx : String → Bool) (j : Json) : Except String (Except FeErr Resolved) := do
    let kname ← jstr j "k"
    let some k := TyKind.ofName? kname | throw s!"unknown kind {kname}"
    let nullable ← jbool j "nullable"
    -- `_resolve_type`: `Void?` is refused before the arguments are looked at
    if k == .void && nullable then
      return .error (.specerr .voidNullable)
    let mut pos : List Arg := []
    let mut nested : List (Option Json) := []
    for a in (← jarr j "pos") do
      match ← argOfJson rx a with
      | .error e => return .error e
      | .ok (v, d) =>
        pos := pos ++ [v]
        nested := nested ++ [d]
    let mut kw : List (String × Arg) := []
    for (key, a) in (← pairList j "kw") do
      match ← argOfJson rx a with
      | .error e => return .error e
      | .ok (v, _) => kw := kw ++ [(key, v)]
    match resolveBuiltin rx k pos kw nullable with
    | .error e => return .error e
    | .ok (t, n) => return .ok { ty := t, nullable := n, dump := tyToJson t nested }
end

/-- shallow view of the outermost reference for the specification-level verdicts (nested references that resolve
are type arguments; one that does not makes the whole reference illegal) -/
partial def shallowArgs (rx : String → Bool) (j : Json) : Except String (Option (List Arg × List (String × Arg))) := do
  let mut pos : List Arg := []
  for a in (← jarr j "pos") do
    match ← argOfJson rx a with
    | .error _ => return none
    | .ok (v, _) => pos := pos ++ [v]
  let mut kw : List (String × Arg) := []
  for (key, a) in (← pairList j "kw") do
    match ← argOfJson rx a with
    | .error _ => return none
    | .ok (v, _) => kw := kw ++ [(key, v)]
  return some (pos, kw)

def handleParams (j : Json) : Except String Json := do
  let tj ← jobj j "ty"
  let rxPairs ← (← jarr j "rx").toList.mapM fun p => do
    match p with
    | .arr #[a, b] => pure ((← a.getStr?), (← b.getBool?))
    | _ => throw "rx pair expected"
  let rx : String → Bool := fun s => (rxPairs.lookup s).getD true
  let kname ← jstr tj "k"
  let some k := TyKind.ofName? kname | throw s!"unknown kind {kname}"
  let nullable ← jbool tj "nullable"
  let extra ← match ← shallowArgs rx tj with
    | some (pos, kw) => pure [("legal", Json.bool (legalRef rx k pos kw nullable))]
    | none => pure [("legal", Json.bool false)]
  match ← resolveJson rx tj with
  | .ok r => pure (ok ([("out", Json.str "ok"), ("ty", r.dump), ("nullable", Json.bool r.nullable)] ++ extra))
  | .error (.specerr r) => pure (ok ([("out", Json.str "spec"), ("reason", Json.str (reasonStr r))] ++ extra))
  | .error (.crash e) => pure (ok ([("out", Json.str "crash"), ("exc", Json.str (excStr e))] ++ extra))

end Params

section Names
open StoneVerif.FeNames

def itemOfJson (j : Json) : Except String Item := do
  match j with
  | .arr #[.str "type", .str n] => pure ⟨.type, n.toList⟩
  | .arr #[.str "alias", .str n] => pure ⟨.alias, n.toList⟩
  | .arr #[.str "annotation", .str n] => pure ⟨.annotation, n.toList⟩
  | .arr #[.str "annotation_type", .str n] => pure ⟨.annotationType, n.toList⟩
  | .arr #[.str "route", .str n, v] => pure ⟨.route (← v.getInt?), n.toList⟩
  | _ => throw "bad item"

def nameReason : FeNames.Reason → String
  | .symbolDefined => "symbolDefined" | .routeVersionDefined => "routeVersionDefined"
  | .builtinAnnotation => "builtinAnnotation" | .nameConflict => "nameConflict"

def handleNames (j : Json) : Except String Json := do
  let fs ← (← jarr j "files").toList.mapM fun f => do
    let ns ← jstr f "ns"
    let items ← (← jarr f "items").toList.mapM itemOfJson
    pure ({ ns := ns.toList, items } : File)
  let extra := [("noclash", Json.bool (decide (NoClash fs))), ("unambiguous", Json.bool (decide (ConcatUnambiguous fs)))]
  match register fs with
  | .ok _ => pure (ok ([("out", Json.str "ok")] ++ extra))
  | .error (.specerr r) => pure (ok ([("out", Json.str "spec"), ("reason", Json.str (nameReason r))] ++ extra))
  | .error (.crash e) => pure (ok ([("out", Json.str "crash"), ("exc", Json.str (excStr e))] ++ extra))

end Names

def handle (op : String) (j : Json) : Except String Json := do
  match op with
  | "fe.params" => handleParams j
  | "fe.names" => handleNames j
  | _ => throw s!"unknown op {op}"

end Driver.FeRules
