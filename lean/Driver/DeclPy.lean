import Driver.Util
import StoneVerif.Model.DeclPy
/-! Protocol handlers of the `decl.py.*` ops (C09).

`decl.py.fmt`   {"names": [..]}                → {"ok": [[class, func, var, funcReserved, varReserved, func_v2, namespace] ..]}
`decl.py.stmts` {"api": <api>}                 → {"modules": [[module, [stmt ..]] ..], "apiWF": bool, "notWF": [ns ..],
                                                   "acyclic": bool, "imports": [[first, "ok" | error text] ..]}

api   = {"namespaces": [{"name", "imports": [..], "annTypes": [{"name", "params": [..]}],
          "types": [{"struct": bool, "name", "parent": [ns, name] | null, "fields": [field ..], "subtypes": [[ns, name] ..],
                     "catchAll": bool}],
          "aliases": [{"name", "ty", "redact"}],
          "routes": [{"name", "version", "deprecated", "arg", "result", "error", "attrs": [[key, "plain" | "tagRef" | "timestamp"] ..]}]}]}
field = {"name", "ty", "dflt": null | ["lit"] | ["tag", ty, tag], "caller": null | str, "redact": bool}
ty    = ["prim"] | ["void"] | ["user", ns, name] | ["alias", ns, name] | ["list", ty] | ["map", ty, ty] | ["nullable", ty]
stmt  = {"k": "imp", "m"} | {"k": "cls", "name", "base": ref | null, "body": [..], "ctor": [..] | null}
      | {"k": "assign", "t", "a": str | null, "copy": ref | null, "uses": [ref ..]} | {"k": "expr", "uses": [ref ..]}
ref   = [mod | null, name, attr | null] -/
open Lean
namespace Driver.DeclPy
open StoneVerif StoneVerif.DeclPy

def optStr (j : Json) : Except String (Option String) :=
  match j with
  | .null => pure none
  | v => do pure (some (← v.getStr?))

def pairOf (j : Json) : Except String (String × String) := do
  match (← j.getArr?).toList with
  | [a, b] => pure (← a.getStr?, ← b.getStr?)
  | _ => throw "pair expected"

partial def tyOf (j : Json) : Except String Ty := do
  match (← j.getArr?).toList with
  | [k] => match ← k.getStr? with
    | "prim" => pure .prim
    | "void" => pure .void
    | s => throw s!"bad ty {s}"
  | [k, a] => match ← k.getStr? with
    | "list" => pure (.list (← tyOf a))
    | "nullable" => pure (.nullable (← tyOf a))
    | s => throw s!"bad ty {s}"
  | [k, a, b] => match ← k.getStr? with
    | "user" => pure (.user (← a.getStr?) (← b.getStr?))
    | "alias" => pure (.alias (← a.getStr?) (← b.getStr?))
    | "map" => pure (.map (← tyOf a) (← tyOf b))
    | s => throw s!"bad ty {s}"
  | _ => throw "bad ty"

def dfltOf (j : Json) : Except String (Option Dflt) := do
  match j with
  | .null => pure none
  | v => match (← v.getArr?).toList with
    | [_] => pure (some .lit)
    | [_, t, c] => pure (some (.tag (← tyOf t) (← c.getStr?)))
    | _ => throw "bad default"

def fieldOf (j : Json) : Except String Field := do
  pure { name := ← jstr j "name", ty := ← tyOf (← jobj j "ty"), dflt := ← dfltOf (← jobj j "dflt"),
         caller := ← optStr (← jobj j "caller"), redact := ← jbool j "redact" }

def typeOf (j : Json) : Except String DataType := do
  let parent ← match ← jobj j "parent" with
    | .null => pure none
    | v => do pure (some (← pairOf v))
  pure { isStruct := ← jbool j "struct", name := ← jstr j "name", parent,
         fields := ← (← jarr j "fields").toList.mapM fieldOf,
         subtypes := ← (← jarr j "subtypes").toList.mapM pairOf,
         catchAll := ← jbool j "catchAll" }

def aliasOf (j : Json) : Except String Alias := do
  pure { name := ← jstr j "name", ty := ← tyOf (← jobj j "ty"), redact := ← jbool j "redact" }

def annOf (j : Json) : Except String AnnType := do
  pure { name := ← jstr j "name", params := ← strList j "params" }

def attrOf (j : Json) : Except String (String × AttrKind) := do
  let (k, v) ← pairOf j
  match v with
  | "plain" => pure (k, .plain)
  | "tagRef" => pure (k, .tagRef)
  | "timestamp" => pure (k, .timestamp)
  | s => throw s!"bad attr kind {s}"

def routeOf (j : Json) : Except String Route := do
  pure { name := ← jstr j "name", version := ← jnat j "version", deprecated := ← jbool j "deprecated",
         arg := ← tyOf (← jobj j "arg"), result := ← tyOf (← jobj j "result"), error := ← tyOf (← jobj j "error"),
         attrs := ← (← jarr j "attrs").toList.mapM attrOf }

def nsOf (j : Json) : Except String Namespace := do
  pure { name := ← jstr j "name", imports := ← strList j "imports",
         annTypes := ← (← jarr j "annTypes").toList.mapM annOf,
         types := ← (← jarr j "types").toList.mapM typeOf,
         aliases := ← (← jarr j "aliases").toList.mapM aliasOf,
         routes := ← (← jarr j "routes").toList.mapM routeOf }

def apiOf (j : Json) : Except String Api := do
  pure { namespaces := ← (← jarr j "namespaces").toList.mapM nsOf }

def jopts : Option String → Json
  | none => .null
  | some s => .str s

def refJ (r : Ref) : Json := Json.arr #[jopts r.mod, .str r.name, jopts r.attr]
def strsJ (l : List String) : Json := Json.arr (l.map Json.str).toArray

def stmtJ : Stmt → Json
  | .imp m => Json.mkObj [("k", "imp"), ("m", .str m)]
  | .cls n b body ctor => Json.mkObj [("k", "cls"), ("name", .str n),
      ("base", match b with | some r => refJ r | none => .null), ("body", strsJ body),
      ("ctor", match ctor with | some c => strsJ c | none => .null)]
  | .assign t a c uses => Json.mkObj [("k", "assign"), ("t", .str t), ("a", jopts a),
      ("copy", match c with | some r => refJ r | none => .null), ("uses", Json.arr (uses.map refJ).toArray)]
  | .expr uses => Json.mkObj [("k", "expr"), ("uses", Json.arr (uses.map refJ).toArray)]

def refText (r : Ref) : String :=
  (match r.mod with | some m => m ++ "." | none => "") ++ r.name ++ (match r.attr with | some a => "." ++ a | none => "")

def errText : Err → String
  | .nameError cur r => s!"NameError in {cur}: {refText r}"
  | .attrError cur r => s!"AttributeError in {cur}: {refText r}"
  | .notAClass cur r => s!"TypeError in {cur}: base {refText r} is not a class"
  | .noModule m => s!"ImportError: no module {m}"
  | .fuel => "fuel"

def handle (op : String) (j : Json) : Except String Json := do
  match op with
  | "decl.py.fmt" =>
    let names ← strList j "names"
    pure (ok [("ok", Json.arr (names.map fun n => strsJ
      [fmtClass n, fmtFunc n, fmtVar n, fmtFunc n true, fmtVar n true, fmtFunc n false 2, fmtNamespace n]).toArray)])
  | "decl.py.stmts" =>
    let api ← apiOf (← jobj j "api")
    let mods := pyModules api
    let imports := mods.map fun (m, _) =>
      Json.arr #[.str m, .str (match importAll mods m with | .ok _ => "ok" | .error e => errText e)]
    pure (ok [
      ("modules", Json.arr (mods.map fun (m, ss) => Json.arr #[.str m, Json.arr (ss.map stmtJ).toArray]).toArray),
      ("apiWF", .bool (apiWF api)),
      ("notWF", strsJ ((api.namespaces.filter fun ns => !nsWF api ns).map (·.name))),
      ("acyclic", .bool (acyclicB api)),
      ("imports", Json.arr imports.toArray)])
  | _ => throw s!"unknown op {op}"

end Driver.DeclPy
