import Driver.Util
/-! Protocol handlers of the `cli.*` suites. -/
open Lean
namespace Driver.Cli

def handle (op : String) (_j : Json) : Except String Json := do
  throw s!"unknown op {op}"

end Driver.Cli
