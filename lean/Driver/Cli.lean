import Driver.Util
import StoneVerif.Model.Cli
/-! Protocol handlers of the `cli.*` suites (C19).

Literal encoding (both directions): `{"k":"null"}`, `{"k":"bool","v":true}`, `{"k":"int","v":"-12"}`,
`{"k":"float","m":"-12345","e":"-9"}` (the decimal m·10^e; on input also `{"k":"float","t":"1.5e-07"}`,
Python's `repr`), `{"k":"str","v":"…"}`, `{"k":"other"}`.
Trees: `["pred", "=" | "!=", attr, lit]`, `["conj", "and" | "or", lhs, rhs]`. -/
open Lean
namespace Driver.Cli
open StoneVerif StoneVerif.Cli

def s2l (s : String) : List Char := s.toList
def l2s (l : List Char) : String := String.ofList l
def jname (n : Cli.Name) : Json := Json.str (l2s n)
def jintS (n : Int) : Json := Json.str (toString n)

def litToJson : Lit → Json
  | .null => Json.mkObj [("k", "null")]
  | .bool b => Json.mkObj [("k", "bool"), ("v", Json.bool b)]
  | .int n => Json.mkObj [("k", "int"), ("v", jintS n)]
  | .float m e => Json.mkObj [("k", "float"), ("m", jintS m), ("e", jintS e)]
  | .str s => Json.mkObj [("k", "str"), ("v", jname s)]
  | .other => Json.mkObj [("k", "other")]

def intOfStr (s : String) : Except String Int :=
  match s.toInt? with
  | some n => pure n
  | none => throw s!"bad integer {s}"

/-- `[+-]?digits[.digits][e[+-]?digits]` (Python `repr(float)` of a finite value) as m·10^e -/
def decOfText (t : List Char) : Except String (Int × Int) := do
  let (neg, r0) := match t with
    | '-' :: r => (true, r)
    | '+' :: r => (false, r)
    | r => (false, r)
  let ip := r0.takeWhile Cli.isDigit
  let r1 := r0.dropWhile Cli.isDigit
  let (fp, r2) := match r1 with
    | '.' :: r => (r.takeWhile Cli.isDigit, r.dropWhile Cli.isDigit)
    | r => ([], r)
  if ip.isEmpty && fp.isEmpty then throw s!"bad decimal {l2s t}"
  let ex : Int ← match r2 with
    | [] => pure 0
    | 'e' :: '-' :: x => if x.all Cli.isDigit && !x.isEmpty then pure (-(Cli.natOfDigits x : Int)) else throw "bad exponent"
    | 'e' :: '+' :: x => if x.all Cli.isDigit && !x.isEmpty then pure (Cli.natOfDigits x : Int) else throw "bad exponent"
    | 'e' :: x => if x.all Cli.isDigit && !x.isEmpty then pure (Cli.natOfDigits x : Int) else throw "bad exponent"
    | _ => throw s!"bad decimal {l2s t}"
  let m : Int := (Cli.natOfDigits (ip ++ fp) : Int)
  pure (if neg then -m else m, ex - fp.length)

def litOfJson (j : Json) : Except String Lit := do
  let k ← jstr j "k"
  match k with
  | "null" => pure .null
  | "bool" => pure (.bool (← jbool j "v"))
  | "int" => pure (.int (← intOfStr (← jstr j "v")))
  | "float" =>
    match jopt j "t" with
    | some t => do
      let (m, e) ← decOfText (s2l (← t.getStr?))
      pure (.float m e)
    | none => pure (.float (← intOfStr (← jstr j "m")) (← intOfStr (← jstr j "e")))
  | "str" => pure (.str (s2l (← jstr j "v")))
  | "other" => pure .other
  | _ => throw s!"bad literal kind {k}"

def tokToJson : Tok → Json
  | .id s => Json.arr #["ID", jname s]
  | .lpar => Json.arr #["LPAR", "("]
  | .rpar => Json.arr #["RPAR", ")"]
  | .and => Json.arr #["AND", "and"]
  | .or => Json.arr #["OR", "or"]
  | .neq => Json.arr #["NEQ", "!="]
  | .eq => Json.arr #["EQ", "="]
  | .lit l =>
    let ty := match l with
      | .null => "NULL" | .bool _ => "BOOLEAN" | .int _ => "INTEGER" | .float _ _ => "FLOAT"
      | .str _ => "STRING" | .other => "OTHER"
    Json.arr #[ty, litToJson l]

def exprToJson : Expr → Json
  | .pred op a v => Json.arr #["pred", (match op with | .eq => "=" | .neq => "!="), jname a, litToJson v]
  | .conj c l r => Json.arr #["conj", (match c with | .and => "and" | .or => "or"), exprToJson l, exprToJson r]

partial def exprOfJson (j : Json) : Except String Expr := do
  let a ← j.getArr?
  match a.toList with
  | [tag, x, y, z] =>
    match (← tag.getStr?) with
    | "pred" =>
      let op ← match (← x.getStr?) with
        | "=" => pure Op.eq
        | "!=" => pure Op.neq
        | o => throw s!"bad op {o}"
      pure (.pred op (s2l (← y.getStr?)) (← litOfJson z))
    | "conj" =>
      let c ← match (← x.getStr?) with
        | "and" => pure Conj.and
        | "or" => pure Conj.or
        | o => throw s!"bad conj {o}"
      pure (.conj c (← exprOfJson y) (← exprOfJson z))
    | t => throw s!"bad tree tag {t}"
  | _ => throw "bad tree"

def attrsOfJson (j : Json) : Except String Attrs := do
  let a ← j.getArr?
  a.toList.mapM fun p => do
    match (← p.getArr?).toList with
    | [k, v] => pure (s2l (← k.getStr?), ← litOfJson v)
    | _ => throw "attr pair expected"

def attrsToJson (a : Attrs) : Json :=
  Json.arr (a.map fun (k, v) => Json.arr #[jname k, litToJson v]).toArray

def filterErrToJson : FilterError → Json
  | .illegalChars cs => Json.mkObj [("error", "lex"), ("chars", Json.arr (cs.map fun c => Json.str (String.singleton c)).toArray)]
  | .syntax _ => Json.mkObj [("error", "syntax")]

def routeOfJson (j : Json) : Except String Route := do
  pure { name := s2l (← jstr j "name"), version := ← intOfStr (← jstr j "version"),
         attrs := ← attrsOfJson (← jobj j "attrs") }

def routeToJson (r : Route) : Json :=
  Json.mkObj [("name", jname r.name), ("version", jintS r.version), ("attrs", attrsToJson r.attrs)]

def nsOfJson (j : Json) : Except String Namespace := do
  let routes ← (← jarr j "routes").toList.mapM routeOfJson
  let rbn ← (← jarr j "route_by_name").toList.mapM fun p => do
    match (← p.getArr?).toList with
    | [k, r] => pure (s2l (← k.getStr?), ← routeOfJson r)
    | _ => throw "route_by_name pair expected"
  let rsbn ← (← jarr j "routes_by_name").toList.mapM fun p => do
    match (← p.getArr?).toList with
    | [k, vs] => do
      let inner ← (← vs.getArr?).toList.mapM fun q => do
        match (← q.getArr?).toList with
        | [v, r] => pure (← intOfStr (← v.getStr?), ← routeOfJson r)
        | _ => throw "at_version pair expected"
      pure (s2l (← k.getStr?), inner)
    | _ => throw "routes_by_name pair expected"
  pure { name := s2l (← jstr j "name"), routes := routes, routeByName := rbn, routesByName := rsbn,
         dataTypes := (← strList j "data_types").map s2l }

def nsToJson (ns : Namespace) : Json :=
  Json.mkObj [
    ("name", jname ns.name),
    ("routes", Json.arr (ns.routes.map routeToJson).toArray),
    ("route_by_name", Json.arr (ns.routeByName.map fun (k, r) => Json.arr #[jname k, routeToJson r]).toArray),
    ("routes_by_name", Json.arr (ns.routesByName.map fun (k, vs) =>
      Json.arr #[jname k, Json.arr (vs.map fun (v, r) => Json.arr #[jintS v, routeToJson r]).toArray]).toArray),
    ("data_types", Json.arr (ns.dataTypes.map jname).toArray)]

def apiOfJson (j : Json) : Except String Api := do
  pure { namespaces := ← (← jarr j "namespaces").toList.mapM nsOfJson,
         schema := (← strList j "schema").map s2l,
         schemaByName := (← strList j "schema_by_name").map s2l,
         schemaInherited := match jopt j "schema_inherited" with
           | some v => ((v.getArr?.toOption.getD #[]).toList.filterMap fun x => x.getStr?.toOption).map s2l
           | none => [] }

def apiToJson (a : Api) : Json :=
  Json.mkObj [("namespaces", Json.arr (a.namespaces.map nsToJson).toArray),
              ("schema", Json.arr (a.schema.map jname).toArray),
              ("schema_by_name", Json.arr (a.schemaByName.map jname).toArray),
              ("schema_inherited", Json.arr (a.schemaInherited.map jname).toArray)]

def optsOfJson (j : Json) : Except String Opts := do
  let f ← match jopt j "f" with
    | some t => do pure (some (s2l (← t.getStr?)))
    | none => pure none
  pure { filter := f, whitelist := (← strList j "w").map s2l, blacklist := (← strList j "b").map s2l,
         attributes := (← strList j "a").map s2l }

def cliErrToJson : CliError → Json
  | .routeFilter _ => Json.mkObj [("error", "route-filter")]
  | .whitelistMissing n => Json.mkObj [("error", "whitelist-missing"), ("name", jname n)]
  | .blacklistMissing n => Json.mkObj [("error", "blacklist-missing"), ("name", jname n)]
  | .attributeUndefined c => Json.mkObj [("error", "attribute-undefined"), ("names", Json.arr (c.map jname).toArray)]

/-- the expression of a request: `tree` (already parsed) or `text` -/
def exprOfReq (j : Json) : Except String (Except FilterError Expr) := do
  match jopt j "tree" with
  | some t => pure (.ok (← exprOfJson t))
  | none => pure (parseFilter (s2l (← jstr j "text")))

def optBool : Option Bool → Json
  | some b => Json.bool b
  | none => Json.null

def handle (op : String) (j : Json) : Except String Json := do
  match op with
  | "cli.lex" =>
    let l := Cli.lex (s2l (← jstr j "text"))
    pure <| ok [("toks", Json.arr (l.toks.map tokToJson).toArray),
                ("errors", Json.arr (l.errors.map fun c => Json.str (String.singleton c)).toArray)]
  | "cli.parse" =>
    match parseFilter (s2l (← jstr j "text")) with
    | .ok e => pure <| ok [("tree", exprToJson e)]
    | .error fe => pure (filterErrToJson fe)
  | "cli.eval" =>
    let routes ← (← jarr j "routes").toList.mapM attrsOfJson
    match ← exprOfReq j with
    | .ok e => pure <| ok [("vals", Json.arr (routes.map fun r => Json.bool (e.eval r)).toArray)]
    | .error fe => pure (filterErrToJson fe)
  | "cli.evalspec" =>
    let routes ← (← jarr j "routes").toList.mapM attrsOfJson
    match ← exprOfReq j with
    | .ok e => pure <| ok [("vals", Json.arr (routes.map fun r => optBool (evalSpec e r)).toArray)]
    | .error fe => pure (filterErrToJson fe)
  | "cli.prune" =>
    let api ← apiOfJson (← jobj j "api")
    let o ← optsOfJson (← jobj j "opts")
    match prune o api with
    | .ok a => pure <| ok [("api", apiToJson a)]
    | .error e => pure (cliErrToJson e)
  | _ => throw s!"unknown op {op}"

end Driver.Cli
