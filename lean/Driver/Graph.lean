import Driver.Util
import StoneVerif.Model.Graph
/-! Protocol handlers of the `graph.*` suites (C20, and the ordering part of C02).

Graph dump (`harness/suites/graph.py: dump_graph`):
`{"nodes":[{"id","kind","ns","name","version","parent","fields":[{"name","ty","dflt","tagdef","docs"}],
"subtypes","target","docs","arg","result","error"}], "namespaces":[{"name","docs","routes","types","aliases"}]}`
type expressions: `"p"` | `["l",t]` | `["m",k,v]` | `["n",t]` | `["r",id]`; doc references: `[tag, val]`. -/
open Lean
namespace Driver.Graph
open StoneVerif StoneVerif.Graph

partial def tyOfJson (j : Json) : Except String TyExpr := do
  match j with
  | .str "p" => pure .prim
  | .arr a =>
    match a.toList with
    | [.str "l", t] => do pure (.list (← tyOfJson t))
    | [.str "n", t] => do pure (.nullable (← tyOfJson t))
    | [.str "m", k, v] => do pure (.map (← tyOfJson k) (← tyOfJson v))
    | [.str "r", .str i] => pure (.ref i)
    | _ => throw "bad type expression"
  | _ => throw "bad type expression"

def docRefsOf (j : Json) (k : String) : Except String (List DocRef) := do
  match jopt j k with
  | none => pure []
  | some v =>
    let a ← v.getArr?
    a.toList.mapM fun p => do
      let q ← p.getArr?
      match q.toList with
      | [.str t, .str v] => pure { tag := t, val := v }
      | _ => throw "bad doc reference"

def optStr (j : Json) (k : String) : Except String (Option String) :=
  match jopt j k with
  | none => pure none
  | some v => do pure (some (← v.getStr?))

def optTy (j : Json) (k : String) : Except String TyExpr :=
  match jopt j k with
  | none => pure .prim
  | some v => tyOfJson v

def optStrList (j : Json) (k : String) : Except String (List String) :=
  match jopt j k with
  | none => pure []
  | some v => do (← v.getArr?).toList.mapM asStr

def fieldOfJson (j : Json) : Except String Field := do
  pure { name := ← jstr j "name"
         ty := ← optTy j "ty"
         hasDefault := (jbool j "dflt").toOption.getD false
         tagDefault := ← optStr j "tagdef"
         docRefs := ← docRefsOf j "docs" }

def kindOf (s : String) : Except String Kind :=
  match s with
  | "struct" => pure .struct
  | "union" => pure .union
  | "alias" => pure .alias
  | "route" => pure .route
  | _ => throw s!"bad kind {s}"

def nodeOfJson (j : Json) : Except String Node := do
  let fields ← match jopt j "fields" with
    | none => pure []
    | some v => do (← v.getArr?).toList.mapM fieldOfJson
  pure { id := ← jstr j "id"
         kind := ← kindOf (← jstr j "kind")
         ns := ← jstr j "ns"
         name := ← jstr j "name"
         version := (jnat j "version").toOption.getD 1
         parent := ← optStr j "parent"
         fields := fields
         subtypes := ← optStrList j "subtypes"
         target := ← optTy j "target"
         docRefs := ← docRefsOf j "docs"
         arg := ← optTy j "arg"
         result := ← optTy j "result"
         error := ← optTy j "error" }

def nsOfJson (j : Json) : Except String Namespace := do
  pure { name := ← jstr j "name"
         docRefs := ← docRefsOf j "docs"
         routes := ← optStrList j "routes"
         dataTypes := ← optStrList j "types"
         aliases := ← optStrList j "aliases"
         annotations := ← optStrList j "annotations"
         annotationTypes := ← optStrList j "annotation_types" }

def graphOfJson (j : Json) : Except String Graph := do
  let g ← jobj j "graph"
  let nodes ← (← jarr g "nodes").toList.mapM nodeOfJson
  let nss ← (← jarr g "namespaces").toList.mapM nsOfJson
  pure { nodes := nodes, namespaces := nss }

def wlPart (j : Json) (k : String) : Except String (List (String × List String)) := do
  let ps ← pairList j k
  ps.mapM fun (ns, v) => do
    let a ← v.getArr?
    pure (ns, ← a.toList.mapM asStr)

def jids (l : List String) : Json := Json.arr (l.toArray.map Json.str)

def errToJson : Err → Json
  | .keyError w => Json.mkObj [("kind", "KeyError"), ("what", w)]
  | .assertion w => Json.mkObj [("kind", "AssertionError"), ("what", w)]
  | .valueError w => Json.mkObj [("kind", "ValueError"), ("what", w)]
  | .recursion => Json.mkObj [("kind", "recursion")]
  | .dangling i => Json.mkObj [("kind", "dangling"), ("what", i)]

def exceptIds (r : Except Err (List Id)) : Json :=
  match r with
  | .ok l => Json.mkObj [("ok", jids l)]
  | .error e => Json.mkObj [("error", errToJson e)]

def ownedToJson (l : List (Id × Field)) : Json :=
  Json.arr (l.toArray.map fun (o, f) => Json.arr #[Json.str o, Json.str f.name])

def exceptOwned (r : Except Err (List (Id × Field))) : Json :=
  match r with
  | .ok l => Json.mkObj [("ok", ownedToJson l)]
  | .error e => Json.mkObj [("error", errToJson e)]

def hypsToJson (h : Hyps) : Json :=
  Json.mkObj [("refs_ok", Json.bool h.refsOk), ("docs_agree", Json.bool h.docsAgree),
    ("tag_defaults_ok", Json.bool h.tagDefaultsOk), ("route_docs_closed", Json.bool h.routeDocsClosed),
    ("seed_doc_routes_kept", Json.bool h.seedDocRoutesKept)]

def handle (op : String) (j : Json) : Except String Json := do
  match op with
  | "graph.closure" =>
    let g ← graphOfJson j
    let sd ← strList j "seeds"
    pure (ok [("closure", jids (closure g sd)), ("refs_ok", Json.bool g.refsOk)])
  | "graph.filter" =>
    let g ← graphOfJson j
    let wl : Whitelist := { routes := ← wlPart j "route_whitelist", datatypes := ← wlPart j "datatype_whitelist" }
    let sd := seeds g wl
    let res := match whitelistFilter g wl with
      | .error e => Json.mkObj [("error", errToJson e)]
      | .ok r => Json.mkObj [("ok", Json.mkObj [
          ("types", jids r.types), ("routes", jids r.routes), ("aliases", jids r.aliases),
          ("reached_aliases", jids (r.reachedAliases g)), ("start", jids r.start)])]
    pure (ok [("result", res), ("seeds", jids sd), ("closure", jids (closure g sd)),
              ("refs_ok", Json.bool g.refsOk), ("hyps", hypsToJson (checkHyps g wl))])
  | "graph.linearize" =>
    let g ← graphOfJson j
    let per := g.namespaces.map fun n =>
      let nn := n.normalize g
      Json.mkObj [("name", n.name),
        ("types", exceptIds (linearizeDataTypes g n.name n.dataTypes)),
        ("aliases", exceptIds (linearizeAliases g n.name n.aliases)),
        ("hyps_ok", Json.bool (ownListB g n.name n.dataTypes && ownListB g n.name n.aliases
          && linkClosedB g n.name parentLink n.dataTypes && aliasClosedB g n.name n.aliases
          && n.dataTypes.eraseDups.length == n.dataTypes.length && n.aliases.eraseDups.length == n.aliases.length)),
        ("norm_routes", jids nn.routes), ("norm_types", jids nn.dataTypes), ("norm_aliases", jids nn.aliases),
        ("norm_annotations", jids nn.annotations), ("norm_annotation_types", jids nn.annotationTypes)]
    pure (ok [("namespaces", Json.arr per.toArray),
              ("norm_namespaces", jids ((normalize g).namespaces.map (·.name)))])
  | "graph.allfields" =>
    let g ← graphOfJson j
    let per := (g.nodes.filter (·.isType)).map fun n =>
      Json.mkObj [("id", n.id), ("all", exceptOwned (allFields g n.id)),
        ("required", exceptOwned (if n.kind == .struct then allRequired g n.id else .ok [])),
        ("optional", exceptOwned (if n.kind == .struct then allOptional g n.id else .ok []))]
    pure (ok [("types", Json.arr per.toArray)])
  | _ => throw s!"unknown op {op}"

end Driver.Graph
