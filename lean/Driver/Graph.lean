import Driver.Util
/-! Protocol handlers of the `graph.*` suites. -/
open Lean
namespace Driver.Graph

def handle (op : String) (_j : Json) : Except String Json := do
  throw s!"unknown op {op}"

end Driver.Graph
