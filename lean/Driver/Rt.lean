import Driver.Util
/-! Protocol handlers of the `rt.*` suites. -/
open Lean
namespace Driver.Rt

def handle (op : String) (_j : Json) : Except String Json := do
  throw s!"unknown op {op}"

end Driver.Rt
