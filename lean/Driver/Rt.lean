import Driver.Util
import Std.Data.HashMap
import StoneVerif.Model.Rt.Types
import StoneVerif.Model.Rt.Tables
import StoneVerif.Model.Rt.Validate
import StoneVerif.Model.Rt.Encode
import StoneVerif.Model.Rt.Decode
import StoneVerif.Model.Rt.Ir
import StoneVerif.Model.Rt.Spec
import StoneVerif.Model.Rt.WF
import StoneVerif.Model.Rt.WFExtra
import StoneVerif.Model.Rt.SpecC06
import StoneVerif.Model.Rt.SpecC08
import StoneVerif.Model.Rt.SpecC13
import StoneVerif.Model.Rt.RoundTripSpec
/-! Protocol handlers of the `rt.*` suites (C04–C08, C10, C13). -/
open Lean
namespace Driver.Rt
open StoneVerif.Rt

abbrev P := Except String

def optOf {α} (f : Json → P α) (j : Json) : P (Option α) :=
  match j with
  | .null => pure none
  | _ => do pure (some (← f j))

def natOf (j : Json) : P Nat := j.getNat?
def intOf' (j : Json) : P Int := j.getInt?
def strOf (j : Json) : P String := j.getStr?
def boolOf (j : Json) : P Bool := j.getBool?
def arrOf (j : Json) : P (List Json) := do pure (← j.getArr?).toList

def redactorOf (j : Json) : P Redactor := do
  match ← arrOf j with
  | [k, r] =>
    let re ← optOf strOf r
    match ← strOf k with
    | "blot" => pure (.blot re)
    | "hash" => pure (.hash re)
    | s => throw s!"redactor kind {s}"
  | _ => throw "redactor"

partial def irTyOf (j : Json) : P IrTy := do
  match ← arrOf j with
  | [k] => match ← strOf k with
    | "Boolean" => pure .bool
    | "Bytes" => pure .bytes
    | "Void" => pure .void
    | s => throw s!"irty {s}"
  | [k, a] => match ← strOf k with
    | "Timestamp" => pure (.ts (← strOf a))
    | "Nullable" => pure (.nullable (← irTyOf a))
    | "Union" => pure (.union (← strOf a))
    | s => throw s!"irty/2 {s}"
  | [k, a, b] => match ← strOf k with
    | "Map" => pure (.map (← irTyOf a) (← irTyOf b))
    | "Struct" => pure (.struct (← strOf a) (← boolOf b))
    | "Int32" | "UInt32" | "Int64" | "UInt64" => pure (.int (← strOf k) (← optOf intOf' a) (← optOf intOf' b))
    | "Float32" | "Float64" => pure (.float (← strOf k) (← optOf natOf a) (← optOf natOf b))
    | s => throw s!"irty/3 {s}"
  | [k, a, b, c] => match ← strOf k with
    | "String" => pure (.str (← optOf natOf a) (← optOf natOf b) (← optOf strOf c))
    | "List" => pure (.list (← irTyOf a) (← optOf natOf b) (← optOf natOf c))
    | "Alias" => pure (.alias (← strOf a) (← optOf redactorOf b) (← irTyOf c))
    | s => throw s!"irty/4 {s}"
  | _ => throw "irty arity"

partial def pyValOf (j : Json) : P PyVal := do
  match ← arrOf j with
  | [k] => match ← strOf k with
    | "n" => pure .none
    | s => throw s!"pyval {s}"
  | [k, a] => match ← strOf k with
    | "b" => pure (.bool (← boolOf a))
    | "i" => pure (.int (← intOf' a))
    | "f" => pure (.flt (← natOf a))
    | "s" => pure (.str (← strOf a))
    | "y" => pure (.bytes (← strOf a))
    | "l" => pure (.list (← (← arrOf a).mapM pyValOf))
    | "u" => pure (.tuple (← (← arrOf a).mapM pyValOf))
    | "d" => do
      let kvs ← (← arrOf a).mapM fun p => do
        match ← arrOf p with
        | [x, y] => pure (← pyValOf x, ← pyValOf y)
        | _ => throw "dict pair"
      pure (.dict kvs)
    | "o" => pure (.other (← strOf a))
    | s => throw s!"pyval/2 {s}"
  | [k, a, b] => match ← strOf k with
    | "t" => pure (.ts (← natOf a) (← boolOf b))
    | "S" => do
      let slots ← (← arrOf b).mapM fun p => do
        match ← arrOf p with
        | [x, y] => pure (← strOf x, ← pyValOf y)
        | _ => throw "slot pair"
      pure (.struct (← strOf a) slots)
    | s => throw s!"pyval/3 {s}"
  | [k, a, b, c] => match ← strOf k with
    | "U" => pure (.union (← strOf a) (← strOf b) (← pyValOf c))
    | s => throw s!"pyval/4 {s}"
  | _ => throw "pyval arity"

partial def jsonOf (j : Json) : P JVal := do
  match ← arrOf j with
  | [k] => match ← strOf k with
    | "n" => pure .null
    | s => throw s!"json {s}"
  | [k, a] => match ← strOf k with
    | "b" => pure (.bool (← boolOf a))
    | "i" => pure (.int (← intOf' a))
    | "f" => pure (.flt (← natOf a))
    | "s" => pure (.str (← strOf a))
    | "a" => pure (.arr (← (← arrOf a).mapM jsonOf))
    | "o" => do
      let kvs ← (← arrOf a).mapM fun p => do
        match ← arrOf p with
        | [x, y] => pure (← strOf x, ← jsonOf y)
        | _ => throw "obj pair"
      pure (.obj kvs)
    | s => throw s!"json/2 {s}"
  | _ => throw "json arity"

partial def pyValTo : PyVal → Json
  | .none => Json.arr #["n"]
  | .bool b => Json.arr #["b", b]
  | .int n => Json.arr #["i", Json.num (JsonNumber.fromInt n)]
  | .flt x => Json.arr #["f", Json.num (JsonNumber.fromNat x)]
  | .str s => Json.arr #["s", s]
  | .bytes h => Json.arr #["y", h]
  | .ts id ok => Json.arr #["t", Json.num (JsonNumber.fromNat id), ok]
  | .list xs => Json.arr #["l", Json.arr (xs.map pyValTo).toArray]
  | .tuple xs => Json.arr #["u", Json.arr (xs.map pyValTo).toArray]
  | .dict kvs => Json.arr #["d", Json.arr (kvs.map fun (k, v) => Json.arr #[pyValTo k, pyValTo v]).toArray]
  | .struct c slots => Json.arr #["S", c, Json.arr (slots.map fun (k, v) => Json.arr #[Json.str k, pyValTo v]).toArray]
  | .union c t v => Json.arr #["U", c, t, pyValTo v]
  | .other n => Json.arr #["o", n]

partial def jsonTo : JVal → Json
  | .null => Json.arr #["n"]
  | .bool b => Json.arr #["b", b]
  | .int n => Json.arr #["i", Json.num (JsonNumber.fromInt n)]
  | .flt x => Json.arr #["f", Json.num (JsonNumber.fromNat x)]
  | .str s => Json.arr #["s", s]
  | .arr xs => Json.arr #["a", Json.arr (xs.map jsonTo).toArray]
  | .obj kvs => Json.arr #["o", Json.arr (kvs.map fun (k, v) => Json.arr #[Json.str k, jsonTo v]).toArray]

def optTo {α} (f : α → Json) : Option α → Json
  | some a => f a
  | none => Json.null

def redactorTo : Redactor → Json
  | .blot r => Json.arr #["blot", optTo Json.str r]
  | .hash r => Json.arr #["hash", optTo Json.str r]

def flagsTo (fl : Flags) : Json :=
  Json.mkObj [("n", fl.nullable), ("ro", optTo redactorTo fl.redactOuter), ("ri", optTo redactorTo fl.redactInner)]

def natTo (n : Nat) : Json := Json.num (JsonNumber.fromNat n)
def intTo (n : Int) : Json := Json.num (JsonNumber.fromInt n)

partial def ptyTo : PTy → Json
  | .bool fl => Json.mkObj [("k", "Boolean"), ("fl", flagsTo fl)]
  | .int fl c lo hi => Json.mkObj [("k", c), ("fl", flagsTo fl), ("lo", intTo lo), ("hi", intTo hi)]
  | .float fl c lo hi => Json.mkObj [("k", c), ("fl", flagsTo fl), ("lo", optTo natTo lo), ("hi", optTo natTo hi)]
  | .str fl a b p => Json.mkObj [("k", "String"), ("fl", flagsTo fl), ("min", optTo natTo a), ("max", optTo natTo b), ("pat", optTo Json.str p)]
  | .bytes fl => Json.mkObj [("k", "Bytes"), ("fl", flagsTo fl)]
  | .ts fl f => Json.mkObj [("k", "Timestamp"), ("fl", flagsTo fl), ("fmt", f)]
  | .void fl => Json.mkObj [("k", "Void"), ("fl", flagsTo fl)]
  | .list fl i a b => Json.mkObj [("k", "List"), ("fl", flagsTo fl), ("item", ptyTo i), ("min", optTo natTo a), ("max", optTo natTo b)]
  | .map fl k v => Json.mkObj [("k", "Map"), ("fl", flagsTo fl), ("key", ptyTo k), ("val", ptyTo v)]
  | .struct fl c => Json.mkObj [("k", "Struct"), ("fl", flagsTo fl), ("cls", c)]
  | .tree fl c => Json.mkObj [("k", "StructTree"), ("fl", flagsTo fl), ("cls", c)]
  | .union fl c => Json.mkObj [("k", "Union"), ("fl", flagsTo fl), ("cls", c)]

def tyOf (j : Json) : P PTy := do
  match validatorOf (← irTyOf j) with
  | some t => pure t
  | none => throw "validatorOf: constructor would raise"

def fieldOf (j : Json) : P FieldDef := do
  let ir ← irTyOf (← jobj j "ty")
  let red ← optOf redactorOf ((jopt j "red").getD .null)
  let t ← match validatorOf ir with
    | some t => pure (setRedact red t)
    | none => throw "validatorOf(field)"
  let inner := match ir with
    | .nullable _ => true
    | _ => false
  pure { name := ← jstr j "name", ty := t, attrNullable := inner, attrUserDefined := ir.isUserDefinedLit,
         dflt := ← optOf pyValOf ((jopt j "dflt").getD .null), omitted := ← optOf strOf ((jopt j "om").getD .null) }

def tagOf (j : Json) : P TagDef := do
  let ir ← irTyOf (← jobj j "ty")
  let red ← optOf redactorOf ((jopt j "red").getD .null)
  let t ← match validatorOf ir with
    | some t => pure (setRedact red t)
    | none => throw "validatorOf(tag)"
  pure { name := ← jstr j "name", ty := t, omitted := ← optOf strOf ((jopt j "om").getD .null) }

def envOf (j : Json) : P Env := do
  let structs ← (← jarr j "structs").toList.mapM fun s => do
    let levels ← (← jarr s "levels").toList.mapM fun l => do
      pure ({ cls := ← jstr l "cls", fields := ← (← jarr l "fields").toList.mapM fieldOf } : Level)
    let subtypes ← match jopt s "subtypes" with
      | none => pure none
      | some st => do
        let xs ← (← arrOf st).mapM fun e => do
          match ← arrOf e with
          | [tags, c, tr] => pure ((← (← arrOf tags).mapM strOf), ← strOf c, ← boolOf tr)
          | _ => throw "subtype entry"
        pure (some xs)
    pure ({ cls := ← jstr s "cls", levels, subtypes, catchAll := ← jbool s "catchAll" } : StructDef)
  let unions ← (← jarr j "unions").toList.mapM fun u => do
    let levels ← (← jarr u "levels").toList.mapM fun l => do
      pure ({ cls := ← jstr l "cls", tags := ← (← jarr l "tags").toList.mapM tagOf } : ULevel)
    pure ({ cls := ← jstr u "cls", levels, catchAll := ← optOf strOf ((jopt u "catchAll").getD .null) } : UnionDef)
  pure { structs, unions }

/-! ### external-call tables -/

structure ExtTables where
  fltOfInt : Std.HashMap Int (Option Nat) := {}
  pat : Std.HashMap (String × String) Bool := {}
  b64enc : Std.HashMap String String := {}
  b64dec : Std.HashMap String (Option (Option String)) := {}
  strftime : Std.HashMap (String × Nat) String := {}
  strptime : Std.HashMap (String × String) (Option Nat) := {}
  md5 : Std.HashMap String String := {}
  re : Std.HashMap (String × String) (Option (List String)) := {}
  strOfFlt : Std.HashMap Nat String := {}

def extTablesOf (j : Json) : P ExtTables := do
  let rows (k : String) : P (List (List Json)) := do
    match jopt j k with
    | none => pure []
    | some a => (← arrOf a).mapM arrOf
  let mut t : ExtTables := {}
  for r in ← rows "fltOfInt" do
    match r with
    | [a, b] => t := { t with fltOfInt := t.fltOfInt.insert (← intOf' a) (← optOf natOf b) }
    | _ => throw "fltOfInt row"
  for r in ← rows "pat" do
    match r with
    | [a, b, c] => t := { t with pat := t.pat.insert (← strOf a, ← strOf b) (← boolOf c) }
    | _ => throw "pat row"
  for r in ← rows "b64enc" do
    match r with
    | [a, b] => t := { t with b64enc := t.b64enc.insert (← strOf a) (← strOf b) }
    | _ => throw "b64enc row"
  for r in ← rows "b64dec" do
    match r with
    | [a, b] =>
      -- value: hex string | "!binascii" | "!value"
      let v ← strOf b
      let e : Option (Option String) := if v == "!value" then none else if v == "!binascii" then some none else some (some v)
      t := { t with b64dec := t.b64dec.insert (← strOf a) e }
    | _ => throw "b64dec row"
  for r in ← rows "strftime" do
    match r with
    | [a, b, c] => t := { t with strftime := t.strftime.insert (← strOf a, ← natOf b) (← strOf c) }
    | _ => throw "strftime row"
  for r in ← rows "strptime" do
    match r with
    | [a, b, c] => t := { t with strptime := t.strptime.insert (← strOf a, ← strOf b) (← optOf natOf c) }
    | _ => throw "strptime row"
  for r in ← rows "md5" do
    match r with
    | [a, b] => t := { t with md5 := t.md5.insert (← strOf a) (← strOf b) }
    | _ => throw "md5 row"
  for r in ← rows "re" do
    match r with
    | [a, b, c] =>
      let g ← optOf (fun x => do (← arrOf x).mapM strOf) c
      t := { t with re := t.re.insert (← strOf a, ← strOf b) g }
    | _ => throw "re row"
  for r in ← rows "strOfFlt" do
    match r with
    | [a, b] => t := { t with strOfFlt := t.strOfFlt.insert (← natOf a) (← strOf b) }
    | _ => throw "strOfFlt row"
  pure t

def fOf (b : Nat) : Float := Float.ofBits b.toUInt64

/-- `alt` selects which of two different answers a table miss gets (see `Ext`). -/
def mkExt (t : ExtTables) (alt : Bool) : Ext where
  fltLt a b := fOf a < fOf b
  fltIsNan a := (fOf a).isNaN
  fltIsInf a := (fOf a).isInf
  fltOfInt n := match t.fltOfInt[n]? with
    | some r => r
    | none => if alt then none else some 0
  patMatch p s := (t.pat[(p, s)]?).getD alt
  b64enc h := (t.b64enc[h]?).getD (if alt then "!MISS1" else "!MISS0")
  b64dec s := (t.b64dec[s]?).getD (if alt then none else some none)
  strftime f id := (t.strftime[(f, id)]?).getD (if alt then "!MISS1" else "!MISS0")
  strptime f s := (t.strptime[(f, s)]?).getD (if alt then none else some 999999999)
  md5 s := (t.md5[s]?).getD (if alt then "!MISS1" else "!MISS0")
  reSearch r s := (t.re[(r, s)]?).getD (if alt then none else some ["!MISS"])
  strOfInt n := toString n
  strOfFlt b := (t.strOfFlt[b]?).getD (if alt then "!MISS1" else "!MISS0")

structure State where
  env : Env := { structs := [], unions := [] }
  ext : ExtTables := {}

def resTo {α} (f : α → Json) : R α → Json
  | .ok a => Json.mkObj [("ok", f a)]
  | .error (.verr h) => Json.mkObj [("verr", h)]
  | .error (.crash e) => Json.mkObj [("crash", e)]

/-- evaluate under both miss policies; a difference means an external-call table was incomplete -/
def both (st : State) (f : Ext → Json) : Json :=
  let a := f (mkExt st.ext false)
  let b := f (mkExt st.ext true)
  if a.compress == b.compress then a else Json.mkObj [("protocol_error", "ext-miss"), ("a", a), ("b", b)]

def permsOf (j : Json) : P (List String) :=
  match jopt j "perms" with
  | some a => do (← arrOf a).mapM strOf
  | none => pure []

def handle (st : State) (op : String) (j : Json) : Except String (State × Json) := do
  match op with
  | "rt.ctx" =>
    let env ← match jopt j "env" with
      | some e => envOf e
      | none => pure st.env
    let ext ← match jopt j "ext" with
      | some e => extTablesOf e
      | none => pure st.ext
    pure ({ env, ext }, Json.mkObj [("ok", true), ("structs", natTo env.structs.length), ("unions", natTo env.unions.length),
      ("envWF", envWF env),
      -- every decidable environment hypothesis some theorem takes: `must` ones are asserted by the harness on
      -- every accepted spec, `restrict` ones delimit a _partial theorem and are only counted
      ("hyps", Json.mkObj [
        ("envWF", envWF env), ("envWFX", envWFX env), ("attrFlagsOk", attrFlagsOk env),
        ("fieldFlagsWF", fieldFlagsWF env), ("envRT", RoundTrip.envRT env),
        ("dfltsReflB", RoundTrip.dfltsReflB (mkExt ext false) env && RoundTrip.dfltsReflB (mkExt ext true) env)]),
      ("restrict", Json.mkObj [
        ("noCatchAllTrees", noCatchAllTrees env), ("noDefaultedTrees", noDefaultedTrees env)]),
      ("notWF", Json.arr ((env.structs.filter (fun s => !s.wf env)).map (fun s => Json.str s.cls) ++
                          (env.unions.filter (fun u => !u.wf env)).map (fun u => Json.str u.cls)).toArray)])
  | "rt.vdump" =>
    let t ← tyOf (← jobj j "ty")
    pure (st, Json.mkObj [("ok", ptyTo t)])
  | "rt.fields" =>
    -- the model's class tables for a struct: code-following and specification-level
    let cls ← jstr j "cls"
    let perms ← permsOf j
    match st.env.struct? cls with
    | none => throw s!"no struct {cls}"
    | some s =>
      let names (fs : List FieldDef) : Json := Json.arr (fs.map fun f => Json.str f.name).toArray
      pure (st, Json.mkObj [("code", names (s.fieldsFor perms)), ("spec", names (s.fieldsSpec perms))])
  | "rt.tags" =>
    let cls ← jstr j "cls"
    let perms ← permsOf j
    match st.env.union? cls with
    | none => throw s!"no union {cls}"
    | some u =>
      let all := u.levels.flatMap (·.tags)
      let code := all.filter fun t => u.isTagPresent t.name perms
      let names (fs : List TagDef) : Json := Json.arr (fs.map fun f => Json.str f.name).toArray
      pure (st, Json.mkObj [("code", names code), ("spec", names (u.tagsSpec perms)),
        ("ctor", names (all.filter fun t => (u.ctorValidator t.name).isSome))])
  | "rt.val" =>
    let t ← tyOf (← jobj j "ty")
    let v ← pyValOf (← jobj j "v")
    pure (st, both st fun E => resTo pyValTo (validate E st.env t v))
  | "rt.set" =>
    let o ← pyValOf (← jobj j "obj")
    let v ← pyValOf (← jobj j "v")
    let name ← jstr j "field"
    pure (st, both st fun E => resTo pyValTo (do
      let o' ← setField E st.env o name v
      let back ← getField st.env o' name
      pure (.tuple [o', back])))
  | "rt.get" =>
    let o ← pyValOf (← jobj j "obj")
    let name ← jstr j "field"
    pure (st, resTo pyValTo (getField st.env o name))
  | "rt.mkstruct" =>
    let cls ← jstr j "cls"
    let args ← (← jarr j "args").toList.mapM fun p => do
      match ← arrOf p with
      | [x, y] => pure (← strOf x, ← pyValOf y)
      | _ => throw "arg pair"
    pure (st, both st fun E => resTo pyValTo (mkStruct E st.env cls args))
  | "rt.mkunion" =>
    let cls ← jstr j "cls"
    let tag ← jstr j "tag"
    let v ← pyValOf (← jobj j "v")
    pure (st, both st fun E => resTo pyValTo (mkUnion E st.env cls tag v))
  | "rt.eq" =>
    let a ← pyValOf (← jobj j "a")
    let b ← pyValOf (← jobj j "b")
    pure (st, both st fun E => Json.mkObj [("ok", pyEq E st.env a b)])
  | "rt.enc" =>
    let t ← tyOf (← jobj j "ty")
    let v ← pyValOf (← jobj j "v")
    let perms ← permsOf j
    let redact := (jbool j "redact").toOption.getD false
    pure (st, both st fun E => resTo jsonTo (jsonCompatObjEncode E st.env perms redact t v))
  | "rt.wire" =>
    let t ← tyOf (← jobj j "ty")
    let v ← pyValOf (← jobj j "v")
    pure (st, both st fun E => Json.mkObj [("ok", jsonTo (wire E st.env t v)),
      ("valid", validB E st.env t v), ("normal", normalB st.env t v),
      ("valWF", RoundTrip.valWF E st.env t v), ("ambiguousEmpty", RoundTrip.ambiguousEmpty st.env t v), ("tyWF", tyWF st.env t),
      ("canon", pyValTo (RoundTrip.canon st.env t v))])
  | "rt.sat" =>
    -- C08's specification-level predicates on concrete data
    let t ← tyOf (← jobj j "ty")
    let v ← pyValOf (← jobj j "v")
    pure (st, both st fun E => Json.mkObj [("sat", satB E st.env t v), ("norm", pyValTo (normOf E t v)),
      ("typeOnly", typeOnlyB st.env t v), ("member", memberSat E st.env t v)])
  | "rt.dec" =>
    let t ← tyOf (← jobj j "ty")
    let d ← jsonOf (← jobj j "doc")
    let perms ← permsOf j
    let strict := (jbool j "strict").toOption.getD true
    pure (st, both st fun E => resTo pyValTo (jsonCompatObjDecode E st.env perms strict t d))
  | _ => throw s!"unknown op {op}"

end Driver.Rt
