import Driver.Util
import StoneVerif.Model.DeclSwift
/-! Protocol handlers of the `decl.swift.*` / `decl.objc.*` ops (C17).

API encoding (arrays keep order): `[NS..]` with
`NS = {"name", "types": [T..], "routes": [R..]}`,
`T = {"kind": "struct", "name", "parent": [ns, name] | null, "fields": [F..], "subtypes": [[tag, [ns, name]]..] | null,
      "catch_all"} | {"kind": "union", "name", "parent", "fields": [F..], "closed"}`,
`F = {"name", "ty", "has_default", "default": null | ["lit", _] | ["tag", ns, union, tag]}`,
`R = {"name", "version", "arg", "result", "error", "deprecated", "style": s | null, "auth": s | null}`,
`ty = ["prim", cls] | ["ts", format] | ["user", ns, name] | ["alias", ns, name] | ["list", ty] | ["map", ty, ty]
     | ["nullable", ty]`.

Ops:
* `decl.swift.decls` `{"backend", "api", "opts": {"class", "transport", "module", "auth": s | null,
     "client_args": [[style, [[req_key, suffix, [[name, value, type]..]]..]]..], "style_to_request": [[k, v]..]}}`
     → `{"decls": [[unit, kind, scope, name, [ref text..]]..]}` | `{"error": text}`
* `decl.swift.fmt`   `{"items": [[mapper, ty]..]}` → `{"out": [[text, [ref text..]]..]}`
     mappers: `sw_type sw_objc_type sw_objc_type_nn sw_serial_type sw_serial_obj oc_type oc_type_tag oc_type_tag_default
     oc_type_noptr oc_type_prop oc_class_type oc_class_type_noptr oc_serial_obj oc_validator`
* `decl.swift.name`  `{"items": [[fn, name, version]..]}` → `{"out": [text..]}`
     fns: `sw_class sw_var sw_func oc_upper oc_var oc_caps split_words` (the last answers the words joined by `|`) -/
open Lean
namespace Driver.DeclSwift
open StoneVerif StoneVerif.DeclSwift

def arrOf (j : Json) : Except String (List Json) := do pure (← j.getArr?).toList

partial def tyOf (j : Json) : Except String Ty := do
  match ← arrOf j with
  | [k, a] =>
    match ← k.getStr? with
    | "prim" => pure (.prim (← a.getStr?))
    | "ts" => pure (.ts (← a.getStr?))
    | "list" => pure (.list (← tyOf a))
    | "nullable" => pure (.nullable (← tyOf a))
    | s => throw s!"bad type {s}"
  | [k, a, b] =>
    match ← k.getStr? with
    | "map" => pure (.map (← tyOf a) (← tyOf b))
    | "user" => pure (.user ⟨← a.getStr?, ← b.getStr?⟩)
    | "alias" => pure (.alias ⟨← a.getStr?, ← b.getStr?⟩)
    | s => throw s!"bad type {s}"
  | _ => throw "bad type"

def qnameOf (j : Json) : Except String QName := do
  match ← arrOf j with
  | [a, b] => pure ⟨← a.getStr?, ← b.getStr?⟩
  | _ => throw "bad qname"

def optQ (j : Json) (k : String) : Except String (Option QName) :=
  match jopt j k with
  | none => pure none
  | some v => do pure (some (← qnameOf v))

def optS (j : Json) (k : String) : Except String (Option String) :=
  match jopt j k with
  | none => pure none
  | some v => do pure (some (← v.getStr?))

def fieldOf (j : Json) : Except String Field := do
  let dflt ← match jopt j "default" with
    | none => pure none
    | some d =>
      match ← arrOf d with
      | [k, a, b, c] =>
        if (← k.getStr?) == "tag" then pure (some (⟨← a.getStr?, ← b.getStr?⟩, ← c.getStr?)) else pure none
      | _ => pure none
  pure { name := ← jstr j "name", ty := ← tyOf (← jobj j "ty"), hasDefault := ← jbool j "has_default", dfltTag := dflt }

def typeOf (j : Json) : Except String UserT := do
  let name ← jstr j "name"
  let parent ← optQ j "parent"
  let fields ← (← jarr j "fields").toList.mapM fieldOf
  match ← jstr j "kind" with
  | "struct" =>
    let subs ← match jopt j "subtypes" with
      | none => pure none
      | some v => do
        let l ← (← arrOf v).mapM fun p => do
          match ← arrOf p with
          | [t, q] => pure (← t.getStr?, ← qnameOf q)
          | _ => throw "bad subtype"
        pure (some l)
    pure (.struct { name, parent, fields, subtypes := subs, catchAll := (jbool j "catch_all").toOption.getD false })
  | "union" => pure (.union { name, parent, fields, closed := (jbool j "closed").toOption.getD false })
  | s => throw s!"bad kind {s}"

def routeOf (j : Json) : Except String Route := do
  pure { name := ← jstr j "name", version := ← jnat j "version", arg := ← tyOf (← jobj j "arg"),
         result := ← tyOf (← jobj j "result"), error := ← tyOf (← jobj j "error"),
         deprecated := ← jbool j "deprecated", style := ← optS j "style", auth := ← optS j "auth" }

def apiOf (j : Json) : Except String Api := do
  let nss ← (← arrOf j).mapM fun n => do
    pure { name := ← jstr n "name", types := ← (← jarr n "types").toList.mapM typeOf,
           routes := ← (← jarr n "routes").toList.mapM routeOf : Namespace }
  pure { nss }

def variantOf (j : Json) : Except String Variant := do
  match ← arrOf j with
  | [k, s, ex] =>
    let extra ← (← arrOf ex).mapM fun e => do
      match ← arrOf e with
      | [a, b, c] => pure (← a.getStr?, ← b.getStr?, ← c.getStr?)
      | _ => throw "bad extra arg"
    pure { reqKey := ← k.getStr?, suffix := ← s.getStr?, extra }
  | _ => throw "bad variant"

def optsOf (j : Json) : Except String DeclSwift.Options := do
  let ca ← (← jarr j "client_args").toList.mapM fun p => do
    match ← arrOf p with
    | [s, vs] => pure (← s.getStr?, ← (← arrOf vs).mapM variantOf)
    | _ => throw "bad client_args"
  let st ← (← jarr j "style_to_request").toList.mapM fun p => do
    match ← arrOf p with
    | [a, b] => pure (← a.getStr?, ← b.getStr?)
    | _ => throw "bad style_to_request"
  pure { className := ← jstr j "class", transport := ← jstr j "transport", moduleName := ← jstr j "module",
         auth := ← optS j "auth", clientArgs := ca, styleToRequest := st }

def backendOf (s : String) : Except String Backend :=
  match s with
  | "swift_types" => pure .swiftTypes
  | "swift_types_objc" => pure .swiftTypesObjc
  | "swift_client" => pure .swiftClient
  | "swift_client_objc" => pure .swiftClientObjc
  | "obj_c_types" => pure .objcTypes
  | "obj_c_client" => pure .objcClient
  | s => throw s!"bad backend {s}"

def declJson (d : Decl) : Json :=
  Json.arr #[Json.str d.unit, Json.str d.kind, Json.arr (d.scope.map Json.str).toArray, Json.str d.name,
             Json.arr ((d.refs.filter fun r => match r with | .raw _ => false | _ => true).map fun r => Json.str r.text).toArray]

def fmtOf (mapper : String) (t : Ty) : Except String TExpr :=
  match mapper with
  | "sw_type" => pure (swType t)
  | "sw_objc_type" => pure (swObjcType t true)
  | "sw_objc_type_nn" => pure (swObjcType t false)
  | "sw_serial_type" => pure (swSerialType t)
  | "sw_serial_obj" => pure (swSerialObj t)
  | "oc_type" => pure (ocType t)
  | "oc_type_tag" => pure (ocType t true)
  | "oc_type_tag_default" => pure (ocType t true true)
  | "oc_type_noptr" => pure (ocType t false false true)
  | "oc_type_prop" => pure (ocType t true false false true)
  | "oc_class_type" => pure (ocClassType t)
  | "oc_class_type_noptr" => pure (ocClassType t true)
  | "oc_serial_obj" => pure (ocSerialObj t)
  | "oc_validator" => pure (ocValidator t)
  | s => throw s!"bad mapper {s}"

def nameOf (fn name : String) (version : Nat) : Except String String :=
  match fn with
  | "sw_class" => pure (swClass name)
  | "sw_var" => pure (swVar name)
  | "sw_func" => pure (swFunc name version)
  | "oc_upper" => pure (ocUpper name)
  | "oc_var" => pure (ocVar name)
  | "oc_caps" => pure (ocCaps name)
  | "split_words" => pure ("|".intercalate ((splitWords name.toList).map String.ofList))
  | s => throw s!"bad naming function {s}"

def handle (op : String) (j : Json) : Except String Json := do
  let op := if op.startsWith "decl.objc." then "decl.swift." ++ (op.drop 10).toString else op
  match op with
  | "decl.swift.decls" =>
    let b ← backendOf (← jstr j "backend")
    let api ← apiOf (← jobj j "api")
    let o ← optsOf (← jobj j "opts")
    match decls b api o with
    | .ok ds => pure (ok [("decls", Json.arr (ds.map declJson).toArray)])
    | .error e => pure (ok [("error", Json.str e)])
  | "decl.swift.fmt" =>
    let out ← (← jarr j "items").toList.mapM fun it => do
      match ← arrOf it with
      | [m, t] =>
        let e ← fmtOf (← m.getStr?) (← tyOf t)
        pure (Json.arr #[Json.str e.render, Json.arr (e.refs.map fun r => Json.str r.text).toArray])
      | _ => throw "bad item"
    pure (ok [("out", Json.arr out.toArray)])
  | "decl.swift.name" =>
    let out ← (← jarr j "items").toList.mapM fun it => do
      match ← arrOf it with
      | [f, n, v] => pure (Json.str (← nameOf (← f.getStr?) (← n.getStr?) (← v.getNat?)))
      | _ => throw "bad item"
    pure (ok [("out", Json.arr out.toArray)])
  | _ => throw s!"unknown op {op}"

end Driver.DeclSwift
