import Driver.Util
import StoneVerif.Model.Lex
import StoneVerif.Model.Stdin
import StoneVerif.Model.DocTrim
import Driver.FeRules
import StoneVerif.Model.CliReport
/-! Protocol handlers of the `fe.*` suites. -/
open Lean
namespace Driver.Fe

/-! ------------------------------------------------------------------------------------------------
## `fe.lex` (C11): line-level lexer model

request  `{"op":"fe.lex","lines":[L, ...]}` with one `L` per *physical* line:
  `{"i": <leading whitespace characters>, "k": "e" | "s" | "c" | "g", "pure": bool (k = "c"),
    "toks": [T, ...] (k = "g"), "trail": "none" | "spaces" | "comment" (k = "g"), "open": bool}`
  `T` = `"("` | `")"` | `<nat>` (opaque token id); `open` = the line ends inside a string literal.
reply    `{"toks": ["N" | "I" | "D" | "(" | ")" | <nat>, ...], "errs": ["notDiv" | "contIndent" | "unmatchedRpar", ...],
           "logical": <number of logical lines>}`
------------------------------------------------------------------------------------------------ -/
section FeLex
open StoneVerif.Lex

def tkOfJson (j : Json) : Except String Tk :=
  match j with
  | .str "(" => pure .lpar
  | .str ")" => pure .rpar
  | _ => do
    let n ← j.getNat?
    pure (.other n)

def plineOfJson (j : Json) : Except String PLine := do
  let i ← jnat j "i"
  let k ← jstr j "k"
  let openStr := match jopt j "open" with
    | some (.bool b) => b
    | _ => false
  let body ← match k with
    | "e" => pure Body.empty
    | "s" => pure Body.spaces
    | "c" => do pure (Body.comment (← jbool j "pure"))
    | "g" => do
      let ts ← (← jarr j "toks").toList.mapM tkOfJson
      let tr ← match (← jstr j "trail") with
        | "none" => pure Trail.none
        | "spaces" => pure Trail.spaces
        | "comment" => pure Trail.comment
        | t => throw s!"bad trail {t}"
      pure (Body.sig ts tr)
    | _ => throw s!"bad line kind {k}"
  pure { line := { indent := i, body }, openStr }

def tokToJson : Tok → Json
  | .newline => "N"
  | .indent => "I"
  | .dedent => "D"
  | .tk .lpar => "("
  | .tk .rpar => ")"
  | .tk (.other i) => Json.num (i : Nat)

def errToJson : LexErr → Json
  | .notDiv => "notDiv"
  | .contIndent => "contIndent"
  | .unmatchedRpar => "unmatchedRpar"

def handleLex (j : Json) : Except String Json := do
  let ps ← (← jarr j "lines").toList.mapM plineOfJson
  let ls := join ps
  let o := lex ls
  pure (ok [("toks", Json.arr (o.toks.map tokToJson).toArray),
            ("errs", Json.arr (o.errs.map errToJson).toArray),
            ("logical", Json.num (ls.length : Nat))])

/-- `fe.stdin` (C11): `{"op":"fe.stdin","text":"..."}` -> `{"specs":[[k, text], ...]}`: the stdin branch of
`stone.cli.main` (spec `k` is named `stdin.k`) -/
def handleStdin (j : Json) : Except String Json := do
  let text ← jstr j "text"
  let parts := StoneVerif.Stdin.splitStdinL text.toList
  pure (ok [("specs", Json.arr (parts.map fun p =>
    Json.arr #[Json.num (p.1 : Nat), Json.str (String.ofList p.2)]).toArray)])

/-- `fe.doctrim` (C11): `{"op":"fe.doctrim","cps":[code point, ...]}` -> `{"cps":[...]}`: the rule
`docstring : STRING` of the parser (`DocTrim.docClean`) on a text given by its code points -/
def handleDocTrim (j : Json) : Except String Json := do
  let cps ← (← jarr j "cps").toList.mapM fun x => (x.getNat? : Except String Nat)
  let out := StoneVerif.DocTrim.docClean (cps.map Char.ofNat)
  pure (ok [("cps", Json.arr (out.map fun c => Json.num (c.toNat : Nat)).toArray)])

end FeLex
/-! end of the `fe.lex` section ------------------------------------------------------------------ -/

/-! ------------------------------------------------------------------------------------------------
## `fe.report`, `fe.format` (C03): the command line's answer to a spec error

`{"op":"fe.report","path": str | null,"line": int | null,"msg": str, "style": str, "template": str, "fields": [str]}`:
the first line the `except InvalidSpec` handler of `stone.cli.main` prints for an error with these fields.  The
format operation is the one the translator extracts from the tree under test; the harness sends it along (the same
extractor, run on the same tree) so that the answer does not depend on which tree the driver was last built from;
without `style` the compiled `Tables.cliSpecError*` are used.
`{"op":"fe.format","style":"format" | "percent","template": str,"args":[null | int | str, ...]}`: the interpreter
of the two format operations alone (compared with Python's own on random templates).
reply `{"ok": text}` | `{"crash":"typeError" | "valueError" | "indexError"}` | `{"unmodelled": true}`
------------------------------------------------------------------------------------------------ -/
section FeReport
open StoneVerif.CliReport

def reportResult : Except Err (List Char) → Json
  | .ok cs => ok [("ok", Json.str (String.ofList cs))]
  | .error .unmodelled => ok [("unmodelled", Json.bool true)]
  | .error (.crash .typeError) => ok [("crash", "typeError")]
  | .error (.crash .valueError) => ok [("crash", "valueError")]
  | .error (.crash .indexError) => ok [("crash", "indexError")]

def pyValOfJson : Json → Except String PyVal
  | .null => pure .none
  | .str s => pure (.str s.toList)
  | j => do pure (.int (← j.getInt?))

def handleReport (j : Json) : Except String Json := do
  let path ← match jopt j "path" with
    | none => pure none
    | some v => do pure (some (← v.getStr?).toList)
  let line ← match jopt j "line" with
    | none => pure none
    | some v => do pure (some (← v.getInt?))
  let msg ← jstr j "msg"
  let e : SpecErr := { path, line, msg := msg.toList }
  match jopt j "style" with
  | none => pure (reportResult (cliAnswer e))
  | some st => do
    let style ← st.getStr?
    let tpl ← jstr j "template"
    let fields ← strList j "fields"
    pure (reportResult (answer style tpl fields e))

def handleFormat (j : Json) : Except String Json := do
  let style ← jstr j "style"
  let tpl ← jstr j "template"
  let args ← (← jarr j "args").toList.mapM pyValOfJson
  pure (reportResult (run style tpl.toList args))

end FeReport
/-! end of the `fe.report` section --------------------------------------------------------------- -/

def handle (op : String) (j : Json) : Except String Json := do
  match op with
  | "fe.lex" => handleLex j
  | "fe.stdin" => handleStdin j
  | "fe.doctrim" => handleDocTrim j
  | "fe.report" => handleReport j
  | "fe.format" => handleFormat j
  | _ =>
    -- fe.params / fe.names (C01 / C03 component models): Driver/FeRules.lean
    if op.startsWith "fe.params" || op.startsWith "fe.names" then Driver.FeRules.handle op j
    else throw s!"unknown op {op}"

end Driver.Fe
