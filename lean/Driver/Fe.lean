import Driver.Util
/-! Protocol handlers of the `fe.*` suites. -/
open Lean
namespace Driver.Fe

def handle (op : String) (_j : Json) : Except String Json := do
  throw s!"unknown op {op}"

end Driver.Fe
