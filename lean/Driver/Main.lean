import Driver.Util
import Driver.Be
import Driver.Cli
import Driver.Rt
import Driver.Fe
import Driver.Graph
import Driver.Decl
/-!
Line-protocol driver. One JSON object per input line, one JSON object per output line.
Every request carries `"op": "<suite>.<name>"`; the suite prefix selects the handler.
-/
open Lean

def dispatch (j : Json) : Except String Json := do
  let op ← Driver.jstr j "op"
  if op.startsWith "be." then Driver.Be.handle op j
  else if op.startsWith "cli." then Driver.Cli.handle op j
  else if op.startsWith "rt." then Driver.Rt.handle op j
  else if op.startsWith "fe." then Driver.Fe.handle op j
  else if op.startsWith "graph." then Driver.Graph.handle op j
  else if op.startsWith "decl." then Driver.Decl.handle op j
  else throw s!"unknown suite in op {op}"

partial def loop (hin : IO.FS.Stream) (hout : IO.FS.Stream) : IO Unit := do
  let line ← hin.getLine
  if line.isEmpty then return ()
  let line := line.trimAsciiEnd.toString
  if line.isEmpty then loop hin hout else
  let reply := match Json.parse line with
    | .error e => Driver.err s!"json: {e}"
    | .ok j => match dispatch j with
      | .ok r => r
      | .error e => Driver.err e
  hout.putStrLn reply.compress
  loop hin hout

def main : IO Unit := do
  let hin ← IO.getStdin
  let hout ← IO.getStdout
  loop hin hout
  hout.flush
