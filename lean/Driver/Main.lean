import Driver.Util
import Driver.Be
import Driver.Cli
import Driver.Rt
import Driver.Fe
import Driver.Graph
import Driver.Decl
import Driver.Comp
/-!
Line-protocol driver. One JSON object per input line, one JSON object per output line.
Every request carries `"op": "<suite>.<name>"`; the suite prefix selects the handler.
-/
open Lean

structure DriverState where
  rt : Driver.Rt.State := {}

def dispatch (st : DriverState) (j : Json) : Except String (DriverState × Json) := do
  let op ← Driver.jstr j "op"
  let pure' (r : Except String Json) : Except String (DriverState × Json) := r.map fun x => (st, x)
  if op.startsWith "be." then pure' (Driver.Be.handle op j)
  else if op.startsWith "cli." then pure' (Driver.Cli.handle op j)
  else if op.startsWith "rt." then do
    let (rt, r) ← Driver.Rt.handle st.rt op j
    pure ({ st with rt }, r)
  else if op.startsWith "fe." then pure' (Driver.Fe.handle op j)
  else if op.startsWith "graph." then pure' (Driver.Graph.handle op j)
  else if op.startsWith "decl." then pure' (Driver.Decl.handle op j)
  else if op.startsWith "comp." then pure' (Driver.Comp.handle op j)
  else throw s!"unknown suite in op {op}"

partial def loop (hin : IO.FS.Stream) (hout : IO.FS.Stream) (st : DriverState) : IO Unit := do
  let line ← hin.getLine
  if line.isEmpty then return ()
  let line := line.trimAsciiEnd.toString
  if line.isEmpty then loop hin hout st else
  let (st', reply) := match Json.parse line with
    | .error e => (st, Driver.err s!"json: {e}")
    | .ok j => match dispatch st j with
      | .ok r => r
      | .error e => (st, Driver.err e)
  hout.putStrLn reply.compress
  loop hin hout st'

def main : IO Unit := do
  let hin ← IO.getStdin
  let hout ← IO.getStdout
  loop hin hout {}
  hout.flush
