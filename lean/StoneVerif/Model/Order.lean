import StoneVerif.Gen.Tables
/-
C12 -- code generation is deterministic.

A Lean function is deterministic by construction, so the models below take the one thing Python does not fix --
the order in which a `set` (or a dict built from a set) hands out its elements -- as an explicit parameter:
every model of a *site* (a place of the generators that iterates an unordered collection, as extracted by
`translator/ex_setiter.py` into `Tables.setIterSites` / `Tables.setSortSites`) is a function of a list `π`, and
`π` stands for "the elements of the set in the order this interpreter happens to produce them"
(`SetOrder π l`: duplicate-free, same members as the list `l` the set was built from).
The theorems (Props/C12.lean) say for which sites the produced text is the same for every `π`, and give a concrete
pair of orders with different text for the sites where it is not.

Code-following parts: `sortBy` (Python `sorted(.., key=..)` / `list.sort(key=..)`: stable), `callerLoop`
(python_types `_generate_struct_class_reflection_attributes` / `_generate_union_class_reflection_attributes`;
`callerLoopStr` is its form before the repair of the `Omitted("None")` tie),
`tagmapsLineSorted` (the `_permissioned_tagmaps` line; `tagmapsLine` is its form before the repair of D15), `dedupTy` / `procsOf` / `emitProcs`
(`_generate_custom_annotation_processors` and the two `_generate_*_class_custom_annotations`), `addImported` /
`importedNamespaces` (`ApiNamespace.add_imported_namespace`, `get_imported_namespaces`, the loop at the end of
`_populate_recursive_custom_annotations`), `routeIoTypes` / `routeIoNamespaces` (stone/ir/api.py),
`filterDataTypes` / `filterRoutes` (`_filter_namespaces_by_route_whitelist` followed by `ApiNamespace.normalize`),
`typingImportLines` / `adhocImportLines` (python_type_stubs `_generate_imports_needed_for_typing`),
`overlay` / `lookup` (class-level caches keyed by type name: `ObjCTypesBackend.obj_name_to_namespace`),
`trackerRun` (class-level `ImportTracker` with / without `clear()`),
`writeFile` / `build` (`Backend.output_to_relative_path`: what a run makes of a directory that already holds files;
`promised` is the specification-level counterpart, `writeFileSkipText` a regression model).

Import-free (apart from the generated tables): linked into the correspondence driver.
-/
namespace StoneVerif.Order

/-! ## Python's stable sort -/

/-- insert `a` before the first element whose key is not smaller (so `a`, which came earlier in the input, stays
in front of elements with an equal key: stability) -/
def insertBy {α κ : Type} (key : α → κ) (le : κ → κ → Bool) (a : α) : List α → List α
  | [] => [a]
  | b :: l => if le (key a) (key b) then a :: b :: l else b :: insertBy key le a l

/-- `sorted(l, key=key)`: stable; all stable sorts agree, insertion sort is the one that is easy to reason about -/
def sortBy {α κ : Type} (key : α → κ) (le : κ → κ → Bool) : List α → List α
  | [] => []
  | a :: l => insertBy key le a (sortBy key le l)

/-- Python `str <=` (lexicographic by code point) -/
def strLe (a b : String) : Bool := decide (a ≤ b)

/-- Python tuple `<=` on `(str, int)` (`bool` is an `int`: `False` = 0, `True` = 1) -/
def pairLe (a b : String × Nat) : Bool :=
  if a.1 = b.1 then decide (a.2 ≤ b.2) else strLe a.1 b.1

/-- Python tuple `<=` on `(str, str)` -/
def strPairLe (a b : String × String) : Bool :=
  if a.1 = b.1 then strLe a.2 b.2 else strLe a.1 b.1

/-- "`π` is an order in which `set(l)` may be iterated" -/
def SetOrder {α : Type} (π l : List α) : Prop := π.Nodup ∧ ∀ x, x ∈ π ↔ x ∈ l

/-- order-preserving removal of repeated elements: `dict.fromkeys(l)`; one possible iteration order of `set(l)` -/
def dedup {α : Type} [DecidableEq α] : List α → List α
  | [] => []
  | a :: l => a :: (dedup l).filter (fun b => b ≠ a)

/-! ## Omitted callers (python_types) -/

/-- an element of `get_all_omitted_callers() | {None}`: `None` is the public caller -/
abbrev Caller := Option String

/-- `str(caller)` -/
def pyStr : Caller → String
  | none => "None"
  | some s => s

/-- `_omitted_caller_sort_key`: `(str(omitted_caller), omitted_caller is not None)`, the sort key of both loops
(pinned by `Tables.setSortSites`, which carries the text of the function's `return`) -/
def callerKey (c : Caller) : String × Nat := (pyStr c, if c.isSome then 1 else 0)

/-- `for omitted_caller in sorted(child_omitted_callers | parent_omitted_callers, key=_omitted_caller_sort_key)` -/
def callerLoop (π : List Caller) : List Caller := sortBy callerKey pairLe π

/-- the loop as it was before the repair (`sorted(.., key=str)`): `str(None) == str("None")`, so a caller named
`None` tied with the public caller. Kept as the regression model (`caller_loop_order_dependent`) and to say that the
repair changes nothing where there is no tie (`caller_loop_as_before`). -/
def callerLoopStr (π : List Caller) : List Caller := sortBy pyStr strLe π

/-- `map_name_prefix` / `tagmap_name` of one iteration -/
def callerPrefix : Caller → String
  | none => ""
  | some s => "_" ++ s

/-- names of the per-caller tables in the order the struct loop assigns them
(`_all{p}_field_names_`, `_all{p}_fields_`; `{p}_field_names_`, `{p}_fields_` for members of subtype trees) -/
def structTableNames (π : List Caller) : List String :=
  (callerLoop π).flatMap fun c => ["_all" ++ callerPrefix c ++ "_field_names_", "_all" ++ callerPrefix c ++ "_fields_"]

/-- names of the per-caller tag maps in the order the union loop assigns them -/
def unionTableNames (π : List Caller) : List String :=
  (callerLoop π).map fun c => match c with
    | none => "_tagmap"
    | some s => "_" ++ s ++ "_tagmap"

/-- `repr` of a `str` without quotes, backslashes or control characters (caller names are such strings; anything
else is outside the model and not generated by the harness) -/
def pyReprStr (s : String) : String := "'" ++ s ++ "'"

/-- `repr` / `format` of a non-empty `set` of such strings, iterated in the order `π` -/
def pySetRepr (π : List String) : String := "{" ++ ", ".intercalate (π.map pyReprStr) ++ "}"

/-- the line as it was before the repair of D15 (`'{}._permissioned_tagmaps = {}'.format(class_name, all_omitted_callers)`):
the set was *printed*, the text followed the iteration order. Kept as the regression model: `tagmaps_order_dependent`
is why the members have to be sorted. -/
def tagmapsLine (cls : String) (π : List String) : List String :=
  if π.length != 0 then [cls ++ "._permissioned_tagmaps = " ++ pySetRepr π] else []

/-- the code today: `if len(all_omitted_callers) != 0: self.emit('{}._permissioned_tagmaps = {{{}}}'.format(class_name,
', '.join(repr(caller) for caller in sorted(all_omitted_callers))))` -/
def tagmapsLineSorted (cls : String) (π : List String) : List String :=
  tagmapsLine cls (sortBy id strLe π)

/-! ## Custom annotation processors (python_types) -/

/-- a custom annotation as far as the generated text goes: its type (defining namespace, name), the constructor
call text of `_generate_custom_annotation_instance`, and its own identity (`annotation.namespace.name`,
`annotation.name`: what `remaining_annotations` is sorted by) -/
structure Ann where
  tyNs : String
  tyName : String
  inst : String
  annNs : String
  annName : String
  deriving DecidableEq, Repr

/-- `lambda annotation: (annotation.namespace.name, annotation.name)` -/
def Ann.key (a : Ann) : String × String := (a.annNs, a.annName)

/-- one `(annotation_type, code)` pair yielded by `_generate_custom_annotation_processors` -/
structure Proc where
  tyNs : String
  tyName : String
  code : String
  deriving DecidableEq, Repr

def Proc.ty (p : Proc) : String × String := (p.tyNs, p.tyName)

/-- `lambda x: (x[0].name, x[0].namespace.name)`: the key the processors of one field are sorted by -/
def Proc.key (p : Proc) : String × String := (p.tyName, p.tyNs)

/-- `class_name_for_annotation_type(annotation_type, ns)`: qualified when the type lives in another namespace -/
def annClass (ns : String) (tyNs tyName : String) : String :=
  if tyNs = ns then tyName else tyNs ++ "." ++ tyName

/-- the loops `if annotation_type not in annotation_types_seen: yield ..; annotation_types_seen.add(..)` -/
def dedupTyGo (seen : List (String × String)) : List Proc → List Proc
  | [] => []
  | p :: l => if p.ty ∈ seen then dedupTyGo seen l else p :: dedupTyGo (p.ty :: seen) l

def dedupTy (l : List Proc) : List Proc := dedupTyGo [] l

/-- processor for a struct / union reached directly: depends on the annotation *type* only -/
def structProc (ns : String) (a : Ann) : Proc :=
  ⟨a.tyNs, a.tyName, "bb.make_struct_annotation_processor(" ++ annClass ns a.tyNs a.tyName ++ ", processor)"⟩

/-- processor for an annotation applied to the type itself (alias chain, field): `bb.partially_apply(processor, <instance>)` -/
def partialProc (a : Ann) : Proc :=
  ⟨a.tyNs, a.tyName, "bb.partially_apply(processor, " ++ a.inst ++ ")"⟩

def wrapProc (f : String) (p : Proc) : Proc := { p with code := f ++ "(" ++ p.code ++ ")" }

/-- what `unwrap(data_type)` is -/
inductive Kind where
  | prim        -- primitive: nothing from members
  | composite   -- struct without enumerated subtypes, or union: `for _, annotation in dt.recursive_custom_annotations`
  | subtypes    -- struct with enumerated subtypes: `inner` = processors of the subtypes, concatenated in declaration order
  | list        -- `inner` = processors of the item type
  | map         -- `inner` = processors of the value type
  deriving DecidableEq, Repr

/-- `remaining_annotations = sorted((annotation for _, annotation in all_annotations.difference(indirect_annotations)),
key=lambda annotation: (annotation.namespace.name, annotation.name))`; `πr` = the set difference in iteration order -/
def remaining (πr : List (String × Ann)) : List Ann := sortBy Ann.key strPairLe (πr.map (·.2))

/-- One activation of `_generate_custom_annotation_processors(ns, data_type, extra_annotations)`.
`πd` : `dt.recursive_custom_annotations` (a set of (owner, annotation) pairs) in iteration order;
`πr` : `all_annotations.difference(indirect_annotations)` in iteration order;
`inner` : the sequence produced by the recursive activation(s); `extras` : `extra_annotations` (a list). -/
def procsOf (ns : String) (k : Kind) (inner : List Proc) (πd πr : List (String × Ann)) (extras : List Ann) : List Proc :=
  (match k with
    | .prim => []
    | .composite => dedupTy (πd.map fun x => structProc ns x.2)
    | .subtypes => dedupTy inner
    | .list => inner.map (wrapProc "bb.make_list_annotation_processor")
    | .map => inner.map (wrapProc "bb.make_map_value_annotation_processor"))
  ++ (remaining πr).map partialProc ++ extras.map partialProc

/-- the activation as it was before the repair: `remaining_annotations` a list comprehension over the set difference,
in iteration order. Regression model (`procs_order_dependent_same_type`). -/
def procsOfUnsorted (ns : String) (k : Kind) (inner : List Proc) (πd πr : List (String × Ann)) (extras : List Ann) :
    List Proc :=
  procsOf ns k inner πd [] [] ++ πr.map (fun x => partialProc x.2) ++ extras.map partialProc

/-- `sorted(recursive_processors, key=lambda x: (x[0].name, x[0].namespace.name))` and the
`if annotation_type is <class>:` / code lines emitted for one field -/
def emitProcs (ns : String) (l : List Proc) : List (String × String) :=
  (sortBy Proc.key strPairLe l).map fun p => (annClass ns p.tyNs p.tyName, p.code)

/-- the sort as it was before the repair (`key=lambda x: x[0].name`): annotation types of the same name in two
namespaces tied. Regression model (`procs_order_dependent_same_name`). -/
def emitProcsByName (ns : String) (l : List Proc) : List (String × String) :=
  (sortBy Proc.tyName strLe l).map fun p => (annClass ns p.tyNs p.tyName, p.code)

/-! ## Imported namespaces (stone/ir/api.py, loop at the end of `_populate_recursive_custom_annotations`) -/

/-- `_ImportReason` -/
structure Reason where
  alias : Bool := false
  dataType : Bool := false
  annotation : Bool := false
  annotationType : Bool := false
  deriving DecidableEq, Repr

def Reason.or (a b : Reason) : Reason :=
  ⟨a.alias || b.alias, a.dataType || b.dataType, a.annotation || b.annotation, a.annotationType || b.annotationType⟩

/-- `self._imported_namespaces` (an insertion-ordered dict keyed by namespace; namespaces are identified by name) -/
abbrev Imports := List (String × Reason)

/-- `add_imported_namespace(namespace, **flags)`: `setdefault` + set the flags -/
def addImported (st : Imports) (n : String) (r : Reason) : Imports :=
  if st.any (fun e => e.1 == n) then st.map (fun e => if e.1 == n then (e.1, e.2.or r) else e)
  else st ++ [(n, r)]

/-- `for _, annotation in namespace_annotations: if annotation.annotation_type.namespace.name != namespace.name:
        namespace.add_imported_namespace(.., imported_annotation_type=True)`; `π` = namespaces of the annotation types
in the iteration order of the set -/
def addAnnotationTypeImports (self : String) (st : Imports) (π : List String) : Imports :=
  π.foldl (fun st n => if n != self then addImported st n { annotationType := true } else st) st

/-- the three `continue` tests of `get_imported_namespaces` -/
def keepImport (mustHaveDataType considerAnnotations considerAnnotationTypes : Bool) (r : Reason) : Bool :=
  !(mustHaveDataType && !r.dataType)
  && !(!considerAnnotations && !(r.dataType || r.alias || r.annotationType))
  && !(!considerAnnotationTypes && !(r.dataType || r.alias || r.annotation))

/-- `get_imported_namespaces(..)`: filter, then `imported_namespaces.sort(key=lambda n: n.name)` -/
def importedNamespaces (m a t : Bool) (st : Imports) : List String :=
  (sortBy (fun e : String × Reason => e.1) strLe (st.filter fun e => keepImport m a t e.2)).map (·.1)

/-- the `from <package> import <ns>` lines of a generated Python module -/
def importLines (package : String) (self : String) (st : Imports) (π : List String) : List String :=
  (importedNamespaces false false true (addAnnotationTypeImports self st π)).map
    fun n => "from " ++ package ++ " import " ++ n

/-! ## Route argument / result / error types (stone/ir/api.py) -/

/-- a user-defined type: (namespace, name) -/
abbrev TyRef := String × String

/-- `get_route_io_data_types`: `sorted(data_types, key=lambda dt: dt.name)` -/
def routeIoTypes (π : List TyRef) : List TyRef := sortBy (fun t : TyRef => t.2) strLe π

/-- `get_namespaces_imported_by_route_io`: namespaces of the foreign types collected into a second set, which is
iterated in the order `ρ` and sorted by name -/
def routeIoNamespaces (ρ : List String) : List String := sortBy id strLe ρ

/-- the members of that second set -/
def routeIoForeign (self : String) (π : List TyRef) : List String :=
  ((routeIoTypes π).filter fun t => t.1 != self).map (·.1)

/-! ## Route whitelist (`_filter_namespaces_by_route_whitelist` + `ApiNamespace.normalize`) -/

/-- `data_types = list(set(output_types_by_ns[ns]))` ... `self.data_types.sort(key=lambda data_type: data_type.name)` -/
def filterDataTypes (π : List String) : List String := sortBy id strLe π

/-- `name_with_version()` -/
def routeRepr (r : String × Nat) : String := if r.2 = 1 then r.1 else r.1 ++ ":" ++ toString r.2

/-- `route_reprs = list(set(whitelisted_route_reprs + output_route_reprs))`, each looked up again
(`lookup`: `parse_route_name_and_version` + `routes_by_name[..].at_version[..]`), added with `add_route`,
and finally `self.routes.sort()` (`ApiRoute.__lt__` compares `(name, version)`) -/
def filterRoutes (lookup : String → String × Nat) (π : List String) : List (String × Nat) :=
  sortBy id pairLe (π.map lookup)

/-! ## python_type_stubs: `_generate_imports_needed_for_typing` -/

/-- `for to_import in sorted(self.import_tracker.cur_namespace_typing_imports): self.emit("{},".format(to_import))` -/
def typingImportLines (π : List String) : List String :=
  if π.isEmpty then [] else
  ["", "from typing import ("] ++ (sortBy id strLe π).map (fun s => "    " ++ s ++ ",") ++ [")"]

/-- the code today: `if self.import_tracker.cur_namespace_adhoc_imports: self.emit(""); for to_import in
sorted(self.import_tracker.cur_namespace_adhoc_imports): self.emit(to_import)` -- the registered statements
(`import datetime`, `from <package> import <namespace>` for a namespace the regular import block does not cover), sorted -/
def adhocImportLines (π : List String) : List String :=
  if π.isEmpty then [] else "" :: sortBy id strLe π

/-- the loop as it was before the stub repair (`for to_import in self.import_tracker.cur_namespace_adhoc_imports`):
NOT sorted, the lines followed the set. It was harmless only as long as one literal was ever registered; kept as the
regression model (`adhoc_unsorted_order_dependent`). -/
def adhocImportLinesUnsorted (π : List String) : List String :=
  if π.isEmpty then [] else "" :: π

/-! ## State that survives a run (class attributes) -/

/-- a class-level dict keyed by type name (`obj_name_to_namespace`) -/
abbrev Cache := List (String × String)

def lookup (c : Cache) (k : String) : Option String := (c.find? fun e => e.1 == k).map (·.2)

/-- one `generate()`: every data type of the current api is (re)written, earlier entries stay -/
def overlay (writes old : Cache) : Cache :=
  writes.foldl (fun c w => (w.1, w.2) :: c.filter (fun e => e.1 != w.1)) old

/-- the class-level `ImportTracker`: `cur` = names registered so far; one namespace module is generated by
(optionally) `clear()`, then the registrations of the module, then the sorted import block -/
def trackerStep (clear : Bool) (cur : List String) (regs : List String) : List String × List String :=
  let cur' := dedup ((if clear then [] else cur) ++ regs)
  (cur', typingImportLines cur')

/-- a sequence of namespace modules (possibly of several runs in one process): the import blocks -/
def trackerRun (clear : Bool) : List String → List (List String) → List (List String)
  | _, [] => []
  | cur, regs :: rest => let (cur', out) := trackerStep clear cur regs; out :: trackerRun clear cur' rest

/-- the variant with `clear()` at the END of the module (after the import block has been produced). `completed = false`:
the build was aborted inside the module (a backend exception), nothing is produced for it and the `clear()` is never
reached. -/
def trackerStepLate (cur : List String) (regs : List String) (completed : Bool) : List String × List String :=
  let cur' := dedup (cur ++ regs)
  if completed then ([], typingImportLines cur') else (cur', [])

def trackerRunLate : List String → List (List String × Bool) → List (List String)
  | _, [] => []
  | cur, (regs, c) :: rest => let (cur', out) := trackerStepLate cur regs c; out :: trackerRunLate cur' rest

/-! ## Coverage tables -/

/-- unsorted iteration sites for which a model and a theorem exist (file, function, ordinal, kind) -/
def modelledSites : List (String × String × Nat × String) := [
  -- (the loop over the stub's ad-hoc imports is gone from this list: the statements are sorted now, see
  --  `modelledSortSites`; iterating the set unsorted again would be an unmodelled site)
  -- `_generate_custom_annotation_processors`: #1 introduces an order (`procsOf`), #0 #2 #3 pass on the order of
  -- the recursive activation (`inner`); (the comprehension over the set difference -- formerly #4 -- is sorted now:
  --  `remaining`, see `modelledSortSites`)
  ("stone/backends/python_types.py", "PythonTypesBackend._generate_custom_annotation_processors", 0, "for"),
  ("stone/backends/python_types.py", "PythonTypesBackend._generate_custom_annotation_processors", 1, "for"),
  ("stone/backends/python_types.py", "PythonTypesBackend._generate_custom_annotation_processors", 2, "for"),
  ("stone/backends/python_types.py", "PythonTypesBackend._generate_custom_annotation_processors", 3, "for"),
  -- (the `format` site of `_generate_union_class_reflection_attributes` -- the printed set of D15 -- is gone: the
  --  members are sorted now, see `modelledSortSites`; printing the set again would be an unmodelled site)
  -- whitelist: start types, `list(set(..))` of types / route names (`filterDataTypes`, `filterRoutes`)
  ("stone/frontend/ir_generator.py", "IRGenerator._filter_namespaces_by_route_whitelist", 0, "extend"),
  ("stone/frontend/ir_generator.py", "IRGenerator._filter_namespaces_by_route_whitelist", 1, "list"),
  ("stone/frontend/ir_generator.py", "IRGenerator._filter_namespaces_by_route_whitelist", 2, "comp"),
  ("stone/frontend/ir_generator.py", "IRGenerator._filter_namespaces_by_route_whitelist", 3, "list"),
  -- traversal order of the dependency search: only the visited *set* reaches the output (`whitelist_types_partial`)
  ("stone/frontend/ir_generator.py", "IRGenerator._find_dependencies_recursive", 0, "for"),
  ("stone/frontend/ir_generator.py", "IRGenerator._find_dependencies_recursive", 1, "for"),
  ("stone/frontend/ir_generator.py", "IRGenerator._find_dependencies_recursive", 2, "for"),
  ("stone/frontend/ir_generator.py", "IRGenerator._find_dependencies_recursive", 3, "for"),
  ("stone/frontend/ir_generator.py", "IRGenerator._find_dependencies_recursive", 4, "for"),
  ("stone/frontend/ir_generator.py", "IRGenerator._find_dependencies_recursive", 5, "for"),
  -- (the same search after the repairs of branch fix/ir: the doc walk is one method, a route that a doc refers to is
  --  walked by `_find_route_dependencies`, the starting docs are read by `add_doc_refs`; still only the visited set counts)
  ("stone/frontend/ir_generator.py", "IRGenerator._filter_namespaces_by_route_whitelist.add_doc_refs", 0, "extend"),
  ("stone/frontend/ir_generator.py", "IRGenerator._find_doc_dependencies", 0, "for"),
  ("stone/frontend/ir_generator.py", "IRGenerator._find_doc_dependencies", 1, "for"),
  ("stone/frontend/ir_generator.py", "IRGenerator._find_route_dependencies", 0, "for"),
  ("stone/frontend/ir_generator.py", "parse_data_types_from_doc_ref", 0, "for"),
  ("stone/frontend/ir_generator.py", "parse_data_types_from_doc_ref", 1, "for"),
  ("stone/frontend/ir_generator.py", "parse_data_types_from_doc_ref", 2, "for"),
  -- insertion order of `_imported_namespaces` (`imports_order_free`)
  ("stone/frontend/ir_generator.py", "IRGenerator._populate_recursive_custom_annotations", 0, "for")]

/-- how the items of a sorted site are keyed -/
inductive KeyClass where
  | strings        -- items are `str`, sorted by themselves: always injective
  | callerKey      -- `(str(caller), caller is not None)` on callers and `None`: always injective (`callerKey_inj`)
  | nsName         -- namespaces by name: injective inside one Api
  | typeName       -- data types by bare name: NOT injective across namespaces
  | annTypeKey     -- processors by (annotation-type name, its namespace): ties are processors of ONE type, whose
                   -- relative order is fixed by `procsOf` (`field_procs_order_free`)
  | annNsName      -- annotations by (namespace, name): injective inside one Api
  deriving DecidableEq, Repr

/-- the key of the two caller loops as the translator reports it: the name of the module-level function and the
expression it returns -/
def callerKeySrc : String :=
  "_omitted_caller_sort_key = lambda omitted_caller: (str(omitted_caller), omitted_caller is not None)"

/-- sorted sites: (file, function, ordinal, key text) ↦ key class -/
def modelledSortSites : List ((String × String × Nat × String) × KeyClass) := [
  (("stone/backend.py", "OutputManifest.outputs", 0, ""), .strings),
  (("stone/backends/obj_c.py", "ObjCBaseBackend._generate_imports_h", 0, "list-sort:"), .strings),
  (("stone/backends/obj_c.py", "ObjCBaseBackend._generate_imports_m", 0, "list-sort:"), .strings),
  (("stone/backends/obj_c.py", "ObjCBaseBackend._get_imports_h", 0, "list-sort:"), .strings),
  (("stone/backends/obj_c.py", "ObjCBaseBackend._get_imports_m", 0, "list-sort:"), .strings),
  (("stone/backends/obj_c_types.py", "ObjCTypesBackend.generate", 0, ""), .strings),
  -- #0 `from typing import (..)` (`typingImportLines`), #1 the ad-hoc import statements (`adhocImportLines`)
  (("stone/backends/python_type_stubs.py", "PythonTypeStubsBackend._generate_imports_needed_for_typing", 0, ""), .strings),
  (("stone/backends/python_type_stubs.py", "PythonTypeStubsBackend._generate_imports_needed_for_typing", 1, ""), .strings),
  -- `remaining_annotations` (`remaining`)
  (("stone/backends/python_types.py", "PythonTypesBackend._generate_custom_annotation_processors", 0,
    "lambda annotation: (annotation.namespace.name, annotation.name) [over annotation]"), .annNsName),
  (("stone/backends/python_types.py", "PythonTypesBackend._generate_struct_class_custom_annotations", 0,
    "list-sort:lambda x: (x[0].name, x[0].namespace.name)"), .annTypeKey),
  (("stone/backends/python_types.py", "PythonTypesBackend._generate_union_class_custom_annotations", 0,
    "list-sort:lambda x: (x[0].name, x[0].namespace.name)"), .annTypeKey),
  (("stone/backends/python_types.py", "PythonTypesBackend._generate_struct_class_reflection_attributes", 0,
    callerKeySrc), .callerKey),
  -- `_permissioned_tagmaps`: `sorted(all_omitted_callers)` (`tagmapsLineSorted`)
  (("stone/backends/python_types.py", "PythonTypesBackend._generate_union_class_reflection_attributes", 0, ""), .strings),
  (("stone/backends/python_types.py", "PythonTypesBackend._generate_union_class_reflection_attributes", 1,
    callerKeySrc), .callerKey),
  (("stone/ir/api.py", "ApiNamespace.get_namespaces_imported_by_route_io", 0, "lambda n: n.name"), .nsName),
  (("stone/ir/api.py", "ApiNamespace.get_route_io_data_types", 0, "lambda dt: dt.name"), .typeName)]

/-- class attributes holding mutable containers / objects (state that survives a run) that are modelled -/
def modelledClassState : List (String × String × String) := [
  ("stone/backends/obj_c_client.py", "ObjCBackend", "namespace_to_has_routes"),
  ("stone/backends/obj_c_client.py", "ObjCBackend", "obj_name_to_namespace"),
  ("stone/backends/obj_c_types.py", "ObjCTypesBackend", "namespace_to_has_route_auth_list"),
  ("stone/backends/obj_c_types.py", "ObjCTypesBackend", "obj_name_to_namespace"),
  ("stone/backends/python_type_stubs.py", "PythonTypeStubsBackend", "import_tracker"),
  -- constructor signatures of the built-in types: a comprehension over the fixed list `data_types`, evaluated once when
  -- the class is created; only read afterwards (`_instantiate_data_type`: `self._init_argspecs.get(..)`)
  ("stone/frontend/ir_generator.py", "IRGenerator", "_init_argspecs"),
  -- template environment of the frontend: only ever `copy.copy`-ed (`_get_or_create_env`), never written
  ("stone/frontend/ir_generator.py", "IRGenerator", "default_env")]

def subsetB {α : Type} [DecidableEq α] (a b : List α) : Bool := a.all fun x => b.contains x

/-! ## What the output directory held before (`Backend.output_to_relative_path`) -/

/-- the bytes of a file -/
abbrev Bytes := List Nat

/-- what a directory holds: path ↦ bytes (the first entry of a path counts) -/
abbrev Dir := List (String × Bytes)

/-- the two modes the generators open an output file with (`Tables.outputFileModes`) -/
inductive OpenMode where
  | wb
  | ab
deriving DecidableEq, Repr

def modeOfString : String → Option OpenMode
  | "wb" => some .wb
  | "ab" => some .ab
  | _ => none

def dirGet : Dir → String → Option Bytes
  | [], _ => none
  | (q, b) :: d, p => if q = p then some b else dirGet d p

def dirPut : Dir → String → Bytes → Dir
  | [], p, b => [(p, b)]
  | (q, c) :: d, p, b => if q = p then (q, b) :: d else (q, c) :: dirPut d p b

/-- `text.encode('utf-8')` (used by the driver; the theorems are about arbitrary bytes) -/
def utf8 (s : String) : Bytes := s.toUTF8.toList.map (·.toNat)

/-- one `with self.output_to_relative_path(path, mode): ..emit..` block: `out` is the encoded output buffer -/
structure Write where
  path : String
  mode : OpenMode
  out : Bytes
deriving Repr

/-- `with open(full_path, mode) as f: f.write(out)`: `wb` creates or truncates, `ab` creates or appends -/
def writeFile (d : Dir) (w : Write) : Dir :=
  match w.mode with
  | .wb => dirPut d w.path w.out
  | .ab => dirPut d w.path ((dirGet d w.path).getD [] ++ w.out)

/-- a run of a backend, as far as the directory is concerned: its writes, in order -/
def build (d : Dir) (ws : List Write) : Dir := ws.foldl writeFile d

/-- Specification level, said without any directory: the bytes the property promises for the file `p` after the
writes `ws` -- the output of the last `wb` write to `p` followed by the outputs of the `ab` writes after it. Nothing
is promised (`none`) for a path that no write opens with `wb`: what an appending write finds there is kept. -/
def promisedFrom (acc : Option Bytes) : List Write → String → Option Bytes
  | [], _ => acc
  | w :: ws, p =>
    if w.path = p then
      match w.mode with
      | .wb => promisedFrom (some w.out) ws p
      | .ab => promisedFrom (acc.map (· ++ w.out)) ws p
    else promisedFrom acc ws p

def promised (ws : List Write) (p : String) : Option Bytes := promisedFrom none ws p

/-- what reading a file in text mode makes of its bytes (universal newlines): CR LF and a lone CR become LF -/
def uniNlAux : Bool → Bytes → Bytes
  | _, [] => []
  | afterCR, c :: r =>
    if c = 13 then 10 :: uniNlAux true r
    else if c = 10 ∧ afterCR then uniNlAux false r
    else c :: uniNlAux false r

def uniNl (b : Bytes) : Bytes := uniNlAux false b

/-- REGRESSION MODEL (not the code): a write that leaves the file alone when, read in text mode, it "already holds the
output" -/
def writeFileSkipText (d : Dir) (w : Write) : Dir :=
  match w.mode, dirGet d w.path with
  | .wb, some old => if uniNl old = w.out then d else dirPut d w.path w.out
  | _, _ => writeFile d w

def buildSkipText (d : Dir) (ws : List Write) : Dir := ws.foldl writeFileSkipText d

end StoneVerif.Order
