import StoneVerif.Model.Path
/-
Model of `OutputManifest` and of the two ways a backend run touches the file system
(stone/backend.py: `_validate_output_path`, `_record_output_path`, `output_to_relative_path`,
`copy_to_path`; stone/backends/swift.py: `_write_output_in_target_folder`).

The file-system model is deliberately small: a file map keyed by normalised absolute component
lists and a set of directories. Directory creation is abstracted to "all ancestors of the normalised
target exist afterwards" (physical resolution of `..` through not-yet-existing directories and
symlinks are not modelled; the harness observes the real file system for those).

Import-free apart from sibling models: linked into the correspondence driver.
-/
namespace StoneVerif.Manifest
open StoneVerif.Path

/-- Python `str.__lt__`: lexicographic by code point -/
def strLt : Str → Str → Bool
  | [], [] => false
  | [], _ :: _ => true
  | _ :: _, [] => false
  | a :: as, b :: bs => if a.toNat < b.toNat then true else if b.toNat < a.toNat then false else strLt as bs

/-- insert into a sorted duplicate-free list -/
def insertSorted (x : Str) : List Str → List Str
  | [] => [x]
  | y :: ys => if x = y then y :: ys else if strLt x y then x :: y :: ys else y :: insertSorted x ys

/-- `sorted(set(paths))` -/
def sortDedup (l : List Str) : List Str := l.foldr insertSorted []

/-- `OutputManifest`: `add_output` appends to `added`; `outputs()` = `sorted(self._outputs)` -/
structure OutputManifest where
  added : List Str

def OutputManifest.outputs (m : OutputManifest) : List Str := sortDedup m.added

structure FS where
  files : List (List Str × Str)      -- normalised absolute components ↦ content
  dirs : List (List Str)             -- existing directories

structure Cfg where
  cwd : Str                          -- os.getcwd()
  root : Str                         -- self.target_folder_path

inductive Op where
  /-- `with self.output_to_relative_path(rel, mode): <emit content>`; `append` = mode 'ab' -/
  | out (rel : Str) (append : Bool) (content : Str)
  /-- `self.copy_to_path(src, dst)` where `src` has base name `srcName` and the given content -/
  | copy (srcName : Str) (content : Str) (dst : Str)
  /-- `SwiftBaseBackend._write_output_in_target_folder(content, fileName)` -/
  | swiftWrite (content : Str) (fileName : Str)

inductive RunErr where
  | refused        -- AssertionError of `_relative_output_path`
  | io             -- OSError of open()/shutil.copy (target is a directory, parent missing)
  deriving DecidableEq, Repr

structure RunState where
  fs : FS
  log : List Str                     -- manifest mode: recorded outputs; real mode: relative names of written files

def isDir (fs : FS) (comps : List Str) : Bool := comps == [] || fs.dirs.contains comps

/-- all non-empty prefixes of a component list, shortest first -/
def ancestorsAndSelf : List Str → List (List Str)
  | [] => []
  | c :: cs => [c] :: (ancestorsAndSelf cs).map (c :: ·)

/-- `os.makedirs(path)` when it does not exist -/
def mkdirs (fs : FS) (comps : List Str) : FS :=
  { fs with dirs := fs.dirs ++ (ancestorsAndSelf comps).filter (fun d => !fs.dirs.contains d) }

def upsert (files : List (List Str × Str)) (k : List Str) (append : Bool) (content : Str) : List (List Str × Str) :=
  match files with
  | [] => [(k, content)]
  | (k', v) :: rest =>
    if k' = k then (k, if append then v ++ content else content) :: rest
    else (k', v) :: upsert rest k append content

/-- `open(path, mode).write(content)` -/
def writeFile (fs : FS) (comps : List Str) (append : Bool) (content : Str) : Except RunErr FS :=
  if isDir fs comps then .error .io
  else if !isDir fs comps.dropLast then .error .io
  else .ok { fs with files := upsert fs.files comps append content }

/-- validation, then either record (manifest mode) or write (real mode) -/
def commit (manifest : Bool) (cfg : Cfg) (st : RunState) (outputPath : Str) (makeParents : Bool) (append : Bool)
    (content : Str) : RunState × Option RunErr :=
  match relativeOutputPath cfg.cwd cfg.root outputPath with      -- self._validate_output_path(...)
  | .error _ => (st, some .refused)
  | .ok r =>
    if manifest then ({ st with log := st.log ++ [r] }, none)    -- self._record_output_path(...)
    else
      let target := absComps cfg.cwd outputPath
      let fs1 := if makeParents then mkdirs st.fs target.dropLast else st.fs
      match writeFile fs1 target append content with
      | .error e => ({ st with fs := fs1 }, some e)
      | .ok fs2 => ({ fs := fs2, log := st.log ++ [r] }, none)

def step (manifest : Bool) (cfg : Cfg) (st : RunState) : Op → RunState × Option RunErr
  | .out rel append content =>
    commit manifest cfg st (join2 cfg.root rel) true append content
  | .copy srcName content dst =>
    let outputPath := if isDir st.fs (absComps cfg.cwd dst) then join2 dst srcName else dst
    commit manifest cfg st outputPath false false content
  | .swiftWrite content fileName =>
    -- `os.mkdir(target_folder_path)` when missing happens before validation, in both modes
    let st1 := { st with fs := mkdirs st.fs (absComps cfg.cwd cfg.root) }
    commit manifest cfg st1 (join2 cfg.root fileName) false false content

def run (manifest : Bool) (cfg : Cfg) : RunState → List Op → RunState × Option RunErr
  | st, [] => (st, none)
  | st, op :: ops =>
    match step manifest cfg st op with
    | (st', none) => run manifest cfg st' ops
    | (st', some e) => (st', some e)

def realRun (cfg : Cfg) (ops : List Op) (fs : FS) : RunState × Option RunErr := run false cfg { fs := fs, log := [] } ops
def manifestRun (cfg : Cfg) (ops : List Op) (fs : FS) : RunState × Option RunErr := run true cfg { fs := fs, log := [] } ops

/-- components of a relative name returned by `_relative_output_path` -/
def compsOfRel (r : Str) : List Str := if r = dot then [] else splitOn sep r

end StoneVerif.Manifest
