import StoneVerif.Gen.Tables
/-
Declaration-level model of the `python_types` generator (C09): WHAT each top-level statement of a generated
namespace module binds and WHICH names it evaluates when the module is imported - not its text.

* naming: `split_words`, `fmt_pascal`, `fmt_underscores` (stone/backends/helpers.py), `fmt_class`, `fmt_func`,
  `fmt_var`, `fmt_namespace` (stone/backends/python_helpers.py) - CODE level, character by character;
* `Api`: the part of `stone.ir.Api` the generator reads (namespaces, `get_imported_namespaces(consider_annotation_
  types=True)`, annotation types, data types in `linearize_data_types` order, aliases in `linearize_aliases` order,
  routes, the kinds of the route attribute values);
* `pyTypesStmts api ns`: CODE level, follows `PythonTypesBackend._generate_base_namespace_module` and the
  methods it calls statement by statement (same order, same branches, the same mixture of `fmt_class(name)` and
  raw `name`); header lines (`coding`, `__future__`, the two `stone_base` / `stone_validators` imports, the module
  docstring) and everything inside function bodies evaluate no generated name at import time and are not listed;
* `importFrom`: the import-time semantics of CPython for such statement lists (`from pkg import m` runs `m` unless it
  is already in `sys.modules`, in which case the possibly partially filled module is returned; a missing global is
  NameError, a missing attribute AttributeError; class attributes are looked up along the bases);
* SPECIFICATION level (written from the text of property C09, not from the code): `expectedGlobals`,
  `expectedClassAttrs`, `expectedCtor`, `expectedBase`, `ApiWF`.

Import-free apart from the generated tables: this file is linked into the correspondence driver.
-/
namespace StoneVerif.DeclPy

abbrev Name := String

/-! ## Naming -/

def isLowerDigit (c : Char) : Bool := ('a' ≤ c && c ≤ 'z') || ('0' ≤ c && c ≤ '9')
def isUpperAZ (c : Char) : Bool := 'A' ≤ c && c ≤ 'Z'
/-- `_split_words_dashes_re = '[-_/]+'` -/
def isSep (c : Char) : Bool := c == '-' || c == '_' || c == '/'

/-- `re.split('[-_/]+', name)`: maximal runs of separators split; a leading / trailing run yields an empty word. -/
def splitSepAux : Bool → List Char → List Char → List (List Char)
  | _, acc, [] => [acc.reverse]
  | inSep, acc, c :: cs =>
    if isSep c then
      (if inSep then splitSepAux true acc cs else acc.reverse :: splitSepAux true [] cs)
    else splitSepAux false (c :: acc) cs

def splitSep (s : List Char) : List (List Char) := splitSepAux false [] s

/-- longest prefix satisfying `p`, and the rest -/
def spanP (p : Char → Bool) : List Char → List Char × List Char
  | [] => ([], [])
  | c :: cs => if p c then let (a, b) := spanP p cs; (c :: a, b) else ([], c :: cs)

/-- `_split_words_capitalization_re.findall(word)` with
`'^[a-z0-9]+|[A-Z][a-z0-9]+|[A-Z]+(?=[A-Z][a-z0-9])|[A-Z]+$'`: at each position the alternatives are tried in
order; when none matches the scan advances by one character. `atStart` = position 0 (where `^` matches). -/
def findWords : Nat → Bool → List Char → List (List Char)
  | 0, _, _ => []
  | _, _, [] => []
  | fuel + 1, atStart, c :: cs =>
    if atStart && isLowerDigit c then
      -- ^[a-z0-9]+
      let (m, r) := spanP isLowerDigit (c :: cs)
      m :: findWords fuel false r
    else if isUpperAZ c then
      let (run, after) := spanP isUpperAZ (c :: cs)
      let (low, r) := spanP isLowerDigit after
      if run.length == 1 && !low.isEmpty then
        -- [A-Z][a-z0-9]+
        (c :: low) :: findWords fuel false r
      else if run.length ≥ 2 && !low.isEmpty then
        -- [A-Z]+(?=[A-Z][a-z0-9]) : all but the last capital of the run
        run.dropLast :: findWords fuel false (run.drop (run.length - 1) ++ after)
      else if after.isEmpty then
        -- [A-Z]+$
        [run]
      else findWords fuel false cs
    else findWords fuel false cs

/-- `split_words(name)` -/
def splitWords (name : String) : List (List Char) :=
  (splitSep name.toList).flatMap fun w =>
    match findWords (w.length + 1) true w with
    | [] => [w]
    | vs => vs

/-- `str.capitalize()` (ASCII) -/
def capitalize : List Char → List Char
  | [] => []
  | c :: cs => c.toUpper :: cs.map Char.toLower

/-- `fmt_pascal(name)` -/
def fmtPascal (name : String) : String :=
  String.ofList ((splitWords name).flatMap capitalize)

/-- `fmt_underscores(name)` -/
def fmtUnderscores (name : String) : String :=
  "_".intercalate ((splitWords name).map fun w => String.ofList (w.map Char.toLower))

/-- `_rename_if_reserved(s)` with the table `_reserved_keywords` of python_helpers.py -/
def renameIfReserved (s : String) : String :=
  if Tables.pyReservedKeywords.contains s then s ++ "_" else s

/-- `fmt_class(name, check_reserved=False)` -/
def fmtClass (name : String) (checkReserved : Bool := false) : String :=
  let s := fmtPascal name
  if checkReserved then renameIfReserved s else s

/-- `fmt_func(name, check_reserved=False, version=1)` -/
def fmtFunc (name : String) (checkReserved : Bool := false) (version : Nat := 1) : String :=
  let n := fmtUnderscores name
  let n := if checkReserved then renameIfReserved n else n
  if version > 1 then n ++ "_v" ++ toString version else n

/-- `fmt_var(name, check_reserved=False)` -/
def fmtVar (name : String) (checkReserved : Bool := false) : String :=
  let s := fmtUnderscores name
  if checkReserved then renameIfReserved s else s

/-- `fmt_namespace(name)` -/
def fmtNamespace (name : String) : String := renameIfReserved name

/-! ## The API description as the generator reads it -/

/-- A declared type with everything but its shape and the names it mentions erased. -/
inductive Ty where
  | prim : Ty
  | void : Ty
  | user (ns name : Name) : Ty
  | alias (ns name : Name) : Ty
  | list (t : Ty) : Ty
  | map (k v : Ty) : Ty
  | nullable (t : Ty) : Ty
deriving Repr, DecidableEq, Inhabited

def Ty.isNullable : Ty → Bool
  | .nullable _ => true
  | _ => false

def Ty.isVoid : Ty → Bool
  | .void => true
  | _ => false

/-- A field default: a literal, or a tag of the field's declared type (`ty`: the union, or the alias of a union,
the field is declared with - `TagRef.union_data_type`; always `.user` or `.alias`). -/
inductive Dflt where
  | lit : Dflt
  | tag (ty : Ty) (tag : Name) : Dflt
deriving Repr, DecidableEq, Inhabited

structure Field where
  name : Name
  ty : Ty := .prim
  dflt : Option Dflt := none
  /-- `omitted_caller` -/
  caller : Option Name := none
  /-- `field.redactor` is set -/
  redact : Bool := false
deriving Repr, DecidableEq, Inhabited

/-- `required_check` of `Struct.all_required_fields` -/
def Field.required (f : Field) : Bool := !f.ty.isNullable && f.dflt.isNone

structure DataType where
  isStruct : Bool
  name : Name
  /-- `parent_type` as (namespace, name) -/
  parent : Option (Name × Name) := none
  fields : List Field := []
  /-- structs: the types of `get_all_subtypes_with_tags()` (empty = does not enumerate subtypes) -/
  subtypes : List (Name × Name) := []
  /-- unions: `catch_all_field is not None` -/
  catchAll : Bool := false
deriving Repr, DecidableEq, Inhabited

def DataType.hasSubtypes (d : DataType) : Bool := !d.subtypes.isEmpty

structure Alias where
  name : Name
  ty : Ty
  redact : Bool := false
deriving Repr, DecidableEq, Inhabited

structure AnnType where
  name : Name
  params : List Name := []
deriving Repr, DecidableEq, Inhabited

/-- What `repr()` of a route attribute value evaluates when the module is imported: a plain literal nothing,
a `TagRef` object the names `TagRef`, `Union`, `UnionField` (`TagRef(Union('ns.U', [UnionField(...), ...]), 'tag')`),
a `datetime` object the name `datetime`
(`datetime.datetime(...)`: a method call on `datetime`). -/
inductive AttrKind where
  | plain
  /-- a union tag: `repr` prints `TagRef(Union('ns.U', [UnionField(...), ...]), 'tag')`, which evaluates the names
  `TagRef`, `Union`, `UnionField` -/
  | tagRef
  /-- printed as `datetime.datetime(...)`; the module then starts with `import datetime` (like `bb` / `bv` a
  runtime name, not tracked) -/
  | timestamp
deriving Repr, DecidableEq, Inhabited

structure Route where
  name : Name
  version : Nat := 1
  deprecated : Bool := false
  arg : Ty := .void
  result : Ty := .void
  error : Ty := .void
  /-- one entry per field of the route schema (`stone_cfg.Route`), in schema order -/
  attrs : List (Name × AttrKind) := []
deriving Repr, DecidableEq, Inhabited

structure Namespace where
  name : Name
  /-- `get_imported_namespaces(consider_annotation_types=True)` (names, sorted by the compiler) -/
  imports : List Name := []
  annTypes : List AnnType := []
  /-- `linearize_data_types()` -/
  types : List DataType := []
  /-- `linearize_aliases()` -/
  aliases : List Alias := []
  routes : List Route := []
deriving Repr, DecidableEq, Inhabited

structure Api where
  namespaces : List Namespace := []
deriving Repr, DecidableEq, Inhabited

def Api.findNs (api : Api) (ns : Name) : Option Namespace := api.namespaces.find? (·.name == ns)

def Api.findType (api : Api) (ns name : Name) : Option DataType :=
  match api.findNs ns with
  | some n => n.types.find? (·.name == name)
  | none => none

def Api.findAlias (api : Api) (ns name : Name) : Option Alias :=
  match api.findNs ns with
  | some n => n.aliases.find? (·.name == name)
  | none => none

def Api.parentOf (api : Api) (d : DataType) : Option DataType :=
  match d.parent with
  | some (ns, nm) => api.findType ns nm
  | none => none

/-- total number of data types: the bound of every walk up a parent chain -/
def Api.nTypes (api : Api) : Nat := (api.namespaces.map (·.types.length)).sum

def Api.nAliases (api : Api) : Nat := (api.namespaces.map (·.aliases.length)).sum

def dedup : List Name → List Name
  | [] => []
  | x :: xs => if xs.contains x then dedup xs else x :: dedup xs

/-- `get_all_omitted_callers()` (a set: duplicates removed) -/
def DataType.ownCallers (d : DataType) : List Name :=
  dedup (d.fields.filterMap fun f => match f.caller with
    | some c => if c.isEmpty then none else some c
    | none => none)

/-- `_get_all_ancestor_omitted_callers(data_type)` -/
def ancestorCallers (api : Api) : Nat → Option DataType → List Name
  | 0, _ => []
  | _, none => []
  | n + 1, some p => p.ownCallers ++ ancestorCallers api n (api.parentOf p)

/-- own fields of the ancestors (oldest first), then own fields: `_filter_fields` without the filter -/
def chainFields (api : Api) : Nat → DataType → List Field
  | 0, d => d.fields
  | n + 1, d => (match api.parentOf d with
      | some p => chainFields api n p
      | none => []) ++ d.fields

/-- `Struct.all_fields` = all required (ancestors first) ++ all optional (ancestors first) -/
def allFieldsStruct (api : Api) (d : DataType) : List Field :=
  let fs := chainFields api api.nTypes d
  fs.filter (·.required) ++ fs.filter (fun f => !f.required)

/-- `is_member_of_enumerated_subtypes_tree()` -/
def isTreeMember (api : Api) (d : DataType) : Bool :=
  d.hasSubtypes || (match api.parentOf d with
    | some p => p.hasSubtypes
    | none => false)

/-- `is_user_defined_type(unwrap_aliases(alias)[0])`: the alias chain ends in a struct or union without passing
through `?`, `List` or `Map`. -/
def aliasEndsInUser (api : Api) : Nat → Ty → Bool
  | _, .user _ _ => true
  | n + 1, .alias ns nm => match api.findAlias ns nm with
    | some a => aliasEndsInUser api n a.ty
    | none => false
  | _, _ => false

/-! ## Statements -/

/-- A name evaluated at import time: `name`, `name.attr`, `mod.name`, `mod.name.attr` where `mod` is the local
name of an imported namespace module and `attr` a (possibly dotted) attribute path below a module-level object. -/
structure Ref where
  mod : Option Name := none
  name : Name
  attr : Option Name := none
deriving Repr, DecidableEq, Inhabited

inductive Stmt where
  /-- `from <package> import m` -/
  | imp (m : Name)
  /-- `class name(base): body` - `base = none`: a runtime base class (`bb.Struct`, `bb.Union`,
  `bb.AnnotationType`); `body`: the names bound in the class body in order; `ctor`: parameters of `__init__`
  after `self` -/
  | cls (name : Name) (base : Option Ref) (body : List Name) (ctor : Option (List Name))
  /-- `tname[.tattr] = <expression>`; `copyOf = some r`: the expression is exactly the name `r` (the target is
  bound to the same object); `uses`: every generated name the statement evaluates, including the object whose
  attribute is assigned -/
  | assign (tname : Name) (tattr : Option Name) (copyOf : Option Ref) (uses : List Ref)
  /-- an expression statement (`A._tagmap.update(B._tagmap)`) -/
  | expr (uses : List Ref)
deriving Repr, DecidableEq, Inhabited

/-- what a statement binds: a module-level name (`attr = none`) or an attribute of a module-level object -/
structure Def where
  name : Name
  attr : Option Name := none
deriving Repr, DecidableEq, Inhabited

def Stmt.defines : Stmt → List Def
  | .imp m => [⟨m, none⟩]
  | .cls n _ body _ => ⟨n, none⟩ :: body.map fun b => ⟨n, some b⟩
  | .assign t a _ _ => [⟨t, a⟩]
  | .expr _ => []

def Stmt.usesNow : Stmt → List Ref
  | .imp _ => []
  | .cls _ base _ _ => base.toList
  | .assign _ _ _ uses => uses
  | .expr uses => uses

/-- the module-level names a statement binds -/
def Stmt.globals (s : Stmt) : List Name :=
  s.defines.filterMap fun d => if d.attr.isNone then some d.name else none

/-! ## The generator -/

/-- how namespace `cur` refers to `name` of namespace `ns` (`prefix_with_ns_if_necessary` and the inline copies
of it in `generate_validator_constructor` / `_generate_python_value`) -/
def qual (cur ns : Name) (name : Name) (attr : Option Name := none) : Ref :=
  if ns == cur then ⟨none, name, attr⟩ else ⟨some (fmtNamespace ns), name, attr⟩

/-- the names in `generate_validator_constructor(ns, data_type)` -/
def tyRefs (cur : Name) : Ty → List Ref
  | .prim => []
  | .void => []
  | .user ns n => [qual cur ns (fmtClass n ++ "_validator")]
  | .alias ns n => [qual cur ns (fmtClass n ++ "_validator")]
  | .list t => tyRefs cur t
  | .map k v => tyRefs cur k ++ tyRefs cur v
  | .nullable t => tyRefs cur t

def here (name : Name) (attr : Option Name := none) : Ref := ⟨none, name, attr⟩

/-- `class_name_for_data_type(data_type.parent_type, ns)` -/
def baseRef (cur : Name) (d : DataType) : Option Ref :=
  match d.parent with
  | some (pns, pn) => some (qual cur pns (fmtClass pn))
  | none => none

/-- `_generate_annotation_type_class` -/
def annTypeStmts (a : AnnType) : List Stmt :=
  [.cls (fmtClass a.name) none
      (["__slots__", "__init__"] ++ a.params.map (fmtFunc · true))
      (some (a.params.map (fmtVar · true)))]

/-- `_generate_struct_class` -/
def structClassStmts (api : Api) (cur : Name) (d : DataType) : List Stmt :=
  let c := fmtClass d.name
  [ .cls c (baseRef cur d)
      (["__slots__", "_has_required_fields", "__init__"] ++ d.fields.map (fmtFunc ·.name true)
        ++ ["_process_custom_annotations"])
      (some ((allFieldsStruct api d).map (fmtVar ·.name true))),
    .assign (c ++ "_validator") none none [here c] ]

/-- `_generate_union_class` -/
def unionClassStmts (cur : Name) (d : DataType) : List Stmt :=
  let c := fmtClass d.name
  let void := d.fields.filter (·.ty.isVoid)
  let typed := d.fields.filter (fun f => !f.ty.isVoid)
  [ .cls c (baseRef cur d)
      ((if d.catchAll || d.parent.isNone then ["_catch_all"] else [])
        ++ void.map (fmtVar ·.name)
        ++ typed.map (fmtFunc ·.name true)
        ++ d.fields.map (fun f => "is_" ++ fmtFunc f.name)
        ++ typed.map (fun f => "get_" ++ fmtFunc f.name)
        ++ ["_process_custom_annotations"])
      none,
    .assign (c ++ "_validator") none none [here c] ]

/-- `_generate_alias_definition`: the validator is bound under `fmt_class(alias.name) + '_validator'`, the class
alias under `fmt_class(alias.name)` - the spellings every reference uses -/
def aliasStmts (api : Api) (cur : Name) (a : Alias) : List Stmt :=
  let v := fmtClass a.name ++ "_validator"
  -- a bare user type / alias: the validator expression is just the other validator's name
  let copy : Option Ref := match a.ty with
    | .user ns n => some (qual cur ns (fmtClass n ++ "_validator"))
    | .alias ns n => some (qual cur ns (fmtClass n ++ "_validator"))
    | _ => none
  [.assign v none copy (tyRefs cur a.ty)]
  ++ (if a.redact then [.assign v (some "_redact") none [here v]] else [])
  ++ (if aliasEndsInUser api api.nAliases a.ty then
        match a.ty with
        | .user ns n => let r := qual cur ns (fmtClass n); [.assign (fmtClass a.name) none (some r) [r]]
        | .alias ns n => let r := qual cur ns (fmtClass n); [.assign (fmtClass a.name) none (some r) [r]]
        | _ => []
      else [])

/-- insertion into a list sorted by `key=str` (`None` sorts as the text `None`) -/
def insertCaller (x : Option Name) : List (Option Name) → List (Option Name)
  | [] => [x]
  | y :: ys => if x.getD "None" < y.getD "None" then x :: y :: ys else y :: insertCaller x ys

def sortCallers (xs : List (Option Name)) : List (Option Name) := xs.foldr insertCaller []

/-- `'' if is_public else '_{}'.format(omitted_caller)` -/
def callerPrefix : Option Name → String
  | none => ""
  | some c => "_" ++ c

/-- `_generate_struct_class_reflection_attributes` + `_generate_enumerated_subtypes_tag_mapping` -/
def structReflStmts (api : Api) (cur : Name) (d : DataType) : List Stmt :=
  let c := fmtClass d.name
  let parentCls := baseRef cur d
  let fieldVals := d.fields.flatMap fun f =>
    let fv := fmtVar f.name
    [Stmt.assign c (some (fv ++ ".validator")) none (here c (some fv) :: tyRefs cur f.ty)]
    ++ (if f.redact then [Stmt.assign c (some (fv ++ ".validator._redact")) none [here c (some (fv ++ ".validator"))]] else [])
  let child := d.ownCallers
  let parent := dedup (ancestorCallers api api.nTypes (api.parentOf d))
  let callers := sortCallers (dedup (child ++ parent) |>.map some |> (none :: ·))
  let tree := isTreeMember api d
  let perCaller := callers.flatMap fun oc =>
    let isPublic := oc.isNone
    let pre := callerPrefix oc
    let inChild := match oc with | some x => child.contains x | none => false
    let inParent := match oc with | some x => parent.contains x | none => false
    let cip := d.parent.isSome && (isPublic || inParent)
    let mine := d.fields.filter (·.caller == oc)
    let names := pre ++ "_field_names_"
    let allNames := "_all" ++ pre ++ "_field_names_"
    let flds := pre ++ "_fields_"
    let allFlds := "_all" ++ pre ++ "_fields_"
    let fieldRefs := mine.map fun f => here c (some (fmtVar f.name ++ ".validator"))
    let pref (attr : String) : List Ref := match parentCls with
      | some p => [{ p with attr := some attr }]
      | none => []
    if tree then
      (if isPublic || inChild then [Stmt.assign c (some names) none [here c]] else [])
      ++ (if cip then [Stmt.assign c (some allNames) none (here c :: pref allNames ++ [here c (some names)])]
          else [Stmt.assign c (some allNames) none [here c, here c (some names)]])
      ++ [Stmt.assign c (some flds) none (here c :: fieldRefs)]
      ++ (if cip then [Stmt.assign c (some allFlds) none (here c :: pref allFlds ++ [here c (some flds)])]
          else [Stmt.assign c (some allFlds) none [here c, here c (some flds)]])
    else
      [Stmt.assign c (some allNames) none (here c :: (if cip then pref allNames else [])),
       Stmt.assign c (some allFlds) none (here c :: (if cip then pref allFlds else []) ++ fieldRefs)]
  let subs := if d.hasSubtypes then
      let vrefs := d.subtypes.flatMap fun (sns, sn) => tyRefs cur (.user sns sn)
      let crefs := d.subtypes.map fun (_, sn) => here (fmtClass sn)
      [Stmt.assign c (some "_tag_to_subtype_") none (here c :: vrefs),
       Stmt.assign c (some "_pytype_to_tag_and_subtype_") none (here c :: crefs ++ vrefs),
       Stmt.assign c (some "_is_catch_all_") none [here c]]
    else []
  fieldVals ++ perCaller ++ subs

/-- `_generate_union_class_reflection_attributes` + `_generate_union_class_symbol_creators` -/
def unionReflStmts (api : Api) (cur : Name) (d : DataType) : List Stmt :=
  let c := fmtClass d.name
  let parentCls := baseRef cur d
  let tagVals := d.fields.flatMap fun f =>
    let a := "_" ++ fmtVar f.name ++ "_validator"
    [Stmt.assign c (some a) none (here c :: tyRefs cur f.ty)]
    ++ (if f.redact then [Stmt.assign c (some (a ++ "._redact")) none [here c (some a)]] else [])
  let child := d.ownCallers
  let parent := dedup (ancestorCallers api api.nTypes (api.parentOf d))
  let all := dedup (child ++ parent)
  let perm := if all.isEmpty then [] else [Stmt.assign c (some "_permissioned_tagmaps") none [here c]]
  let perCaller := (sortCallers (none :: all.map some)).flatMap fun oc =>
    let isPublic := oc.isNone
    let inParent := match oc with | some x => parent.contains x | none => false
    let cip := d.parent.isSome && (isPublic || inParent)
    let tagmap := match oc with | none => "_tagmap" | some x => "_" ++ x ++ "_tagmap"
    let mine := d.fields.filter (·.caller == oc)
    [Stmt.assign c (some tagmap) none (here c :: mine.map fun f => here c (some ("_" ++ fmtVar f.name ++ "_validator")))]
    ++ (if cip then match parentCls with
          | some p => [Stmt.expr [here c (some tagmap), { p with attr := some tagmap }]]
          | none => []
        else [])
  -- `Cls.tag = Cls('tag')`: the constructor looks the tag up in `Cls._tagmap`
  let symbols := (d.fields.filter (·.ty.isVoid)).map fun f =>
    Stmt.assign c (some (fmtFunc f.name)) none [here c, here c (some "_tagmap")]
  tagVals ++ perm ++ perCaller ++ symbols

/-- `_generate_python_value` of a tag reference: `[ns.]Class.tag` (`class_name_for_data_type` asserts a user type
or an alias) -/
def tagRef (cur : Name) (t : Ty) (tag : Name) : List Ref :=
  match t with
  | .user uns un => [qual cur uns (fmtClass un) (some (fmtVar tag))]
  | .alias uns un => [qual cur uns (fmtClass un) (some (fmtVar tag))]
  | _ => []

/-- `_generate_struct_attributes_defaults` -/
def defaultStmts (cur : Name) (d : DataType) : List Stmt :=
  let c := fmtClass d.name
  d.fields.filterMap fun f =>
    match f.dflt with
    | none => none
    | some .lit => some (.assign c (some (fmtVar f.name ++ ".default")) none [here c (some (fmtVar f.name))])
    | some (.tag t tag) =>
      some (.assign c (some (fmtVar f.name ++ ".default")) none (here c (some (fmtVar f.name)) :: tagRef cur t tag))

def attrRefs (cur : Name) : List (Name × AttrKind) → List Ref
  | [] => []
  | (_, .plain) :: r => attrRefs cur r
  | (_, .tagRef) :: r => here "TagRef" :: here "Union" :: here "UnionField" :: attrRefs cur r
  | (_, .timestamp) :: r => attrRefs cur r

/-- `_generate_routes` -/
def routeStmts (cur : Name) (rs : List Route) : List Stmt :=
  rs.map (fun r => Stmt.assign (fmtFunc r.name false r.version) none none
      (tyRefs cur r.arg ++ tyRefs cur r.result ++ tyRefs cur r.error ++ attrRefs cur r.attrs))
  ++ [Stmt.assign "ROUTES" none none (rs.map fun r => here (fmtFunc r.name false r.version))]

/-- the order of the sections of `_generate_base_namespace_module`, by the names of the methods that emit them
(pinned to the source by `Tables.pyTypesModuleCalls`, see Props/C09.lean) -/
def sectionOrder : List String :=
  ["_generate_imports_for_referenced_namespaces", "_generate_annotation_type_class", "_generate_struct_class",
   "_generate_union_class", "_generate_alias_definition", "_generate_struct_class_reflection_attributes",
   "_generate_enumerated_subtypes_tag_mapping", "_generate_union_class_reflection_attributes",
   "_generate_union_class_symbol_creators", "_generate_struct_attributes_defaults", "_generate_routes"]

def importStmts (ns : Namespace) : List Stmt := ns.imports.map fun m => .imp (fmtNamespace m)
def annStmts (ns : Namespace) : List Stmt := ns.annTypes.flatMap annTypeStmts
def classStmts (api : Api) (ns : Namespace) : List Stmt :=
  ns.types.flatMap fun d => if d.isStruct then structClassStmts api ns.name d else unionClassStmts ns.name d
def aliasSection (api : Api) (ns : Namespace) : List Stmt := ns.aliases.flatMap (aliasStmts api ns.name)
def reflStmts (api : Api) (ns : Namespace) : List Stmt :=
  ns.types.flatMap fun d => if d.isStruct then structReflStmts api ns.name d else unionReflStmts api ns.name d
def defaultSection (ns : Namespace) : List Stmt :=
  ns.types.flatMap fun d => if d.isStruct then defaultStmts ns.name d else []

/-- `_generate_base_namespace_module`: imports, annotation types, classes, aliases, reflection attributes,
defaults, routes. -/
def pyTypesStmts (api : Api) (ns : Namespace) : List Stmt :=
  importStmts ns ++ annStmts ns ++ classStmts api ns ++ aliasSection api ns ++ reflStmts api ns
    ++ defaultSection ns ++ routeStmts ns.name ns.routes

/-- one module per namespace, named `fmt_namespace(ns.name)` -/
def pyModules (api : Api) : List (Name × List Stmt) :=
  api.namespaces.map fun ns => (fmtNamespace ns.name, pyTypesStmts api ns)

/-! ## Import-time semantics -/

abbrev ClsId := Name × Name

inductive Val where
  | cls (id : ClsId)
  | modu (m : Name)
  | obj
deriving Repr, DecidableEq, Inhabited

structure St where
  /-- `sys.modules`: modules whose execution has started (finished or not) -/
  started : List Name := []
  /-- module globals, newest first: ((module, name), value) -/
  globals : List ((Name × Name) × Val) := []
  /-- classes in creation order, newest first, each with its generated base class (if any) -/
  classes : List (ClsId × Option ClsId) := []
  /-- attributes set directly on a class -/
  attrs : List (ClsId × Name) := []
deriving Repr, Inhabited

inductive Err where
  /-- NameError: module-level name `r.mod.getD r.name` not bound in module `cur` when statement ran -/
  | nameError (cur : Name) (r : Ref)
  /-- AttributeError: the module / class object has no such attribute (yet) -/
  | attrError (cur : Name) (r : Ref)
  /-- TypeError: a base "class" that is not a class -/
  | notAClass (cur : Name) (r : Ref)
  /-- ImportError: no such module in the package -/
  | noModule (m : Name)
  | fuel
deriving Repr, DecidableEq, Inhabited

def St.global? (st : St) (m n : Name) : Option Val :=
  (st.globals.find? (fun e => e.1 == (m, n))).map (·.2)

/-- attribute lookup along the bases. A class is created after its base, so the base's entry lies further down
the creation list: structural recursion on the list. -/
def lookupAttr (attrs : List (ClsId × Name)) : List (ClsId × Option ClsId) → ClsId → Name → Bool
  | [], _, _ => false
  | (c', p) :: rest, c, a =>
    if c' == c then
      attrs.contains (c, a) || (match p with
        | some p => lookupAttr attrs rest p a
        | none => false)
    else lookupAttr attrs rest c a

/-- evaluate a name in module `cur` -/
def evalRef (st : St) (cur : Name) (r : Ref) : Except Err Val := do
  let v ← match r.mod with
    | none => match st.global? cur r.name with
      | some v => pure v
      | none => throw (.nameError cur r)
    | some m => match st.global? cur m with
      | some (.modu m') => match st.global? m' r.name with
        | some v => pure v
        | none => throw (.attrError cur r)
      | some _ => throw (.attrError cur r)
      | none => throw (.nameError cur r)
  match r.attr with
  | none => pure v
  | some a => match v with
    | .cls c => if lookupAttr st.attrs st.classes c a then pure .obj else throw (.attrError cur r)
    | _ => throw (.attrError cur r)

def evalAll (st : St) (cur : Name) : List Ref → Except Err Unit
  | [] => pure ()
  | r :: rs => do
    let _ ← evalRef st cur r
    evalAll st cur rs

/-- execute one statement that is not an import -/
def execStmt (st : St) (cur : Name) : Stmt → Except Err St
  | .imp _ => pure st
  | .cls n base body _ => do
    let b ← match base with
      | none => pure none
      | some r => match ← evalRef st cur r with
        | .cls p => pure (some p)
        | _ => throw (.notAClass cur r)
    pure { st with
      globals := ((cur, n), .cls (cur, n)) :: st.globals
      classes := ((cur, n), b) :: st.classes
      attrs := body.map (fun a => ((cur, n), a)) ++ st.attrs }
  | .assign t none copyOf uses => do
    evalAll st cur uses
    let v ← match copyOf with
      | some r => evalRef st cur r
      | none => pure .obj
    pure { st with globals := ((cur, t), v) :: st.globals }
  | .assign t (some a) _ uses => do
    evalAll st cur uses
    match st.global? cur t with
    | some (.cls c) => pure { st with attrs := (c, a) :: st.attrs }
    | some _ => pure st
    | none => throw (.nameError cur (here t))
  | .expr uses => do
    evalAll st cur uses
    pure st

/-- run the statements of module `cur`; `imp` handles `from pkg import m` (it is given the module to load) -/
def execStmts (imp : St → Name → Except Err St) (cur : Name) : St → List Stmt → Except Err St
  | st, [] => pure st
  | st, .imp m :: rest => do
    let st ← imp st m
    execStmts imp cur { st with globals := ((cur, m), .modu m) :: st.globals } rest
  | st, s :: rest => do
    let st ← execStmt st cur s
    execStmts imp cur st rest

/-- `importlib.import_module(pkg + '.' + m)`: nothing happens when `m` is in `sys.modules` (finished or still
executing); otherwise it is entered there and its statements run. `fuel` bounds the nesting depth of imports. -/
def runMod (mods : List (Name × List Stmt)) : Nat → St → Name → Except Err St
  | 0, _, _ => throw .fuel
  | fuel + 1, st, m =>
    if st.started.contains m then pure st
    else match mods.lookup m with
      | none => throw (.noModule m)
      | some stmts => execStmts (runMod mods fuel) m { st with started := m :: st.started } stmts

/-- a fresh interpreter imports `first`; then (as the harness does) every other module -/
def importFrom (mods : List (Name × List Stmt)) (first : Name) : Except Err St :=
  runMod mods (mods.length + 1) {} first

def importAll (mods : List (Name × List Stmt)) (first : Name) : Except Err St :=
  (first :: mods.map (·.1)).foldlM (fun st m => runMod mods (mods.length + 1) st m) {}

def Except.isOk {ε α} : Except ε α → Bool
  | .ok _ => true
  | .error _ => false

/-- the exception an import ends with (none = it succeeds) -/
def errOf {α} : Except Err α → Option Err
  | .ok _ => none
  | .error e => some e

/-! ## Specification level: what property C09 promises -/

/-- all own and inherited fields / tags of a type, ancestors first -/
def allMembers (api : Api) (d : DataType) : List Field := chainFields api api.nTypes d

/-- the same chain with the kind (struct?) of the type that declares each member -/
def chainMembersK (api : Api) : Nat → DataType → List (Bool × Field)
  | 0, d => d.fields.map (d.isStruct, ·)
  | n + 1, d => (match api.parentOf d with
      | some p => chainMembersK api n p
      | none => []) ++ d.fields.map (d.isStruct, ·)

/-- module-level names the text promises for namespace `ns`: a class per struct and union, `<Name>_validator`
for every type and alias, a route object per route version named by `fmt_func(name, version)`, `ROUTES`. -/
def expectedGlobals (ns : Namespace) : List Name :=
  ns.types.map (fmtClass ·.name)
  ++ ns.types.map (fun d => fmtClass d.name ++ "_validator")
  ++ ns.aliases.map (fun a => fmtClass a.name ++ "_validator")
  ++ ns.routes.map (fun r => fmtFunc r.name false r.version)
  ++ ["ROUTES"]

/-- class attributes the text promises for ONE member `f` declared by a struct (`isStruct`) or a union: per struct
field an attribute; per union tag `is_<tag>`, per typed tag `get_<tag>` and a constructor method, per void tag a
ready instance attribute. -/
def memberAttrs (isStruct : Bool) (f : Field) : List Name :=
  if isStruct then [fmtFunc f.name true]
  else if f.ty.isVoid then ["is_" ++ fmtFunc f.name, fmtVar f.name]
  else ["is_" ++ fmtFunc f.name, "get_" ++ fmtFunc f.name, fmtFunc f.name true]

/-- constructor parameters of a struct class: all fields including inherited ones (required ones first, as
lang_ref documents for generated constructors) -/
def expectedCtor (api : Api) (d : DataType) : List Name :=
  let fs := allMembers api d
  (fs.filter (·.required) ++ fs.filter (fun f => !f.required)).map (fmtVar ·.name true)

/-- the Python base the text promises: the class of the spec parent, reached through its module when the parent
lives in another namespace; none = the runtime base class -/
def expectedBase (cur : Name) (d : DataType) : Option Ref :=
  d.parent.map fun (pns, pn) =>
    if pns == cur then { name := fmtClass pn } else { mod := some (fmtNamespace pns), name := fmtClass pn }

/-- keys of `ROUTES`: `name` for version 1, `name:version` otherwise -/
def routeKey (r : Route) : String := if r.version == 1 then r.name else r.name ++ ":" ++ toString r.version

/-- `HasAttr api ns d a`: the class generated for `d` (of namespace `ns`) binds `a` in its body, or its Python base
is the class generated for the spec parent and that one `HasAttr` (Python attribute lookup along the bases). -/
inductive HasAttr (api : Api) : Name → DataType → Name → Prop where
  | own {ns : Namespace} {d : DataType} {base body ctor} {a : Name} :
      ns ∈ api.namespaces → d ∈ ns.types →
      Stmt.cls (fmtClass d.name) base body ctor ∈ pyTypesStmts api ns → a ∈ body → HasAttr api ns.name d a
  | inherited {ns : Namespace} {d p : DataType} {pns pn : Name} {body ctor} {a : Name} :
      ns ∈ api.namespaces → d ∈ ns.types → d.parent = some (pns, pn) → api.findType pns pn = some p →
      Stmt.cls (fmtClass d.name) (expectedBase ns.name d) body ctor ∈ pyTypesStmts api ns →
      HasAttr api pns p a → HasAttr api ns.name d a

/-! ## Well-formedness of an `Api` (decidable; what the compiler is supposed to guarantee) -/

def Ty.mentions : Ty → List (Bool × Name × Name)
  | .prim => []
  | .void => []
  | .user ns n => [(true, ns, n)]
  | .alias ns n => [(false, ns, n)]
  | .list t => t.mentions
  | .map k v => k.mentions ++ v.mentions
  | .nullable t => t.mentions

/-- every type / alias mentioned exists in its namespace; a foreign namespace is in the import list -/
def tyOK (api : Api) (ns : Namespace) (t : Ty) : Bool :=
  t.mentions.all fun (isUser, rns, rn) =>
    (if isUser then (api.findType rns rn).isSome else (api.findAlias rns rn).isSome)
    && (rns == ns.name || ns.imports.contains rns)

/-- names of the aliases of namespace `ns` that `t` mentions at any depth -/
def Ty.localAliases (cur : Name) (t : Ty) : List Name :=
  t.mentions.filterMap fun (isUser, rns, rn) => if !isUser && rns == cur then some rn else none

/-- position-wise check over a list: `p earlier x` for every element with the elements before it -/
def allWithEarlier {α} (p : List α → α → Bool) : List α → List α → Bool
  | _, [] => true
  | earlier, x :: xs => p earlier x && allWithEarlier p (earlier ++ [x]) xs

/-- the union `t`, or the union the alias `t` ends in, has the VOID tag `tag`, own or inherited -/
def tagOKTy (api : Api) : Nat → Ty → Name → Bool
  | _, .user ns n, tag => match api.findType ns n with
    | some d => !d.isStruct && (allMembers api d).any (fun f => f.name == tag && f.ty.isVoid)
    | none => false
  | k + 1, .alias ns n, tag => match api.findAlias ns n with
    | some a => tagOKTy api k a.ty tag
    | none => false
  | _, _, _ => false

/-- every module-level name a namespace module binds (imports included) -/
def bindNames (api : Api) (ns : Namespace) : List Name :=
  ns.imports.map fmtNamespace
  ++ ns.annTypes.map (fmtClass ·.name)
  ++ ns.types.flatMap (fun d => [fmtClass d.name, fmtClass d.name ++ "_validator"])
  ++ ns.aliases.flatMap (fun a => (fmtClass a.name ++ "_validator") ::
        (if aliasEndsInUser api api.nAliases a.ty then [fmtClass a.name] else []))
  ++ ns.routes.map (fun r => fmtFunc r.name false r.version)
  ++ ["ROUTES"]

def nodupB : List Name → Bool
  | [] => true
  | x :: xs => !xs.contains x && nodupB xs

def noReserved (n : Name) : Bool := !Tables.pyReservedKeywords.contains n

def typeWF (api : Api) (ns : Namespace) (earlier : List DataType) (d : DataType) : Bool :=
  -- the parent exists, is of the same kind, and - when local - precedes (`linearize_data_types`)
  (match d.parent with
    | none => true
    | some (pns, pn) =>
      (match api.findType pns pn with
        | some p => p.isStruct == d.isStruct
        | none => false)
      && (if pns == ns.name then earlier.any (·.name == pn) else ns.imports.contains pns))
  && d.fields.all (fun f => tyOK api ns f.ty && noReserved (fmtVar f.name) && noReserved (fmtFunc f.name))
  -- field / tag names do not collide (own and inherited), nor with the fixed members of the class
  && nodupB ((allMembers api d).map (fmtFunc ·.name))
  -- a tag default names an available void tag of a visible union
  && d.fields.all (fun f => match f.dflt with
      | some (.tag t tag) => tagOKTy api (api.nAliases + 1) t tag && tyOK api ns t
          && aliasEndsInUser api (api.nAliases + 1) t
      | _ => true)
  -- enumerated subtypes are local structs whose parent is `d`
  && d.subtypes.all (fun (sns, sn) => sns == ns.name && (match api.findType sns sn with
      | some s => s.isStruct && s.parent == some (ns.name, d.name)
      | none => false))
  && (d.subtypes.isEmpty || (d.isStruct && d.parent.isNone))

def aliasWF (api : Api) (ns : Namespace) (earlier : List Alias) (a : Alias) : Bool :=
  tyOK api ns a.ty
  -- every alias of this namespace mentioned AT ANY DEPTH precedes (`linearize_aliases`)
  && (a.ty.localAliases ns.name).all (fun n => earlier.any (·.name == n))

def routeWF (api : Api) (ns : Namespace) (r : Route) : Bool :=
  tyOK api ns r.arg && tyOK api ns r.result && tyOK api ns r.error
  -- no union-tag attribute (its printed form is not an expression the module can evaluate)
  && r.attrs.all (fun (_, k) => k != .tagRef)

def nsWF (api : Api) (ns : Namespace) : Bool :=
  allWithEarlier (typeWF api ns) [] ns.types
  && allWithEarlier (aliasWF api ns) [] ns.aliases
  && ns.routes.all (routeWF api ns)
  && ns.imports.all (fun m => (api.findNs m).isSome && m != ns.name)
  && nodupB (bindNames api ns)
  -- `bb` / `bv` are the local names of the runtime modules
  && (bindNames api ns).all (fun n => n != "bb" && n != "bv")

/-- What the generator needs of an accepted spec. -/
def apiWF (api : Api) : Bool :=
  api.namespaces.all (nsWF api)
  && nodupB (api.namespaces.map (·.name))
  && nodupB (api.namespaces.map (fmtNamespace ·.name))

/-- the import graph: namespace name → imported namespace names -/
def importEdges (api : Api) : List (Name × Name) :=
  api.namespaces.flatMap fun ns => ns.imports.map fun m => (ns.name, m)

/-- acyclic = some ranking decreases along every import -/
def Acyclic (edges : List (Name × Name)) : Prop :=
  ∃ rank : Name → Nat, ∀ e ∈ edges, rank e.2 < rank e.1

/-- Executable acyclicity test: number the namespaces by layers (layer 0 imports nothing, layer k+1 imports only
lower layers); the import graph is acyclic when every edge goes down in that numbering. -/
def layerRanks (edges : List (Name × Name)) : Nat → Nat → List Name → List (Name × Nat)
  | 0, _, _ => []
  | fuel + 1, k, nodes =>
    let free := nodes.filter fun a => !(edges.any fun e => e.1 == a && nodes.contains e.2)
    if free.isEmpty then []
    else free.map (fun a => (a, k + 1)) ++ layerRanks edges fuel (k + 1) (nodes.filter fun a => !free.contains a)

def rankFn (rs : List (Name × Nat)) (n : Name) : Nat := (rs.lookup n).getD 0

def apiRanks (api : Api) : List (Name × Nat) :=
  let nodes := api.namespaces.map (·.name)
  layerRanks (importEdges api) nodes.length 0 nodes

def acyclicB (api : Api) : Bool :=
  (importEdges api).all fun e => decide (rankFn (apiRanks api) e.2 < rankFn (apiRanks api) e.1)

end StoneVerif.DeclPy
