/-
Dependency graph of a compiled `Api` (C20) and the list algorithms of `stone/ir/api.py` /
`stone/ir/data_types.py` that order its items (C02).

* nodes = user types (struct / union), aliases, routes; ids are the strings `"ns.Name"` and
  `"ns.route:version"` (the version is always written in an id);
* `Edge` / `succ` / `closure` are SPECIFICATION level: written from the text of property C20 and from
  lang_ref (what a doc reference denotes), not from the code;
* `whitelistFilter` is CODE level: it follows `IRGenerator._filter_namespaces_by_route_whitelist`,
  `_find_dependencies`, `_find_dependencies_recursive`, `parse_data_types_(and_routes_)from_doc_ref`,
  `parse_route_name_and_version` (stone/frontend/ir_generator.py) and
  `ApiNamespace.get_route_io_data_types_for_route` (stone/ir/api.py) branch by branch;
* `linearizeDataTypes`, `linearizeAliases`, `normalize`, `allFields` follow stone/ir/api.py and
  `Struct.all_fields` / `Union.all_fields`.

Where Python raises, the model returns an `Err` (never a default).

Import-free: this file is linked into the correspondence driver.
-/
namespace StoneVerif.Graph

abbrev Id := String

/-! ## The graph -/

/-- A declared type expression with everything but its shape and its references erased. -/
inductive TyExpr where
  | prim : TyExpr
  | list : TyExpr → TyExpr
  | map : TyExpr → TyExpr → TyExpr
  | nullable : TyExpr → TyExpr
  | ref : Id → TyExpr
deriving Repr, DecidableEq, Inhabited

/-- The user types / aliases mentioned in a type expression, left to right. -/
def TyExpr.refs : TyExpr → List Id
  | .prim => []
  | .list t => t.refs
  | .map k v => k.refs ++ v.refs
  | .nullable t => t.refs
  | .ref i => [i]

/-- `is_nullable_type(t)`: the expression itself is `T?` (an alias of a nullable is not). -/
def TyExpr.isNullable : TyExpr → Bool
  | .nullable _ => true
  | _ => false

inductive Kind where
  | struct | union | alias | route
deriving Repr, DecidableEq, Inhabited

/-- One match of `doc_ref_re` (``:tag:`val` ``) in a doc string, in textual order. -/
structure DocRef where
  tag : String
  val : String
deriving Repr, DecidableEq, Inhabited

structure Field where
  name : String
  ty : TyExpr := .prim
  /-- `StructField.has_default` -/
  hasDefault : Bool := false
  /-- the union a tag default (`= some_tag`) refers to -/
  tagDefault : Option Id := none
  docRefs : List DocRef := []
deriving Repr, DecidableEq, Inhabited

structure Node where
  id : Id
  kind : Kind
  ns : String
  name : String
  /-- routes only -/
  version : Nat := 1
  /-- structs and unions: `parent_type` -/
  parent : Option Id := none
  /-- structs: own fields; unions: own tags (declaration order) -/
  fields : List Field := []
  /-- structs: the types of `get_enumerated_subtypes()` -/
  subtypes : List Id := []
  /-- aliases: `data_type` -/
  target : TyExpr := .prim
  /-- doc references of the type / alias / route doc -/
  docRefs : List DocRef := []
  /-- routes: `arg_data_type`, `result_data_type`, `error_data_type` -/
  arg : TyExpr := .prim
  result : TyExpr := .prim
  error : TyExpr := .prim
deriving Repr, Inhabited

structure Namespace where
  name : String
  /-- doc references of the namespace doc (`doc is None` = no reference) -/
  docRefs : List DocRef := []
  /-- `namespace.routes`, `namespace.data_types`, `namespace.aliases` in list order -/
  routes : List Id := []
  dataTypes : List Id := []
  aliases : List Id := []
  /-- names of `namespace.annotations` and `namespace.annotation_types` in list order (they take no
  part in the dependency graph) -/
  annotations : List String := []
  annotationTypes : List String := []
deriving Repr, Inhabited

structure Graph where
  nodes : List Node
  namespaces : List Namespace
deriving Repr, Inhabited

/-- Python exceptions that can leave the modelled functions. -/
inductive Err where
  /-- `KeyError` (doc reference or namespace lookup) -/
  | keyError (what : String)
  /-- `AssertionError` ("... is not defined!", `assert '*' not in route_reprs`) -/
  | assertion (what : String)
  /-- `ValueError` of `parse_route_name_and_version` -/
  | valueError (what : String)
  /-- fuel exhausted: cyclic parents / aliases (Python: `RecursionError`), or the work bound of the
  dependency walk (never observed; reported, never defaulted) -/
  | recursion
  /-- the dump mentions an id that is no node of the right kind (never for a dump of a real `Api`) -/
  | dangling (id : Id)
deriving Repr, DecidableEq, Inhabited

def Graph.node? (g : Graph) (id : Id) : Option Node := g.nodes.find? (fun n => n.id == id)
def Graph.ns? (g : Graph) (name : String) : Option Namespace := g.namespaces.find? (fun n => n.name == name)
def Graph.ids (g : Graph) : List Id := g.nodes.map (·.id)

def Node.isType (n : Node) : Bool := n.kind == .struct || n.kind == .union
def Node.isAlias (n : Node) : Bool := n.kind == .alias
def Node.isRoute (n : Node) : Bool := n.kind == .route

def typeId (ns name : String) : Id := ns ++ "." ++ name
def routeId (ns name : String) (version : Nat) : Id := ns ++ "." ++ name ++ ":" ++ toString version

def Graph.isTypeId (g : Graph) (id : Id) : Bool :=
  match g.node? id with
  | some n => n.isType
  | none => false
def Graph.isAliasId (g : Graph) (id : Id) : Bool :=
  match g.node? id with
  | some n => n.isAlias
  | none => false
def Graph.isRouteId (g : Graph) (id : Id) : Bool :=
  match g.node? id with
  | some n => n.isRoute
  | none => false

/-- `api.namespaces[ns].data_type_by_name[name]` (structs and unions only; `none` = `KeyError`) -/
def Graph.typeByName (g : Graph) (ns name : String) : Option Id :=
  match g.node? (typeId ns name) with
  | some n => if n.isType && n.ns == ns && n.name == name then some n.id else none
  | none => none

/-- `api.namespaces[ns].alias_by_name[name]` -/
def Graph.aliasByName (g : Graph) (ns name : String) : Option Id :=
  match g.node? (typeId ns name) with
  | some n => if n.isAlias && n.ns == ns && n.name == name then some n.id else none
  | none => none

/-- `api.namespaces[ns].routes_by_name[name].at_version[version]` -/
def Graph.routeByName (g : Graph) (ns name : String) (version : Nat) : Option Id :=
  match g.node? (routeId ns name version) with
  | some n => if n.isRoute && n.ns == ns && n.name == name && n.version == version then some n.id else none
  | none => none

/-! ## Small string functions (over `List Char`, so that closed terms reduce in the kernel) -/

/-- `s.split(c, 1)` when `c in s`: the text before and after the first `c`. -/
def splitFirstL (c : Char) : List Char → Option (List Char × List Char)
  | [] => none
  | x :: xs =>
    if x == c then some ([], xs)
    else match splitFirstL c xs with
      | none => none
      | some (a, b) => some (x :: a, b)

def splitFirst (c : Char) (s : String) : Option (String × String) :=
  match splitFirstL c s.toList with
  | none => none
  | some (a, b) => some (String.ofList a, String.ofList b)

/-- `s.split(c)` -/
def splitAllL (c : Char) : List Char → List (List Char)
  | [] => [[]]
  | x :: xs =>
    if x == c then [] :: splitAllL c xs
    else match splitAllL c xs with
      | w :: ws => (x :: w) :: ws
      | [] => [[x]]

def splitAll (c : Char) (s : String) : List String := (splitAllL c s.toList).map String.ofList

def digitsToNat : List Char → Nat → Option Nat
  | [], acc => some acc
  | c :: cs, acc => if c.isDigit then digitsToNat cs (acc * 10 + (c.toNat - 48)) else none

/-- `int(s)` for a plain run of ASCII digits (signs, blanks, `_` are outside the model: `none`). -/
def natOfString (s : String) : Option Nat :=
  match s.toList with
  | [] => none
  | cs => digitsToNat cs 0

/-- `parse_route_name_and_version(route_repr)` -/
def parseRouteRepr (s : String) : Except Err (String × Nat) :=
  match splitFirst ':' s with
  | some (name, v) =>
    match natOfString v with
    | some n => .ok (name, n)
    | none => .error (.valueError s)
  | none => .ok (s, 1)

/-! ## Specification level: what an item depends on (property C20) -/

/-- the route `name[:version]` of namespace `ns` -/
def routeTargets (g : Graph) (ns : String) (repr : String) : List Id :=
  match parseRouteRepr repr with
  | .ok (name, v) => (g.routeByName ns name v).toList
  | .error _ => []

/-- What a doc reference denotes (lang_ref "Documentation"): ``:type:`[ns.]T` `` a struct or union,
``:field:`[[ns.]T.]f` `` the type (or alias) owning the field - nothing for a field of the documented
type itself -, ``:route:`[ns.]r[:v]` `` a route; `:link:` and `:val:` nothing. `ns` is the namespace
the doc string was declared in. -/
def refTargets (g : Graph) (ns : String) (r : DocRef) : List Id :=
  if r.tag == "type" then
    match splitAll '.' r.val with
    | [t] => (g.typeByName ns t).toList
    | [n, t] => (g.typeByName n t).toList
    | _ => []
  else if r.tag == "field" then
    match splitAll '.' r.val with
    | [t, _] => ((g.typeByName ns t).orElse fun _ => g.aliasByName ns t).toList
    | [n, t, _] => ((g.typeByName n t).orElse fun _ => g.aliasByName n t).toList
    | _ => []
  else if r.tag == "route" then
    match splitFirst '.' r.val with
    | some (n, rest) => routeTargets g n rest
    | none => routeTargets g ns r.val
  else []

def docTargets (g : Graph) (ns : String) (refs : List DocRef) : List Id :=
  refs.flatMap (refTargets g ns)

/-- Everything the item `n` refers to. A data type: field / tag types through lists, maps and
nullables (aliases are nodes of their own), parent, enumerated subtypes (structs), unions of tag
defaults; an alias: its target; a route: its signature; each of them: the types, field owners and
routes its docs (and the docs of its fields) mention. -/
def Node.succ (g : Graph) (n : Node) : List Id :=
  (match n.kind with
   | .struct =>
     n.fields.flatMap (fun f => f.ty.refs) ++ n.parent.toList ++ n.subtypes
       ++ n.fields.flatMap (fun f => f.tagDefault.toList)
       ++ n.fields.flatMap (fun f => docTargets g n.ns f.docRefs)
   | .union =>
     n.fields.flatMap (fun f => f.ty.refs) ++ n.parent.toList
       ++ n.fields.flatMap (fun f => docTargets g n.ns f.docRefs)
   | .alias => n.target.refs
   | .route => n.arg.refs ++ n.result.refs ++ n.error.refs)
  ++ docTargets g n.ns n.docRefs

def succ (g : Graph) (a : Id) : List Id :=
  match g.node? a with
  | some n => n.succ g
  | none => []

/-- The edge relation of the property text, one constructor per kind of dependency. -/
inductive Edge (g : Graph) : Id → Id → Prop where
  | fieldType {a b n f} : g.node? a = some n → n.isType = true → f ∈ n.fields → b ∈ f.ty.refs → Edge g a b
  | parent {a b n} : g.node? a = some n → n.isType = true → n.parent = some b → Edge g a b
  | subtype {a b n} : g.node? a = some n → n.kind = .struct → b ∈ n.subtypes → Edge g a b
  | tagDefault {a b n f} : g.node? a = some n → n.kind = .struct → f ∈ n.fields → f.tagDefault = some b →
      Edge g a b
  | aliasTarget {a b n} : g.node? a = some n → n.kind = .alias → b ∈ n.target.refs → Edge g a b
  | routeArg {a b n} : g.node? a = some n → n.kind = .route → b ∈ n.arg.refs → Edge g a b
  | routeResult {a b n} : g.node? a = some n → n.kind = .route → b ∈ n.result.refs → Edge g a b
  | routeError {a b n} : g.node? a = some n → n.kind = .route → b ∈ n.error.refs → Edge g a b
  | docRef {a b n r} : g.node? a = some n → r ∈ n.docRefs → b ∈ refTargets g n.ns r → Edge g a b
  | fieldDocRef {a b n f r} : g.node? a = some n → n.isType = true → f ∈ n.fields → r ∈ f.docRefs →
      b ∈ refTargets g n.ns r → Edge g a b

/-- The references an item HOLDS - what generated code dereferences when it loads: field / tag
types, parent, enumerated subtypes, alias target, route signature (no docs, no tag defaults). -/
def Node.hardRefs (n : Node) : List Id :=
  match n.kind with
  | .struct => n.fields.flatMap (fun f => f.ty.refs) ++ n.parent.toList ++ n.subtypes
  | .union => n.fields.flatMap (fun f => f.ty.refs) ++ n.parent.toList
  | .alias => n.target.refs
  | .route => n.arg.refs ++ n.result.refs ++ n.error.refs

def hardRefs (g : Graph) (a : Id) : List Id :=
  match g.node? a with
  | some n => n.hardRefs
  | none => []

/-- `addAll S xs`: `S` followed by the elements of `xs` not yet present, without repetition. -/
def addAll (S : List Id) : List Id → List Id
  | [] => S
  | x :: xs => if S.contains x then addAll S xs else addAll (S ++ [x]) xs

/-- one round: add the successors of everything found so far -/
def step (sc : Id → List Id) (S : List Id) : List Id := addAll S (S.flatMap sc)

def iter (sc : Id → List Id) : Nat → List Id → List Id
  | 0, S => S
  | n + 1, S => iter sc n (step sc S)

/-- least set containing `seeds` and closed under `sc`, when `n` bounds the number of ids -/
def closureBy (sc : Id → List Id) (n : Nat) (seeds : List Id) : List Id := iter sc n (addAll [] seeds)

/-- The reference closure: fuel = number of nodes (`Props/C20: closure_closed` shows it suffices). -/
def closure (g : Graph) (seeds : List Id) : List Id := closureBy (succ g) g.nodes.length seeds

/-- the id of a node is `"ns.Name"` / `"ns.route:version"` -/
def Node.idOk (n : Node) : Bool :=
  n.id == (if n.kind == .route then routeId n.ns n.name n.version else typeId n.ns n.name)

/-- only data types have a parent or fields -/
def Node.kindOk (n : Node) : Bool := n.isType || (n.parent.isNone && n.fields.isEmpty)

/-- `id` names a node of namespace `ns` that satisfies `p` -/
def Graph.listed (g : Graph) (ns : String) (p : Node → Bool) (id : Id) : Bool :=
  match g.node? id with
  | some nd => p nd && nd.ns == ns
  | none => false

/-- Well-formedness of a dump: ids are as documented, only data types have parents and fields,
every id mentioned by a node is a node, every namespace lists routes / data types / aliases of its
own. -/
def Graph.refsOk (g : Graph) : Bool :=
  g.nodes.all (fun n => n.idOk && n.kindOk && (n.succ g).all (fun b => g.ids.contains b))
  && g.namespaces.all (fun n =>
      n.routes.all (g.listed n.name Node.isRoute) && n.dataTypes.all (g.listed n.name Node.isType)
      && n.aliases.all (g.listed n.name Node.isAlias))

/-! ## The whitelist -/

/-- `{"route_whitelist": {ns: [route reprs]}, "datatype_whitelist": {ns: [type names]}}`, the
dictionaries as association lists in key order. -/
structure Whitelist where
  routes : List (String × List String)
  datatypes : List (String × List String)
deriving Repr, Inhabited

/-- the routes a whitelist entry names: `["*"]` = every route of the namespace -/
def wlRouteIds (g : Graph) (ns : String) (reprs : List String) : List Id :=
  if reprs == ["*"] then
    match g.ns? ns with
    | some n => n.routes
    | none => []
  else
    reprs.flatMap fun r =>
      match parseRouteRepr r with
      | .ok (name, v) => (g.routeByName ns name v).toList
      | .error _ => []

def nsDocSeeds (g : Graph) (ns : String) : List Id :=
  match g.ns? ns with
  | some n => docTargets g ns n.docRefs
  | none => []

/-- Specification level seeds: the whitelisted routes and data types, and what the docs of the
namespaces named in the whitelist mention. -/
def seeds (g : Graph) (wl : Whitelist) : List Id :=
  wl.routes.flatMap (fun (ns, reprs) => nsDocSeeds g ns ++ wlRouteIds g ns reprs)
  ++ wl.datatypes.flatMap (fun (ns, names) =>
      nsDocSeeds g ns ++ names.flatMap (fun t => (g.typeByName ns t).toList))

/-! ## Code level: `Struct.all_fields`, `Union.all_fields` -/

def Field.isOptional (f : Field) : Bool := f.ty.isNullable || f.hasDefault

/-- `Struct._filter_fields(filter_function)`: the parent's first, then the own fields that pass.
Each field is paired with the id of the type that declares it. -/
def filterFields (g : Graph) (p : Field → Bool) : Nat → Id → Except Err (List (Id × Field))
  | 0, _ => .error .recursion
  | fuel + 1, id =>
    match g.node? id with
    | none => .error (.dangling id)
    | some nd =>
      match nd.parent with
      | some q =>
        match filterFields g p fuel q with
        | .error e => .error e
        | .ok up => .ok (up ++ (nd.fields.filter p).map (fun f => (id, f)))
      | none => .ok ((nd.fields.filter p).map (fun f => (id, f)))

def Graph.chainFuel (g : Graph) : Nat := g.nodes.length + 1

/-- `Struct.all_required_fields` -/
def allRequired (g : Graph) (id : Id) : Except Err (List (Id × Field)) :=
  filterFields g (fun f => !f.isOptional) g.chainFuel id
/-- `Struct.all_optional_fields` -/
def allOptional (g : Graph) (id : Id) : Except Err (List (Id × Field)) :=
  filterFields g (fun f => f.isOptional) g.chainFuel id
/-- `Union.all_fields`: the parent's `all_fields`, then the own tags -/
def allTags (g : Graph) (id : Id) : Except Err (List (Id × Field)) :=
  filterFields g (fun _ => true) g.chainFuel id

/-- `data_type.all_fields` of a struct (required then optional) or of a union -/
def allFields (g : Graph) (id : Id) : Except Err (List (Id × Field)) :=
  match g.node? id with
  | none => .error (.dangling id)
  | some nd =>
    match nd.kind with
    | .struct =>
      match allRequired g id, allOptional g id with
      | .ok r, .ok o => .ok (r ++ o)
      | .error e, _ => .error e
      | _, .error e => .error e
    | .union => allTags g id
    | _ => .error (.dangling id)

/-! ### Specification level: the documented listing of `all_fields` -/

/-- the inheritance chain of a type, root first -/
def chainUp (g : Graph) : Nat → Id → Except Err (List (Id × Node))
  | 0, _ => .error .recursion
  | fuel + 1, id =>
    match g.node? id with
    | none => .error (.dangling id)
    | some nd =>
      match nd.parent with
      | some q =>
        match chainUp g fuel q with
        | .error e => .error e
        | .ok up => .ok (up ++ [(id, nd)])
      | none => .ok [(id, nd)]

/-- the fields of a chain that pass `p`, ancestors first, each with its declaring type -/
def chainFields (p : Field → Bool) (c : List (Id × Node)) : List (Id × Field) :=
  c.flatMap (fun x => (x.2.fields.filter p).map (fun f => (x.1, f)))

/-! ## Code level: doc references as `parse_data_types_and_routes_from_doc_ref` reads them -/

/-- One iteration of the `for match in doc_ref_re.finditer(doc)` loop with
`ignore_missing_entries=False`, `ctx` = `namespace_context`: the data types and the routes added.
Every failed lookup is Python's `KeyError`. -/
def resolveRef (g : Graph) (ctx : String) (r : DocRef) : Except Err (List Id × List Id) :=
  if r.tag == "field" then
    match splitFirst '.' r.val with
    | some (first, rest) =>
      -- `namespace.type.field` when there is a second dot, else `type.field` in the namespace of the doc
      let (nsName, typeName) := match splitFirst '.' rest with
        | some (t, _) => (first, t)
        | none => (ctx, first)
      match g.ns? nsName with
      | none => .error (.keyError nsName)
      | some _ =>
        -- an alias of a struct or union is handed to the walk, which follows it to its target
        match g.aliasByName nsName typeName with
        | some al => .ok ([al], [])
        | none =>
          match g.typeByName nsName typeName with
          | some t => .ok ([t], [])
          | none => .error (.keyError typeName)
    | none => .ok ([], [])
  else if r.tag == "route" then
    let (nsName, val) := match splitFirst '.' r.val with
      | some (n, rest) => (n, rest)
      | none => (ctx, r.val)
    match g.ns? nsName with
    | none => .error (.keyError nsName)
    | some _ =>
      match parseRouteRepr val with
      | .error _ => .error (.keyError val)
      | .ok (name, v) =>
        match g.routeByName nsName name v with
        | some rt => .ok ([], [rt])
        | none => .error (.keyError val)
  else if r.tag == "type" then
    match splitFirst '.' r.val with
    | some (nsName, val) =>
      match g.typeByName nsName val with
      | some t => .ok ([t], [])
      | none => .error (.keyError r.val)
    | none =>
      match g.typeByName ctx r.val with
      | some t => .ok ([t], [])
      | none => .error (.keyError r.val)
  else .ok ([], [])

/-- `parse_data_types_and_routes_from_doc_ref(api, doc, ctx)`: (data types, routes), here as lists in
textual order (Python builds sets; only membership is observable in the result of the filter). -/
def parseDocs (g : Graph) (ctx : String) : List DocRef → Except Err (List Id × List Id)
  | [] => .ok ([], [])
  | r :: rs =>
    match resolveRef g ctx r with
    | .error e => .error e
    | .ok (ts, rts) =>
      match parseDocs g ctx rs with
      | .error e => .error e
      | .ok (ts', rts') => .ok (ts ++ ts', rts ++ rts')

/-- `namespace.get_route_io_data_types_for_route(route)`: argument, result and error type with
`List` / `Nullable` stripped, when composite or alias. Visiting such a type reaches exactly the
references of the expression, so the model lists those. -/
def routeIo (g : Graph) (rt : Id) : Except Err (List Id) :=
  match g.node? rt with
  | some n => if n.isRoute then .ok (n.arg.refs ++ n.result.refs ++ n.error.refs) else .error (.dangling rt)
  | none => .error (.dangling rt)

def routesIo (g : Graph) : List Id → Except Err (List Id)
  | [] => .ok []
  | r :: rs =>
    match routeIo g r, routesIo g rs with
    | .ok a, .ok b => .ok (a ++ b)
    | .error e, _ => .error e
    | _, .error e => .error e

/-- `parse_data_types_from_doc_ref(api, doc, ctx)`: the data types, then the io types of the routes
(the routes themselves are dropped). -/
def parseDocTypes (g : Graph) (ctx : String) (refs : List DocRef) : Except Err (List Id) :=
  match parseDocs g ctx refs with
  | .error e => .error e
  | .ok (ts, rts) =>
    match routesIo g rts with
    | .error e => .error e
    | .ok io => .ok (ts ++ io)

/-! ## Code level: `_find_dependencies_recursive` -/

/-- An argument of `_find_dependencies_recursive`: a struct / union / alias, or a `Field` object
together with its `type_context` namespace. (`List` / `Map` / `Nullable` objects are walked in place:
each is reachable from one owner only, so their membership in `seen` never prunes anything.) -/
inductive Item where
  | node (id : Id)
  | field (owner : Id) (f : Field) (ctx : String)
deriving Repr, DecidableEq, Inhabited

/-- Identity of the Python object in `seen`: a `Field` object is the same whatever the context it is
reached with. -/
def Item.key : Item → Item
  | .node i => .node i
  | .field o f _ => .field o f ""

/-- The calls made by one invocation on an unseen argument, in call order. The docs are parsed here (Python
parses them between the calls; a `KeyError` aborts the whole filter in both). A route that a doc refers to is
walked like any other item (`_find_route_dependencies`: the route is kept, its signature and its own doc are
walked); a struct or union walks its OWN fields - the inherited ones are reached, in the namespace that
declares them, through the parent. -/
def expand (g : Graph) : Item → Except Err (List Item)
  | .node id =>
    match g.node? id with
    | none => .error (.dangling id)
    | some nd =>
      match parseDocs g nd.ns nd.docRefs with
      | .error e => .error e
      | .ok (ts, rts) =>
        match nd.kind with
        | .route => .ok ((nd.arg.refs ++ nd.result.refs ++ nd.error.refs ++ ts ++ rts).map .node)
        | .alias => .ok ((nd.target.refs ++ ts ++ rts).map .node)
        | _ =>
          .ok (nd.fields.map (fun f => Item.field id f nd.ns)
               ++ (nd.parent.toList ++ ts ++ rts
                   ++ (if nd.kind == .struct then nd.subtypes else [])).map .node)
  | .field _ f ctx =>
    match parseDocs g ctx f.docRefs with
    | .error e => .error e
    | .ok (ts, rts) => .ok ((f.ty.refs ++ ts ++ rts).map .node)

structure St where
  /-- `seen` (keys); for a route: its membership in `output_routes` -/
  seen : List Item := []
  /-- `output_types`, all namespaces, in order of discovery -/
  types : List Id := []
  /-- `output_routes`, all namespaces -/
  routes : List Id := []
deriving Repr, Inhabited

/-- the effect of one invocation on an unseen argument: `seen.add(x)`, `output_types[..].append(x)` for a
struct or union, `output_routes[..].add(route)` for a route -/
def St.visit (g : Graph) (st : St) (it : Item) : St :=
  { seen := it.key :: st.seen
    types := match it with
      | .node id => if g.isTypeId id then st.types ++ [id] else st.types
      | .field .. => st.types
    routes := match it with
      | .node id => if g.isRouteId id then st.routes ++ [id] else st.routes
      | .field .. => st.routes }

/-- The recursion of `_find_dependencies_recursive` / `_find_route_dependencies` with its call stack made
explicit: the pending calls, innermost first. A call on a seen argument returns at once; otherwise the
argument is marked and its calls are made before the pending ones. `fuel` bounds the number of calls. -/
def dfs (g : Graph) : Nat → List Item → St → Except Err St
  | _, [], st => .ok st
  | 0, _ :: _, _ => .error .recursion
  | fuel + 1, it :: rest, st =>
    if st.seen.contains it.key then dfs g fuel rest st
    else
      match expand g it with
      | .error e => .error e
      | .ok kids => dfs g fuel (kids ++ rest) (st.visit g it)

/-- size of the dump: bounds the number of distinct arguments and the calls one invocation makes -/
def Graph.weight (g : Graph) : Nat :=
  g.nodes.foldl (fun acc n =>
    acc + 2 + n.fields.length + n.subtypes.length + n.docRefs.length
      + (n.fields.foldl (fun a f => a + f.docRefs.length + f.ty.refs.length) 0)
      + n.target.refs.length + n.arg.refs.length + n.result.refs.length + n.error.refs.length) 1

def Graph.dfsFuel (g : Graph) (nseeds : Nat) : Nat :=
  nseeds + g.weight * g.weight * g.weight * 4 + 1

/-! ## Code level: `_filter_namespaces_by_route_whitelist` -/

def parseReprs : List String → Except Err (List (String × Nat))
  | [] => .ok []
  | r :: rs =>
    match parseRouteRepr r, parseReprs rs with
    | .ok a, .ok b => .ok (a :: b)
    | .error e, _ => .error e
    | _, .error e => .error e

/-- "Get route whitelist in canonical form": `["*"]` becomes the routes of the namespace, any other
entry is parsed into (name, version) (the code prints it back as `name` / `name:v` and parses that
again later). -/
def canonicalRoutes (g : Graph) : List (String × List String) → Except Err (List (String × List (String × Nat)))
  | [] => .ok []
  | (ns, reprs) :: rest =>
    let here : Except Err (List (String × Nat)) :=
      if reprs == ["*"] then
        match g.ns? ns with
        | none => .error (.keyError ns)
        | some n => .ok (n.routes.filterMap fun r => (g.node? r).map fun nd => (nd.name, nd.version))
      else parseReprs reprs
    match here, canonicalRoutes g rest with
    | .ok a, .ok b => .ok ((ns, a) :: b)
    | .error e, _ => .error e
    | _, .error e => .error e

/-- A doc read while the starting points are collected (`add_doc_refs`): the data types it refers to and the
routes it refers to (walked after all the data types). -/
structure Seeds where
  types : List Id := []
  docRoutes : List Id := []
  /-- the whitelisted routes -/
  ids : List Id := []
deriving Repr, Inhabited

def Seeds.append (a b : Seeds) : Seeds :=
  { types := a.types ++ b.types, docRoutes := a.docRoutes ++ b.docRoutes, ids := a.ids ++ b.ids }

def docSeeds (g : Graph) (ns : String) (refs : List DocRef) : Except Err Seeds :=
  match parseDocs g ns refs with
  | .error e => .error e
  | .ok (ts, rts) => .ok { types := ts, docRoutes := rts }

/-- starting points contributed by the routes of one whitelisted namespace: the signature of each route and
what its doc refers to; also the ids of the whitelisted routes -/
def routeSeeds (g : Graph) (ns : String) : List (String × Nat) → Except Err Seeds
  | [] => .ok {}
  | (name, v) :: rest =>
    match g.routeByName ns name v with
    | none => .error (.assertion ("Route " ++ name ++ " is not defined!"))
    | some rt =>
      match routeIo g rt, g.node? rt with
      | .ok io, some nd =>
        match docSeeds g ns nd.docRefs with
        | .error e => .error e
        | .ok ds =>
          match routeSeeds g ns rest with
          | .error e => .error e
          | .ok more => .ok (({ types := io, ids := [rt] } : Seeds).append (ds.append more))
      | .error e, _ => .error e
      | _, none => .error (.dangling rt)

/-- "Parse the route whitelist and populate any starting data types" -/
def routeWhitelistSeeds (g : Graph) : List (String × List (String × Nat)) → Except Err Seeds
  | [] => .ok {}
  | (ns, reprs) :: rest =>
    match g.ns? ns with
    | none => .error (.assertion ("Namespace " ++ ns ++ " is not defined!"))
    | some n =>
      match docSeeds g ns n.docRefs with
      | .error e => .error e
      | .ok nsDoc =>
        if reprs.contains ("*", 1) then .error (.assertion "'*' not in route_reprs") else
        match routeSeeds g ns reprs with
        | .error e => .error e
        | .ok here =>
          match routeWhitelistSeeds g rest with
          | .error e => .error e
          | .ok more => .ok (nsDoc.append (here.append more))

def typeSeeds (g : Graph) (ns : String) : List String → Except Err (List Id)
  | [] => .ok []
  | t :: rest =>
    match g.typeByName ns t with
    | none => .error (.assertion ("Datatype " ++ t ++ " is not defined!"))
    | some id =>
      match typeSeeds g ns rest with
      | .error e => .error e
      | .ok ids => .ok (id :: ids)

/-- "Parse the datatype whitelist and populate any starting data types" -/
def datatypeWhitelistSeeds (g : Graph) : List (String × List String) → Except Err Seeds
  | [] => .ok {}
  | (ns, names) :: rest =>
    match g.ns? ns with
    | none => .error (.assertion ("Namespace " ++ ns ++ " is not defined!"))
    | some n =>
      match docSeeds g ns n.docRefs with
      | .error e => .error e
      | .ok nsDoc =>
        match typeSeeds g ns names, datatypeWhitelistSeeds g rest with
        | .ok a, .ok more => .ok (nsDoc.append (({ types := a } : Seeds).append more))
        | .error e, _ => .error e
        | _, .error e => .error e

/-- What the filter leaves in the `Api`. -/
structure Filtered where
  /-- `namespace.data_types` of all namespaces -/
  types : List Id
  /-- `namespace.routes` of all namespaces: whitelisted ∪ `output_routes` -/
  routes : List Id
  /-- `namespace.aliases`: those whose target mentions retained data types only -/
  aliases : List Id
  /-- the final `seen` -/
  seen : List Item
  /-- `route_data_types`: the arguments of the top-level calls -/
  start : List Id
deriving Repr, Inhabited

/-- the ids of all aliases (`namespace.aliases` of all namespaces) -/
def Graph.allAliases (g : Graph) : List Id := g.ids.filter g.isAliasId

/-- `_alias_target_retained(data_type, retained)` over the references of a type expression (a `List`,
`Nullable` or `Map` is retained when its parts are): a user-defined type must be in `retained`, an
alias is looked through. One unit of `fuel` per reference visited (Python: no bound; alias cycles
are spec errors). -/
def targetRetained (g : Graph) (retained : List Id) : Nat → List Id → Except Err Bool
  | _, [] => .ok true
  | 0, _ :: _ => .error .recursion
  | fuel + 1, r :: rest =>
    match g.node? r with
    | none => .error (.dangling r)
    | some nd =>
      if nd.isAlias then
        match targetRetained g retained fuel nd.target.refs with
        | .error e => .error e
        | .ok b =>
          match targetRetained g retained fuel rest with
          | .error e => .error e
          | .ok b' => .ok (b && b')
      else if nd.isType then
        match targetRetained g retained fuel rest with
        | .error e => .error e
        | .ok b' => .ok (retained.contains r && b')
      else .error (.dangling r)

/-- `[alias for alias in namespace.aliases if self._alias_target_retained(alias.data_type, retained)]` -/
def filterAliases (g : Graph) (retained : List Id) (fuel : Nat) : List Id → Except Err (List Id)
  | [] => .ok []
  | a :: rest =>
    match g.node? a with
    | none => .error (.dangling a)
    | some nd =>
      match targetRetained g retained fuel nd.target.refs, filterAliases g retained fuel rest with
      | .ok b, .ok l => .ok (if b then a :: l else l)
      | .error e, _ => .error e
      | _, .error e => .error e

/-- `_filter_namespaces_by_route_whitelist` -/
def whitelistFilter (g : Graph) (wl : Whitelist) : Except Err Filtered :=
  match canonicalRoutes g wl.routes with
  | .error e => .error e
  | .ok canon =>
    match routeWhitelistSeeds g canon with
    | .error e => .error e
    | .ok rs =>
      match datatypeWhitelistSeeds g wl.datatypes with
      | .error e => .error e
      | .ok ds =>
        -- `_find_dependencies(route_data_types, doc_routes)`: the data types, then the routes the starting docs refer to
        let start := rs.types ++ ds.types ++ (rs.docRoutes ++ ds.docRoutes)
        match dfs g (g.dfsFuel start.length) (start.map .node) {} with
        | .error e => .error e
        | .ok st =>
          match filterAliases g st.types (g.dfsFuel 0) g.allAliases with
          | .error e => .error e
          | .ok als =>
            .ok { types := st.types
                  routes := addAll [] (rs.ids ++ st.routes)
                  aliases := als
                  seen := st.seen
                  start := start }

/-- the aliases the walk visited -/
def Filtered.reachedAliases (g : Graph) (r : Filtered) : List Id :=
  r.seen.filterMap fun
    | .node i => if g.isAliasId i then some i else none
    | .field .. => none

/-! ## Decidable side conditions of the C20 theorems (evaluated by the driver on every dump) -/

/-- the doc targets split the way `parse_data_types_and_routes_from_doc_ref` returns them -/
def specDocs (g : Graph) (ns : String) (refs : List DocRef) : List Id × List Id :=
  ((docTargets g ns refs).filter (fun b => !g.isRouteId b), (docTargets g ns refs).filter g.isRouteId)

def parsesTo (g : Graph) (ctx : String) (refs : List DocRef) (want : List Id × List Id) : Bool :=
  match parseDocs g ctx refs with
  | .ok p => p == want
  | .error _ => false

/-- Every doc string the walk can parse yields, in the namespace context the walk uses, what the
references denote in the namespace that declares them: type and alias docs, namespace docs, route
docs, and the docs of the own fields of every type (an inherited field is read with its owner).
(The compiler refuses references that denote nothing, so this holds of every dump; it used to fail for an
inherited field whose doc mentions `:type:`Q`` with a child in another namespace and for `:field:`
through an alias / an imported namespace, until the walk was repaired.) -/
def docsAgree (g : Graph) : Bool :=
  g.nodes.all (fun n =>
    parsesTo g n.ns n.docRefs (specDocs g n.ns n.docRefs)
    && n.fields.all (fun f => parsesTo g n.ns f.docRefs (specDocs g n.ns f.docRefs)))
  && g.namespaces.all (fun n => parsesTo g n.name n.docRefs (specDocs g n.name n.docRefs))

/-- `unwrap(data_type)`: strip `Nullable`, follow aliases; the user type reached -/
def unwrapsTo (g : Graph) : Nat → TyExpr → Option Id
  | 0, _ => none
  | fuel + 1, .nullable t => unwrapsTo g fuel t
  | fuel + 1, .ref a =>
    match g.node? a with
    | some nd => if nd.isAlias then unwrapsTo g fuel nd.target else if nd.isType then some a else none
    | none => none
  | _ + 1, _ => none

/-- the union of a tag default is the (unwrapped) type of its field -/
def tagDefaultsOk (g : Graph) : Bool :=
  g.nodes.all fun n => n.fields.all fun f =>
    match f.tagDefault with
    | none => true
    | some u => unwrapsTo g g.chainFuel f.ty == some u

/-- every route id some doc string mentions -/
def docRoutes (g : Graph) : List Id :=
  (g.nodes.flatMap (fun n => docTargets g n.ns n.docRefs ++ n.fields.flatMap (fun f => docTargets g n.ns f.docRefs))
   ++ g.namespaces.flatMap (fun n => docTargets g n.name n.docRefs)).filter g.isRouteId

def wlAllRouteIds (g : Graph) (wl : Whitelist) : List Id :=
  wl.routes.flatMap (fun (ns, reprs) => wlRouteIds g ns reprs)

/-- EXCLUDED EDGE KIND 1 (the code never reads the doc of a route it keeps because a doc mentions
it): every route mentioned in a doc and not whitelisted has a doc without references. -/
def routeDocsClosed (g : Graph) (wl : Whitelist) : Bool :=
  (docRoutes g).all fun r =>
    (wlAllRouteIds g wl).contains r ||
      (match g.node? r with
       | some n => (docTargets g n.ns n.docRefs).isEmpty
       | none => true)

/-- EXCLUDED EDGE KIND 2 (a route mentioned in the doc of a whitelisted route or of a namespace
contributes its types but is itself dropped): such docs mention whitelisted routes only. -/
def seedDocRoutesKept (g : Graph) (wl : Whitelist) : Bool :=
  let wlr := wlAllRouteIds g wl
  (wlr.all fun r =>
    match g.node? r with
    | some n => ((docTargets g n.ns n.docRefs).filter g.isRouteId).all wlr.contains
    | none => true)
  && ((wl.routes.map (·.1) ++ wl.datatypes.map (·.1)).all fun ns =>
        ((nsDocSeeds g ns).filter g.isRouteId).all wlr.contains)

structure Hyps where
  refsOk : Bool
  docsAgree : Bool
  tagDefaultsOk : Bool
  routeDocsClosed : Bool
  seedDocRoutesKept : Bool
deriving Repr

def checkHyps (g : Graph) (wl : Whitelist) : Hyps :=
  { refsOk := g.refsOk, docsAgree := docsAgree g, tagDefaultsOk := tagDefaultsOk g,
    routeDocsClosed := routeDocsClosed g wl, seedDocRoutesKept := seedDocRoutesKept g wl }

/-! ## Code level: `linearize_data_types`, `linearize_aliases` -/

/-- The inner function `add_data_type` / `add_alias`: `out` is the linearized list (the `seen` set
always holds exactly its elements), `self` the namespace, `link` the object followed first. -/
def linAdd (g : Graph) (self : String) (link : Node → Option Id) : Nat → Id → List Id → Except Err (List Id)
  | 0, _, _ => .error .recursion
  | fuel + 1, id, out =>
    if out.contains id then .ok out
    else
      match g.node? id with
      | none => .error (.dangling id)
      | some nd =>
        if nd.ns != self then .ok out
        else
          match link nd with
          | some p =>
            match linAdd g self link fuel p out with
            | .error e => .error e
            | .ok out' => .ok (out' ++ [id])
          | none => .ok (out ++ [id])

/-- the `for x in self.<list>: add(x)` loop -/
def linAll (g : Graph) (self : String) (link : Node → Option Id) : List Id → List Id → Except Err (List Id)
  | [], out => .ok out
  | id :: rest, out =>
    match linAdd g self link g.chainFuel id out with
    | .error e => .error e
    | .ok out' => linAll g self link rest out'

/-- `if is_composite_type(data_type) and data_type.parent_type` -/
def parentLink (nd : Node) : Option Id := nd.parent

/-- `referenced_aliases(data_type)`: the aliases a type expression mentions, also inside `List`, `Map`
and `Nullable` wrappers (an alias is not looked into; a struct or union mentions none) -/
def referencedAliases (g : Graph) (e : TyExpr) : List Id := e.refs.filter g.isAliasId

/-- `seen_aliases` and `linearized_aliases` of `linearize_aliases` -/
structure LinSt where
  seen : List Id := []
  out : List Id := []
deriving Repr, Inhabited

/-- `for x in xs: f(x)` -/
def foldAdd (f : Id → LinSt → Except Err LinSt) : List Id → LinSt → Except Err LinSt
  | [], st => .ok st
  | a :: rest, st =>
    match f a st with
    | .error e => .error e
    | .ok st' => foldAdd f rest st'

/-- The inner function `add_alias`: an alias is marked on entry, the aliases its target mentions are
added first, then it is appended. `fuel` bounds the nesting depth (Python: the call stack). -/
def aliasAdd (g : Graph) (self : String) : Nat → Id → LinSt → Except Err LinSt
  | fuel, id, st =>
    if st.seen.contains id then .ok st
    else
      match g.node? id with
      | none => .error (.dangling id)
      | some nd =>
        if nd.ns != self then .ok st
        else
          match fuel with
          | 0 => .error .recursion
          | fuel' + 1 =>
            match foldAdd (aliasAdd g self fuel') (referencedAliases g nd.target) { st with seen := id :: st.seen } with
            | .error e => .error e
            | .ok st' => .ok { st' with out := st'.out ++ [id] }

/-- `ApiNamespace.linearize_data_types()` of the namespace `self` whose `data_types` is `ids` -/
def linearizeDataTypes (g : Graph) (self : String) (ids : List Id) : Except Err (List Id) :=
  linAll g self parentLink ids []

/-- `ApiNamespace.linearize_aliases()` -/
def linearizeAliases (g : Graph) (self : String) (ids : List Id) : Except Err (List Id) :=
  match foldAdd (aliasAdd g self g.chainFuel) ids {} with
  | .error e => .error e
  | .ok st => .ok st.out

/-- side conditions of the linearization theorems (`Props/C02`), decidable: the list names nodes of
the namespace; a link that stays in the namespace stays in the list -/
def ownListB (g : Graph) (self : String) (ids : List Id) : Bool :=
  ids.all fun x =>
    match g.node? x with
    | some nd => nd.ns == self
    | none => false

def linkClosedB (g : Graph) (self : String) (link : Node → Option Id) (ids : List Id) : Bool :=
  ids.all fun a =>
    match g.node? a with
    | none => true
    | some nd =>
      match link nd with
      | none => true
      | some p =>
        match g.node? p with
        | none => true
        | some np => np.ns != self || ids.contains p

/-- an alias of the namespace mentioned by a listed alias is listed -/
def aliasClosedB (g : Graph) (self : String) (ids : List Id) : Bool :=
  ids.all fun a =>
    match g.node? a with
    | none => true
    | some nd =>
      (referencedAliases g nd.target).all fun p =>
        match g.node? p with
        | none => true
        | some np => np.ns != self || ids.contains p

/-! ## Code level: `Api.normalize`, `ApiNamespace.normalize` -/

def Graph.nameOf (g : Graph) (id : Id) : String :=
  match g.node? id with
  | some n => n.name
  | none => id
def Graph.versionOf (g : Graph) (id : Id) : Nat :=
  match g.node? id with
  | some n => n.version
  | none => 0

def leStr (a b : String) : Bool := decide (a ≤ b)
/-- `key=lambda x: x.name` -/
def leName (g : Graph) (a b : Id) : Bool := leStr (g.nameOf a) (g.nameOf b)
/-- `ApiRoute.__lt__`: by `(name, version)` -/
def leRoute (g : Graph) (a b : Id) : Bool :=
  decide (g.nameOf a < g.nameOf b) || (g.nameOf a == g.nameOf b && decide (g.versionOf a ≤ g.versionOf b))

/-- `ApiNamespace.normalize()` (`list.sort` is a stable sort, as is `mergeSort`) -/
def Namespace.normalize (g : Graph) (n : Namespace) : Namespace :=
  { n with
    routes := n.routes.mergeSort (leRoute g)
    dataTypes := n.dataTypes.mergeSort (leName g)
    aliases := n.aliases.mergeSort (leName g)
    annotations := n.annotations.mergeSort leStr
    annotationTypes := n.annotationTypes.mergeSort leStr }

/-- `Api.normalize()` -/
def normalize (g : Graph) : Graph :=
  { g with namespaces := (g.namespaces.mergeSort (fun a b => leStr a.name b.name)).map (Namespace.normalize g) }

end StoneVerif.Graph
