import StoneVerif.Model.Rt.Spec
/-
RT model, part 8: well-formedness of an environment — the facts about an accepted spec that the
runtime relies on (C01/C02 guarantee them; the driver evaluates `envWF` on every environment the
harness sends, so the tie to what the compiler actually produces is checked on every run).
-/
namespace StoneVerif.Rt

def nodupS : List String → Bool
  | [] => true
  | x :: xs => !xs.contains x && nodupS xs

mutual
/-- every class a type refers to exists (with the right kind), map keys are plain strings -/
def tyWF (env : Env) : PTy → Bool
  | .list _ item _ _ => tyWF env item
  | .map _ k v => (match k with | .str fl _ _ _ => !fl.nullable | _ => false) && tyWF env v
  | .struct _ c => (match env.struct? c with | some s => s.subtypes.isNone | none => false)
  | .tree _ c => (match env.struct? c with | some s => s.subtypes.isSome | none => false)
  | .union _ c => (env.union? c).isSome
  | .void fl => !fl.nullable
  | _ => true
end

def isPrefixOf {α} [BEq α] : List α → List α → Bool
  | [], _ => true
  | _ :: _, [] => false
  | a :: as, b :: bs => a == b && isPrefixOf as bs

def Level.sameAs (a b : Level) : Bool := a.cls == b.cls && a.fields.map (·.name) == b.fields.map (·.name)

def levelsPrefix : List Level → List Level → Bool
  | [], _ => true
  | _ :: _, [] => false
  | a :: as, b :: bs => a.sameAs b && levelsPrefix as bs

def StructDef.wf (env : Env) (s : StructDef) : Bool :=
  -- the chain ends in the class itself
  (match s.levels.getLast? with | some l => l.cls == s.cls | none => false) &&
  -- field names are unique along the chain and are not wire-reserved
  nodupS (s.allAttrs.map (·.name)) && s.allAttrs.all (fun f => !f.name.startsWith "." && f.name != "") &&
  -- field types refer to existing classes; void is not a field type
  s.allAttrs.all (fun f => tyWF env f.ty && !(match f.ty with | .void _ => true | _ => false)) &&
  -- every ancestor is registered with the corresponding prefix of the chain
  s.levels.all (fun l => match env.struct? l.cls with
    | some a => levelsPrefix a.levels s.levels && a.levels.length ≤ s.levels.length
    | none => false) &&
  -- enumerated subtypes: registered descendants, distinct classes, distinct non-empty tag paths
  (match s.subtypes with
   | none => true
   | some subs =>
     nodupS (subs.map fun (_, c, _) => c) &&
     subs.all (fun (tags, c, isTree) => !tags.isEmpty && c != s.cls &&
       (match env.struct? c with
        | some d => levelsPrefix s.levels d.levels && d.subtypes.isSome == isTree
        | none => false)) &&
     nodupS (subs.map fun (tags, _, _) => String.intercalate "\x00" tags))

def ULevel.sameAs (a b : ULevel) : Bool := a.cls == b.cls && a.tags.map (·.name) == b.tags.map (·.name)

def ulevelsPrefix : List ULevel → List ULevel → Bool
  | [], _ => true
  | _ :: _, [] => false
  | a :: as, b :: bs => a.sameAs b && ulevelsPrefix as bs

def UnionDef.wf (env : Env) (u : UnionDef) : Bool :=
  (match u.levels.getLast? with | some l => l.cls == u.cls | none => false) &&
  nodupS ((u.levels.flatMap (·.tags)).map (·.name)) &&
  (u.levels.flatMap (·.tags)).all (fun t => !t.name.startsWith "." && t.name != "" && tyWF env t.ty) &&
  u.levels.all (fun l => match env.union? l.cls with
    | some a => ulevelsPrefix a.levels u.levels && a.levels.length ≤ u.levels.length
    | none => false) &&
  -- the catch-all, when there is one, is a public Void tag of the chain
  (match u.catchAll with
   | none => true
   | some n => match findTag n (u.levels.flatMap (·.tags)) with
     | some t => t.omitted.isNone && (match t.ty with | .void _ => true | _ => false)
     | none => false)

def envWF (env : Env) : Bool :=
  nodupS (env.structs.map (·.cls)) && nodupS (env.unions.map (·.cls)) &&
  env.structs.all (·.wf env) && env.unions.all (·.wf env)

end StoneVerif.Rt
