import StoneVerif.Model.Rt.Spec
import StoneVerif.Model.Rt.WF
import StoneVerif.Model.Rt.Decode
import StoneVerif.Model.Rt.WFExtra
/-
RT model, C07: two environments (an older spec `A`, a newer spec `B`) and the specification-level notions of
docs/evolve_spec.rst ("Backwards Compatible Changes").  Written from the guide and the property text, NOT from
the serializer's code.  Import-free beyond the model, so the driver evaluates everything here on real data.

* `Rho`            : the correspondence between class references of A and of B (a renaming is a listed change;
                     nothing on the wire carries a type name).  A list of pairs (class in A, class in B).
* `tySub`          : "A's validator tree is an older version of B's": same shape, same parameters, same
                     nullability, class references related by `ρ`.  (Aliases are invisible: validator trees
                     have them unfolded.  `_redact` flags are not compared: they never reach the decoder.)
* `structSub` / `unionSub` : one related pair of classes is compatible *locally* --
                     struct: every attribute of A occurs in B under the same name with a `tySub` type, the same
                     omitted-caller, the same optionality and `bb.Attribute` flags; every additional attribute of
                     B is optional (`T?`) or has a default; enumerated subtypes of A occur in B under the same tag
                     with related classes, additional ones only below a catch-all root;
                     union: every tag of A occurs in B with a `tySub` type, or is Void in A (B gave it a type; never
                     the catch-all tag itself); additional tags only when A has a catch-all; same catch-all.
* `compatEnv`      : every pair of `ρ` is locally compatible and `ρ` is one-to-one.  This is the coinductive
                     reading of "`Sub` is the least relation closed under ..." of DESIGN.md: `ρ` itself is the
                     relation, so types that are recursive through class references need no fuel.
* `subB`           : `compatEnv` and `tySub` at the two types in question.
* `view`           : the A-view of a B-value: unknown fields dropped, unknown tags read as A's catch-all tag with
                     `None`, unknown subtypes read as the base struct (only its own fields), payloads of tags that
                     are Void in A forgotten.  Instances are of A's classes, slots in A's declaration order.
* `lift`           : an A-value seen under B: same slots (new fields unset: reading them gives `None` / the
                     default through `attrGet`), instances of B's classes.
* `mentionsUnknown`: the wire form of a B-value contains a field / tag / subtype A does not know, or a payload
                     on a tag that is Void in A.  (Wire-faithful: a field set to `None`, or one that is omitted
                     for the caller, is not on the wire and does not count.)
* `noVoidToRequired`: no union value inside an A-value sits on a tag that is Void in A and has a non-nullable type
                     in B (the direction the guide does not promise).
* `tightDoc`       : message level: `knownDoc` in the form encoders write (a Void tag comes as the bare tag object).
* `knownDoc`       : message level: a JSON document contains nothing that A does not know at type `t` (every
                     object member is a field of the struct it is read as, every tag / subtype is known, Void
                     tags come bare).
-/
namespace StoneVerif.Rt.Compat
open StoneVerif.Rt

/-- pairs (class reference in A, class reference in B) -/
abbrev Rho := List (String × String)

def Rho.rel (ρ : Rho) (a b : String) : Bool := ρ.any fun p => p.1 == a && p.2 == b
def Rho.toA (ρ : Rho) (b : String) : Option String := (ρ.find? fun p => p.2 == b).map (·.1)
def Rho.toB (ρ : Rho) (a : String) : Option String := (ρ.find? fun p => p.1 == a).map (·.2)

/-- one-to-one: two pairs agree on the A side exactly when they agree on the B side -/
def Rho.wf (ρ : Rho) : Bool := ρ.all fun p => ρ.all fun q => (p.1 == q.1) == (p.2 == q.2)

/-- the identity correspondence of an environment -/
def Rho.idOf (env : Env) : Rho :=
  env.structs.map (fun s => (s.cls, s.cls)) ++ env.unions.map (fun u => (u.cls, u.cls))

/-- relational composition (A ~ B, B ~ C) -/
def Rho.comp (ρ₁ ρ₂ : Rho) : Rho :=
  ρ₁.filterMap fun p => (ρ₂.toB p.2).map fun c => (p.1, c)

/-! ### types -/

def tySub (ρ : Rho) : PTy → PTy → Bool
  | .bool f, .bool g => f.nullable == g.nullable
  | .int f c lo hi, .int g c' lo' hi' => f.nullable == g.nullable && c == c' && lo == lo' && hi == hi'
  | .float f c lo hi, .float g c' lo' hi' => f.nullable == g.nullable && c == c' && lo == lo' && hi == hi'
  | .str f a b p, .str g a' b' p' => f.nullable == g.nullable && a == a' && b == b' && p == p'
  | .bytes f, .bytes g => f.nullable == g.nullable
  | .ts f fmt, .ts g fmt' => f.nullable == g.nullable && fmt == fmt'
  | .void f, .void g => f.nullable == g.nullable
  | .list f i a b, .list g i' a' b' => f.nullable == g.nullable && tySub ρ i i' && a == a' && b == b'
  | .map f k v, .map g k' v' => f.nullable == g.nullable && tySub ρ k k' && tySub ρ v v'
  | .struct f c, .struct g c' => f.nullable == g.nullable && ρ.rel c c'
  | .tree f c, .tree g c' => f.nullable == g.nullable && ρ.rel c c'
  | .union f c, .union g c' => f.nullable == g.nullable && ρ.rel c c'
  | _, _ => false

/-! ### classes -/

/-- a field both specs have -/
def fieldSub (ρ : Rho) (f g : FieldDef) : Bool :=
  f.name == g.name && tySub ρ f.ty g.ty && f.omitted == g.omitted &&
  f.attrNullable == g.attrNullable && f.attrUserDefined == g.attrUserDefined && f.dflt.isSome == g.dflt.isSome

/-- a field only the newer spec has: optional (`T?`) or with a default (and the decoder leaves it unset when the
member is absent: the validator supplies no implicit value of its own) -/
def newFieldOk (B : Env) (g : FieldDef) : Bool :=
  (g.attrNullable && g.ty.flags.nullable) || (g.dflt.isSome && !hasDefault B g.ty)

abbrev SubEntry := List String × String × Bool

def findSub (tags : List String) (xs : List SubEntry) : Option SubEntry := xs.find? fun e => e.1 == tags

def structSub (ρ : Rho) (A B : Env) (a b : String) : Bool :=
  match A.struct? a, B.struct? b with
  | some sa, some sb =>
    sa.allAttrs.all (fun f => match sb.allAttrs.find? (·.name == f.name) with
      | some g => fieldSub ρ f g
      | none => false) &&
    sb.allAttrs.all (fun g => (sa.allAttrs.find? (·.name == g.name)).isSome || newFieldOk B g) &&
    (match sa.subtypes, sb.subtypes with
     | none, none => true
     | some xa, some xb =>
       sa.catchAll == sb.catchAll &&
       xa.all (fun e => match findSub e.1 xb with
         | some e' => ρ.rel e.2.1 e'.2.1 && e.2.2 == e'.2.2
         | none => false) &&
       (sa.catchAll || xb.all fun e' => (findSub e'.1 xa).isSome)
     | _, _ => false)
  | _, _ => false

def UnionDef.allTags (u : UnionDef) : List TagDef := u.levels.flatMap (·.tags)

def unionSub (ρ : Rho) (A B : Env) (a b : String) : Bool :=
  match A.union? a, B.union? b with
  | some ua, some ub =>
    ua.catchAll == ub.catchAll &&
    (UnionDef.allTags ua).all (fun t => match findTag t.name (UnionDef.allTags ub) with
      | some t' => t.omitted == t'.omitted &&
          (tySub ρ t.ty t'.ty || (isVoidT t.ty && !(ua.catchAll == some t.name)))
      | none => false) &&
    (ua.catchAll.isSome || (UnionDef.allTags ub).all fun t' => (findTag t'.name (UnionDef.allTags ua)).isSome)
  | _, _ => false

/-- the pair is compatible in the kind(s) under which A declares the class -/
def pairOk (ρ : Rho) (A B : Env) (p : String × String) : Bool :=
  ((A.struct? p.1).isSome || (A.union? p.1).isSome) &&
  ((A.struct? p.1).isNone || structSub ρ A B p.1 p.2) &&
  ((A.union? p.1).isNone || unionSub ρ A B p.1 p.2)

def compatEnv (ρ : Rho) (A B : Env) : Bool := ρ.wf && ρ.all (pairOk ρ A B)

/-- "A is an older version of B at this type" -/
def subB (ρ : Rho) (A B : Env) (tA tB : PTy) : Bool := compatEnv ρ A B && tySub ρ tA tB

/-! ### inherited attribute descriptors

A subclass inherits the very `bb.Attribute` objects of its ancestors.  `envWF` compares the copies of a level along a
chain by field *names* only, `envWFX` (C05) also by validator / nullable / has-default / omitted-caller; the decoder's
`Attribute.__set__` additionally looks at `user_defined`.  `envWFU` = `envWFX` plus that flag.  Evaluated by the driver on
every environment. -/

def sameAttr (a b : FieldDef) : Bool := a.sameWire b && a.attrUserDefined == b.attrUserDefined

def attrsPrefixU : List FieldDef → List FieldDef → Bool
  | [], _ => true
  | _ :: _, [] => false
  | a :: as, b :: bs => sameAttr a b && attrsPrefixU as bs

def envWFU (env : Env) : Bool :=
  env.structs.all fun s => s.levels.all fun l => match env.struct? l.cls with
    | some a => attrsPrefixU a.allAttrs s.allAttrs
    | none => false

/-! ### values -/

/-- slots in the declaration order of `fields` -/
def orderSlots (fields : List FieldDef) (slots : List (String × PyVal)) : List (String × PyVal) :=
  fields.filterMap fun f => (lookupSlot f.name slots).map fun x => (f.name, x)

/-- the class under which A reads an instance of B's class `c` at an enumerated root `root` of A: the related
class when A lists it as a leaf (or it is the root itself), else the root (unknown subtype) -/
def treeClassA (ρ : Rho) (A : Env) (root c : String) : String :=
  match ρ.toA c with
  | some a => if a == root || (leafTag? A root a).isSome then a else root
  | none => root

def treeClassB (ρ : Rho) (B : Env) (root c : String) : String :=
  match ρ.toB c with
  | some b => if b == root || (leafTag? B root b).isSome then b else root
  | none => root

def catchAllOf (env : Env) (cls : String) : Option String := (env.union? cls).bind (·.catchAll)

mutual
/-- the A-view of a B-value read at A's type `t` (values of the wrong kind for `t` are left alone) -/
def view (ρ : Rho) (A : Env) (t : PTy) (v : PyVal) : PyVal :=
  match v with
  | .list xs => (match t with | .list _ item _ _ => .list (viewList ρ A item xs) | _ => v)
  | .tuple xs => (match t with | .list _ item _ _ => .tuple (viewList ρ A item xs) | _ => v)
  | .dict kvs => (match t with | .map _ _ vt => .dict (viewDict ρ A vt kvs) | _ => v)
  | .struct c slots => (match t with
    | .struct _ cls => .struct cls (orderSlots (publicFields A cls) (viewSlots ρ A (publicFields A cls) slots))
    | .tree _ cls =>
      let a := treeClassA ρ A cls c
      .struct a (orderSlots (publicFields A a) (viewSlots ρ A (publicFields A a) slots))
    | _ => v)
  | .union _ tag p => (match t with
    | .union _ cls => (match publicTag? A cls tag with
      | some td => if isVoidT td.ty then .union cls tag .none else .union cls tag (view ρ A td.ty p)
      | none => .union cls ((catchAllOf A cls).getD tag) .none)
    | _ => v)
  | _ => v
def viewList (ρ : Rho) (A : Env) (t : PTy) : List PyVal → List PyVal
  | [] => []
  | x :: xs => view ρ A t x :: viewList ρ A t xs
def viewDict (ρ : Rho) (A : Env) (vt : PTy) : List (PyVal × PyVal) → List (PyVal × PyVal)
  | [] => []
  | (k, x) :: rest => (k, view ρ A vt x) :: viewDict ρ A vt rest
/-- the slots A knows, each read at A's field type -/
def viewSlots (ρ : Rho) (A : Env) (fields : List FieldDef) : List (String × PyVal) → List (String × PyVal)
  | [] => []
  | (k, x) :: rest =>
    match fields.find? (·.name == k) with
    | some f => (k, view ρ A f.ty x) :: viewSlots ρ A fields rest
    | none => viewSlots ρ A fields rest
end

mutual
/-- an A-value seen under B at B's type `t` -/
def lift (ρ : Rho) (B : Env) (t : PTy) (v : PyVal) : PyVal :=
  match v with
  | .list xs => (match t with | .list _ item _ _ => .list (liftList ρ B item xs) | _ => v)
  | .tuple xs => (match t with | .list _ item _ _ => .tuple (liftList ρ B item xs) | _ => v)
  | .dict kvs => (match t with | .map _ _ vt => .dict (liftDict ρ B vt kvs) | _ => v)
  | .struct c slots => (match t with
    | .struct _ cls => .struct cls (orderSlots (publicFields B cls) (liftSlots ρ B (publicFields B cls) slots))
    | .tree _ cls =>
      let b := treeClassB ρ B cls c
      .struct b (orderSlots (publicFields B b) (liftSlots ρ B (publicFields B b) slots))
    | _ => v)
  | .union _ tag p => (match t with
    | .union _ cls => (match publicTag? B cls tag with
      | some td => if isVoidT td.ty then .union cls tag .none else .union cls tag (lift ρ B td.ty p)
      | none => .union cls tag p)
    | _ => v)
  | _ => v
def liftList (ρ : Rho) (B : Env) (t : PTy) : List PyVal → List PyVal
  | [] => []
  | x :: xs => lift ρ B t x :: liftList ρ B t xs
def liftDict (ρ : Rho) (B : Env) (vt : PTy) : List (PyVal × PyVal) → List (PyVal × PyVal)
  | [] => []
  | (k, x) :: rest => (k, lift ρ B vt x) :: liftDict ρ B vt rest
def liftSlots (ρ : Rho) (B : Env) (fields : List FieldDef) : List (String × PyVal) → List (String × PyVal)
  | [] => []
  | (k, x) :: rest =>
    match fields.find? (·.name == k) with
    | some f => (k, lift ρ B f.ty x) :: liftSlots ρ B fields rest
    | none => liftSlots ρ B fields rest
end

/-- some field B sends for this instance: visible to the caller, set, not `None` -/
def sendsSomething (fields : List FieldDef) (slots : List (String × PyVal)) : Bool :=
  slots.any fun kx => (fields.find? (·.name == kx.1)).isSome && !isNoneV kx.2

mutual
/-- the wire form of the B-value `v` (type `tB`) contains something A does not know at type `tA` -/
def mentionsUnknown (ρ : Rho) (A B : Env) (tA tB : PTy) (v : PyVal) : Bool :=
  match v with
  | .list xs | .tuple xs => (match tA, tB with
    | .list _ ia _ _, .list _ ib _ _ => mentionsList ρ A B ia ib xs
    | _, _ => false)
  | .dict kvs => (match tA, tB with
    | .map _ _ va, .map _ _ vb => mentionsDict ρ A B va vb kvs
    | _, _ => false)
  | .struct c slots => (match tA, tB with
    | .struct _ ca, .struct _ cb => mentionsSlots ρ A B (publicFields A ca) (publicFields B cb) slots
    | .tree _ ra, .tree _ _ =>
      (match ρ.toA c with
       | some a => if (leafTag? A ra a).isSome then mentionsSlots ρ A B (publicFields A a) (publicFields B c) slots else true
       | none => true)
    | _, _ => false)
  | .union _ tag p => (match tA, tB with
    | .union _ ca, .union _ cb => (match publicTag? A ca tag, publicTag? B cb tag with
      | some ta, some tb =>
        if isVoidT ta.ty then
          -- a payload on a tag that is Void in A: anything B writes besides the tag
          (match tb.ty, p with
           | _, .none => false
           | .void _, _ => false
           | .struct _ sc, .struct _ slots => sendsSomething (publicFields B sc) slots
           | _, _ => true)
        else mentionsUnknown ρ A B ta.ty tb.ty p
      | none, some _ => true
      | _, none => false)
    | _, _ => false)
  | _ => false
def mentionsList (ρ : Rho) (A B : Env) (tA tB : PTy) : List PyVal → Bool
  | [] => false
  | x :: xs => mentionsUnknown ρ A B tA tB x || mentionsList ρ A B tA tB xs
def mentionsDict (ρ : Rho) (A B : Env) (tA tB : PTy) : List (PyVal × PyVal) → Bool
  | [] => false
  | (_, x) :: rest => mentionsUnknown ρ A B tA tB x || mentionsDict ρ A B tA tB rest
def mentionsSlots (ρ : Rho) (A B : Env) (fa fb : List FieldDef) : List (String × PyVal) → Bool
  | [] => false
  | (k, x) :: rest =>
    (match fb.find? (·.name == k) with
     | some g =>
       !isNoneV x && (match fa.find? (·.name == k) with
         | some f => mentionsUnknown ρ A B f.ty g.ty x
         | none => true)
     | none => false) || mentionsSlots ρ A B fa fb rest
end

mutual
/-- no union value of the A-value `v` (type `tA`) uses a tag that is Void in A and non-nullable, non-Void in B -/
def noVoidToRequired (ρ : Rho) (A B : Env) (tA : PTy) (v : PyVal) : Bool :=
  match v with
  | .list xs | .tuple xs => (match tA with | .list _ ia _ _ => nvList ρ A B ia xs | _ => true)
  | .dict kvs => (match tA with | .map _ _ va => nvDict ρ A B va kvs | _ => true)
  | .struct c slots => (match tA with
    | .struct _ ca => nvSlots ρ A B (publicFields A ca) slots
    | .tree _ _ => nvSlots ρ A B (publicFields A c) slots
    | _ => true)
  | .union _ tag p => (match tA with
    | .union _ ca => (match publicTag? A ca tag with
      | some ta =>
        if isVoidT ta.ty then
          (match (ρ.toB ca).bind fun cb => publicTag? B cb tag with
           | some tb => isVoidT tb.ty || tb.ty.flags.nullable
           | none => true)
        else noVoidToRequired ρ A B ta.ty p
      | none => true)
    | _ => true)
  | _ => true
def nvList (ρ : Rho) (A B : Env) (tA : PTy) : List PyVal → Bool
  | [] => true
  | x :: xs => noVoidToRequired ρ A B tA x && nvList ρ A B tA xs
def nvDict (ρ : Rho) (A B : Env) (tA : PTy) : List (PyVal × PyVal) → Bool
  | [] => true
  | (_, x) :: rest => noVoidToRequired ρ A B tA x && nvDict ρ A B tA rest
def nvSlots (ρ : Rho) (A B : Env) (fa : List FieldDef) : List (String × PyVal) → Bool
  | [] => true
  | (k, x) :: rest =>
    (match fa.find? (·.name == k) with
     | some f => noVoidToRequired ρ A B f.ty x
     | none => true) && nvSlots ρ A B fa rest
end

/-! ### messages -/

def structTable (env : Env) (cls : String) : List (String × PTy) :=
  (publicFields env cls).map fun f => (f.name, f.ty)

mutual
/-- the document contains nothing A does not know when read at type `t` (caller without permissions) -/
def knownDoc (A : Env) (t : PTy) (j : JVal) : Bool :=
  if isVoidT t then (match j with | .null => true | _ => false) else
  match j with
  | .arr xs => (match t with | .list _ item _ _ => knownList A item xs | _ => true)
  | .obj kvs => (match t with
    | .map _ _ vt => knownVals A vt kvs
    | .struct _ cls => knownMembers A (structTable A cls) kvs
    | .tree _ cls => (match jsonLookup ".tag" kvs, A.struct? cls with
      | some (.str tag), some s => (match (s.subtypes.getD []).find? (fun e => e.1 == [tag]) with
        | some (_, sc, false) => knownMembers A (structTable A sc) kvs
        | _ => false)
      | _, _ => true)
    | .union _ cls => (match jsonLookup ".tag" kvs with
      | some (.str tag) => (match publicTag? A cls tag with
        | some td =>
          if isVoidT td.ty then kvs.all fun kx => kx.1 == ".tag" || (kx.1 == tag && (match kx.2 with | .null => true | _ => false))
          else (match td.ty with
            | .struct _ sc => knownMembers A (structTable A sc) kvs
            | ft => knownMembers A [(tag, ft.withFlags {})] kvs)
        | none => false)
      | _ => true)
    | _ => true)
  | .str tag => (match t with
    | .union _ cls => (publicTag? A cls tag).isSome
    | _ => true)
  | _ => true
def knownList (A : Env) (t : PTy) : List JVal → Bool
  | [] => true
  | x :: xs => knownDoc A t x && knownList A t xs
def knownVals (A : Env) (t : PTy) : List (String × JVal) → Bool
  | [] => true
  | (_, x) :: rest => knownDoc A t x && knownVals A t rest
/-- every member is in the table (or is the discriminator) and is itself known -/
def knownMembers (A : Env) (tbl : List (String × PTy)) : List (String × JVal) → Bool
  | [] => true
  | (k, x) :: rest =>
    (match tbl.find? (·.1 == k) with
     | some (_, ft) => knownDoc A ft x
     | none => k.startsWith ".tag") && knownMembers A tbl rest
end

mutual
/-- the document is in the form an encoder writes, with nothing A does not know: `knownDoc`, and every Void tag comes as
the bare `{".tag": tag}` (a decoder also tolerates `tag: null` there; an encoder never writes it) -/
def tightDoc (A : Env) (t : PTy) (j : JVal) : Bool :=
  if isVoidT t then (match j with | .null => true | _ => false) else
  match j with
  | .arr xs => (match t with | .list _ item _ _ => tightList A item xs | _ => true)
  | .obj kvs => (match t with
    | .map _ _ vt => tightVals A vt kvs
    | .struct _ cls => tightMembers A (structTable A cls) kvs
    | .tree _ cls => (match jsonLookup ".tag" kvs, A.struct? cls with
      | some (.str tag), some s => (match (s.subtypes.getD []).find? (fun e => e.1 == [tag]) with
        | some (_, sc, false) => tightMembers A (structTable A sc) kvs
        | _ => false)
      | _, _ => true)
    | .union _ cls => (match jsonLookup ".tag" kvs with
      | some (.str tag) => (match publicTag? A cls tag with
        | some td =>
          if isVoidT td.ty then kvs.length == 1
          else (match td.ty with
            | .struct _ sc => tightMembers A (structTable A sc) kvs
            | ft => tightMembers A [(tag, ft.withFlags {})] kvs)
        | none => false)
      | _ => true)
    | _ => true)
  | .str tag => (match t with
    | .union _ cls => (publicTag? A cls tag).isSome
    | _ => true)
  | _ => true
def tightList (A : Env) (t : PTy) : List JVal → Bool
  | [] => true
  | x :: xs => tightDoc A t x && tightList A t xs
def tightVals (A : Env) (t : PTy) : List (String × JVal) → Bool
  | [] => true
  | (_, x) :: rest => tightDoc A t x && tightVals A t rest
def tightMembers (A : Env) (tbl : List (String × PTy)) : List (String × JVal) → Bool
  | [] => true
  | (k, x) :: rest =>
    (match tbl.find? (·.1 == k) with
     | some (_, ft) => tightDoc A ft x
     | none => k == ".tag") && tightMembers A tbl rest
end

/-- the tag is Void in A and B gave it a non-nullable type: the one direction the guide does not promise -/
def voidToRequired (ρ : Rho) (A B : Env) (cls tag : String) : Bool :=
  match publicTag? A cls tag with
  | some ta =>
    isVoidT ta.ty && (match (ρ.toB cls).bind fun cb => publicTag? B cb tag with
      | some tb => !(isVoidT tb.ty || tb.ty.flags.nullable)
      | none => false)
  | none => false

mutual
/-- message level `noVoidToRequired`: no union object / symbol in the document (read at A's type `t`) names a tag that is
Void in A and has a non-nullable type in B -/
def nvrDoc (ρ : Rho) (A B : Env) (t : PTy) (j : JVal) : Bool :=
  match j with
  | .arr xs => (match t with | .list _ item _ _ => nvrList ρ A B item xs | _ => true)
  | .obj kvs => (match t with
    | .map _ _ vt => nvrVals ρ A B vt kvs
    | .struct _ cls => nvrMembers ρ A B (structTable A cls) kvs
    | .tree _ cls => (match jsonLookup ".tag" kvs, A.struct? cls with
      | some (.str tag), some s => (match (s.subtypes.getD []).find? (fun e => e.1 == [tag]) with
        | some (_, sc, false) => nvrMembers ρ A B (structTable A sc) kvs
        | _ => true)
      | _, _ => true)
    | .union _ cls => (match jsonLookup ".tag" kvs with
      | some (.str tag) => !voidToRequired ρ A B cls tag && (match publicTag? A cls tag with
        | some td =>
          if isVoidT td.ty then true
          else (match td.ty with
            | .struct _ sc => nvrMembers ρ A B (structTable A sc) kvs
            | ft => nvrMembers ρ A B [(tag, ft.withFlags {})] kvs)
        | none => true)
      | _ => true)
    | _ => true)
  | .str tag => (match t with
    | .union _ cls => !voidToRequired ρ A B cls tag
    | _ => true)
  | _ => true
def nvrList (ρ : Rho) (A B : Env) (t : PTy) : List JVal → Bool
  | [] => true
  | x :: xs => nvrDoc ρ A B t x && nvrList ρ A B t xs
def nvrVals (ρ : Rho) (A B : Env) (t : PTy) : List (String × JVal) → Bool
  | [] => true
  | (_, x) :: rest => nvrDoc ρ A B t x && nvrVals ρ A B t rest
def nvrMembers (ρ : Rho) (A B : Env) (tbl : List (String × PTy)) : List (String × JVal) → Bool
  | [] => true
  | (k, x) :: rest =>
    (match tbl.find? (·.1 == k) with
     | some (_, ft) => nvrDoc ρ A B ft x
     | none => true) && nvrMembers ρ A B tbl rest
end

end StoneVerif.Rt.Compat
