import StoneVerif.Model.Rt.Encode
/-
RT model, specification-level helpers for C13 (redaction): which redactor applies to a validator
object at the top of `encode_sub`, and the shape of dictionaries the redaction branch can handle.
-/
namespace StoneVerif.Rt

/-- The `_redact` attribute `encode_sub` consults first: that of the outermost validator object
(the `Nullable` wrapper when there is one). -/
def PTy.outerRedactor (t : PTy) : Option Redactor :=
  if t.flags.nullable then t.flags.redactOuter else t.flags.redactInner

/-- The redactor that applies to a value of the type, on the wrapper or on the wrapped object. -/
def PTy.topRedactor (t : PTy) : Option Redactor :=
  match t.outerRedactor with
  | some r => some r
  | none => if t.flags.nullable then t.flags.redactInner else none

/-- A dictionary all of whose keys are strings (everything else trivially). The redaction branch of
the model covers these dictionaries only. -/
def stringKeyed : PyVal → Bool
  | .dict kvs => kvs.all fun (k, _) => match k with | .str _ => true | _ => false
  | _ => true

/-- the mask `BlotRedactor` writes -/
def blotMask : JVal := .str "********"

end StoneVerif.Rt
