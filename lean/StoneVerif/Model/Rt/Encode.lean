import StoneVerif.Model.Rt.Validate
/-
RT model, part 4: `StoneToPythonPrimitiveSerializer` (new-style JSON): `encode_sub` with the
redaction short-cut, `encode_list/map/nullable/primitive/struct/struct_tree/union`.

Termination: structural in the *value*. The Python walks the field table and reads each attribute;
the model first encodes every set slot of the instance that the table knows (structural), then
assembles the object in table order — same result, same first error in table order.
`norm = true` records that an enclosing `List`/`Map` validation has already normalised the value
(the Python encodes the *validated* copy of a list or map, but the raw value everywhere else).
-/
namespace StoneVerif.Rt

def joinStars : List String → String
  | [] => ""
  | [g] => g
  | g :: gs => g ++ "***" ++ joinStars gs

def redactMatches (E : Ext) (regex : Option String) (v : PyVal) : Option (List String) :=
  match regex, v with
  | some re, .str s => if re == "" then none else E.reSearch re s
  | _, _ => none

/-- `HashRedactor.apply` / `BlotRedactor.apply` -/
def redactApply (E : Ext) (r : Redactor) (v : PyVal) : JVal :=
  match r with
  | .blot regex => match redactMatches E regex v with
    | some gs => .str (joinStars gs)
    | none => .str "********"
  | .hash regex =>
    let toHash : Option String := match v with
      | .str s => some s
      | .int n => some (E.strOfInt n)
      | .bool b => some (if b then "True" else "False")
      | .flt x => some (E.strOfFlt x)
      | _ => none
    let hashed := toHash.map E.md5
    match redactMatches E regex v with
    | some gs => match hashed with
      | some h => .str (h ++ " (" ++ joinStars gs ++ ")")
      | none => .str (joinStars gs)
    | none => match hashed with
      | some h => .str h
      | none => .null

def redactDict (E : Ext) (r : Redactor) : List (PyVal × PyVal) → R (List (String × JVal))
  | [] => .ok []
  | (.str k, x) :: rest => do
    let rest' ← redactDict E r rest
    pure ((k, redactApply E r x) :: rest')
  | _ => crash "UnmodelledNonStringKey"

/-- the redaction branch of `encode_sub`: one level into lists and dicts, nothing validated -/
def redactValue (E : Ext) (r : Redactor) (v : PyVal) : R JVal :=
  match v with
  | .list xs => .ok (.arr (xs.map (redactApply E r)))
  | .dict kvs => (redactDict E r kvs).map .obj
  | _ => .ok (redactApply E r v)

def isNone : PyVal → Bool
  | .none => true
  | _ => false

def lookupEnc (name : String) : List (String × R JVal) → Option (R JVal)
  | [] => none
  | (k, v) :: rest => if k == name then some v else lookupEnc name rest

/-- `encode_struct`'s loop over the field table, given the already encoded set slots. -/
def assembleStruct (fields : List FieldDef) (slots : List (String × PyVal)) (enc : List (String × R JVal)) :
    R (List (String × JVal)) :=
  match fields with
  | [] => .ok []
  | f :: rest =>
    match attrGet f slots with
    | none => verr "missing required field"
    | some _ =>
      match lookupEnc f.name enc with
      | some r => do
        let j ← r
        let more ← assembleStruct rest slots enc
        pure ((f.name, j) :: more)
      | none => assembleStruct rest slots enc

/-- `encode_primitive` on a value that passed validation -/
def encodePrim (E : Ext) (norm : Bool) (t : PTy) (v : PyVal) : R JVal :=
  match t with
  | .void _ => .ok .null
  | .ts _ fmt => match v with
    | .ts id _ => .ok (.str (E.strftime fmt id))
    | _ => crash "Unreachable"
  | .bytes _ => match v with
    | .bytes h => .ok (.str (E.b64enc h))
    | _ => crash "Unreachable"
  | .int .. => match v with
    | .int n => .ok (.int n)
    | .bool b => .ok (.int (if b then 1 else 0))
    | _ => crash "Unreachable"
  | .float .. => match v with
    | .flt x => .ok (.flt x)
    | .int n => if norm then (match E.fltOfInt n with | some x => .ok (.flt x) | none => crash "Unreachable") else .ok (.int n)
    | .bool b => if norm then (match E.fltOfInt (if b then 1 else 0) with | some x => .ok (.flt x) | none => crash "Unreachable") else .ok (.bool b)
    | _ => crash "Unreachable"
  | .bool _ => match v with
    | .bool b => .ok (.bool b)
    | _ => crash "Unreachable"
  | .str .. => match v with
    | .str s => .ok (.str s)
    | _ => crash "Unreachable"
  | _ => crash "Unreachable"

mutual
/-- `encode_sub(validator, value)` -/
def encode (E : Ext) (env : Env) (perms : List String) (redact : Bool) (norm : Bool) (t : PTy) (v : PyVal) : R JVal :=
  let fl := t.flags
  -- 1. the `_redact` attribute of the outermost validator object
  match (if redact then (if fl.nullable then fl.redactOuter else fl.redactInner) else none) with
  | some r => redactValue E r v
  | none =>
  -- 2. Nullable: validate (the whole thing), None encodes as null, else the wrapped validator
  if fl.nullable && isNone v then .ok .null else
  match (if fl.nullable then validate E env t v else .ok v) with
  | .error e => .error e
  | .ok _ =>
  match (if redact && fl.nullable then fl.redactInner else none) with
  | some r => redactValue E r v
  | none =>
  -- 3. dispatch on the (wrapped) validator
  match t with
  | .list _ item _ _ =>
    match validate E env (t.withFlags {}) v with
    | .error e => .error e
    | .ok _ => match v with
      | .list xs | .tuple xs => (encodeList E env perms redact item xs).map .arr
      | _ => crash "Unreachable"
  | .map _ kt vt =>
    match validate E env (t.withFlags {}) v with
    | .error e => .error e
    | .ok _ => match v with
      | .dict kvs => (encodeDict E env perms redact kt vt kvs).map .obj
      | _ => crash "Unreachable"
  | .struct _ cls =>
    match (if perms.isEmpty then validateTypeOnly env (t.withFlags {}) v
           else validateWithPermissions E env t perms v) with
    | .error e => .error e
    | .ok _ => match v with
      | .struct _ slots => match env.struct? cls with
        | some s =>
          let fields := s.fieldsFor perms
          (assembleStruct fields slots (encodeSlots E env perms redact fields slots)).map .obj
        | none => crash "NameError"
      | _ => crash "Unreachable"
  | .tree _ cls =>
    match (if perms.isEmpty then (validate E env (t.withFlags {}) v).map (fun _ => ())
           else validateWithPermissions E env t perms v) with
    | .error e => .error e
    | .ok _ => match v with
      | .struct c slots => match env.struct? cls with
        | some s => match (s.subtypes.getD []).find? (fun (_, sc, _) => sc == c) with
          | none => crash "AssertionError"             -- not a serializable subtype
          | some (tags, sc, isTree) => match tags with
            | [tag] =>
              if isTree then crash "AssertionError" else
              match env.struct? sc with
              | some sd =>
                let fields := sd.fieldsFor perms
                (assembleStruct fields slots (encodeSlots E env perms redact fields slots)).map
                  fun kvs => .obj ((".tag", .str tag) :: kvs)
              | none => crash "NameError"
            | _ => crash "AssertionError"
        | none => crash "NameError"
      | _ => crash "Unreachable"
  | .union _ cls =>
    match validateTypeOnly env (t.withFlags {}) v with
    | .error e => .error e
    | .ok _ => match v with
      | .union _ tag payload => match env.union? cls with
        | some u =>
          if !u.isTagPresent tag perms then verr "caller does not have access to tag" else
          match u.valDataType tag perms with
          | none => crash "KeyError"
          | some ft =>
            let isVoid := match ft with | .void _ => true | _ => false
            if isVoid || (ft.flags.nullable && isNone payload) then .ok (.obj [(".tag", .str tag)]) else
            match encode E env perms redact false ft payload with
            | .error e => .error e
            | .ok j =>
              match ft with
              | .struct .. => match j with
                | .obj kvs => .ok (.obj ((".tag", .str tag) :: kvs))
                | .null => crash "TypeError"
                | _ => crash "ValueError"
              | _ => .ok (.obj [(".tag", .str tag), (tag, j)])
        | none => crash "NameError"
      | _ => crash "Unreachable"
  | _ =>
    match validate E env (t.withFlags {}) v with
    | .error e => .error e
    | .ok _ => encodePrim E norm t v
def encodeList (E : Ext) (env : Env) (perms : List String) (redact : Bool) (t : PTy) : List PyVal → R (List JVal)
  | [] => .ok []
  | x :: xs => do
    let j ← encode E env perms redact true t x
    let js ← encodeList E env perms redact t xs
    pure (j :: js)
def encodeDict (E : Ext) (env : Env) (perms : List String) (redact : Bool) (kt vt : PTy) :
    List (PyVal × PyVal) → R (List (String × JVal))
  | [] => .ok []
  | (k, x) :: rest => do
    let kj ← encode E env perms redact true kt k
    let xj ← encode E env perms redact true vt x
    let rest' ← encodeDict E env perms redact kt vt rest
    match kj with
    | .str ks => pure ((ks, xj) :: rest')
    | _ => crash "UnmodelledNonStringKey"
/-- encode every set, non-None slot that the field table knows -/
def encodeSlots (E : Ext) (env : Env) (perms : List String) (redact : Bool) (fields : List FieldDef) :
    List (String × PyVal) → List (String × R JVal)
  | [] => []
  | (k, x) :: rest =>
    match fields.find? (·.name == k) with
    | some f => if isNone x then encodeSlots E env perms redact fields rest
      else (k, encode E env perms redact false f.ty x) :: encodeSlots E env perms redact fields rest
    | none => encodeSlots E env perms redact fields rest
end

/-- `json_compat_obj_encode(data_type, obj, caller_permissions, should_redact=...)` -/
def jsonCompatObjEncode (E : Ext) (env : Env) (perms : List String) (redact : Bool) (t : PTy) (v : PyVal) : R JVal :=
  encode E env perms redact false t v

end StoneVerif.Rt
