import StoneVerif.Model.Rt.Validate
/-
RT model, part 5: `PythonPrimitiveToStoneDecoder` (new-style JSON): `json_compat_obj_decode`,
`json_compat_obj_decode_helper`, `decode_struct`, `decode_struct_fields`, `decode_union`,
`decode_union_dict`, `decode_struct_tree`, `determine_struct_tree_subtype`, `decode_list`,
`decode_map`, `decode_nullable`, `make_stone_friendly`.

Termination: structural in the JSON document. The Python walks the field table and indexes the
object; the model first decodes every member of the object that the applicable table knows
(structural), then runs the table loop over the decoded members — same result, same first error in
table order.
-/
namespace StoneVerif.Rt

def jsonLookup (k : String) : List (String × JVal) → Option JVal
  | [] => none
  | (k', v) :: rest => if k' == k then some v else jsonLookup k rest

def childLookup (k : String) : List (String × R PyVal) → Option (R PyVal)
  | [] => none
  | (k', v) :: rest => if k' == k then some v else childLookup k rest

mutual
/-- the Python object `json.loads` produced (what a primitive position receives unvalidated) -/
def pyOfJson : JVal → PyVal
  | .null => .none
  | .bool b => .bool b
  | .int n => .int n
  | .flt x => .flt x
  | .str s => .str s
  | .arr xs => .list (pyOfJsonList xs)
  | .obj kvs => .dict (pyOfJsonKvs kvs)
def pyOfJsonList : List JVal → List PyVal
  | [] => []
  | x :: xs => pyOfJson x :: pyOfJsonList xs
def pyOfJsonKvs : List (String × JVal) → List (PyVal × PyVal)
  | [] => []
  | (k, x) :: rest => (.str k, pyOfJson x) :: pyOfJsonKvs rest
end

/-- `make_stone_friendly(data_type, val, validate)` for a non-nullable primitive validator -/
def makeStoneFriendly (E : Ext) (env : Env) (perms : List String) (strict : Bool) (validateIt : Bool)
    (t : PTy) (j : JVal) : R PyVal :=
  match t with
  | .ts _ fmt => match j with
    | .str s => match E.strptime fmt s with
      | some id => .ok (.ts id true)
      | none => verr "strptime ValueError"
    | _ => verr "strptime TypeError"
  | .bytes _ => match j with
    | .str s => match E.b64dec s with
      | some (some h) => .ok (.bytes h)
      | some none => verr "invalid base64-encoded bytes"
      | none => verr "invalid base64-encoded bytes"     -- non-ASCII text (ValueError)
    | _ => verr "invalid base64-encoded bytes"
  | .void _ => if strict && (match j with | .null => false | _ => true) then verr "expected null" else .ok .none
  | _ =>
    if validateIt then
      -- primitives have no validate_with_permissions: plain validate whatever the caller holds
      match validate E env (t.withFlags {}) (pyOfJson j) with
        | .error e => .error e
        | .ok _ => .ok (pyOfJson j)
    else .ok (pyOfJson j)

/-- `decode_struct_fields` + `validate_fields_only_with_permissions`, given the decoded members -/
def finishFields (E : Ext) (env : Env) (fields : List FieldDef) (children : List (String × R PyVal))
    (slots : List (String × PyVal)) : R (List (String × PyVal)) :=
  match fields with
  | [] => .ok slots
  | f :: rest =>
    match childLookup f.name children with
    | some r => do
      let v ← r
      let slots' ← attrSet E env f slots v
      finishFields E env rest children slots'
    | none =>
      if hasDefault env f.ty then do
        let slots' ← attrSet E env f slots (getDefault f.ty)
        finishFields E env rest children slots'
      else finishFields E env rest children slots

/-- `decode_struct` on an object, given its decoded members -/
def finishStruct (E : Ext) (env : Env) (perms : List String) (strict : Bool) (cls : String)
    (kvs : List (String × JVal)) (children : List (String × R PyVal)) : R PyVal :=
  match env.struct? cls with
  | none => crash "NameError"
  | some s =>
    let fields := s.fieldsFor perms
    let names := fields.map (·.name)
    if strict && kvs.any (fun (k, _) => !names.contains k && !k.startsWith ".tag") then verr "unknown field" else
    match finishFields E env fields children [] with
    | .error e => .error e
    | .ok slots =>
      if fields.all fun f => attrHas f slots then .ok (.struct cls slots) else verr "missing required field"

def isPlainStruct : PTy → Bool
  | .struct .. => true
  | _ => false

def isVoidTy : PTy → Bool
  | .void _ => true
  | _ => false

/-- the member table that applies to a JSON object decoded at type `t` (flags ignored):
struct → its field table; enumerated tree → the field table of the subtype the `.tag` selects;
union → the payload slot of the tag the `.tag` selects (or that struct's field table). -/
def memberTable (env : Env) (perms : List String) (strict : Bool) (t : PTy) (kvs : List (String × JVal)) :
    List (String × PTy) :=
  let structTable (cls : String) : List (String × PTy) :=
    match env.struct? cls with
    | some s => (s.fieldsFor perms).map fun f => (f.name, f.ty)
    | none => []
  match t with
  | .struct _ cls => structTable cls
  | .tree _ cls =>
    match jsonLookup ".tag" kvs, env.struct? cls with
    | some (.str tag), some s =>
      match (s.subtypes.getD []).find? (fun (tags, _, _) => tags == [tag]) with
      | some (_, sc, isTree) => if isTree then [] else structTable sc
      | none => if !strict && s.catchAll then structTable cls else []
    | _, _ => []
  | .union _ cls =>
    match jsonLookup ".tag" kvs, env.union? cls with
    | some (.str tag), some u =>
      if !u.isTagPresent tag perms then [] else
      match u.valDataType tag perms with
      | some ft => if isPlainStruct ft then memberTableStruct env perms ft else [(tag, ft.withFlags {})]
      | none => []
    | _, _ => []
  | _ => []
where
  memberTableStruct (env : Env) (perms : List String) : PTy → List (String × PTy)
    | .struct _ cls => match env.struct? cls with
      | some s => (s.fieldsFor perms).map fun f => (f.name, f.ty)
      | none => []
    | _ => []

mutual
/-- `json_compat_obj_decode_helper(data_type, obj)` -/
def decode (E : Ext) (env : Env) (perms : List String) (strict : Bool) (t : PTy) (j : JVal) : R PyVal :=
  if t.flags.nullable && (match j with | .null => true | _ => false) then .ok .none else
  match t with
  | .list _ item _ _ => match j with
    | .arr xs => (decodeList E env perms strict item xs).map .list
    | _ => verr "expected list"
  | .map _ _ vt => match j with
    | .obj kvs => (decodeMap E env perms strict vt kvs).map .dict
    | _ => verr "expected dict"
  | .struct _ cls => match j with
    | .null => if hasDefault env (t.withFlags {}) then .ok (.struct cls []) else verr "expected object"
    | .obj kvs => finishStruct E env perms strict cls kvs
        (decodeMembers E env perms strict (memberTable env perms strict t kvs) kvs)
    | _ => verr "expected object"
  | .tree _ cls => match j with
    | .null | .bool _ | .int _ | .flt _ | .str _ | .arr _ => verr "expected object"
    | .obj kvs => match jsonLookup ".tag" kvs with
      | none => verr "missing '.tag' key"
      | some (.str tag) => match env.struct? cls with
        | none => crash "NameError"
        | some s =>
          let children := decodeMembers E env perms strict (memberTable env perms strict t kvs) kvs
          match (s.subtypes.getD []).find? (fun (tags, _, _) => tags == [tag]) with
          | some (_, sc, isTree) =>
            if isTree then verr "tag refers to non-leaf subtype" else finishStruct E env perms strict sc kvs children
          | none =>
            if strict then verr "unknown subtype"
            else if s.catchAll then finishStruct E env perms strict cls kvs children
            else verr "unknown subtype and not a catch-all"
      | some _ => verr "expected string tag"
  | .union _ cls => match env.union? cls with
    | none => crash "NameError"
    | some u => match j with
      | .str tag =>
        if u.isTagPresent tag perms then
          match u.valDataType tag perms with
          | none => crash "KeyError"
          | some ft =>
            if !(isVoidTy ft || ft.flags.nullable) then verr "expected object, got symbol"
            else if some tag == u.catchAll then verr "unexpected use of the catch-all tag"
            else mkUnion E env cls tag .none
        else if !strict && u.catchAll.isSome then mkUnion E env cls (u.catchAll.getD "") .none
        else verr "unknown tag"
      | .obj kvs => match jsonLookup ".tag" kvs with
        | none => verr "missing '.tag' key"
        | some (.str tag) =>
          if !u.isTagPresent tag perms then
            if !strict && u.catchAll.isSome then mkUnion E env cls (u.catchAll.getD "") .none
            else verr "unknown tag"
          else if some tag == u.catchAll then verr "unexpected use of the catch-all tag"
          else match u.valDataType tag perms with
          | none => crash "KeyError"
          | some ft =>
            let nullable := ft.flags.nullable
            let children := decodeMembers E env perms strict (memberTable env perms strict t kvs) kvs
            if isVoidTy ft then
              if strict && ((match jsonLookup tag kvs with | some .null | none => false | some _ => true) ||
                  kvs.any fun (k, _) => k != tag && k != ".tag") then verr "unexpected key / expected null"
              else mkUnion E env cls tag .none
            else if isPlainStruct ft then
              if nullable && kvs.length == 1 then mkUnion E env cls tag .none
              else match ft with
                | .struct _ sc => match finishStruct E env perms strict sc kvs children with
                  | .ok v => mkUnion E env cls tag v
                  | .error e => .error e
                | _ => crash "Unreachable"
            else
              match (match childLookup tag children with
                  | some r => r
                  | none => if (jsonLookup tag kvs).isSome then crash "Unreachable"
                            else if nullable then .ok .none else verr "missing tag key") with
              | .error e => .error e
              | .ok v =>
                if kvs.any fun (k, _) => k != tag && k != ".tag" then verr "unexpected key"
                else mkUnion E env cls tag v
        | some _ => verr "tag must be string"
      | _ => verr "expected string or object"
  | _ => makeStoneFriendly E env perms strict false t j
def decodeList (E : Ext) (env : Env) (perms : List String) (strict : Bool) (t : PTy) : List JVal → R (List PyVal)
  | [] => .ok []
  | x :: xs => do
    let v ← decode E env perms strict t x
    let vs ← decodeList E env perms strict t xs
    pure (v :: vs)
def decodeMap (E : Ext) (env : Env) (perms : List String) (strict : Bool) (vt : PTy) :
    List (String × JVal) → R (List (PyVal × PyVal))
  | [] => .ok []
  | (k, x) :: rest => do
    let v ← decode E env perms strict vt x
    let vs ← decodeMap E env perms strict vt rest
    pure ((.str k, v) :: vs)
/-- decode every member of an object that the member table knows -/
def decodeMembers (E : Ext) (env : Env) (perms : List String) (strict : Bool) (tbl : List (String × PTy)) :
    List (String × JVal) → List (String × R PyVal)
  | [] => []
  | (k, x) :: rest =>
    match tbl.find? (·.1 == k) with
    | some (_, ft) => (k, decode E env perms strict ft x) :: decodeMembers E env perms strict tbl rest
    | none => decodeMembers E env perms strict tbl rest
end

/-- `json_compat_obj_decode(data_type, obj, caller_permissions, strict=...)` -/
def jsonCompatObjDecode (E : Ext) (env : Env) (perms : List String) (strict : Bool) (t : PTy) (j : JVal) : R PyVal :=
  let isPrim := !t.flags.nullable && match t with
    | .bool _ | .int .. | .float .. | .str .. | .bytes _ | .ts .. | .void _ => true
    | _ => false
  if isPrim then makeStoneFriendly E env perms strict true t j else
  match decode E env perms strict t j with
  | .error e => .error e
  | .ok v =>
    -- top-level List / Map / Nullable results are validated at the entry point
    let isContainer := t.flags.nullable || match t with
      | .list .. | .map .. => true
      | _ => false
    if isContainer then validate E env t v else .ok v

end StoneVerif.Rt
