import StoneVerif.Model.Rt.Types
/-
RT model, part 2: the class tables that the reflection section of a generated module assigns
(`_all_fields_`, `_all_<perm>_fields_`, `_tagmap`, `_<perm>_tagmap`, `_permissioned_tagmaps`),
computed from the API description with the *assignment and attribute-inheritance semantics of the
generated code* (python_types `_generate_struct_class_reflection_attributes`,
`_generate_union_class_reflection_attributes`), and beside them the specification-level tables.
-/
namespace StoneVerif.Rt

def dedup : List String → List String
  | [] => []
  | x :: xs => if xs.contains x then dedup xs else x :: dedup xs

def Level.ownCallers (l : Level) : List String := dedup (l.fields.filterMap (·.omitted))
def ULevel.ownCallers (l : ULevel) : List String := dedup (l.tags.filterMap (·.omitted))

def callerIn (X : Option String) (cs : List String) : Bool :=
  match X with
  | none => false
  | some x => cs.contains x

/-- `getattr(C, '_all<_X>_fields_')` for the class whose chain is `levels` given LEAF FIRST.
`none` = the attribute does not exist (Python: AttributeError, or the `getattr` default). -/
def allFieldsAttrRev (X : Option String) : List Level → Option (List FieldDef)
  | [] => none
  | l :: parents =>
    let own := l.fields.filter (·.omitted == X)
    let parentCallers := dedup (parents.flatMap (·.ownCallers))     -- every ancestor, not only the direct parent
    let assigned := X.isNone || callerIn X l.ownCallers || callerIn X parentCallers
    if assigned then
      let callerInParent := !parents.isEmpty && (X.isNone || callerIn X parentCallers)
      if callerInParent then (allFieldsAttrRev X parents).map (· ++ own) else some own
    else allFieldsAttrRev X parents

def StructDef.allFieldsAttr (s : StructDef) (X : Option String) : Option (List FieldDef) :=
  allFieldsAttrRev X s.levels.reverse

/-- `_all_fields_` followed by `_all_<p>_fields_` for each permission of the caller, as
`encode_struct` / `decode_struct` assemble it (`getattr(..., [])` for missing attributes). -/
def StructDef.fieldsFor (s : StructDef) (perms : List String) : List FieldDef :=
  (s.allFieldsAttr none).getD [] ++ perms.flatMap fun p => (s.allFieldsAttr (some p)).getD []

/-- Specification: every field declared along the chain, parents first, that is public or omitted
for a caller class the caller holds. -/
def StructDef.fieldsSpec (s : StructDef) (perms : List String) : List FieldDef :=
  (s.levels.flatMap (·.fields)).filter fun f => match f.omitted with
    | none => true
    | some c => perms.contains c

/-- All fields whatever the caller (attribute descriptors exist for each of them). -/
def StructDef.allAttrs (s : StructDef) : List FieldDef := s.levels.flatMap (·.fields)

def StructDef.field? (s : StructDef) (name : String) : Option FieldDef :=
  s.allAttrs.find? (·.name == name)

def StructDef.ancestors (s : StructDef) : List String := s.levels.map (·.cls)

/-- `getattr(C, '_tagmap' | '_<X>_tagmap')`, chain LEAF FIRST. -/
def tagmapAttrRev (X : Option String) : List ULevel → Option (List TagDef)
  | [] => none
  | l :: parents =>
    let own := l.tags.filter (·.omitted == X)
    let parentCallers := dedup (parents.flatMap (·.ownCallers))     -- every ancestor, not only the direct parent
    let assigned := X.isNone || callerIn X l.ownCallers || callerIn X parentCallers
    if assigned then
      let callerInParent := !parents.isEmpty && (X.isNone || callerIn X parentCallers)
      if callerInParent then (tagmapAttrRev X parents).map (own ++ ·) else some own
    else tagmapAttrRev X parents

def UnionDef.tagmapAttr (u : UnionDef) (X : Option String) : Option (List TagDef) :=
  tagmapAttrRev X u.levels.reverse

/-- `C._permissioned_tagmaps`, chain LEAF FIRST (assigned only when non-empty, else inherited;
`bb.Union._permissioned_tagmaps = set()`). -/
def permissionedTagmapsRev : List ULevel → List String
  | [] => []
  | l :: parents =>
    let parentCallers := dedup (parents.flatMap (·.ownCallers))     -- every ancestor, not only the direct parent
    let all := dedup (l.ownCallers ++ parentCallers)
    if all.isEmpty then permissionedTagmapsRev parents else all

def UnionDef.permissionedTagmaps (u : UnionDef) : List String := permissionedTagmapsRev u.levels.reverse

def findTag (name : String) : List TagDef → Option TagDef
  | [] => none
  | t :: ts => if t.name == name then some t else findTag name ts

/-- `Union._is_tag_present(tag, caller_permissions)` -/
def UnionDef.isTagPresent (u : UnionDef) (tag : String) (perms : List String) : Bool :=
  ((u.tagmapAttr none).bind (findTag tag)).isSome ||
    perms.any fun p => ((u.tagmapAttr (some p)).bind (findTag tag)).isSome

/-- `Union._get_val_data_type(tag, caller_permissions)`; `none` = KeyError. -/
def UnionDef.valDataType (u : UnionDef) (tag : String) (perms : List String) : Option PTy :=
  match perms.findSome? fun p => (u.tagmapAttr (some p)).bind (findTag tag) with
  | some t => some t.ty
  | none => ((u.tagmapAttr none).bind (findTag tag)).map (·.ty)

/-- The validator `Union.__init__` finds: `_tagmap` then every map named by `_permissioned_tagmaps`. -/
def UnionDef.ctorValidator (u : UnionDef) (tag : String) : Option PTy :=
  let maps := (u.tagmapAttr none).getD [] ++
    u.permissionedTagmaps.flatMap fun p => (u.tagmapAttr (some p)).getD []
  (findTag tag maps).map (·.ty)

/-- Specification: the tags a caller may see — declared along the chain, public or omitted for a
class the caller holds. -/
def UnionDef.tagsSpec (u : UnionDef) (perms : List String) : List TagDef :=
  (u.levels.flatMap (·.tags)).filter fun t => match t.omitted with
    | none => true
    | some c => perms.contains c

def UnionDef.ancestors (u : UnionDef) : List String := u.levels.map (·.cls)

/-- `issubclass(sub, sup)` for generated struct classes. -/
def Env.structSubclass (env : Env) (sub sup : String) : Bool :=
  match env.struct? sub with
  | some s => s.ancestors.contains sup
  | none => false

def Env.unionSubclass (env : Env) (sub sup : String) : Bool :=
  match env.union? sub with
  | some u => u.ancestors.contains sup
  | none => false

end StoneVerif.Rt
