import StoneVerif.Model.Rt.WF
import StoneVerif.Model.Rt.Decode
/-
RT model, extra decidable definitions used by the C06 theorems (import-free beyond the model, so the
driver can evaluate them on every environment / document the harness sends).

* `fieldFlagsWF` : the `bb.Attribute(nullable=…, user_defined=…)` flags of every field agree with the
                   field's validator object (a fact about how python_types builds both from one IR type;
                   not derivable inside the model, checked on real data instead).
* `nodupKeys`    : a JSON document has no repeated key in any object (what `json.loads` produces).
* `FieldDef.optional` : the field may be left out of a document (nullable, or carries a default).
* `noCatchAllTrees` : no enumerated-subtypes root of the environment is declared with a catch-all (`*`).
* `visibleTagsPublic` : the other hypothesis of `decode_sound_partial`.
* `noDefaultedTrees` : formerly a third hypothesis; true of every environment since `StructTree.has_default()`
                   is `False` (`DecL.noDefaultedTrees_holds`); kept because the driver still reports it.
-/
namespace StoneVerif.Rt

/-- the validator is one of `bv.Struct`, `bv.StructTree`, `bv.Union` (possibly wrapped in `bv.Nullable`) -/
def isUserTy : PTy → Bool
  | .struct .. | .tree .. | .union .. => true
  | _ => false

/-- `user_defined=True` only on validators that have `validate_type_only`; `nullable=True` only when the
validator object is a `bv.Nullable`. -/
def FieldDef.flagsWF (f : FieldDef) : Bool :=
  (!f.attrUserDefined || isUserTy f.ty) && (!f.attrNullable || f.ty.flags.nullable)

def fieldFlagsWF (env : Env) : Bool :=
  env.structs.all fun s => s.allAttrs.all (·.flagsWF)

mutual
/-- no object of the document repeats a key -/
def nodupKeys : JVal → Bool
  | .arr xs => nodupKeysList xs
  | .obj kvs => nodupS (kvs.map (·.1)) && nodupKeysKvs kvs
  | _ => true
def nodupKeysList : List JVal → Bool
  | [] => true
  | x :: xs => nodupKeys x && nodupKeysList xs
def nodupKeysKvs : List (String × JVal) → Bool
  | [] => true
  | (_, x) :: rest => nodupKeys x && nodupKeysKvs rest
end

/-- the documented optional fields: the validator is nullable, or the field has a default value (and no
implicit one: `has_default()` of the validator is consulted first by the decoder) -/
def FieldDef.optional (env : Env) (f : FieldDef) : Bool :=
  f.ty.flags.nullable || (f.dflt.isSome && !hasDefault env f.ty)

/-- no enumerated-subtypes root is a catch-all (lenient decoding of an unknown subtype is then refused) -/
def noCatchAllTrees (env : Env) : Bool :=
  env.structs.all fun s => !(s.subtypes.isSome && s.catchAll)

/-- no struct field whose validator is a (non-nullable) `bv.StructTree` has an implicit default. Before the repair
of `StructTree.has_default()` this excluded enumerated-subtypes roots without a required field used as a field
type (the decoder filled an absent member with an instance of the root class itself, which is not a value of any
leaf); now `hasDefault` is `false` at every non-nullable `.tree`, so this is `true` of every environment. -/
def noDefaultedTrees (env : Env) : Bool :=
  env.structs.all fun s => s.allAttrs.all fun f => match f.ty with
    | .tree fl _ => fl.nullable || !hasDefault env f.ty
    | _ => true

/-- every union tag the caller can see is a public one (true of the caller without permissions; `validB` is the
validity of the permission-less view) -/
def visibleTagsPublic (env : Env) (perms : List String) : Bool :=
  env.unions.all fun u => (u.levels.flatMap (·.tags)).all fun t => match t.omitted with
    | none => true
    | some c => !perms.contains c

end StoneVerif.Rt
