/-
RT model, part 1: data.  Validator trees (what `generate_validator_constructor` builds), class tables
(what the reflection section of a python_types module assigns), Python values, JSON documents,
errors, and the table of external-call results (`Ext`).

Import-free: linked into the correspondence driver.
-/
namespace StoneVerif.Rt

/-- `bv.BlotRedactor(regex)` / `bv.HashRedactor(regex)` (`regex = None` when the annotation has none). -/
inductive Redactor where
  | blot (regex : Option String)
  | hash (regex : Option String)
deriving DecidableEq, Repr, Inhabited

/-- The wrappers a validator object can carry, in normal form.
`nullable`: the object is `bv.Nullable(inner)`.  `redactOuter`: the `_redact` attribute of that
`Nullable` object.  `redactInner`: the `_redact` attribute of the wrapped object (or of the only
object when not nullable).  `bv.Nullable` refuses to be stacked, so one level is all there is. -/
structure Flags where
  nullable : Bool := false
  redactOuter : Option Redactor := none
  redactInner : Option Redactor := none
deriving DecidableEq, Repr, Inhabited

/-- IEEE-754 binary64 bit pattern; all float arithmetic is an external call (`Ext`). -/
abbrev FBits := Nat

/-- Validator tree. User types are referred to by class reference `"ns.Name"`. -/
inductive PTy where
  | bool (fl : Flags)
  | int (fl : Flags) (cls : String) (lo hi : Int)           -- effective `minimum` / `maximum`
  | float (fl : Flags) (cls : String) (lo hi : Option FBits)
  | str (fl : Flags) (minLen maxLen : Option Nat) (pat : Option String)
  | bytes (fl : Flags)
  | ts (fl : Flags) (fmt : String)
  | void (fl : Flags)
  | list (fl : Flags) (item : PTy) (minItems maxItems : Option Nat)
  | map (fl : Flags) (key val : PTy)
  | struct (fl : Flags) (cls : String)                      -- bv.Struct(cls)
  | tree (fl : Flags) (cls : String)                        -- bv.StructTree(cls)
  | union (fl : Flags) (cls : String)                       -- bv.Union(cls)
deriving Repr, Inhabited

def PTy.flags : PTy → Flags
  | .bool fl | .int fl _ _ _ | .float fl _ _ _ | .str fl _ _ _ | .bytes fl | .ts fl _ | .void fl
  | .list fl _ _ _ | .map fl _ _ | .struct fl _ | .tree fl _ | .union fl _ => fl

def PTy.withFlags (fl : Flags) : PTy → PTy
  | .bool _ => .bool fl | .int _ c lo hi => .int fl c lo hi | .float _ c lo hi => .float fl c lo hi
  | .str _ a b p => .str fl a b p | .bytes _ => .bytes fl | .ts _ f => .ts fl f | .void _ => .void fl
  | .list _ i a b => .list fl i a b | .map _ k v => .map fl k v | .struct _ c => .struct fl c
  | .tree _ c => .tree fl c | .union _ c => .union fl c

/-- Python values as the runtime sees them. `struct` carries the slots that are set (not `NOT_SET`). -/
inductive PyVal where
  | none
  | bool (b : Bool)
  | int (n : Int)
  | flt (bits : FBits)
  | str (s : String)
  | bytes (hex : String)                       -- content as lower-case hex
  | ts (id : Nat) (utcOrNaive : Bool)          -- datetime, opaque id into the harness's table
  | list (xs : List PyVal)
  | tuple (xs : List PyVal)
  | dict (kvs : List (PyVal × PyVal))
  | struct (cls : String) (slots : List (String × PyVal))
  | union (cls : String) (tag : String) (val : PyVal)
  | other (tyName : String)                    -- any other Python object
deriving Repr, Inhabited

inductive JVal where
  | null
  | bool (b : Bool)
  | int (n : Int)
  | flt (bits : FBits)
  | str (s : String)
  | arr (xs : List JVal)
  | obj (kvs : List (String × JVal))
deriving Repr, Inhabited

/-- `verr` = `ValidationError` (message not modelled beyond a hint for diagnostics);
`crash e` = any other exception class `e` escaping. -/
inductive Err where
  | verr (hint : String)
  | crash (exc : String)
deriving Repr, Inhabited

def Err.isVerr : Err → Bool
  | .verr _ => true
  | .crash _ => false

abbrev R := Except Err

def verr {α} (hint : String) : R α := .error (.verr hint)
def crash {α} (exc : String) : R α := .error (.crash exc)

/-- One struct field as the generated class sees it. -/
structure FieldDef where
  name : String
  ty : PTy                      -- `Cls.<name>.validator`
  attrNullable : Bool           -- `bb.Attribute(..., nullable=True)`: the IR type is literally Nullable
  attrUserDefined : Bool        -- `bb.Attribute(..., user_defined=True)`: literally a struct / union
  dflt : Option PyVal           -- `Cls.<name>.default`
  omitted : Option String       -- omitted_caller
deriving Repr, Inhabited

/-- One class of a struct inheritance chain. -/
structure Level where
  cls : String
  fields : List FieldDef        -- own fields, declaration order
deriving Repr, Inhabited

structure StructDef where
  cls : String
  levels : List Level           -- root first, this class last
  /-- every struct below this one in an enumerated-subtypes tree: (tag path, class, enumerates itself) -/
  subtypes : Option (List (List String × String × Bool))
  catchAll : Bool
deriving Repr, Inhabited

structure TagDef where
  name : String
  ty : PTy                      -- `Cls._<name>_validator`
  omitted : Option String
deriving Repr, Inhabited

structure ULevel where
  cls : String
  tags : List TagDef
deriving Repr, Inhabited

structure UnionDef where
  cls : String
  levels : List ULevel          -- root first
  catchAll : Option String      -- `_catch_all` as seen on this class
deriving Repr, Inhabited

structure Env where
  structs : List StructDef
  unions : List UnionDef
deriving Repr, Inhabited

def Env.struct? (env : Env) (c : String) : Option StructDef := env.structs.find? (·.cls == c)
def Env.union? (env : Env) (c : String) : Option UnionDef := env.unions.find? (·.cls == c)

/-- Results of the external calls a run needs, as finite tables computed by the harness with the
reference semantics. A missing entry reads as `miss*`; the driver evaluates every request under two
different `miss*` values and reports a protocol error when the answers differ, so a miss can never
silently decide an outcome. Theorems quantify over every `Ext`. -/
structure Ext where
  fltLt : FBits → FBits → Bool
  fltIsNan : FBits → Bool
  fltIsInf : FBits → Bool
  fltOfInt : Int → Option FBits                      -- `float(n)`; none = OverflowError
  patMatch : String → String → Bool                  -- `re.compile(r"\A(?:p)\Z").match(s)`
  b64enc : String → String                           -- hex ↦ base64 text
  b64dec : String → Option (Option String)           -- text ↦ some (some hex) | some none = binascii.Error | none = ValueError (non-ASCII)
  strftime : String → Nat → String
  strptime : String → String → Option Nat            -- none = ValueError
  md5 : String → String
  reSearch : String → String → Option (List String)  -- `re.search(regex, s)`: groups when it matches
  strOfInt : Int → String
  strOfFlt : FBits → String

end StoneVerif.Rt
