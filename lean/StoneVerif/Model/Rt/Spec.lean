import StoneVerif.Model.Rt.Validate
/-
RT model, part 7: specification-level definitions, written from docs/lang_ref.rst ("Basic types"),
the validator doc-strings and docs/json_serializer.rst — they do NOT follow the serializer's code.

* `validB`  : a Python value is a valid value of a type (deep: the fields that are set are valid,
              required fields are present, union payloads are valid).
* `normalB` : the value is in the form assignment leaves behind (floats in float positions, lists
              not tuples) — the documented normalisations applied.
* `wire`    : json_serializer.rst as a function (caller without special permissions, no redaction).
-/
namespace StoneVerif.Rt

def inRange (E : Ext) (lo hi : Option FBits) (x : FBits) : Bool :=
  !E.fltIsNan x && !E.fltIsInf x &&
  (match lo with | some l => !E.fltLt x l | none => true) &&
  (match hi with | some h => !E.fltLt h x | none => true)

/-- primitives (the wrapper flags are handled by the caller) -/
def validPrim (E : Ext) (t : PTy) (v : PyVal) : Bool :=
  match t, v with
  | .bool _, .bool _ => true
  | .int _ _ lo hi, .int n => lo ≤ n && n ≤ hi
  | .int _ _ lo hi, .bool b => lo ≤ (if b then 1 else 0) && (if b then 1 else 0) ≤ hi      -- bool is an int in Python: accepted
  | .float _ _ lo hi, .flt x => inRange E lo hi x
  | .float _ _ lo hi, .int n => match E.fltOfInt n with
    | some x => inRange E lo hi x
    | none => false
  | .float _ _ lo hi, .bool b => match E.fltOfInt (if b then 1 else 0) with
    | some x => inRange E lo hi x
    | none => false
  | .str _ minLen maxLen pat, .str s =>
    leOpt minLen s.length && geOpt maxLen s.length &&
    (match pat with | some p => p == "" || E.patMatch p s | none => true)
  | .bytes _, .bytes _ => true
  | .ts _ _, .ts _ ok => ok
  | .void _, .none => true
  | _, _ => false

def isPrimTy : PTy → Bool
  | .bool _ | .int .. | .float .. | .str .. | .bytes _ | .ts .. | .void _ => true
  | _ => false

/-- the struct classes a caller without permissions sees on the wire for class `c` -/
def publicFields (env : Env) (c : String) : List FieldDef :=
  match env.struct? c with
  | some s => s.fieldsSpec []
  | none => []

def publicTag? (env : Env) (c : String) (tag : String) : Option TagDef :=
  match env.union? c with
  | some u => findTag tag (u.tagsSpec [])
  | none => none

/-- the leaf entry of an enumerated-subtypes root for the class of a value -/
def leafTag? (env : Env) (root : String) (c : String) : Option String :=
  match env.struct? root with
  | some s => match (s.subtypes.getD []).find? (fun (_, sc, _) => sc == c) with
    | some ([tag], _, false) => some tag
    | _ => none
  | none => none

def isNoneV : PyVal → Bool
  | .none => true
  | _ => false

def isVoidT : PTy → Bool
  | .void _ => true
  | _ => false

mutual
/-- `v` is a valid value of type `t` -/
def validB (E : Ext) (env : Env) (t : PTy) (v : PyVal) : Bool :=
  if t.flags.nullable && isNoneV v then true else
  match t with
  | .list _ item minItems maxItems => match v with
    | .list xs | .tuple xs => leOpt minItems xs.length && geOpt maxItems xs.length && validList E env item xs
    | _ => false
  | .map _ kt vt => match v with
    | .dict kvs => validDict E env kt vt kvs
    | _ => false
  | .struct _ cls => match v with
    | .struct c slots =>
      env.structSubclass c cls &&
      -- required public fields of the instance's class are present, set fields are valid
      (publicFields env c).all (fun f => attrHas f slots) && validSlots E env (publicFields env c) slots
    | _ => false
  | .tree _ cls => match v with
    | .struct c slots =>
      (leafTag? env cls c).isSome && env.structSubclass c cls &&
      (publicFields env c).all (fun f => attrHas f slots) && validSlots E env (publicFields env c) slots
    | _ => false
  | .union _ cls => match v with
    | .union c tag payload =>
      env.unionSubclass cls c &&
      (match publicTag? env cls tag with
       | some td => if isVoidT td.ty then isNoneV payload else validB E env td.ty payload
       | none => false)
    | _ => false
  | _ => validPrim E t v
def validList (E : Ext) (env : Env) (t : PTy) : List PyVal → Bool
  | [] => true
  | x :: xs => validB E env t x && validList E env t xs
def validDict (E : Ext) (env : Env) (kt vt : PTy) : List (PyVal × PyVal) → Bool
  | [] => true
  | (k, x) :: rest => validB E env kt k && validB E env vt x && validDict E env kt vt rest
/-- every set slot that belongs to a visible field holds a valid value (or None where the field's
validator is nullable) -/
def validSlots (E : Ext) (env : Env) (fields : List FieldDef) : List (String × PyVal) → Bool
  | [] => true
  | (k, x) :: rest =>
    (match fields.find? (·.name == k) with
     | some f => validB E env f.ty x
     | none => true) && validSlots E env fields rest
end

mutual
/-- the value is what assignment stores: floats in float positions, lists for lists -/
def normalB (env : Env) (t : PTy) (v : PyVal) : Bool :=
  match t, v with
  | .float .., .int _ => false
  | .float .., .bool _ => false
  | .list _ item _ _, .list xs => normalList env item xs
  | .list .., .tuple _ => false
  | .map _ kt vt, .dict kvs => normalDict env kt vt kvs
  | .struct .., .struct c slots => normalSlots env (publicFields env c) slots
  | .tree .., .struct c slots => normalSlots env (publicFields env c) slots
  | .union _ cls, .union _ tag payload => match publicTag? env cls tag with
    | some td => normalB env td.ty payload
    | none => true
  | _, _ => true
def normalList (env : Env) (t : PTy) : List PyVal → Bool
  | [] => true
  | x :: xs => normalB env t x && normalList env t xs
def normalDict (env : Env) (kt vt : PTy) : List (PyVal × PyVal) → Bool
  | [] => true
  | (k, x) :: rest => normalB env kt k && normalB env vt x && normalDict env kt vt rest
def normalSlots (env : Env) (fields : List FieldDef) : List (String × PyVal) → Bool
  | [] => true
  | (k, x) :: rest =>
    (match fields.find? (·.name == k) with
     | some f => normalB env f.ty x
     | none => true) && normalSlots env fields rest
end

def lookupW (name : String) : List (String × JVal) → Option JVal
  | [] => none
  | (k, v) :: rest => if k == name then some v else lookupW name rest

/-- members in declaration order -/
def pick (fields : List FieldDef) (enc : List (String × JVal)) : List (String × JVal) :=
  fields.filterMap fun f => (lookupW f.name enc).map fun j => (f.name, j)

mutual
/-- json_serializer.rst as a function. On values that are not valid the result is unspecified
(`null`). Struct members appear in declaration order, parents first. -/
def wire (E : Ext) (env : Env) (t : PTy) (v : PyVal) : JVal :=
  match v with
  | .none => .null                                                   -- Void, or an unset nullable
  | .bool b => (match t with | .int .. => .int (if b then 1 else 0) | _ => .bool b)
  | .int n => .int n
  | .flt x => .flt x
  | .str s => .str s
  | .bytes h => .str (E.b64enc h)                                    -- "String: Base64-encoded"
  | .ts id _ => (match t with | .ts _ fmt => .str (E.strftime fmt id) | _ => .null)
  | .list xs | .tuple xs => (match t with | .list _ item _ _ => .arr (wireList E env item xs) | _ => .null)
  | .dict kvs => (match t with | .map _ _ vt => .obj (wireDict E env vt kvs) | _ => .null)
  | .struct c slots => (match t with
    | .struct _ cls =>
      -- "Each specified field has a key"; unset optional fields are omitted
      .obj (pick (publicFields env cls) (wireSlots E env (publicFields env cls) slots))
    | .tree _ cls => (match leafTag? env cls c with
      | some tag => .obj ((".tag", .str tag) :: pick (publicFields env c) (wireSlots E env (publicFields env c) slots))
      | none => .null)
    | _ => .null)
  | .union _ tag payload => (match t with
    | .union _ cls => (match publicTag? env cls tag with
      | some td =>
        (match td.ty, payload with
         | .void _, _ => .obj [(".tag", .str tag)]
         | _, .none => .obj [(".tag", .str tag)]                     -- nullable member that is unset
         | .struct .., _ => (match wire E env td.ty payload with     -- ordinary struct: flattened next to the tag
            | .obj kvs => .obj ((".tag", .str tag) :: kvs)
            | _ => .null)
         | _, _ => .obj [(".tag", .str tag), (tag, wire E env td.ty payload)])
      | none => .null)
    | _ => .null)
  | .other _ => .null
def wireList (E : Ext) (env : Env) (t : PTy) : List PyVal → List JVal
  | [] => []
  | x :: xs => wire E env t x :: wireList E env t xs
def wireDict (E : Ext) (env : Env) (vt : PTy) : List (PyVal × PyVal) → List (String × JVal)
  | [] => []
  | (.str k, x) :: rest => (k, wire E env vt x) :: wireDict E env vt rest
  | _ :: rest => wireDict E env vt rest
/-- the wire form of every slot that is set to something other than None -/
def wireSlots (E : Ext) (env : Env) (fields : List FieldDef) : List (String × PyVal) → List (String × JVal)
  | [] => []
  | (k, x) :: rest =>
    match fields.find? (·.name == k), x with
    | some _, .none => wireSlots E env fields rest
    | some f, _ => (k, wire E env f.ty x) :: wireSlots E env fields rest
    | none, _ => wireSlots E env fields rest
end

end StoneVerif.Rt
