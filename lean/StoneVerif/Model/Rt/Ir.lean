import StoneVerif.Model.Rt.Tables
import StoneVerif.Gen.Tables
/-
RT model, part 6: declared (IR) types and `generate_validator_constructor` (python_types.py):
`validatorOf : IrTy → PTy`, plus the `bb.Attribute(...)` flags of
`_generate_struct_class_properties` and the field / tag validator objects with their `_redact`.
Alias references carry their (acyclic) target inline.
-/
namespace StoneVerif.Rt

inductive IrTy where
  | bool
  | int (cls : String) (min max : Option Int)           -- cls ∈ Int32 | UInt32 | Int64 | UInt64
  | float (cls : String) (min max : Option FBits)       -- cls ∈ Float32 | Float64
  | str (minLen maxLen : Option Nat) (pat : Option String)
  | bytes
  | ts (fmt : String)
  | void
  | list (t : IrTy) (minItems maxItems : Option Nat)
  | map (k v : IrTy)
  | nullable (t : IrTy)
  | alias (name : String) (redactor : Option Redactor) (t : IrTy)
  | struct (cls : String) (hasSubtypes : Bool)
  | union (cls : String)
deriving Repr, Inhabited

/-- `_redact` set on the outermost validator object -/
def setRedact (r : Option Redactor) (t : PTy) : PTy :=
  match r with
  | none => t
  | some _ =>
    let fl := t.flags
    if fl.nullable then t.withFlags { fl with redactOuter := r } else t.withFlags { fl with redactInner := r }

def intDefaults (cls : String) : Option (Int × Int) :=
  (Tables.rtIntBounds.find? (·.1 == cls)).map (·.2)

def floatDefaults (cls : String) : Option (Option FBits × Option FBits) :=
  (Tables.rtFloatBounds.find? (·.1 == cls)).map (·.2)

/-- `generate_validator_constructor(ns, data_type)` evaluated at import time.
`none` = the constructor raises (stacked Nullable, unknown numeric class). -/
def validatorOf : IrTy → Option PTy
  | .bool => some (.bool {})
  | .int cls min max => (intDefaults cls).map fun (dlo, dhi) => .int {} cls (min.getD dlo) (max.getD dhi)
  | .float cls min max => (floatDefaults cls).map fun (dlo, dhi) =>
      .float {} cls (match min with | some m => some m | none => dlo) (match max with | some m => some m | none => dhi)
  | .str a b p => some (.str {} a b p)
  | .bytes => some (.bytes {})
  | .ts f => some (.ts {} f)
  | .void => some (.void {})
  | .list t a b => (validatorOf t).map fun it => .list {} it a b
  | .map k v => match validatorOf k, validatorOf v with
    | some kt, some vt => some (.map {} kt vt)
    | _, _ => none
  | .nullable t => match validatorOf t with
    | some v =>
      -- bv.Nullable asserts: not stacked, not Void
      if v.flags.nullable then none
      else match v with
        | .void _ => none
        | _ => some (v.withFlags { v.flags with nullable := true })
    | none => none
  | .alias _ r t => (validatorOf t).map (setRedact r)
  | .struct cls sub => some (if sub then .tree {} cls else .struct {} cls)
  | .union cls => some (.union {} cls)

/-- `is_nullable_type(field.data_type)` — the literal wrapper only -/
def IrTy.isNullableLit : IrTy → Bool
  | .nullable _ => true
  | _ => false

/-- `is_user_defined_type(field_dt)` after removing a literal Nullable -/
def IrTy.isUserDefinedLit : IrTy → Bool
  | .nullable (.struct ..) | .nullable (.union _) | .struct .. | .union _ => true
  | _ => false

/-- Specification: the declared type with aliases and wrappers removed says "nullable" -/
def IrTy.nullableDeep : IrTy → Bool
  | .nullable _ => true
  | .alias _ _ t => t.nullableDeep
  | _ => false

end StoneVerif.Rt
