import StoneVerif.Model.Rt.WF
import StoneVerif.Model.Rt.Decode
/-
RT model, extra decidable definitions used by the C04 (round trip) theorems.  Import-free beyond the
model, so the driver can evaluate them on every environment / value the harness sends.

* `envRT`          : extra facts about the field descriptors of an environment that the round trip relies on
                     (how python_types builds `bb.Attribute(...)` and the validator from one IR type, which
                     defaults the front end allows, and that a subclass inherits its parents' descriptors).  NOT derivable inside the model: to be checked on
                     real data.  The third clause excludes a genuine defect (see `Props/C04.lean`,
                     `nullable_alias_default_witness`).
* `valWF`          : shape conditions on a *value* at a type: an instance cannot hold two values for one
                     attribute, a dict cannot hold one key twice, the instance held at a `Struct` position is
                     of exactly the declared class (a subclass instance is serialised with the declared class's
                     fields only -- documented in `Struct.validate_type_only`), no union value carries the
                     catch-all tag (it cannot be sent: the decoder refuses it), and every timestamp is
                     representable in the format of its position.
* `ambiguousEmpty` : the documented exception of json_serializer.rst: a union member of nullable struct type
                     carrying an instance none of whose visible fields is set to a non-None value.
* `canon`          : the value the decoder builds from the wire form of a value (specification level: fields
                     in declaration order, unset fields that the validator can default filled in, numbers in
                     the type the JSON carries them).
-/
namespace StoneVerif.Rt.RoundTrip
open StoneVerif.Rt

/-- the validator is one of `bv.Struct`, `bv.StructTree`, `bv.Union` (possibly wrapped in `bv.Nullable`) -/
def userTy : PTy → Bool
  | .struct .. | .tree .. | .union .. => true
  | _ => false

/-- * `nullable=True` only when the validator object is a `bv.Nullable`;
    * `user_defined=True` only on validators that have `validate_type_only`;
    * a field whose validator supplies an implicit default (`has_default()`: nullable, or a struct all of whose
      fields are optional) has no explicit default other than `None` on a nullable validator. -/
def fieldRT (env : Env) (f : FieldDef) : Bool :=
  (!f.attrNullable || f.ty.flags.nullable) &&
  (!f.attrUserDefined || userTy f.ty) &&
  (match f.dflt with
   | none => true
   | some d => !hasDefault env f.ty || (f.ty.flags.nullable && isNoneV d))

/-- name, "may be left unset", omitted-caller of every field -/
def optSig (fs : List FieldDef) : List (String × Bool × Option String) :=
  fs.map fun f => (f.name, f.attrNullable || f.dflt.isSome, f.omitted)

/-- a class inherits its ancestors' attribute descriptors: the fields of every registered ancestor are a
prefix of the class's own, with the same optionality (`envWF` only compares the names). -/
def chainRT (env : Env) (s : StructDef) : Bool :=
  s.levels.all fun l => match env.struct? l.cls with
    | some a => isPrefixOf (optSig a.allAttrs) (optSig s.allAttrs)
    | none => true

def envRT (env : Env) : Bool :=
  env.structs.all fun s => s.allAttrs.all (fieldRT env) && chainRT env s

/-- every declared field default equals itself under Python `==` (the one law of `ExtLaws` that mentions
the environment; decidable, so the harness can evaluate it with the table-fed float comparison) -/
def dfltsReflB (E : Ext) (env : Env) : Bool :=
  env.structs.all fun s => s.allAttrs.all fun f => match f.dflt with
    | some d => shallowEq E env d d
    | none => true

def dictKeys (kvs : List (PyVal × PyVal)) : List String :=
  kvs.filterMap fun kx => match kx.1 with
    | .str s => some s
    | _ => none

mutual
def valWF (E : Ext) (env : Env) (t : PTy) (v : PyVal) : Bool :=
  match t, v with
  | .ts _ fmt, .ts id _ => E.strptime fmt (E.strftime fmt id) == some id
  | .list _ item _ _, .list xs => valWFList E env item xs
  | .map _ _ vt, .dict kvs => nodupS (dictKeys kvs) && valWFDict E env vt kvs
  | .struct _ cls, .struct c slots =>
    c == cls && nodupS (slots.map (·.1)) && valWFSlots E env (publicFields env cls) slots
  | .tree _ _, .struct c slots =>
    nodupS (slots.map (·.1)) && valWFSlots E env (publicFields env c) slots
  | .union _ cls, .union _ tag payload =>
    (match env.union? cls with
     | some u => !(u.catchAll == some tag)
     | none => true) &&
    (match publicTag? env cls tag with
     | some td => valWF E env td.ty payload
     | none => true)
  | _, _ => true
def valWFList (E : Ext) (env : Env) (t : PTy) : List PyVal → Bool
  | [] => true
  | x :: xs => valWF E env t x && valWFList E env t xs
def valWFDict (E : Ext) (env : Env) (vt : PTy) : List (PyVal × PyVal) → Bool
  | [] => true
  | (_, x) :: rest => valWF E env vt x && valWFDict E env vt rest
def valWFSlots (E : Ext) (env : Env) (fields : List FieldDef) : List (String × PyVal) → Bool
  | [] => true
  | (k, x) :: rest =>
    (match fields.find? (·.name == k) with
     | some f => valWF E env f.ty x
     | none => true) && valWFSlots E env fields rest
end

/-- no visible field is set to a non-None value -/
def nothingSet (fields : List FieldDef) (slots : List (String × PyVal)) : Bool :=
  slots.all fun kx => (fields.find? (·.name == kx.1)).isNone || isNoneV kx.2

mutual
/-- somewhere in `v` a union member of nullable ordinary-struct type carries an instance with no visible
field set: json_serializer.rst serialises it as the bare tag, which deserialises as `null`. -/
def ambiguousEmpty (env : Env) (t : PTy) (v : PyVal) : Bool :=
  match t, v with
  | .list _ item _ _, .list xs => ambList env item xs
  | .map _ _ vt, .dict kvs => ambDict env vt kvs
  | .struct _ cls, .struct _ slots => ambSlots env (publicFields env cls) slots
  | .tree _ _, .struct c slots => ambSlots env (publicFields env c) slots
  | .union _ cls, .union _ tag payload =>
    (match publicTag? env cls tag with
     | some td =>
       (match td.ty, payload with
        | .struct fl sc, .struct _ slots => fl.nullable && nothingSet (publicFields env sc) slots
        | _, _ => false) || ambiguousEmpty env td.ty payload
     | none => false)
  | _, _ => false
def ambList (env : Env) (t : PTy) : List PyVal → Bool
  | [] => false
  | x :: xs => ambiguousEmpty env t x || ambList env t xs
def ambDict (env : Env) (vt : PTy) : List (PyVal × PyVal) → Bool
  | [] => false
  | (_, x) :: rest => ambiguousEmpty env vt x || ambDict env vt rest
def ambSlots (env : Env) (fields : List FieldDef) : List (String × PyVal) → Bool
  | [] => false
  | (k, x) :: rest =>
    (match fields.find? (·.name == k) with
     | some f => ambiguousEmpty env f.ty x
     | none => false) || ambSlots env fields rest
end

/-- the slots `decode_struct_fields` leaves behind, given the decoded members `rs`: table order, and an
absent member is assigned `get_default()` when the validator `has_default()` (which a nullable attribute
turns into "unset" again). -/
def fillSlots (env : Env) (fields : List FieldDef) (rs : List (String × PyVal)) : List (String × PyVal) :=
  fields.filterMap fun f =>
    match lookupSlot f.name rs with
    | some y => some (f.name, y)
    | none => if hasDefault env f.ty && !f.attrNullable then some (f.name, getDefault f.ty) else none

mutual
/-- what decoding the wire form of `v` at type `t` returns (unspecified -- `None` -- on invalid values) -/
def canon (env : Env) (t : PTy) (v : PyVal) : PyVal :=
  match v with
  | .none => .none
  | .bool b => (match t with | .int .. => .int (if b then 1 else 0) | _ => .bool b)
  | .int n => .int n
  | .flt x => .flt x
  | .str s => .str s
  | .bytes h => .bytes h
  | .ts id _ => .ts id true
  | .list xs | .tuple xs => (match t with | .list _ item _ _ => .list (canonList env item xs) | _ => .none)
  | .dict kvs => (match t with | .map _ _ vt => .dict (canonDict env vt kvs) | _ => .none)
  | .struct c slots => (match t with
    | .struct _ cls => .struct cls (fillSlots env (publicFields env cls) (canonSlots env (publicFields env cls) slots))
    | .tree _ _ => .struct c (fillSlots env (publicFields env c) (canonSlots env (publicFields env c) slots))
    | _ => .none)
  | .union _ tag payload => (match t with
    | .union _ cls => (match publicTag? env cls tag with
      | some td => .union cls tag (canon env td.ty payload)
      | none => .none)
    | _ => .none)
  | .other _ => .none
def canonList (env : Env) (t : PTy) : List PyVal → List PyVal
  | [] => []
  | x :: xs => canon env t x :: canonList env t xs
def canonDict (env : Env) (vt : PTy) : List (PyVal × PyVal) → List (PyVal × PyVal)
  | [] => []
  | (.str k, x) :: rest => (.str k, canon env vt x) :: canonDict env vt rest
  | _ :: rest => canonDict env vt rest
/-- the decoded form of every slot that is set to something other than None -/
def canonSlots (env : Env) (fields : List FieldDef) : List (String × PyVal) → List (String × PyVal)
  | [] => []
  | (k, x) :: rest =>
    match fields.find? (·.name == k), x with
    | some _, .none => canonSlots env fields rest
    | some f, _ => (k, canon env f.ty x) :: canonSlots env fields rest
    | none, _ => canonSlots env fields rest
end

end StoneVerif.Rt.RoundTrip
