import StoneVerif.Model.Rt.Spec
/-
RT model, part 9 (C08): the *shallow* acceptance predicate of a Stone type, written from the property
text ("integer width and min/max, finite float within range, string length and whole-string pattern,
bytes, boolean, timestamp, list item count and item types, map key and value types, nullability, and
for user types the right class"), and the documented normalisation `normOf`.

Shallow: a struct or union instance is accepted by its class (and, for a full validation of a struct,
by its required fields being readable); what is stored *inside* the instance was checked when it was
stored there. (`validB` in Spec.lean is the deep notion.)

Imports only the model: the driver can evaluate everything here.
-/
namespace StoneVerif.Rt

/-- a union position, from the property text: an instance of the class or of one of its ancestors
("parent unions allowed where a child union is expected") -/
def unionSat (env : Env) (cls : String) : PyVal → Bool
  | .union c _ _ => env.unionSubclass cls c
  | _ => false

/-- a struct position: an instance of the class or of a subclass; a full validation moreover wants
every required public field of the *declared* class readable (set, nullable or defaulted) -/
def structSat (env : Env) (cls : String) (v : PyVal) : Bool :=
  match v with
  | .struct c slots =>
    env.structSubclass c cls &&
    (match env.struct? cls with
     | some s => ((s.allFieldsAttr none).getD []).all fun f => attrHas f slots
     | none => false)
  | _ => false

mutual
/-- the value satisfies the declared type (shallow on user types) -/
def satB (E : Ext) (env : Env) (t : PTy) (v : PyVal) : Bool :=
  if t.flags.nullable && isNoneV v then true else
  match t with
  | .list _ item minItems maxItems => match v with
    | .list xs | .tuple xs => leOpt minItems xs.length && geOpt maxItems xs.length && satList E env item xs
    | _ => false
  | .map _ kt vt => match v with
    | .dict kvs => satDict E env kt vt kvs
    | _ => false
  | .struct _ cls | .tree _ cls => structSat env cls v
  | .union _ cls => unionSat env cls v
  | _ => validPrim E t v
def satList (E : Ext) (env : Env) (t : PTy) : List PyVal → Bool
  | [] => true
  | x :: xs => satB E env t x && satList E env t xs
def satDict (E : Ext) (env : Env) (kt vt : PTy) : List (PyVal × PyVal) → Bool
  | [] => true
  | (k, x) :: rest => satB E env kt k && satB E env vt x && satDict E env kt vt rest
end

/-- struct, struct-tree or union validator (whatever the wrappers) -/
def isUserTyC08 : PTy → Bool
  | .struct .. | .tree .. | .union .. => true
  | _ => false

/-- the class relation alone ("subclasses allowed for structs, parent unions allowed where a child
union is expected") -/
def classSat (env : Env) (t : PTy) (v : PyVal) : Bool :=
  match t with
  | .struct _ cls | .tree _ cls => (match v with
    | .struct c _ => env.structSubclass c cls
    | _ => false)
  | .union _ cls => unionSat env cls v
  | _ => false

/-- type-only acceptance (assignment of a user-defined field, construction of a union member of a
user type): None where nullable, else the class relation -/
def typeOnlyB (env : Env) (t : PTy) (v : PyVal) : Bool :=
  (t.flags.nullable && isNoneV v) || classSat env t v


mutual
/-- the documented normalisations: an integer (or bool) in a float position is stored as the float,
a tuple in a list position is stored as a list; recursively through lists and maps. -/
def normOf (E : Ext) (t : PTy) (v : PyVal) : PyVal :=
  match t, v with
  | .float .., .int n => (match E.fltOfInt n with | some x => .flt x | none => v)
  | .float .., .bool b => (match E.fltOfInt (if b then 1 else 0) with | some x => .flt x | none => v)
  | .list _ item _ _, .list xs => .list (normList E item xs)
  | .list _ item _ _, .tuple xs => .list (normList E item xs)
  | .map _ kt vt, .dict kvs => .dict (normDict E kt vt kvs)
  | _, _ => v
def normList (E : Ext) (t : PTy) : List PyVal → List PyVal
  | [] => []
  | x :: xs => normOf E t x :: normList E t xs
def normDict (E : Ext) (kt vt : PTy) : List (PyVal × PyVal) → List (PyVal × PyVal)
  | [] => []
  | (k, x) :: rest => (normOf E kt k, normOf E vt x) :: normDict E kt vt rest
end

/-- what a union constructor demands of the payload for a member whose validator is `t`
(`Union.__init__`): a Void member takes None; a member of a (non-nullable) user type is checked by
class only; anything else is validated. -/
def memberSat (E : Ext) (env : Env) (t : PTy) (x : PyVal) : Bool :=
  if !t.flags.nullable && isVoidT t then isNoneV x
  else if !t.flags.nullable && isUserTyC08 t then typeOnlyB env t x
  else satB E env t x

/-- what assignment to field `f` demands of the value (`Attribute.__set__`) -/
def fieldSat (E : Ext) (env : Env) (f : FieldDef) (x : PyVal) : Bool :=
  (f.attrNullable && isNoneV x) ||
  (if f.attrUserDefined then typeOnlyB env f.ty x else satB E env f.ty x)

/-- the types whose top-level JSON decoding is "take the parsed JSON value and validate it"
(Bytes and Timestamp are converted from text first, Void ignores the value) -/
def isJsonPrimTy : PTy → Bool
  | .bool _ | .int .. | .float .. | .str .. => true
  | _ => false

/-- the generator sets `user_defined=True` only on attributes whose validator is a struct / union
validator (`validatorOf_userDefined` proves it of the IR-level generator model; the harness should
evaluate this on every environment it sends, like `envWF`) -/
def attrFlagsOk (env : Env) : Bool :=
  env.structs.all fun s => s.allAttrs.all fun f => !f.attrUserDefined || isUserTyC08 f.ty

/-- what reading field `f` gives after `x` was successfully assigned to it: the value itself for a
field of a user type (stored by reference), its normalisation otherwise. (Assigning None to a
nullable field unsets it; reading then gives None, which is `x` again.) -/
def storedOf (E : Ext) (f : FieldDef) (x : PyVal) : PyVal :=
  if f.attrUserDefined then x else normOf E f.ty x

end StoneVerif.Rt
