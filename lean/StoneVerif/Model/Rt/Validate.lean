import StoneVerif.Model.Rt.Tables
/-
RT model, part 3: `stone_validators.*.validate`, `validate_type_only`, `validate_fields_only*`,
`has_default` / `get_default`, and `stone_base.Attribute.__get__/__set__`, `Struct.__init__`,
`Union.__init__`, `Struct.__eq__`, `Union.__eq__`.
-/
namespace StoneVerif.Rt

def lookupSlot (name : String) : List (String × PyVal) → Option PyVal
  | [] => none
  | (k, v) :: rest => if k == name then some v else lookupSlot name rest

def setSlot (name : String) (v : PyVal) : List (String × PyVal) → List (String × PyVal)
  | [] => [(name, v)]
  | (k, w) :: rest => if k == name then (k, v) :: rest else (k, w) :: setSlot name v rest

def delSlot (name : String) : List (String × PyVal) → List (String × PyVal)
  | [] => []
  | (k, w) :: rest => if k == name then rest else (k, w) :: delSlot name rest

/-- `Attribute.__get__`: stored value, else None when nullable, else the default, else AttributeError. -/
def attrGet (f : FieldDef) (slots : List (String × PyVal)) : Option PyVal :=
  match lookupSlot f.name slots with
  | some v => some v
  | none => if f.attrNullable then some .none else f.dflt

/-- `hasattr(val, name)` for a field attribute. -/
def attrHas (f : FieldDef) (slots : List (String × PyVal)) : Bool := (attrGet f slots).isSome

/-- `Struct.validate_type_only`: `isinstance(val, definition)`. -/
def structTypeOk (env : Env) (cls : String) : PyVal → Bool
  | .struct c _ => env.structSubclass c cls
  | _ => false

/-- `Union.validate_type_only`: `issubclass(definition, type(val))`. -/
def unionTypeOk (env : Env) (cls : String) : PyVal → Bool
  | .union c _ _ => env.unionSubclass cls c
  | _ => false

/-- `Struct.validate_fields_only`: every name of `_all_field_names_` answers `hasattr`. The names
are those of the *validator's* class; the attributes are looked up on the value. -/
def structFieldsOk (env : Env) (cls : String) (X : Option String) : PyVal → Bool
  | .struct _ slots =>
    match env.struct? cls with
    | some s => ((s.allFieldsAttr X).getD []).all fun f => attrHas f slots
    | none => false
  | _ => false

def intOf : PyVal → Option Int
  | .int n => some n
  | .bool b => some (if b then 1 else 0)
  | _ => none

/-- `float(val)` for the values `numbers.Real` admits. Outer none: not a real; inner none: OverflowError. -/
def fltOf (E : Ext) : PyVal → Option (Option FBits)
  | .flt b => some (some b)
  | .int n => some (E.fltOfInt n)
  | .bool b => some (E.fltOfInt (if b then 1 else 0))
  | _ => none

def leOpt (lo : Option Nat) (n : Nat) : Bool := match lo with | some l => l ≤ n | none => true
def geOpt (hi : Option Nat) (n : Nat) : Bool := match hi with | some h => n ≤ h | none => true

mutual
/-- `validator.validate(val)`: the normalised value or an error. -/
def validate (E : Ext) (env : Env) (t : PTy) (v : PyVal) : R PyVal :=
  if t.flags.nullable && (match v with | .none => true | _ => false) then .ok .none else
  match t with
  | .bool _ => match v with
    | .bool b => .ok (.bool b)
    | _ => verr "not a valid boolean"
  | .int _ _ lo hi => match intOf v with
    | some n => if lo ≤ n ∧ n ≤ hi then .ok v else verr "not within range"
    | none => verr "expected integer"
  | .float _ _ lo hi => match fltOf E v with
    | none => verr "expected real number"
    | some none => verr "too large for float"
    | some (some x) =>
      if E.fltIsNan x || E.fltIsInf x then verr "nan/inf not supported"
      else if (match lo with | some l => E.fltLt x l | none => false) then verr "not greater than minimum"
      else if (match hi with | some h => E.fltLt h x | none => false) then verr "not less than maximum"
      else .ok (.flt x)
  | .str _ minLen maxLen pat => match v with
    | .str s =>
      if !geOpt maxLen s.length then verr "too long"
      else if !leOpt minLen s.length then verr "too short"
      else match pat with
        | some p => if p ≠ "" && !E.patMatch p s then verr "did not match pattern" else .ok v
        | none => .ok v
    | _ => verr "expected string"
  | .bytes _ => match v with
    | .bytes _ => .ok v
    | _ => verr "expected bytes"
  | .ts _ _ => match v with
    | .ts _ ok => if ok then .ok v else verr "timestamp timezone"
    | _ => verr "expected timestamp"
  | .void _ => match v with
    | .none => .ok .none
    | _ => verr "expected NoneType"
  | .list _ item minItems maxItems => match v with
    | .list xs | .tuple xs =>
      if !geOpt maxItems xs.length then verr "too many items"
      else if !leOpt minItems xs.length then verr "too few items"
      else (validateList E env item xs).map .list
    | _ => verr "not a valid list"
  | .map _ kt vt => match v with
    | .dict kvs => (validateDict E env kt vt kvs).map .dict
    | _ => verr "not a valid dict"
  | .struct _ cls | .tree _ cls =>
    if !structTypeOk env cls v then verr "expected struct type"
    else if !structFieldsOk env cls none v then verr "missing required field"
    else .ok v
  | .union _ cls => if unionTypeOk env cls v then .ok v else verr "expected union type"
def validateList (E : Ext) (env : Env) (t : PTy) : List PyVal → R (List PyVal)
  | [] => .ok []
  | x :: xs => do
    let y ← validate E env t x
    let ys ← validateList E env t xs
    pure (y :: ys)
def validateDict (E : Ext) (env : Env) (kt vt : PTy) : List (PyVal × PyVal) → R (List (PyVal × PyVal))
  | [] => .ok []
  | (k, x) :: rest => do
    let k' ← validate E env kt k
    let x' ← validate E env vt x
    let rest' ← validateDict E env kt vt rest
    pure ((k', x') :: rest')
end

/-- `validate_type_only` (only called on validators of user types, possibly nullable). -/
def validateTypeOnly (env : Env) (t : PTy) (v : PyVal) : R Unit :=
  if t.flags.nullable && (match v with | .none => true | _ => false) then .ok () else
  match t with
  | .struct _ cls | .tree _ cls => if structTypeOk env cls v then .ok () else verr "expected struct type"
  | .union _ cls => if unionTypeOk env cls v then .ok () else verr "expected union type"
  | _ => crash "AttributeError"            -- primitives and containers have no validate_type_only

/-- `Struct.validate_with_permissions` -/
def validateWithPermissions (E : Ext) (env : Env) (t : PTy) (perms : List String) (v : PyVal) : R Unit :=
  match t with
  | .struct _ cls | .tree _ cls => do
    let _ ← validate E env (t.withFlags {}) v
    if perms.all fun p => structFieldsOk env cls (some p) v || (match env.struct? cls with
        | some s => (s.allFieldsAttr (some p)).isNone
        | none => false)
    then .ok () else verr "missing required field"
  | _ => crash "AttributeError"

/-- `validator.has_default()` -/
def hasDefault (env : Env) (t : PTy) : Bool :=
  t.flags.nullable || match t with
  | .void _ => true
  | .struct _ cls => match env.struct? cls with
    | some s => (s.levels.flatMap (·.fields)).all fun f => f.attrNullable || f.dflt.isSome
    | none => false
  | _ => false          -- StructTree.has_default is False: the root of a tree is not a value by itself

/-- `validator.get_default()` (only called when `has_default()`). -/
def getDefault (t : PTy) : PyVal :=
  if t.flags.nullable then .none else
  match t with
  | .struct _ cls | .tree _ cls => .struct cls []
  | _ => .none

/-- `Attribute.__set__` on an instance with the given slots. -/
def attrSet (E : Ext) (env : Env) (f : FieldDef) (slots : List (String × PyVal)) (x : PyVal) :
    R (List (String × PyVal)) :=
  if f.attrNullable && (match x with | .none => true | _ => false) then .ok (delSlot f.name slots)
  else if f.attrUserDefined then do
    validateTypeOnly env f.ty x
    pure (setSlot f.name x slots)
  else do
    let x' ← validate E env f.ty x
    pure (setSlot f.name x' slots)

/-- `setattr(obj, name, x)` on a generated struct instance. -/
def setField (E : Ext) (env : Env) (o : PyVal) (name : String) (x : PyVal) : R PyVal :=
  match o with
  | .struct cls slots => match (env.struct? cls).bind (·.field? name) with
    | some f => (attrSet E env f slots x).map (.struct cls)
    | none => crash "AttributeError"        -- __slots__: no such attribute
  | _ => crash "AttributeError"

/-- `getattr(obj, name)`; AttributeError for an unset required field. -/
def getField (env : Env) (o : PyVal) (name : String) : R PyVal :=
  match o with
  | .struct cls slots => match (env.struct? cls).bind (·.field? name) with
    | some f => match attrGet f slots with
      | some v => .ok v
      | none => crash "AttributeError"
    | none => crash "AttributeError"
  | _ => crash "AttributeError"

/-- `del obj.name` -/
def delField (env : Env) (o : PyVal) (name : String) : R PyVal :=
  match o with
  | .struct cls slots => match (env.struct? cls).bind (·.field? name) with
    | some f => .ok (.struct cls (delSlot f.name slots))
    | none => crash "AttributeError"
  | _ => crash "AttributeError"

/-- `Cls(**kwargs)`: arguments that are not None are assigned, parents' fields first. -/
def mkStruct (E : Ext) (env : Env) (cls : String) (args : List (String × PyVal)) : R PyVal :=
  match env.struct? cls with
  | none => crash "NameError"
  | some s =>
    if args.any fun (k, _) => (s.field? k).isNone then crash "TypeError" else
    (s.allAttrs.foldlM (fun (slots : List (String × PyVal)) (f : FieldDef) =>
      match lookupSlot f.name args with
      | some .none | none => (pure slots : R _)
      | some x => attrSet E env f slots x) []).map (.struct cls)

/-- `Cls(tag, value)` (`Union.__init__`). -/
def mkUnion (E : Ext) (env : Env) (cls : String) (tag : String) (x : PyVal) : R PyVal :=
  match env.union? cls with
  | none => crash "NameError"
  | some u => match u.ctorValidator tag with
    | none => verr "invalid tag"
    | some t =>
      if !t.flags.nullable && (match t with | .void _ => true | _ => false) then
        match x with
        | .none => .ok (.union cls tag .none)
        | _ => verr "void member must have None value"
      else if !t.flags.nullable && (match t with | .struct .. | .tree .. | .union .. => true | _ => false) then do
        validateTypeOnly env t x
        pure (.union cls tag x)
      else do
        let _ ← validate E env t x
        pure (.union cls tag x)

def numEq (E : Ext) : PyVal → PyVal → Option Bool
  | a, b =>
    match intOf a, intOf b with
    | some m, some n => some (m == n)
    | _, _ =>
      match a, b with
      | .flt x, .flt y => some (!E.fltLt x y && !E.fltLt y x && !E.fltIsNan x && !E.fltIsNan y)
      | .flt x, _ => match intOf b with
        | some n => match E.fltOfInt n with
          | some y => some (!E.fltLt x y && !E.fltLt y x && !E.fltIsNan x)
          | none => some false
        | none => none
      | _, .flt y => match intOf a with
        | some n => match E.fltOfInt n with
          | some x => some (!E.fltLt x y && !E.fltLt y x && !E.fltIsNan y)
          | none => some false
        | none => none
      | _, _ => none

/-- Python `==` where the left operand is shallow (None, a number, a string, bytes, a timestamp,
or a union instance with a None payload): what a field default or a dict key can be. -/
def shallowEq (E : Ext) (env : Env) : PyVal → PyVal → Bool
  | .none, .none => true
  | .str a, .str b => a == b
  | .bytes a, .bytes b => a == b
  | .ts a _, .ts b _ => a == b
  | .union c1 t1 .none, .union c2 t2 .none => (env.unionSubclass c1 c2 || env.unionSubclass c2 c1) && t1 == t2
  | a, b => match numEq E a b with
    | some r => r
    | none => false

def dictLookup (E : Ext) (env : Env) (k : PyVal) : List (PyVal × PyVal) → Option PyVal
  | [] => none
  | (k', y) :: ys => if shallowEq E env k k' then some y else dictLookup E env k ys

/-- what `getattr(other, name)` yields, if anything -/
def effective (fs : List FieldDef) (slots : List (String × PyVal)) (name : String) : Option PyVal :=
  (fs.find? (·.name == name)).bind fun g => attrGet g slots

mutual
/-- Python `==` on runtime values (`Struct.__eq__`, `Union.__eq__`, numbers across bool/int/float,
lists, dicts as unordered maps with unique shallow keys). Structural in the left operand. -/
def pyEq (E : Ext) (env : Env) : PyVal → PyVal → Bool
  | .none, .none => true
  | .str a, .str b => a == b
  | .bytes a, .bytes b => a == b
  | .ts a _, .ts b _ => a == b
  | .list xs, .list ys => pyEqList E env xs ys
  | .tuple xs, .tuple ys => pyEqList E env xs ys
  | .dict xs, .dict ys => xs.length == ys.length && pyEqDict E env xs ys
  | .struct c1 s1, .struct c2 s2 =>
    match env.struct? c1, env.struct? c2 with
    | some d1, some d2 =>
      let fs1 := (d1.allFieldsAttr none).getD []
      let fs2 := (d2.allFieldsAttr none).getD []
      let n1 := fs1.map (·.name)
      let n2 := fs2.map (·.name)
      (n1.all n2.contains && n2.all n1.contains) &&
      (d1.ancestors.contains c2 || d2.ancestors.contains c1) &&
      -- fields set on the left: compare the stored value with what the right reads
      pyEqSlots E env n1 fs2 s2 s1 &&
      -- fields unset on the left read None or their (shallow) default
      (fs1.all fun f => (lookupSlot f.name s1).isSome ||
        match attrGet f [], effective fs2 s2 f.name with
        | some a, some b => shallowEq E env a b
        | _, _ => false)
    | _, _ => false
  | .union c1 t1 v1, .union c2 t2 v2 =>
    (env.unionSubclass c1 c2 || env.unionSubclass c2 c1) && t1 == t2 && pyEq E env v1 v2
  | .other _, _ => false
  | a, b => match numEq E a b with
    | some r => r
    | none => false
def pyEqList (E : Ext) (env : Env) : List PyVal → List PyVal → Bool
  | [], [] => true
  | x :: xs, y :: ys => pyEq E env x y && pyEqList E env xs ys
  | _, _ => false
def pyEqDict (E : Ext) (env : Env) : List (PyVal × PyVal) → List (PyVal × PyVal) → Bool
  | [], _ => true
  | (k, x) :: rest, ys => (match dictLookup E env k ys with
      | some y => pyEq E env x y
      | none => false) && pyEqDict E env rest ys
def pyEqSlots (E : Ext) (env : Env) (names : List String) (fs2 : List FieldDef) (s2 : List (String × PyVal)) :
    List (String × PyVal) → Bool
  | [] => true
  | (k, x) :: rest =>
    (!names.contains k || match effective fs2 s2 k with
      | some y => pyEq E env x y
      | none => false) && pyEqSlots E env names fs2 s2 rest
end

end StoneVerif.Rt
