import StoneVerif.Model.Rt.WF
/-
RT model, part 9: a well-formedness fact beyond `envWF` that C05 needs.

`envWF` ties the chain of a struct to the registered chain of each ancestor by class and field *names*
only (`Level.sameAs`). The serializer reads the field table of the *validator's* class but the attributes of
the *value's* class (a subclass instance is accepted wherever its ancestor is expected), so it matters that
the two tables describe the inherited fields identically: same name, same validator, same
nullable / has-default / omitted-caller attributes. In the generated Python this holds because a subclass
inherits the very `bb.Attribute` objects of its ancestors.

`envWFX` must be evaluated by the driver on every environment, next to `envWF`.
-/
namespace StoneVerif.Rt

deriving instance DecidableEq for PTy

/-- the parts of a field definition that validation and the wire form depend on -/
def FieldDef.sameWire (a b : FieldDef) : Bool :=
  a.name == b.name && decide (a.ty = b.ty) && a.attrNullable == b.attrNullable &&
  a.dflt.isSome == b.dflt.isSome && a.omitted == b.omitted

/-- the first list is, field by field, a prefix of the second -/
def attrsPrefix : List FieldDef → List FieldDef → Bool
  | [], _ => true
  | _ :: _, [] => false
  | a :: as, b :: bs => a.sameWire b && attrsPrefix as bs

/-- every class of the chain is registered, and its registered fields are the first fields of this class -/
def StructDef.chainExact (env : Env) (s : StructDef) : Bool :=
  s.levels.all fun l => match env.struct? l.cls with
    | some a => attrsPrefix a.allAttrs s.allAttrs
    | none => false

def envWFX (env : Env) : Bool := env.structs.all (·.chainExact env)

end StoneVerif.Rt
