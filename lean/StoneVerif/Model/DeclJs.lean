/-
DECL model of the JavaScript / TypeScript generators (C16): *what they declare and what each
declaration refers to*, not their text.

Code-following part (same branches, same tables, explicit error where Python raises):
* `splitWords`, `fmtCamel`, `fmtPascal`            stone/backends/helpers.py
* `jsFmtType`, `jsTypeName`, `jsFmtFunc`, `jsFmtUrl`, `fmtObj`   stone/backends/js_helpers.py
* `tsdFmt` (= `fmt_type` / `fmt_type_name`), `tsdName`, `tsdRefName` (`fmt_polymorphic_type_reference`)
                                                   stone/backends/tsd_helpers.py
* `jsTypes`  (`_generate_struct`, `_generate_union`)            stone/backends/js_types.py
* `jsClient` (`_generate_route`)                                  stone/backends/js_client.py
* `tsdTypes` (`_generate_struct_type`, `_generate_union_type`, `_generate_alias_type`,
              `_generate_types`, `_generate_base_namespace_module`)   stone/backends/tsd_types.py
* `tsdClient` (`_generate_route`, `_generate_import`)             stone/backends/tsd_client.py

Specification-level part (written from the property text, not from the code):
* `isNullable` (a field is nullable when its type, seen through aliases, is `T?`), `routeCallSpec`,
  `userTypes` / `printed`, `apiWF` (C02's closure invariant, evaluated on every real API by the
  harness), name-injectivity conditions, the resolution rules `resolvesTs` / `resolvesJs`.

Import-free apart from the generated tables: linked into the correspondence driver.

Domain notes: identifiers are ASCII (the Stone lexer only accepts ASCII identifiers); `str.lower` /
`str.capitalize` are modelled on ASCII. The text of doc comments, indentation and line wrapping are not
modelled (the declaration scanners of the harness skip them). The `--extra-arg` option of the two types
backends is not modelled.
-/
import StoneVerif.Gen.Tables
namespace StoneVerif.DeclJs

/-! ## 1. Names (stone/backends/helpers.py) -/

def isLowerDigit (c : Char) : Bool := ('a' ≤ c && c ≤ 'z') || ('0' ≤ c && c ≤ '9')
def isUpperA (c : Char) : Bool := 'A' ≤ c && c ≤ 'Z'
/-- `_split_words_dashes_re = '[-_/]+'` -/
def isSep (c : Char) : Bool := c == '-' || c == '_' || c == '/'

/-- `re.split('[-_/]+', name)`: a run of separators is one delimiter, empty pieces at both ends are kept.
`cur` is the current piece, reversed; `inSep` says that the previous character was a separator. -/
def splitSepAux : List Char → List Char → Bool → List (List Char)
  | [], cur, _ => [cur.reverse]
  | c :: rest, cur, inSep =>
    if isSep c then
      (if inSep then splitSepAux rest cur true else cur.reverse :: splitSepAux rest [] true)
    else splitSepAux rest (c :: cur) false

def splitSep (s : List Char) : List (List Char) := splitSepAux s [] false

/-- `_split_words_capitalization_re.findall(word)` for
`^[a-z0-9]+|[A-Z][a-z0-9]+|[A-Z]+(?=[A-Z][a-z0-9])|[A-Z]+$`: at every position the alternatives are tried in
order; when none matches the scan moves on by one character. -/
def capWords : Nat → Bool → List Char → List (List Char)
  | 0, _, _ => []
  | _, _, [] => []
  | n + 1, atStart, c :: rest =>
    if atStart && isLowerDigit c then
      -- `^[a-z0-9]+`
      ((c :: rest).takeWhile isLowerDigit) :: capWords n false (rest.dropWhile isLowerDigit)
    else if isUpperA c then
      let low := rest.takeWhile isLowerDigit
      if !low.isEmpty then
        -- `[A-Z][a-z0-9]+`
        (c :: low) :: capWords n false (rest.dropWhile isLowerDigit)
      else
        let ups := c :: rest.takeWhile isUpperA
        match rest.dropWhile isUpperA with
        | [] => [ups]                                        -- `[A-Z]+$`
        | d :: _ =>
          if ups.length ≥ 2 && isLowerDigit d then
            -- `[A-Z]+(?=[A-Z][a-z0-9])`: all of the run but its last letter
            (ups.take (ups.length - 1)) :: capWords n false (rest.drop (ups.length - 2))
          else capWords n false rest
    else capWords n false rest

/-- `split_words(name)` -/
def splitWords (name : List Char) : List (List Char) :=
  (splitSep name).flatMap fun word =>
    match capWords word.length true word with
    | [] => [word]
    | vals => vals

def lowerA (w : List Char) : List Char := w.map Char.toLower
/-- `str.capitalize` on ASCII -/
def capitalizeA : List Char → List Char
  | [] => []
  | c :: rest => c.toUpper :: lowerA rest

/-- `fmt_camel(name)`; `split_words` never returns the empty list, so the `assert` cannot fail -/
def fmtCamel (name : String) : String :=
  match splitWords name.toList with
  | [] => ""
  | first :: rest => String.ofList (lowerA first ++ (rest.map capitalizeA).flatten)

/-- `fmt_pascal(name)` -/
def fmtPascal (name : String) : String :=
  String.ofList ((splitWords name.toList).map capitalizeA).flatten

/-- `fmt_func(name, version)` of js_helpers and tsd_helpers -/
def fmtFunc (name : String) (version : Nat) : String :=
  if version = 1 then fmtCamel name else fmtCamel name ++ "V" ++ toString version

/-- `fmt_url(namespace_name, route_name, route_version)` -/
def jsFmtUrl (ns route : String) (version : Nat) : String :=
  if version ≠ 1 then ns ++ "/" ++ route ++ "_v" ++ toString version else ns ++ "/" ++ route

/-! ## 2. The API as the backends see it (aliases preserved) -/

structure QName where
  ns : String
  name : String
deriving DecidableEq, Repr, Inhabited

inductive Prim where
  | boolean | bytes | float32 | float64 | int32 | int64 | uint32 | uint64 | string | timestamp | void
deriving DecidableEq, Repr, Inhabited

/-- the class name the `_base_type_table`s are keyed with -/
def Prim.key : Prim → String
  | .boolean => "Boolean" | .bytes => "Bytes" | .float32 => "Float32" | .float64 => "Float64"
  | .int32 => "Int32" | .int64 => "Int64" | .uint32 => "UInt32" | .uint64 => "UInt64"
  | .string => "String" | .timestamp => "Timestamp" | .void => "Void"

/-- A data type as it occurs in a field, tag, alias or route. User types are referred to by name; an alias
carries its target (aliases are acyclic). -/
inductive IrTy where
  | prim (p : Prim)
  | list (t : IrTy)
  | map (k v : IrTy)
  | nullable (t : IrTy)
  | struct (q : QName)
  | union (q : QName)
  | alias (q : QName) (target : IrTy)
deriving DecidableEq, Repr, Inhabited

structure FieldD where
  name : String
  ty : IrTy
  hasDefault : Bool
deriving DecidableEq, Repr, Inhabited

structure StructD where
  q : QName
  parent : Option QName
  fields : List FieldD                              -- own fields
  subtypes : List (String × QName)                  -- enumerated subtypes (tag, struct); [] = none
  catchAll : Bool
deriving Repr, Inhabited

structure TagD where
  name : String
  ty : IrTy                                         -- `prim void` for a tag without value
deriving DecidableEq, Repr, Inhabited

structure UnionD where
  q : QName
  parent : Option QName
  tags : List TagD                                  -- own tags (the catch-all tag of an open union included)
deriving Repr, Inhabited

structure AliasD where
  q : QName
  target : IrTy
deriving Repr, Inhabited

/-- A route attribute value (`route.attrs[name]`). `float` carries `repr(value)`; `unsupported` is a value of
any Python type `json.dumps` refuses (a union tag reference, `bytes`, `datetime`). -/
inductive AttrVal where
  | null
  | bool (b : Bool)
  | int (n : Int)
  | float (text : String)
  | str (s : String)
  | unsupported (pyType : String)
deriving DecidableEq, Repr, Inhabited

structure RouteD where
  name : String
  version : Nat
  arg : IrTy
  result : IrTy
  error : IrTy
  attrs : List (String × AttrVal)
deriving Repr, Inhabited

inductive DataType where
  | struct (s : StructD)
  | union (u : UnionD)
deriving Repr, Inhabited

def DataType.q : DataType → QName
  | .struct s => s.q
  | .union u => u.q

structure NamespaceD where
  name : String
  dataTypes : List DataType                         -- `namespace.data_types`
  aliases : List AliasD                             -- `namespace.aliases`
  routes : List RouteD
  imports : List String                             -- `namespace.get_imported_namespaces()`
deriving Repr, Inhabited

structure Api where
  namespaces : List NamespaceD
  routeSchema : List String                         -- `api.route_schema.fields`, names in order
deriving Repr, Inhabited

def NamespaceD.structs (n : NamespaceD) : List StructD :=
  n.dataTypes.filterMap fun | .struct s => some s | _ => none
def NamespaceD.unions (n : NamespaceD) : List UnionD :=
  n.dataTypes.filterMap fun | .union u => some u | _ => none
def Api.structs (api : Api) : List StructD := api.namespaces.flatMap (·.structs)
def Api.unions (api : Api) : List UnionD := api.namespaces.flatMap (·.unions)
def Api.aliases (api : Api) : List AliasD := api.namespaces.flatMap (·.aliases)

def findStruct (api : Api) (q : QName) : Option StructD := api.structs.find? (fun s => s.q = q)
def findUnion (api : Api) (q : QName) : Option UnionD := api.unions.find? (fun u => u.q = q)

/-- `struct.get_enumerated_subtypes()` by name (`[]` for an unknown struct) -/
def enumerated (api : Api) (q : QName) : List (String × QName) :=
  match findStruct api q with
  | some s => s.subtypes
  | none => []

/-- `has_enumerated_subtypes()` -/
def hasEnum (api : Api) (q : QName) : Bool := !(enumerated api q).isEmpty

def isCatchAll (api : Api) (q : QName) : Bool :=
  match findStruct api q with
  | some s => s.catchAll
  | none => false

/-- the queue loop of `get_all_subtypes_with_tags` (breadth first) -/
def bfs (api : Api) : Nat → List QName → List QName
  | 0, _ => []
  | _ + 1, [] => []
  | n + 1, q :: rest => q :: bfs api n (rest ++ (enumerated api q).map (·.2))

/-- all structs below `q` in its enumerated-subtypes tree, in the order of `get_all_subtypes_with_tags` -/
def allSubtypes (api : Api) (q : QName) : List QName :=
  bfs api (api.structs.length + 1) ((enumerated api q).map (·.2))

/-- the tag under which `parent` lists `child` -/
def tagIn (api : Api) (parent child : QName) : Option String :=
  ((enumerated api parent).find? (fun p => p.2 = child)).map (·.1)

/-- `_get_subtype_tags`: tags from the base of the hierarchy down to `q`; `none` where Python's `assert`s fail -/
def subtypeTags (api : Api) : Nat → QName → Option (List String)
  | 0, _ => none
  | n + 1, q =>
    match findStruct api q with
    | none => none
    | some s =>
      match s.parent with
      | none => some []
      | some p =>
        match tagIn api p q, subtypeTags api n p with
        | some tag, some up => some (up ++ [tag])
        | _, _ => none

/-- `Struct._filter_fields(lambda f: True)`: the fields of the whole chain, the parents' first -/
def chainFields (api : Api) : Nat → StructD → List FieldD
  | 0, s => s.fields
  | n + 1, s =>
    match s.parent with
    | none => s.fields
    | some p =>
      match findStruct api p with
      | some ps => chainFields api n ps ++ s.fields
      | none => s.fields

/-- `optional_check` of `all_optional_fields`: `is_nullable_type(f.data_type) or f.has_default` -/
def FieldD.isOptional (f : FieldD) : Bool :=
  (match f.ty with | .nullable _ => true | _ => false) || f.hasDefault

/-- `Struct.all_fields = all_required_fields + all_optional_fields`, each over the whole chain -/
def structAllFields (api : Api) (fuel : Nat) (s : StructD) : List FieldD :=
  let fs := chainFields api fuel s
  fs.filter (fun f => !f.isOptional) ++ fs.filter (fun f => f.isOptional)

/-- `Union.all_fields` -/
def unionAllTags (api : Api) : Nat → UnionD → List TagD
  | 0, u => u.tags
  | n + 1, u =>
    match u.parent with
    | none => u.tags
    | some p =>
      match findUnion api p with
      | some pu => unionAllTags api n pu ++ u.tags
      | none => u.tags

/-- `unwrap_nullable` -/
def unwrapNullable : IrTy → IrTy × Bool
  | .nullable t => (t, true)
  | t => (t, false)

/-- `unwrap`: strips every alias and nullable layer from the top; the flag says that a nullable was seen -/
def unwrapAll : IrTy → IrTy × Bool
  | .nullable t => ((unwrapAll t).1, true)
  | .alias _ t => unwrapAll t
  | t => (t, false)

/-- specification: the field may be absent / null (its type is `T?`, possibly behind aliases) -/
def isNullable : IrTy → Bool
  | .nullable _ => true
  | .alias _ t => isNullable t
  | _ => false

/-! ## 3. Type expressions of the target languages -/

/-- an identifier in type position: `name` or `ns.name` -/
structure Ref where
  ns : Option String
  name : String
deriving DecidableEq, Repr, Inhabited

inductive TExpr where
  | name (r : Ref)                         -- builtin, local or qualified name
  | app (head : String) (arg : TExpr)      -- `Array.<T>` (JSDoc) / `Array<T>` (TypeScript)
  | dict (key : String) (val : TExpr)      -- `{[key: K]: V}`
  | union (alts : List Ref)                -- `(A|B)` / `A|B`: enumerated subtypes, union variants
  | lits (ls : List String)                -- union of string literal types
deriving DecidableEq, Repr, Inhabited

/-- every identifier in type position -/
def TExpr.refs : TExpr → List Ref
  | .name r => [r]
  | .app h a => ⟨none, h⟩ :: a.refs
  | .dict k v => ⟨none, k⟩ :: v.refs
  | .union rs => rs
  | .lits _ => []

def bare (s : String) : TExpr := .name ⟨none, s⟩

/-- `fmt_jsdoc_union` / `fmt_union` on names; the empty list is Python's `IndexError` and never arises from a
struct with enumerated subtypes -/
def mkUnion : List Ref → TExpr
  | [r] => .name r
  | rs => .union rs

def Ref.render (r : Ref) : String :=
  match r.ns with
  | some n => n ++ "." ++ r.name
  | none => r.name

def joinWith (sep : String) : List String → String
  | [] => ""
  | [x] => x
  | x :: rest => x ++ sep ++ joinWith sep rest

/-- JSDoc text of a type expression -/
def renderJs : TExpr → String
  | .name r => r.render
  | .app h a => h ++ ".<" ++ renderJs a ++ ">"
  | .dict k v => "{[key: " ++ k ++ "]: " ++ renderJs v ++ "}"
  | .union [r] => r.render
  | .union rs => "(" ++ joinWith "|" (rs.map Ref.render) ++ ")"
  | .lits ls => joinWith "|" (ls.map fun l => "'" ++ l ++ "'")

/-- TypeScript text of a type expression -/
def renderTs : TExpr → String
  | .name r => r.render
  | .app h a => h ++ "<" ++ renderTs a ++ ">"
  | .dict k v => "{[key: " ++ k ++ "]: " ++ renderTs v ++ "}"
  | .union rs => joinWith "|" (rs.map Ref.render)
  | .lits ls => joinWith "|" (ls.map fun l => "'" ++ l ++ "'")

/-! ## 4. The type mappers -/

def tblGet (tbl : List (String × String)) (dflt : String) (key : String) : String :=
  (tbl.lookup key).getD dflt

/-- `_base_type_table.get(data_type.__class__, 'Object')` of js_helpers -/
def jsBase (key : String) : String := tblGet Tables.jsBaseTypeTable (Tables.jsBaseTypeDefault.headD "Object") key

/-- JSDoc name of a user type: `fmt_pascal(namespace.name + name)` -/
def jsName (q : QName) : Ref := ⟨none, fmtPascal (q.ns ++ q.name)⟩

/-- `js_helpers.fmt_type` (and `fmt_type_name` for everything but a struct: see `jsTypeName`) -/
def jsFmtType (api : Api) : IrTy → TExpr
  | .struct q =>
    if hasEnum api q then
      mkUnion ((allSubtypes api q).map jsName ++ (if isCatchAll api q then [jsName q] else []))
    else .name (jsName q)
  | .union q => .name (jsName q)
  | .list t => .app (jsBase "List") (jsFmtType api t)
  | .prim p => bare (jsBase p.key)
  | .map _ _ => bare (jsBase "Map")
  | .nullable _ => bare (jsBase "Nullable")
  | .alias _ _ => bare (jsBase "Alias")

/-- `js_helpers.fmt_type_name`: no enumeration of subtypes at the top -/
def jsTypeName (api : Api) : IrTy → TExpr
  | .struct q => .name (jsName q)
  | t => jsFmtType api t

def tsdBase (key : String) : String :=
  tblGet Tables.tsdBaseTypeTable (Tables.tsdBaseTypeDefault.headD "Object") key

/-- the key type of a Map: `_base_type_table.get(data_type.key_data_type, 'string')` is keyed with classes and
asked with an instance, so the default is always taken -/
def tsdMapKey : String := Tables.tsdBaseTypeDefault.getD 1 "string"

/-- `fmt_type_name` for a user type or alias: qualified unless it lives in `inside` -/
def tsdName (inside : Option String) (q : QName) : Ref :=
  if some q.ns = inside then ⟨none, q.name⟩ else ⟨some q.ns, q.name⟩

/-- `fmt_polymorphic_type_reference` -/
def tsdRefName (inside : Option String) (q : QName) : Ref :=
  let r := tsdName inside q
  { r with name := r.name ++ Tables.tsdReferenceStrings.headD "Reference" }

/-- `tsd_helpers.fmt_type` (`poly = true`) and `fmt_type_name` (`poly = false`) -/
def tsdFmt (api : Api) (inside : Option String) : Bool → IrTy → TExpr
  | poly, .struct q =>
    if poly && hasEnum api q then
      mkUnion ((allSubtypes api q).map (tsdRefName inside)
        ++ (if isCatchAll api q then [tsdRefName inside q] else []))
    else .name (tsdName inside q)
  | _, .union q => .name (tsdName inside q)
  | _, .alias q _ => .name (tsdName inside q)
  | _, .list t => .app (tsdBase "List") (tsdFmt api inside true t)
  | _, .map _ v => .dict tsdMapKey (tsdFmt api inside false v)
  | _, .prim p => bare (tsdBase p.key)
  | _, .nullable _ => bare (tsdBase "Nullable")

/-! ## 5. Declarations -/

inductive Kind where
  | typedef | interface | typeAlias
deriving DecidableEq, Repr, Inhabited

structure Member where
  name : String
  ty : TExpr
  optional : Bool
deriving DecidableEq, Repr, Inhabited

structure Decl where
  file : String
  scope : Option String                    -- the `namespace` / `declare module` the declaration sits in
  kind : Kind
  name : String
  tparams : List String := []
  ext : List Ref := []                     -- `extends`
  members : List Member := []
  rhs : Option TExpr := none               -- right-hand side of a type alias / `@typedef {T}`
deriving DecidableEq, Repr, Inhabited

def Decl.refs (d : Decl) : List Ref :=
  d.ext ++ d.members.flatMap (·.ty.refs) ++ (match d.rhs with | some t => t.refs | none => [])

/-- what the options of the four backends select -/
structure Opts where
  filename : Option String := none         -- tsd_types: the single output file; `none` = one file per namespace
  exportNamespaces : Bool := false
  excludeErrorTypes : Bool := false
  importNamespaces : Bool := false         -- tsd_client
  wrapResponse : String := ""
  wrapError : String := ""
  requestOptions : Bool := false           -- js_client
  out : String := "out"                    -- output file of js_types / js_client / tsd_client
deriving Repr, Inhabited

def seqE {ε α : Type} : List (Except ε α) → Except ε (List α)
  | [] => .ok []
  | .error e :: _ => .error e
  | .ok a :: rest =>
    match seqE rest with
    | .ok as => .ok (a :: as)
    | .error e => .error e

/-! ### 5.1 js_types -/

/-- the `_header` of js_types.py -/
def jsHeader (file : String) : List Decl :=
  [ { file, scope := none, kind := .typedef, name := "Error", tparams := ["T"], rhs := some (bare "Object"),
      members := [⟨"error_summary", bare "string", false⟩, ⟨"error", bare "T", false⟩,
                  ⟨"user_message", bare "UserMessage", false⟩] },
    { file, scope := none, kind := .typedef, name := "UserMessage", rhs := some (bare "Object"),
      members := [⟨"text", bare "string", false⟩, ⟨"locale", bare "string", false⟩] },
    { file, scope := none, kind := .typedef, name := "Timestamp", rhs := some (bare "string") } ]

/-- the `.tag` pseudo property of a struct in an enumerated-subtypes tree (js_types and tsd_types compute the
same literals); `ok none`: the struct is not in a tree or is not listed by its parent -/
def tagMember (api : Api) (s : StructD) : Except String (Option Member) :=
  let fuel := api.structs.length + 1
  if !s.subtypes.isEmpty then
    match (allSubtypes api s.q).mapM (subtypeTags api fuel) with
    | some tagss => .ok (some ⟨".tag", .lits tagss.flatten, false⟩)
    | none => .error "AssertionError: Could not find?!"
  else
    match s.parent with
    | some p =>
      if hasEnum api p then
        match tagIn api p s.q with
        | some tag => .ok (some ⟨".tag", .lits [tag], true⟩)
        | none => .ok none
      else .ok none
    | none => .ok none

/-- the `@property` `_generate_struct` emits for a field: `unwrap` (aliases and nullables), then `fmt_type`;
`[name]` when a nullable was unwrapped -/
def jsField (api : Api) (f : FieldD) : Member :=
  let u := unwrapAll f.ty
  ⟨f.name, jsFmtType api u.1, u.2⟩

/-- `_generate_struct` -/
def jsStructDecl (api : Api) (file : String) (s : StructD) : Except String Decl :=
  match tagMember api s with
  | .error e => .error e
  | .ok tag =>
    let fields := (structAllFields api (api.structs.length + 1) s).map (jsField api)
    .ok { file, scope := none, kind := .typedef, name := (jsName s.q).name, rhs := some (bare "Object"),
          members := tag.toList ++ fields }

/-- `_generate_union`; a union without any tag gets no `.tag` property (`fmt_jsdoc_union` is not called on `[]`) -/
def jsUnionDecl (api : Api) (file : String) (u : UnionD) : Except String Decl :=
  let tags := unionAllTags api (api.unions.length + 1) u
  let props := tags.filterMap fun t =>
    let ty := (unwrapAll t.ty).1
    if ty = .prim .void then none else some (⟨t.name, jsFmtType api ty, true⟩ : Member)
  .ok { file, scope := none, kind := .typedef, name := (jsName u.q).name, rhs := some (bare "Object"),
        members := props ++ (if tags.isEmpty then [] else [⟨".tag", .lits (tags.map (·.name)), false⟩]) }

def jsTypesE (opts : Opts) (api : Api) : List (Except String Decl) :=
  (jsHeader opts.out).map .ok ++
  api.namespaces.flatMap fun n => n.dataTypes.map fun
    | .struct s => jsStructDecl api opts.out s
    | .union u => jsUnionDecl api opts.out u

/-- js_types: the `@typedef`s of the single output file -/
def jsTypes (opts : Opts) (api : Api) : Except String (List Decl) := seqE (jsTypesE opts api)

/-! ### 5.2 js_client -/

/-- an argument of the generated `this.request(...)` call -/
inductive CallArg where
  | arg | null | attr (v : AttrVal) | options
deriving DecidableEq, Repr, Inhabited

structure FnDecl where
  name : String
  params : List String
  argTy : Option TExpr                     -- `@arg {T} arg` / `arg: T`
  resultTy : TExpr
  errorTy : TExpr
  url : String := ""
  call : List CallArg := []
deriving DecidableEq, Repr, Inhabited

/-- `fmt_obj` as far as the value goes: `json.dumps` refuses the rest -/
def fmtObj : AttrVal → Except String CallArg
  | .unsupported ty => .error ("TypeError: Object of type " ++ ty ++ " is not JSON serializable")
  | v => .ok (.attr v)

/-- `fmt_obj(route.attrs[field.name])` -/
def attrArg (r : RouteD) (f : String) : Except String CallArg :=
  match r.attrs.lookup f with
  | some v => fmtObj v
  | none => .error ("KeyError: " ++ f)

/-- `check_route_name_conflict(namespace)`: two routes of a namespace with the same `fmt_func` name -/
def routeNamesConflict (n : NamespaceD) : Bool :=
  !((n.routes.map fun r => fmtFunc r.name r.version).Nodup)

/-- `js_client._generate_route` -/
def jsRoute (opts : Opts) (api : Api) (ns : String) (r : RouteD) : Except String FnDecl :=
  let functionName := fmtFunc (ns ++ "_" ++ r.name) r.version
  let isVoid := r.arg = .prim .void
  let params :=
    if !isVoid then (if opts.requestOptions then ["arg", "options"] else ["arg"])
    else (if opts.requestOptions then ["options"] else [])
  let requestOptionsArg : List CallArg := if opts.requestOptions then [.options] else []
  let url := jsFmtUrl ns r.name r.version
  let mk (call : List CallArg) : FnDecl :=
    { name := functionName, params, argTy := if isVoid then none else some (jsFmtType api r.arg),
      resultTy := jsFmtType api r.result, errorTy := jsFmtType api r.error, url, call }
  if !api.routeSchema.isEmpty then
    match api.routeSchema.mapM (attrArg r) with
    | .error e => .error e
    | .ok additional =>
      if !isVoid then .ok (mk ([.arg] ++ additional ++ requestOptionsArg))
      else .ok (mk ([.null] ++ additional ++ requestOptionsArg))
  else
    if !isVoid then .ok (mk ([.arg] ++ requestOptionsArg))
    else .ok (mk ([.null] ++ requestOptionsArg))

def jsClientE (opts : Opts) (api : Api) : List (Except String FnDecl) :=
  api.namespaces.flatMap fun n =>
    if routeNamesConflict n then [.error "RuntimeError: There is a name conflict"]
    else n.routes.map (jsRoute opts api n.name)

/-- js_client: the functions attached to `routes` -/
def jsClient (opts : Opts) (api : Api) : Except String (List FnDecl) := seqE (jsClientE opts api)

/-- specification of the call a route function makes: `request(url, arg | null, attribute values in schema
order [, options])` -/
def routeCallSpec (opts : Opts) (schema : List String) (r : RouteD) : List CallArg :=
  (if r.arg = .prim .void then CallArg.null else CallArg.arg)
    :: schema.map (fun f => CallArg.attr ((r.attrs.lookup f).getD .null))
    ++ (if opts.requestOptions then [CallArg.options] else [])

/-! ### 5.3 tsd_types -/

def hasTypes (n : NamespaceD) : Bool := !(n.dataTypes.isEmpty && n.aliases.isEmpty)

/-- the output file a namespace is written to -/
def fileOf (opts : Opts) (ns : String) : String :=
  match opts.filename with
  | some f => f
  | none => ns ++ ".d.ts"

/-- `_types_header` -/
def tsdHeader (file : String) : List Decl :=
  [ { file, scope := none, kind := .interface, name := "Error", tparams := ["T"],
      members := [⟨"error_summary", bare "string", false⟩, ⟨"error", bare "T", false⟩,
                  ⟨"user_message", bare "UserMessage", false⟩] },
    { file, scope := none, kind := .interface, name := "UserMessage",
      members := [⟨"text", bare "string", false⟩, ⟨"locale", bare "string", false⟩] } ]

/-- `_timestamp_definition` -/
def tsdTimestamp (file : String) (scope : Option String) : Decl :=
  { file, scope, kind := .typeAlias, name := "Timestamp", rhs := some (bare "string") }

/-- the property `_generate_struct_type` emits for a field: `unwrap_nullable`, then `fmt_type` (an alias keeps its
name); `name?` when the field is nullable at the top, nullable behind aliases (`unwrap`) or has a default -/
def tsField (api : Api) (ns : String) (f : FieldD) : Member :=
  let u := unwrapNullable f.ty
  ⟨f.name, tsdFmt api (some ns) true u.1, u.2 || (unwrapAll f.ty).2 || f.hasDefault⟩

/-- `_generate_struct_type`: the interface, then the `...Reference` interface of a tree member -/
def tsdStructDecls (api : Api) (file : String) (s : StructD) : List (Except String Decl) :=
  let ns := s.q.ns
  let iface : Decl :=
    { file, scope := some ns, kind := .interface, name := s.q.name,
      ext := (s.parent.map (tsdName (some ns))).toList,
      members := s.fields.map (tsField api ns) }
  .ok iface ::
    match tagMember api s with
    | .error e => [.error e]
    | .ok none => []
    | .ok (some tag) =>
      [.ok { file, scope := some ns, kind := .interface, name := (tsdRefName (some ns) s.q).name,
             ext := [tsdName (some ns) s.q], members := [{ tag with optional := false }] }]

def isPlainStruct (api : Api) : IrTy → Bool
  | .struct q => !hasEnum api q
  | _ => false

def variantName (u : UnionD) (t : TagD) : String := u.q.name ++ fmtPascal t.name

/-- `_generate_union_type`: one interface per own tag, then the union type -/
def tsdUnionDecls (api : Api) (file : String) (u : UnionD) : List Decl :=
  let ns := u.q.ns
  let variants : List Decl := u.tags.map fun t =>
    let plain := isPlainStruct api t.ty
    { file, scope := some ns, kind := .interface, name := variantName u t,
      ext := if plain then (tsdFmt api (some ns) true t.ty).refs else [],
      members := ⟨".tag", .lits [t.name], false⟩ ::
        (if t.ty ≠ .prim .void && !plain then [⟨t.name, tsdFmt api (some ns) true t.ty, false⟩] else []) }
  let alts := (u.parent.map (tsdName (some ns))).toList ++ u.tags.map (fun t => ⟨none, variantName u t⟩)
  variants ++
    [{ file, scope := some ns, kind := .typeAlias, name := u.q.name,
       -- `' | '.join(variant_type_names) or 'never'`: a union without parent and tags has no values
       rhs := some (if alts.isEmpty then bare "never" else .union alts) }]

/-- `_generate_alias_type` -/
def tsdAliasDecl (api : Api) (file : String) (a : AliasD) : Decl :=
  { file, scope := some a.q.ns, kind := .typeAlias, name := a.q.name,
    rhs := some (tsdFmt api (some a.q.ns) false a.target) }

/-- `_generate_type` for a struct or union -/
def tsdDataE (api : Api) (file : String) : DataType → List (Except String Decl)
  | .struct s => tsdStructDecls api file s
  | .union u => (tsdUnionDecls api file u).map .ok

/-- `_generate_types` for one namespace -/
def tsdNamespaceE (opts : Opts) (api : Api) (n : NamespaceD) : List (Except String Decl) :=
  if !hasTypes n then [] else
  let file := fileOf opts n.name
  (n.dataTypes.flatMap (tsdDataE api file))
    ++ n.aliases.map (fun a => .ok (tsdAliasDecl api file a))
    ++ (if opts.filename.isNone then [.ok (tsdTimestamp file (some n.name))] else [])

/-- the declarations in front of the namespaces of one file (`_generate_base_namespace_module`) -/
def tsdFileHead (opts : Opts) (file : String) : List Decl :=
  (if opts.excludeErrorTypes then [] else tsdHeader file)
    ++ (if opts.filename.isSome then [tsdTimestamp file none] else [])

def tsdTypesE (opts : Opts) (api : Api) : List (Except String Decl) :=
  match opts.filename with
  | some f =>
    if api.namespaces.all (fun n => !hasTypes n) then []
    else (tsdFileHead opts f).map .ok ++ api.namespaces.flatMap (tsdNamespaceE opts api)
  | none =>
    api.namespaces.flatMap fun n =>
      if !hasTypes n then []
      else (tsdFileHead opts (fileOf opts n.name)).map .ok ++ tsdNamespaceE opts api n

/-- the `import * as ns from '...'` lines: (file, namespace identifier) -/
def tsdTypesImports (opts : Opts) (api : Api) : List (String × String) :=
  match opts.filename with
  | some _ => []
  | none => api.namespaces.flatMap fun n =>
      if !hasTypes n then [] else n.imports.map fun m => (fileOf opts n.name, m)

structure TypesOut where
  decls : List Decl
  imports : List (String × String)
deriving Repr, Inhabited

def tsdTypes (opts : Opts) (api : Api) : Except String TypesOut :=
  match seqE (tsdTypesE opts api) with
  | .ok ds => .ok ⟨ds, tsdTypesImports opts api⟩
  | .error e => .error e

/-! ### 5.4 tsd_client -/

/-- `tsd_client._generate_route` (types are formatted without an enclosing namespace) -/
def tsdRoute (api : Api) (ns : String) (r : RouteD) : FnDecl :=
  { name := fmtFunc (ns ++ "_" ++ r.name) r.version,
    params := if r.arg = .prim .void then [] else ["arg"],
    argTy := if r.arg = .prim .void then none else some (tsdFmt api none true r.arg),
    resultTy := tsdFmt api none true r.result,
    errorTy := tsdFmt api none true r.error }

def tsdClientE (api : Api) : List (Except String FnDecl) :=
  api.namespaces.flatMap fun n =>
    if routeNamesConflict n then [.error "RuntimeError: There is a name conflict"]
    else n.routes.map fun r => .ok (tsdRoute api n.name r)

structure ClientOut where
  imports : List String                    -- the names of `import { a, b } from '<types file>'`
  methods : List FnDecl
deriving Repr, Inhabited

def tsdClient (opts : Opts) (api : Api) : Except String ClientOut :=
  match seqE (tsdClientE api) with
  | .ok ms => .ok ⟨if opts.importNamespaces then (api.namespaces.filter hasTypes).map (·.name) else [], ms⟩
  | .error e => .error e

/-! ## 6. Specification-level definitions: user types, well-formedness, resolution -/

/-- what a mapper may print for a type: the name of a struct or union (`ty`), of an alias (`al`), or the
polymorphic reference of a struct of an enumerated-subtypes tree (`poly`) -/
inductive URef where
  | ty (q : QName)
  | al (q : QName)
  | poly (q : QName)
deriving DecidableEq, Repr, Inhabited

def URef.q : URef → QName
  | .ty q => q
  | .al q => q
  | .poly q => q

/-- a struct that enumerates subtypes is printed as the union of the references of everything below it (and of
itself when it is the catch-all) -/
def structPolys (api : Api) (q : QName) : List URef :=
  if hasEnum api q then .poly q :: (allSubtypes api q).flatMap (fun c => [.ty c, .poly c]) else []

/-- every user type reachable from a type expression (alias targets included) -/
def userTypes (api : Api) : IrTy → List URef
  | .prim _ => []
  | .list t => userTypes api t
  | .map k v => userTypes api k ++ userTypes api v
  | .nullable t => userTypes api t
  | .struct q => .ty q :: structPolys api q
  | .union q => [.ty q]
  | .alias q t => .al q :: userTypes api t

/-- the user types a mapper can print for a type: an alias is printed by name, its target is not visited -/
def printed (api : Api) : IrTy → List URef
  | .prim _ => []
  | .list t => printed api t
  | .map k v => printed api k ++ printed api v
  | .nullable t => printed api t
  | .struct q => .ty q :: structPolys api q
  | .union q => [.ty q]
  | .alias q _ => [.al q]

def Api.dataQNames (api : Api) : List QName := api.namespaces.flatMap fun n => n.dataTypes.map (·.q)
def Api.aliasQNames (api : Api) : List QName := api.namespaces.flatMap fun n => n.aliases.map (·.q)
def Api.typeQNames (api : Api) : List QName := api.dataQNames ++ api.aliasQNames

/-- the emission condition of a `...Reference` interface / `.tag` property (`tagMember` yields a member) -/
def inTree (api : Api) (s : StructD) : Bool :=
  !s.subtypes.isEmpty ||
    (match s.parent with
     | some p => hasEnum api p && (tagIn api p s.q).isSome
     | none => false)

def treeMember (api : Api) (q : QName) : Bool :=
  match findStruct api q with
  | none => false
  | some s => inTree api s

def visible (n : NamespaceD) (m : String) : Bool := decide (m = n.name) || decide (m ∈ n.imports)

/-- a printed user type is registered with its kind; a printed polymorphic reference belongs to a tree member -/
def urefOk (api : Api) : URef → Bool
  | .ty q => decide (q ∈ api.dataQNames)
  | .al q => decide (q ∈ api.aliasQNames)
  | .poly q => treeMember api q

/-- the type expressions a namespace writes down itself -/
def typeExprsOf (n : NamespaceD) : List IrTy :=
  n.structs.flatMap (fun s => s.fields.map (·.ty)) ++ n.unions.flatMap (fun u => u.tags.map (·.ty))
    ++ n.aliases.map (·.target) ++ n.routes.flatMap (fun r => [r.arg, r.result, r.error])

/-- C02's closure invariant in the form the generators rely on (evaluated on every real API by the harness):
namespace names distinct; every type lives in the namespace that lists it; type names distinct per namespace;
every user type reachable from a written type expression is registered (a polymorphic reference belongs to a
member of an enumerated-subtypes tree), every printed one lives in the namespace itself or in an imported one;
parents likewise; every route carries a value for every attribute of the schema. -/
def nsWF (api : Api) (n : NamespaceD) : Bool :=
  n.dataTypes.all (fun d => decide (d.q.ns = n.name)) && n.aliases.all (fun a => decide (a.q.ns = n.name))
  && decide (n.dataTypes.map (·.q.name) ++ n.aliases.map (·.q.name)).Nodup
  && (typeExprsOf n).all (fun t =>
        (userTypes api t).all (urefOk api) && (printed api t).all (fun u => visible n u.q.ns))
  && n.structs.all (fun s =>
        match s.parent with
        | some p => decide (p ∈ api.dataQNames) && visible n p.ns
        | none => true)
  && n.unions.all (fun u =>
        match u.parent with
        | some p => decide (p ∈ api.dataQNames) && visible n p.ns
        | none => true)
  && n.routes.all (fun r => api.routeSchema.all (fun f => (r.attrs.lookup f).isSome))

def apiWF (api : Api) : Bool :=
  decide (api.namespaces.map (·.name)).Nodup && api.namespaces.all (nsWF api)

/-- builtin names of JSDoc type expressions -/
def jsBuiltins : List String :=
  ["boolean", "string", "number", "Object", "Array", "void", "null", "undefined", "Promise", "Date", "Function", "*"]

/-- builtin names of TypeScript type expressions (`Error` is the global interface of lib.es5) -/
def tsBuiltins : List String :=
  ["boolean", "string", "number", "Object", "Array", "void", "null", "undefined", "Promise", "Date", "any",
   "never", "unknown", "object", "Error"]

def declaredAt (ds : List Decl) (file : String) (scope : Option String) (name : String) : Prop :=
  ∃ d ∈ ds, d.file = file ∧ d.scope = scope ∧ d.name = name

/-- a JSDoc reference resolves: builtin, type parameter of the typedef, or a typedef of the output -/
def resolvesJs (ds : List Decl) (tparams : List String) (r : Ref) : Prop :=
  r.ns = none ∧ (r.name ∈ jsBuiltins ∨ r.name ∈ tparams ∨ ∃ d ∈ ds, d.name = r.name)

/-- a TypeScript reference inside declaration `d` resolves: a bare name is a builtin, a type parameter, a
declaration of the same namespace or of the top level of the same file; a qualified name `m.X` is `X` declared in
a namespace `m` of the same file, or `m` is imported into the file and `X` is declared in `m` somewhere -/
def resolvesTs (out : TypesOut) (d : Decl) (r : Ref) : Prop :=
  match r.ns with
  | none => r.name ∈ tsBuiltins ∨ r.name ∈ d.tparams ∨ declaredAt out.decls d.file d.scope r.name
      ∨ declaredAt out.decls d.file none r.name
  | some m => declaredAt out.decls d.file (some m) r.name
      ∨ ((d.file, m) ∈ out.imports ∧ ∃ f, declaredAt out.decls f (some m) r.name)

/-- the names tsd_types generates inside one namespace, from the API alone -/
def tsdDataNames (api : Api) : DataType → List String
  | .struct s => s.q.name :: (if inTree api s then [(tsdRefName (some s.q.ns) s.q).name] else [])
  | .union u => u.tags.map (variantName u) ++ [u.q.name]

def tsdNames (opts : Opts) (api : Api) (n : NamespaceD) : List String :=
  (n.dataTypes.flatMap (tsdDataNames api))
    ++ n.aliases.map (·.q.name)
    ++ (if opts.filename.isNone then ["Timestamp"] else [])

/-- name injectivity for tsd_types: the generated `...Reference` / variant interface names do not collide with
each other or with the names of the namespace's types -/
def tsdNamesInjective (opts : Opts) (api : Api) : Prop :=
  ∀ n ∈ api.namespaces, (tsdNames opts api n).Nodup

def jsNamesList (api : Api) : List String :=
  ["Error", "UserMessage", "Timestamp"]
    ++ api.namespaces.flatMap (fun n => n.dataTypes.map fun d => (jsName d.q).name)

/-- name injectivity for js_types: `fmt_pascal(ns + name)` separates the types of the API (and the header) -/
def jsNamesInjective (api : Api) : Prop := (jsNamesList api).Nodup

def routeNamesList (api : Api) : List String :=
  api.namespaces.flatMap fun n => n.routes.map fun r => fmtFunc (n.name ++ "_" ++ r.name) r.version

/-- name injectivity for the clients: `fmt_func(ns + '_' + route, version)` separates the routes of the API -/
def routeNamesInjective (api : Api) : Prop := (routeNamesList api).Nodup

end StoneVerif.DeclJs
