import StoneVerif.Gen.Tables
/-!
Declaration-level model of the Swift and Objective-C generators of stone (C17).

For each of the six invocations (`swift_types`, `swift_types --objc`, `swift_client`, `swift_client --objc`,
`obj_c_types`, `obj_c_client`) the model says *what is declared* (a declaration = file unit, kind, enclosing scope,
name) and *which user-level names each declaration mentions* (`TRef`s), not the text that is written.

Code-following parts (same branches, same tables):
* `splitWords`, `capitalize`, `swCamel` (`swift_helpers._format_camelcase`), `ocCamel` (`obj_c_helpers.fmt_camel`);
* the type mappers `swType` (`swift_helpers.fmt_type`), `swObjcType` (`fmt_objc_type`), `swSerialType` /
  `swSerialObj` (`swift.fmt_serial_type` / `fmt_serial_obj`), `ocType` (`obj_c_helpers.fmt_type`), `ocClassType`
  (`fmt_class_type`), `ocRouteType`, `ocSerialObj`, `ocValidator` -- as functions `Ty → TExpr`; `TExpr.render` is the
  string the Python function returns, `TExpr.refs` the user types it names;
* `decls B api`: which identifiers the jinja templates of stone/backends/swift_rsrc and the emitters of
  obj_c_types.py / obj_c_client.py mention per IR item. Where Python raises (D18: `ObjcTypes.jinja` line 35 on a
  `Map` field whose value type enumerates subtypes; a route error type that is neither Void nor user-defined in
  `_route_objc_result_type`; a missing `auth` attribute) the model returns `Except.error`.

NOT modelled: the bodies of Objective-C `.m` files (names of `@implementation`s and of the static route variables
only), documentation comments, validators, literal default values, the order of declarations, `--documentation`.

Import-free apart from the generated tables: linked into the correspondence driver.
-/
namespace StoneVerif.DeclSwift
open StoneVerif

/-! ## Characters and words (ASCII semantics; identifiers of the spec language are ASCII) -/

def isUpperC (c : Char) : Bool := 'A' ≤ c && c ≤ 'Z'
def isLowDig (c : Char) : Bool := ('a' ≤ c && c ≤ 'z') || ('0' ≤ c && c ≤ '9')
def toLowerC (c : Char) : Char := if isUpperC c then Char.ofNat (c.toNat + 32) else c
def toUpperC (c : Char) : Char := if 'a' ≤ c && c ≤ 'z' then Char.ofNat (c.toNat - 32) else c
def isSep (c : Char) : Bool := c == '-' || c == '_' || c == '/'

/-- `re.split('[-_/]+', name)`: pieces between maximal separator runs (empty first / last piece when the name
starts / ends with a separator). -/
def splitSeps : List Char → List Char → Bool → List (List Char)
  | [], cur, _ => [cur.reverse]
  | c :: cs, cur, inSep =>
    if isSep c then
      if inSep then splitSeps cs cur true else cur.reverse :: splitSeps cs [] true
    else splitSeps cs (c :: cur) false

/-- `_split_words_capitalization_re.findall(word)` on an alphanumeric word: a leading lower-case/digit run, then for
every upper-case run `U` followed by a lower-case/digit run `L`: `U` alone at the end of the word, `U ++ L` when `U`
is one letter, otherwise `U` without its last letter and then that letter with `L`. Other characters are skipped
(no alternative of the regular expression matches them). -/
def capWords (fuel : Nat) (w : List Char) : List (List Char) :=
  match fuel with
  | 0 => []
  | fuel + 1 =>
    match w with
    | [] => []
    | c :: _ =>
      if isUpperC c then
        let u := w.takeWhile isUpperC
        let rest := w.dropWhile isUpperC
        let l := rest.takeWhile isLowDig
        let rest' := rest.dropWhile isLowDig
        if l.isEmpty then
          -- `[A-Z]+$` needs the end of the word; otherwise only what `[A-Z]+(?=[A-Z][a-z0-9])` can take
          if rest.isEmpty then [u] else u :: capWords fuel rest
        else if u.length == 1 then (u ++ l) :: capWords fuel rest'
        else u.dropLast :: (u.getLast?.toList ++ l) :: capWords fuel rest'
      else
        -- not upper case: `^[a-z0-9]+` at the start only; anywhere else the character is skipped
        capWords fuel (w.drop 1)

def wordPieces (w : List Char) : List (List Char) :=
  let lead := w.takeWhile isLowDig
  let rest := w.dropWhile isLowDig
  let ws := (if lead.isEmpty then [] else [lead]) ++ capWords (rest.length + 1) rest
  if ws.isEmpty then [w] else ws

/-- `stone.backends.helpers.split_words` -/
def splitWords (name : List Char) : List (List Char) :=
  (splitSeps name [] false).flatMap wordPieces

/-- `str.capitalize()` -/
def capitalize : List Char → List Char
  | [] => []
  | c :: cs => toUpperC c :: cs.map toLowerC

def lowerS (s : List Char) : List Char := s.map toLowerC
def upperS (s : List Char) : List Char := s.map toUpperC

/-- `swift_helpers._format_camelcase` -/
def swCamel (name : String) (lowerFirst : Bool) : String :=
  let words := (splitWords name.toList).map capitalize
  let words := match words with
    | [] => []
    | w :: ws => (if lowerFirst then lowerS w else w) :: ws
  let ret := String.ofList words.flatten
  if Tables.swiftReservedWords.contains (String.ofList (lowerS ret.toList)) then ret ++ "_" else ret

def swClass (name : String) : String := swCamel name false
def swVar (name : String) : String := swCamel name true
/-- `swift_helpers.fmt_func` -/
def swFunc (name : String) (version : Nat) : String :=
  swCamel (if version > 1 then name ++ "_v" ++ toString version else name) true
/-- `swift_helpers.fmt_route_name` -/
def swRouteName (name : String) (version : Nat) : String :=
  if version == 1 then name else name ++ "_v" ++ toString version

def startsWithL : List Char → List Char → Bool
  | _, [] => true
  | [], _ :: _ => false
  | a :: as, b :: bs => a == b && startsWithL as bs

/-- `obj_c_helpers.fmt_camel` (reserved = True) -/
def ocCamel (name : String) (upperFirst : Bool) : String :=
  let words := (splitWords name.toList).map capitalize
  let words := match words with
    | [] => []
    | w :: ws => (if upperFirst then w else lowerS w) :: ws
  let ret := words.flatten
  let ret := if Tables.objcReservedWords.contains (String.ofList (lowerS ret)) then ret ++ ['_'] else ret
  let ret := Tables.objcReservedPrefixes.foldl (fun (r : List Char) p =>
    if startsWithL (lowerS r) p.toList then
      match r with
      | [] => r
      | c :: cs => (if upperFirst then 'D' else 'd') :: toUpperC c :: cs
    else r) ret
  String.ofList ret

def ocUpper (name : String) : String := ocCamel name true
def ocVar (name : String) : String := ocCamel name false
def ocCaps (name : String) : String := String.ofList (upperS (ocUpper name).toList)

/-! ## The API description as the backends see it -/

structure QName where
  ns : String
  name : String
  deriving DecidableEq, Repr, Inhabited

/-- IR data type. `prim cls` carries the class name (`Boolean` ... `Void`); `alias` is an alias that survived
`remove_aliases_from_api` (it does below `Map`). -/
inductive Ty where
  | prim (cls : String)
  | ts (fmt : String)
  | user (q : QName)
  | alias (q : QName)
  | list (t : Ty)
  | map (k v : Ty)
  | nullable (t : Ty)
  deriving Repr, Inhabited, DecidableEq

def Ty.cls : Ty → String
  | .prim c => c
  | .ts _ => "Timestamp"
  | .user _ => "User"
  | .alias _ => "Alias"
  | .list _ => "List"
  | .map _ _ => "Map"
  | .nullable _ => "Nullable"

/-- user-defined types a type expression mentions -/
def Ty.userTypes : Ty → List QName
  | .user q => [q]
  | .list t => t.userTypes
  | .map k v => k.userTypes ++ v.userTypes
  | .nullable t => t.userTypes
  | _ => []

def Ty.hasAlias : Ty → Bool
  | .alias _ => true
  | .list t => t.hasAlias
  | .map k v => k.hasAlias || v.hasAlias
  | .nullable t => t.hasAlias
  | _ => false

/-- `unwrap_nullable` -/
def Ty.unwrap : Ty → Ty × Bool
  | .nullable t => (t, true)
  | t => (t, false)

def Ty.isVoid (t : Ty) : Bool := t == .prim "Void"
def Ty.isUser : Ty → Bool
  | .user _ => true
  | _ => false
def Ty.isList : Ty → Bool
  | .list _ => true
  | _ => false
def Ty.isMap : Ty → Bool
  | .map _ _ => true
  | _ => false
def Ty.isNullable : Ty → Bool
  | .nullable _ => true
  | _ => false

structure Field where
  name : String
  ty : Ty
  hasDefault : Bool := false
  /-- a union-tag default: the union as the IR names it, and the tag -/
  dfltTag : Option (QName × String) := none
  deriving Repr, Inhabited

structure StructT where
  name : String
  parent : Option QName := none
  fields : List Field := []
  /-- directly enumerated subtypes (tag, type) -/
  subtypes : Option (List (String × QName)) := none
  catchAll : Bool := false
  deriving Repr, Inhabited

structure UnionT where
  name : String
  parent : Option QName := none
  fields : List Field := []
  closed : Bool := false
  deriving Repr, Inhabited

inductive UserT where
  | struct (s : StructT)
  | union (u : UnionT)
  deriving Repr, Inhabited

def UserT.name : UserT → String
  | .struct s => s.name
  | .union u => u.name
def UserT.parent : UserT → Option QName
  | .struct s => s.parent
  | .union u => u.parent
def UserT.fields : UserT → List Field
  | .struct s => s.fields
  | .union u => u.fields
def UserT.isUnion : UserT → Bool
  | .union _ => true
  | _ => false

structure Route where
  name : String
  version : Nat := 1
  arg : Ty := .prim "Void"
  result : Ty := .prim "Void"
  error : Ty := .prim "Void"
  deprecated : Bool := false
  style : Option String := none
  auth : Option String := none
  deriving Repr, Inhabited

structure Namespace where
  name : String
  types : List UserT := []
  routes : List Route := []
  deriving Repr, Inhabited

structure Api where
  nss : List Namespace
  deriving Repr, Inhabited

def Api.findNs? (api : Api) (n : String) : Option Namespace := api.nss.find? (·.name == n)
def Api.find? (api : Api) (q : QName) : Option UserT :=
  match api.findNs? q.ns with
  | none => none
  | some ns => ns.types.find? (·.name == q.name)

def Api.typeCount (api : Api) : Nat := (api.nss.map (·.types.length)).foldl (· + ·) 0

/-- every (namespace name, type) of the API -/
def Api.allTypes (api : Api) : List (String × UserT) :=
  api.nss.flatMap fun ns => ns.types.map fun t => (ns.name, t)

/-- fields of the ancestors of `q` and of `q` itself, supertypes first (`_filter_fields` / union `all_fields`) -/
def chainFields (api : Api) : Nat → QName → List Field
  | 0, _ => []
  | fuel + 1, q =>
    match api.find? q with
    | none => []
    | some t =>
      (match t.parent with
       | none => []
       | some p => chainFields api fuel p) ++ t.fields

def Field.optional (f : Field) : Bool := f.hasDefault || f.ty.isNullable

/-- `Struct.all_fields`: required fields (supertypes first), then optional ones -/
def structAllFields (api : Api) (_ns : String) (s : StructT) : List Field :=
  let fs := (match s.parent with
    | none => []
    | some p => chainFields api api.typeCount p) ++ s.fields
  fs.filter (! ·.optional) ++ fs.filter (·.optional)

/-- `Union.all_fields` -/
def unionAllFields (api : Api) (_ns : String) (u : UnionT) : List Field :=
  (match u.parent with
   | none => []
   | some p => chainFields api api.typeCount p) ++ u.fields

def allFields (api : Api) (ns : String) : UserT → List Field
  | .struct s => structAllFields api ns s
  | .union u => unionAllFields api ns u

def directSubtypes (api : Api) (q : QName) : List QName :=
  match api.find? q with
  | some (.struct s) => (s.subtypes.getD []).map (·.2)
  | _ => []

/-- `Struct.get_all_subtypes_with_tags`: breadth first over the tree of enumerated subtypes -/
def bfsSubtypes (api : Api) : Nat → List QName → List QName
  | 0, _ => []
  | _, [] => []
  | fuel + 1, q :: rest => q :: bfsSubtypes api fuel (rest ++ directSubtypes api q)

def allSubtypes (api : Api) (s : StructT) : List QName :=
  bfsSubtypes api (api.typeCount + 1) ((s.subtypes.getD []).map (·.2))

def StructT.hasSubtypes (s : StructT) : Bool := s.subtypes.isSome

/-- `swift_helpers.datatype_has_subtypes` / `objc_datatype_value_type_tuples`: one `List` layer, then one `Map`
layer, then a struct that enumerates subtypes -/
def tyHasSubtypes (api : Api) (t : Ty) : Bool :=
  let t := match t with
    | .list e => e
    | t => t
  let t := match t with
    | .map _ v => v
    | t => t
  match t with
  | .user q =>
    match api.find? q with
    | some (.struct s) => s.hasSubtypes
    | _ => false
  | _ => false

/-! ## Type expressions of the target languages -/

/-- what a generated name stands for -/
inductive TRef where
  | swType (q : QName)                 -- `Ns.Name`
  | swSer (q : QName)                  -- `Ns.NameSerializer`
  | swWrap (q : QName)                 -- `DBXNsName`
  | swTag (q : QName) (tag : String)   -- `DBXNsNameTag`
  | swRoute (ns name : String) (version : Nat)   -- `Ns.routeFunc`
  | swRoutes (ns : String) (app : Bool)          -- `NsRoutes` / `NsAppAuthRoutes`
  | swRoutesObjc (ns : String) (app : Bool)      -- `DBXNsRoutes`
  | swReq (ns route : String) (version : Nat) (req : String)   -- `DBXNsRouteRequest[Vn]`
  | ocClass (q : QName)                -- `DBNSName`
  | ocSer (q : QName)                  -- `DBNSNameSerializer`
  | ocTagEnum (q : QName)              -- `DBNSNameTag`
  | ocTagConst (q : QName) (tag : String)
  | ocRouteVar (ns name : String) (version : Nat)
  | ocRoutes (ns auth : String)        -- `DBNSUserAuthRoutes`
  | raw (s : String)                   -- a name printed without any declaration behind it (leaked alias name)
  deriving Repr, Inhabited, DecidableEq

/-- the references that name a user-defined *type* (the ones the closure theorem is about) -/
def TRef.typeQ? : TRef → Option QName
  | .swType q | .swSer q | .swWrap q | .ocClass q | .ocSer q => some q
  | _ => none

def ocClassPrefix (q : QName) : String := "DB" ++ ocCaps q.ns ++ ocUpper q.name
/-- `obj_c_helpers.fmt_route_var` -/
def ocRouteVarName (ns name : String) (version : Nat) : String :=
  let r := "DB" ++ ocCaps ns ++ ocUpper name
  if version != 1 then r ++ "V" ++ toString version else r
/-- `obj_c_helpers.fmt_routes_class` -/
def ocRoutesClass (ns auth : String) : String :=
  "DB" ++ ocCaps ns ++ ocUpper (if auth == "noauth" then "user" else auth) ++ "AuthRoutes"
def ocRouteObjClass (ns : String) : String := "DB" ++ ocCaps ns ++ "RouteObjects"

def swRoutesClassName (ns : String) (app : Bool) : String :=
  swClass (if app then ns ++ "AppAuth" else ns) ++ "Routes"

/-- the text of a reference under the backend's naming scheme -/
def TRef.text : TRef → String
  | .swType q => swClass q.ns ++ "." ++ swClass q.name
  | .swSer q => swClass q.ns ++ "." ++ swClass q.name ++ "Serializer"
  | .swWrap q => "DBX" ++ swClass q.ns ++ swClass q.name
  | .swTag q tag => "DBX" ++ swClass q.ns ++ swClass q.name ++ swClass tag
  | .swRoute ns name v => swClass ns ++ "." ++ swFunc name v
  | .swRoutes ns app => swRoutesClassName ns app
  | .swRoutesObjc ns app => "DBX" ++ swRoutesClassName ns app
  | .swReq ns route v req =>
    let n := "DBX" ++ swClass ns ++ swClass route ++ req
    if v > 1 then n ++ "V" ++ toString v else n
  | .ocClass q => ocClassPrefix q
  | .ocSer q => ocClassPrefix q ++ "Serializer"
  | .ocTagEnum q => "DB" ++ ocCaps q.ns ++ ocUpper q.name ++ ocUpper "tag"
  | .ocTagConst q tag => "DB" ++ ocCaps q.ns ++ ocUpper q.name ++ ocUpper tag
  | .ocRouteVar ns name v => ocRouteVarName ns name v
  | .ocRoutes ns auth => ocRoutesClass ns auth
  | .raw s => s

inductive TExpr where
  | lit (s : String)
  | ref (r : TRef) (suffix : String)     -- the reference text followed by `suffix` (`()`, ` *`, ...)
  | cat (a b : TExpr)
  deriving Repr, Inhabited

def TExpr.render : TExpr → String
  | .lit s => s
  | .ref r suf => r.text ++ suf
  | .cat a b => a.render ++ b.render

def TExpr.refs : TExpr → List TRef
  | .lit _ => []
  | .ref r _ => [r]
  | .cat a b => a.refs ++ b.refs

instance : Append TExpr := ⟨TExpr.cat⟩

def lookupD (tbl : List (String × String)) (k : String) (d : String) : String :=
  match tbl.find? (·.1 == k) with
  | some p => p.2
  | none => d

/-- the name printed for a type that is neither user-defined nor in the table: `fmt_class(data_type.name)` -/
def Ty.irName : Ty → String
  | .prim c => c
  | .ts _ => "Timestamp"
  | .user q => q.name
  | .alias q => q.name
  | .list _ => "List"
  | .map _ _ => "Map"
  | .nullable _ => "Nullable"

/-- table entry or `fmt_class(name)`; a leaked alias name is a `raw` reference (nothing declares it) -/
def tableOr (tbl : List (String × String)) (t : Ty) (fmtName : String → String) : TExpr :=
  match tbl.find? (·.1 == t.cls) with
  | some p => .lit p.2
  | none =>
    match t with
    | .alias q => .ref (.raw (fmtName q.name)) ""
    | _ => .lit (fmtName t.irName)

/-- `swift_helpers.fmt_type`. `unwrap_nullable` removes one `Nullable`; a second one directly below is formatted by
its class name (never produced by the frontend). -/
def swType : Ty → TExpr
  | .nullable t =>
    (match t with
     | .nullable _ => tableOr Tables.swiftTypeTable t swClass
     | t => swType t) ++ .lit "?"
  | .user q => .ref (.swType q) ""
  | .list e => .lit (lookupD Tables.swiftTypeTable "List" "List") ++ .lit "<" ++ swType e ++ .lit ">"
  | .map k v => .lit (lookupD Tables.swiftTypeTable "Map" "Map") ++ .lit "<" ++ swType k ++ .lit ", " ++ swType v ++ .lit ">"
  | t => tableOr Tables.swiftTypeTable t swClass

/-- `swift_helpers.fmt_objc_type` after `unwrap_nullable`: list elements are formatted with `allow_nullable=False`
(their `Nullable` is dropped), map values with the default `allow_nullable=True` (a `?` is appended) -/
def swObjcTypeU : Ty → TExpr
  | .user q => .ref (.swWrap q) ""
  | .list (.nullable e) => .lit (lookupD Tables.swiftObjcTypeTable "List" "List") ++ .lit "<" ++ swObjcTypeU e ++ .lit ">"
  | .list e => .lit (lookupD Tables.swiftObjcTypeTable "List" "List") ++ .lit "<" ++ swObjcTypeU e ++ .lit ">"
  | .map _ (.nullable v) => .lit (lookupD Tables.swiftObjcTypeTable "Map" "Map") ++ .lit "<String, " ++
      (swObjcTypeU v ++ .lit "?") ++ .lit ">"
  | .map _ v => .lit (lookupD Tables.swiftObjcTypeTable "Map" "Map") ++ .lit "<String, " ++ swObjcTypeU v ++ .lit ">"
  | t => tableOr Tables.swiftObjcTypeTable t swClass

/-- `swift_helpers.fmt_objc_type(data_type, allow_nullable)` -/
def swObjcType (t : Ty) (allowNullable : Bool := true) : TExpr :=
  match t with
  | .nullable t => if allowNullable then swObjcTypeU t ++ .lit "?" else swObjcTypeU t
  | t => swObjcTypeU t

/-- `swift.fmt_serial_type` -/
def swSerialType : Ty → TExpr
  | .nullable _ => .lit "NullableSerializer"
  | .user q => .ref (.swSer q) ""
  | .list e => .lit (lookupD Tables.swiftSerialTypeTable "List" "List") ++ .lit "<" ++ swSerialType e ++ .lit ">"
  | .map k v => .lit (lookupD Tables.swiftSerialTypeTable "Map" "Map") ++ .lit "<" ++ swSerialType k ++ .lit ", " ++
      swSerialType v ++ .lit ">"
  | t => tableOr Tables.swiftSerialTypeTable t swClass

/-- `swift.fmt_serial_obj` -/
def swSerialObj : Ty → TExpr
  | .nullable t =>
    .lit "NullableSerializer(" ++
    (match t with
     | .nullable _ => .lit "Serialization._" ++ tableOr Tables.swiftSerialTypeTable t swClass
     | t => swSerialObj t) ++ .lit ")"
  | .user q => .ref (.swSer q) "()"
  | .list e => .lit (lookupD Tables.swiftSerialTypeTable "List" "List") ++ .lit "(" ++ swSerialObj e ++ .lit ")"
  | .map _ v => .lit (lookupD Tables.swiftSerialTypeTable "Map" "Map") ++ .lit "(" ++ swSerialObj v ++ .lit ")"
  | .ts fmt => .lit (lookupD Tables.swiftSerialTypeTable "Timestamp" "Timestamp") ++ .lit ("(\"" ++ fmt ++ "\")")
  | t => .lit "Serialization._" ++ tableOr Tables.swiftSerialTypeTable t swClass

/-- `obj_c_helpers.fmt_type(data_type, tag, has_default, no_ptr, is_prop)` -/
def ocType (t : Ty) (tag : Bool := false) (hasDefault : Bool := false) (noPtr : Bool := false)
    (isProp : Bool := false) : TExpr :=
  let (u, nullable) := t.unwrap
  let body := go u noPtr
  if tag && (nullable || hasDefault) && !isProp then .lit "nullable " ++ body else body
where
  /-- the recursive call `fmt_type(data_type)` on the element type (default flags); `unwrap_nullable` is applied
  before the call and again inside it, here: every `Nullable` layer is dropped -/
  inner : Ty → TExpr
    | .nullable t => inner t
    | .user q => .ref (.ocClass q) " *"
    | .list e => .lit (lookupD Tables.objcPrimitiveTable "List" "List") ++ .lit "<" ++ inner e ++ .lit "> *"
    | .map _ v => .lit (lookupD Tables.objcPrimitiveTable "Map" "Map") ++ .lit "<NSString *, " ++ inner v ++ .lit "> *"
    | t => tableOr Tables.objcPrimitiveTable t ocUpper
  go : Ty → Bool → TExpr
    | .user q, noPtr => .ref (.ocClass q) (if noPtr then "" else " *")
    | .list e, noPtr => .lit (lookupD Tables.objcPrimitiveTable "List" "List") ++ .lit "<" ++ inner e ++
        .lit (if noPtr then ">" else "> *")
    | .map _ v, noPtr => .lit (lookupD Tables.objcPrimitiveTable "Map" "Map") ++ .lit "<NSString *, " ++ inner v ++
        .lit (if noPtr then ">" else "> *")
    | t, _ => tableOr Tables.objcPrimitiveTable t ocUpper

def stripPtr (s : String) : String := (s.replace " *" "").replace "*" ""

/-- `obj_c_helpers.fmt_class_type(data_type, suppress_ptr)` -/
def ocClassType (t : Ty) (suppressPtr : Bool := false) : TExpr :=
  match t.unwrap.1 with
  | .user q => .ref (.ocClass q) ""
  | .list e =>
    let h := lookupD Tables.objcPrimitiveTable "List" "List"
    .lit (if suppressPtr then stripPtr h else h) ++ .lit "<" ++ ocType e.unwrap.1 ++ .lit ">"
  | .map _ v =>
    let h := lookupD Tables.objcPrimitiveTable "Map" "Map"
    .lit (if suppressPtr then stripPtr h else h) ++ .lit "<NSString *, " ++ ocType v.unwrap.1 ++ .lit ">"
  | u =>
    match tableOr Tables.objcPrimitiveTable u ocUpper with
    | .lit s => .lit (if suppressPtr then stripPtr s else s)
    | e => e

/-- `obj_c_helpers.fmt_serial_obj` -/
def ocSerialObj (t : Ty) : TExpr :=
  match t.unwrap.1 with
  | .user q => .ref (.ocSer q) ""
  | u => tableOr Tables.objcSerialTable u ocUpper

/-- `obj_c_helpers.fmt_validator` -/
def ocValidator (t : Ty) : TExpr := tableOr Tables.objcValidatorTable t ocUpper

/-! ## Declarations -/

structure Decl where
  unit : String          -- "" (Swift) | "h" | "m"
  kind : String          -- class enum let var case static_let func extension | interface implementation property
                         -- enum enum_const method static_var
  scope : List String
  name : String
  refs : List TRef := []
  deriving Repr, Inhabited

def Decl.key (d : Decl) : String × String × List String × String := (d.unit, d.kind, d.scope, d.name)

structure Variant where
  reqKey : String
  /-- objc backend: the function-name suffix -/
  suffix : String := ""
  /-- extra client arguments (name, value, type) -/
  extra : List (String × String × String) := []
  deriving Repr, Inhabited

structure Options where
  className : String
  transport : String
  moduleName : String
  auth : Option String := none
  /-- `--client-args`: style -> variants -/
  clientArgs : List (String × List Variant) := []
  /-- `--style-to-request` -/
  styleToRequest : List (String × String) := []
  deriving Repr, Inhabited

def Options.variants (o : Options) (style : Option String) : List (Option Variant) :=
  match style with
  | none => [none]
  | some s =>
    match o.clientArgs.find? (·.1 == s) with
    | none => [none]
    | some p => p.2.map some

def Options.isBackground (o : Options) (style : Option String) : Bool :=
  match style with
  | none => false
  | some s => (o.clientArgs.find? (·.1 == s)).isSome

def Options.request (o : Options) (r : Route) (v : Option Variant) : String :=
  match v with
  | some v => lookupD o.styleToRequest v.reqKey "?"
  | none => lookupD o.styleToRequest (r.style.getD "None") "?"

def fieldRefs (m : Ty → TExpr) (fs : List Field) : List TRef := fs.flatMap fun f => (m f.ty).refs

/-! ### swift_types -/

def swStructDecls (api : Api) (ns : String) (s : StructT) : List Decl :=
  let N := swClass ns
  let T := swClass s.name
  let af := structAllFields api ns s
  let subs := if s.hasSubtypes then allSubtypes api s else []
  let parentRefs := match s.parent with
    | none => []
    | some p => (swType (.user p)).refs
  let dfl := if !s.hasSubtypes || s.catchAll then
      af.filterMap fun f => if f.hasDefault then f.dfltTag.map fun (u, _) => TRef.swSer u else none
    else []
  -- the initialiser (all fields, inherited ones included) is only written when the struct has fields of its own
  let initRefs := if s.fields.isEmpty then [] else fieldRefs swType af
  [ { unit := "", kind := "class", scope := [N], name := T, refs := parentRefs ++ fieldRefs swType s.fields ++ initRefs },
    { unit := "", kind := "class", scope := [N], name := T ++ "Serializer",
      refs := fieldRefs swSerialObj af ++ dfl ++ subs.flatMap fun q => [TRef.swType q, TRef.swSer q] } ] ++
  s.fields.map fun f => { unit := "", kind := "let", scope := [N, T], name := swVar f.name, refs := (swType f.ty).refs }

def swUnionDecls (api : Api) (ns : String) (u : UnionT) : List Decl :=
  let N := swClass ns
  let T := swClass u.name
  let af := unionAllFields api ns u
  [ { unit := "", kind := "enum", scope := [N], name := T, refs := fieldRefs swType af },
    { unit := "", kind := "class", scope := [N], name := T ++ "Serializer", refs := fieldRefs swSerialObj af } ] ++
  af.map fun f => { unit := "", kind := "case", scope := [N, T], name := swVar f.name, refs := (swType f.ty).refs }

def swRouteDecl (ns : String) (r : Route) : Decl :=
  { unit := "", kind := "static_let", scope := [swClass ns], name := swFunc r.name r.version,
    refs := (swSerialObj r.arg).refs ++ (swSerialObj r.result).refs ++ (swSerialObj r.error).refs }

def swiftTypesDecls (api : Api) : List Decl :=
  api.nss.flatMap fun ns =>
    { unit := "", kind := "class", scope := [], name := swClass ns.name : Decl } ::
    (ns.types.flatMap fun t => match t with
      | .struct s => swStructDecls api ns.name s
      | .union u => swUnionDecls api ns.name u) ++
    ns.routes.map (swRouteDecl ns.name)

/-! ### swift_types --objc -/

/-- `mapped_list_info`: the element type below all `List` layers (one `Nullable` is dropped at each layer) -/
def listCore : Ty → Ty
  | .list (.nullable l@(.list _)) => listCore l
  | .list l@(.list _) => listCore l
  | .list (.nullable t) => t
  | .list t => t
  | t => t

/-- user types named by `swift_union_arg_to_objc` / `factory` for a tag of type `t` -/
def factoryRefs (t : Ty) : List TRef :=
  match t.unwrap.1 with
  | l@(.list _) =>
    match listCore l with
    | .user q => [.swWrap q]
    | _ => []
  | .user q => [.swWrap q]
  | _ => []

def swObjcStructDecls (api : Api) (ns : String) (s : StructT) : List Decl :=
  let q : QName := ⟨ns, s.name⟩
  let C := (TRef.swWrap q).text
  let af := structAllFields api ns s
  let parentRefs := match s.parent with
    | none => []
    | some p => (swObjcType (.user p)).refs
  let initRefs := if s.fields.isEmpty then [] else fieldRefs (swObjcType ·) af
  let subs := if s.hasSubtypes then (allSubtypes api s).flatMap fun q => [TRef.swType q, TRef.swWrap q] else []
  { unit := "", kind := "class", scope := [], name := C,
    refs := [TRef.swType q] ++ parentRefs ++ fieldRefs (swObjcType ·) s.fields ++ initRefs ++ subs } ::
  s.fields.map fun f => { unit := "", kind := "var", scope := [C], name := swVar f.name, refs := (swObjcType f.ty).refs }

def swObjcUnionDecls (api : Api) (ns : String) (u : UnionT) : List Decl :=
  let q : QName := ⟨ns, u.name⟩
  let C := (TRef.swWrap q).text
  let af := unionAllFields api ns u
  { unit := "", kind := "class", scope := [], name := C,
    refs := [TRef.swType q] ++ af.flatMap fun f => TRef.swTag q f.name :: factoryRefs f.ty } ::
  (af.map fun f => { unit := "", kind := "var", scope := [C], name := "as" ++ swClass f.name, refs := [TRef.swTag q f.name] : Decl }) ++
  af.flatMap fun f =>
    let TC := (TRef.swTag q f.name).text
    let tagType := swObjcType f.ty
    { unit := "", kind := "class", scope := [], name := TC,
      refs := [TRef.swWrap q, TRef.swType q] ++ tagType.refs : Decl } ::
    (if tagType.render = "" then [] else
      [{ unit := "", kind := "var", scope := [TC], name := swVar f.name, refs := tagType.refs }])

def swiftTypesObjcDecls (api : Api) : List Decl :=
  api.nss.flatMap fun ns => ns.types.flatMap fun t => match t with
    | .struct s => swObjcStructDecls api ns.name s
    | .union u => swObjcUnionDecls api ns.name u

/-! ### swift_client -/

/-- `_valid_route_for_auth_type`; `none` = Python raises (`'app' in None`) -/
def swValid (o : Options) (r : Route) : Option Bool :=
  match r.auth with
  | none => none
  | some a =>
    let appOnly := a == "app"
    let incl := (a.splitOn "app").length > 1
    some (if o.auth == some "app" then appOnly || incl else !appOnly)

def isApp (o : Options) : Bool := o.auth == some "app"

def validRoutes (o : Options) (ns : Namespace) : List Route := ns.routes.filter fun r => swValid o r == some true

/-- some route carries no `auth` attribute: `'app' in None` / `None.split(',')` raise -/
def authMissing (api : Api) : Option String :=
  (api.nss.flatMap fun ns => ns.routes.filterMap fun r =>
    if r.auth.isNone then some s!"route {ns.name}.{r.name} has no auth attribute" else none).head?

/-- the argument list of a route function (`_get_route_args`, Swift flavour): type references only -/
def swRouteArgRefs (api : Api) (_ns : String) (r : Route) : List TRef :=
  match r.arg with
  | .user q =>
    match api.find? q with
    | some (.struct s) => fieldRefs swType (structAllFields api q.ns s)
    | _ => (swType r.arg).refs                            -- a union: `fmt_type`, the namespace of the TYPE
  | t => if t.isVoid then [] else (swType t).refs

def argIsStruct (api : Api) (t : Ty) : Bool :=
  match t with
  | .user q => match api.find? q with
    | some (.struct _) => true
    | _ => false
  | _ => false

def swClientFuncs (api : Api) (o : Options) (ns : Namespace) : List Decl :=
  let RC := swRoutesClassName ns.name (isApp o)
  (validRoutes o ns).flatMap fun r =>
    (o.variants r.style).map fun _ =>
      { unit := "", kind := "func", scope := [RC], name := swFunc r.name r.version,
        refs := swRouteArgRefs api ns.name r ++ (swSerialType r.result).refs ++ (swSerialType r.error).refs ++
          [TRef.swRoute ns.name r.name r.version] ++ (if argIsStruct api r.arg then (swType r.arg).refs else []) }

def swClientNsDecls (api : Api) (o : Options) (ns : Namespace) : List Decl :=
  if (validRoutes o ns).isEmpty then [] else
  let funcs := swClientFuncs api o ns
  { unit := "", kind := "class", scope := [], name := swRoutesClassName ns.name (isApp o),
    refs := funcs.flatMap (·.refs) } :: funcs

/-- routes with a style that has client arguments ("background compatible") -/
def bgRoutes (o : Options) (api : Api) : List (Namespace × Route) :=
  api.nss.flatMap fun ns => ((validRoutes o ns).filter fun r => o.isBackground r.style).map fun r => (ns, r)

def swClientCommon (api : Api) (o : Options) (objc : Bool) : List Decl :=
  let C := (if objc then "DBX" else "") ++ o.className
  let members : List Decl := (api.nss.filter fun ns => !(validRoutes o ns).isEmpty).map fun ns =>
    { unit := "", kind := "var", scope := [C], name := swVar ns.name,
      refs := [if objc then TRef.swRoutesObjc ns.name (isApp o) else TRef.swRoutes ns.name (isApp o)] }
  { unit := "", kind := "class", scope := [], name := C, refs := members.flatMap (·.refs) } :: members

def swRequestBox (api : Api) (o : Options) : List Decl :=
  let bg := bgRoutes o api
  if bg.isEmpty then [] else
  let B := o.className ++ "RequestBox"
  let cases : List Decl := bg.map fun (ns, r) =>
    { unit := "", kind := "case", scope := [B], name := ns.name ++ "_" ++ swFunc r.name r.version,
      refs := (swSerialType r.result).refs ++ (swSerialType r.error).refs }
  [{ unit := "", kind := "enum", scope := [], name := B, refs := cases.flatMap (·.refs) }] ++ cases ++
  [{ unit := "", kind := "enum", scope := [], name := (if isApp o then "AppAuth" else "") ++ "ReconnectionHelpers",
     refs := bg.map fun (ns, r) => TRef.swRoute ns.name r.name r.version }]

def swiftClientDecls (api : Api) (o : Options) : List Decl :=
  (api.nss.flatMap (swClientNsDecls api o)) ++ swClientCommon api o false ++ swRequestBox api o

/-! ### swift_client --objc -/

/-- `_route_objc_func_suffix` -/
def objcFuncSuffix : Option Variant → String
  | none => ""
  | some v => match v.extra.getLast? with
    | none => ""
    | some (_, _, ty) => ty

def structHasDefaults (api : Api) (t : Ty) : Bool :=
  match t with
  | .user q =>
    match api.find? q with
    | some (.struct s) => (structAllFields api q.ns s).any (·.optional)
    | _ => false
  | _ => false

/-- argument types of the Objective-C compatible route function (`_route_args(objc=True, include_defaults)`) -/
def swObjcRouteArgRefs (api : Api) (r : Route) (includeDefaults : Bool) : List TRef :=
  match r.arg with
  | .user q =>
    match api.find? q with
    | some (.struct s) =>
      fieldRefs (swObjcType ·) ((structAllFields api q.ns s).filter fun f => includeDefaults || !f.optional)
    | _ => (swObjcType r.arg).refs
  | t => if t.isVoid then [] else (swObjcType t).refs

/-- `_route_objc_result_type` raises for an error type that is neither Void nor user-defined -/
def badErrorType (r : Route) : Bool := !(r.error.isUser || r.error.isVoid)

/-- `_route_objc_result_type` + the body of the request wrapper class -/
def swReqClassRefs (r : Route) : List TRef :=
  (swSerialType r.result).refs ++ (swSerialType r.error).refs ++
  (match r.error with
   | .user q => [TRef.swWrap q]
   | _ => []) ++
  (if r.result.isVoid then [] else (swObjcType r.result).refs)

/-- is the request wrapper of `r` written by this run? (valid for the auth type and not "already defined by the user
auth client") -/
def reqShown (o : Options) (r : Route) : Bool :=
  swValid o r == some true && !(isApp o && r.auth != some "app")

/-- keep the LAST entry of every name (`objc_class_to_route[objc_class] = ...` in a loop) -/
def dedupLast : List (String × Decl) → List (String × Decl)
  | [] => []
  | p :: rest => if rest.any (·.1 == p.1) then dedupLast rest else p :: dedupLast rest

def swReqDecls (o : Options) (ns : Namespace) : List Decl :=
  let all : List (String × Route) := ns.routes.flatMap fun r =>
    (o.variants r.style).map fun v => ((TRef.swReq ns.name r.name r.version (o.request r v)).text, r)
  ((dedupLast (all.map fun (n, r) => (n, { unit := "", kind := if reqShown o r then "class" else "hidden",
                                            scope := [], name := n, refs := swReqClassRefs r : Decl }))).map (·.2)).filter
    (·.kind != "hidden")

def swClientObjcFuncs (api : Api) (o : Options) (ns : Namespace) : List Decl :=
  let RC := "DBX" ++ swRoutesClassName ns.name (isApp o)
  ((validRoutes o ns).filter (! ·.deprecated)).flatMap fun r =>
    (o.variants r.style).flatMap fun v =>
      let req := TRef.swReq ns.name r.name r.version (o.request r v)
      let mk (inc : Bool) : Decl :=
        { unit := "", kind := "func", scope := [RC], name := swFunc r.name r.version ++ objcFuncSuffix v,
          refs := swObjcRouteArgRefs api r inc ++ [req] }
      if structHasDefaults api r.arg then [mk true, mk false] else [mk true]

def swClientObjcNsDecls (api : Api) (o : Options) (ns : Namespace) : List Decl :=
  if (validRoutes o ns).isEmpty then [] else
  let funcs := swClientObjcFuncs api o ns
  { unit := "", kind := "class", scope := [], name := "DBX" ++ swRoutesClassName ns.name (isApp o),
    refs := TRef.swRoutes ns.name (isApp o) :: funcs.flatMap (·.refs) } :: funcs ++ swReqDecls o ns

def swRequestBoxObjc (api : Api) (o : Options) : List Decl :=
  let bg := bgRoutes o api
  if bg.isEmpty then [] else
  [{ unit := "", kind := "extension", scope := [], name := o.className ++ "RequestBox",
     refs := bg.map fun (ns, r) =>
       TRef.swReq ns.name r.name r.version (o.request r ((o.variants r.style).head?.getD none)) }]

def swiftClientObjcDecls (api : Api) (o : Options) : List Decl :=
  (api.nss.flatMap (swClientObjcNsDecls api o)) ++ swClientCommon api o true ++ swRequestBoxObjc api o

/-! ### obj_c_types -/

/-- `_cstor_name_from_fields` + the argument labels: the full selector -/
def cstorSelector (fs : List Field) : String :=
  match fs with
  | [] => "initDefault"
  | f :: rest => "initWith" ++ ocUpper f.name ++ ":" ++ String.join (rest.map fun g => ocVar g.name ++ ":")

def serializerDecls (q : QName) : List Decl :=
  let C := ocClassPrefix q
  [ { unit := "h", kind := "interface", scope := [], name := C ++ "Serializer", refs := [TRef.ocClass q] },
    { unit := "h", kind := "method", scope := [C ++ "Serializer"], name := "serialize:", refs := [TRef.ocClass q] },
    { unit := "h", kind := "method", scope := [C ++ "Serializer"], name := "deserialize:", refs := [TRef.ocClass q] },
    { unit := "m", kind := "implementation", scope := [], name := C },
    { unit := "m", kind := "implementation", scope := [], name := C ++ "Serializer" } ]

def ocStructDecls (api : Api) (ns : String) (s : StructT) : List Decl :=
  let q : QName := ⟨ns, s.name⟩
  let C := ocClassPrefix q
  let af := structAllFields api ns s
  let noDef := af.filter (! ·.optional)
  let parentRefs := match s.parent with
    | none => []
    | some p => [TRef.ocClass p]
  let full : Decl := { unit := "h", kind := "method", scope := [C], name := cstorSelector af,
                       refs := af.flatMap fun f => (ocType f.ty true f.hasDefault).refs }
  let dflt : List Decl := if af.any (·.optional) then
      [{ unit := "h", kind := "method", scope := [C], name := cstorSelector noDef,
         refs := noDef.flatMap fun f => (ocType f.ty true f.hasDefault).refs }] else []
  let unav : List Decl := if s.parent.isNone then [{ unit := "h", kind := "method", scope := [C], name := "init" }] else []
  let props : List Decl := s.fields.map fun f =>
    { unit := "h", kind := "property", scope := [C], name := ocVar f.name, refs := (ocType f.ty true false false true).refs }
  { unit := "h", kind := "interface", scope := [], name := C,
    refs := parentRefs ++ props.flatMap (·.refs) ++ full.refs } :: props ++ [full] ++ dflt ++ unav ++ serializerDecls q

def ocUnionDecls (api : Api) (ns : String) (u : UnionT) : List Decl :=
  let q : QName := ⟨ns, u.name⟩
  let C := ocClassPrefix q
  let af := unionAllFields api ns u
  let TG := (TRef.ocTagEnum q).text
  let consts : List Decl := af.map fun f =>
    { unit := "h", kind := "enum_const", scope := [C, TG], name := (TRef.ocTagConst q f.name).text }
  let props : List Decl := (af.filter (! ·.ty.isVoid)).map fun f =>
    { unit := "h", kind := "property", scope := [C], name := ocVar f.name, refs := (ocType f.ty true false false true).refs }
  let cstors : List Decl := af.map fun f =>
    { unit := "h", kind := "method", scope := [C],
      name := "initWith" ++ ocUpper f.name ++ (if f.ty.isVoid then "" else ":"),
      refs := if f.ty.isVoid then [] else (ocType f.ty true).refs }
  let iss : List Decl := af.map fun f => { unit := "h", kind := "method", scope := [C], name := "is" ++ ocUpper f.name }
  { unit := "h", kind := "interface", scope := [], name := C,
    refs := TRef.ocTagEnum q :: (af.map fun f => TRef.ocTagConst q f.name) ++ props.flatMap (·.refs) } ::
  { unit := "h", kind := "enum", scope := [C], name := TG, refs := af.map fun f => TRef.ocTagConst q f.name } ::
  consts ++
  [{ unit := "h", kind := "property", scope := [C], name := "tag", refs := [TRef.ocTagEnum q] }] ++
  props ++ cstors ++ [{ unit := "h", kind := "method", scope := [C], name := "init" }] ++ iss ++
  [{ unit := "h", kind := "method", scope := [C], name := "tagName" }] ++ serializerDecls q

/-- user types named by `_fmt_serialization_call` (the primitive wrappers are passed through, containers recurse) -/
def ocSerCallRefs : Ty → List TRef
  | .nullable t => ocSerCallRefs t
  | .list e => ocSerCallRefs e
  | .map _ v => ocSerCallRefs v
  | .user q => [.ocSer q]
  | _ => []

/-- what the accessor of a route object mentions: result / error classes and the container (de)serialisation blocks
(the serialisation block of a container ARGUMENT is built from the RESULT type, as in the code) -/
def ocRouteObjRefs (r : Route) : List TRef :=
  (if r.result.isVoid then [] else (ocClassType r.result true).refs) ++
  (if r.error.isVoid then [] else (ocClassType r.error true).refs) ++
  (if r.arg.isList || r.arg.isMap then ocSerCallRefs r.result else []) ++
  (if r.result.isList || r.result.isMap then ocSerCallRefs r.result else [])

def ocRouteObjDecls (ns : Namespace) : List Decl :=
  if ns.routes.isEmpty then [] else
  let C := ocRouteObjClass ns.name
  let vars := ns.routes.map fun r => TRef.ocRouteVar ns.name r.name r.version
  [ { unit := "h", kind := "interface", scope := [], name := C, refs := vars },
    { unit := "m", kind := "implementation", scope := [], name := C } ] ++
  ns.routes.flatMap fun r =>
    let V := ocRouteVarName ns.name r.name r.version
    [ { unit := "h", kind := "method", scope := [C], name := V },
      { unit := "m", kind := "static_var", scope := [C], name := V },
      { unit := "m", kind := "method", scope := [C], name := V, refs := ocRouteObjRefs r } ]

def objcTypesDecls (api : Api) : List Decl :=
  api.nss.flatMap fun ns =>
    (ns.types.flatMap fun t => match t with
      | .struct s => ocStructDecls api ns.name s
      | .union u => ocUnionDecls api ns.name u) ++ ocRouteObjDecls ns

/-! ### obj_c_client -/

/-- `_should_generate_route` -/
def ocShould (auth : String) (r : Route) : Bool :=
  match r.auth with
  | none => false
  | some a =>
    let parts := (a.splitOn ",").map fun p => p.trimAscii.toString
    parts.contains auth || (parts.contains "noauth" && auth == "user")

/-- (label, type) pairs of `_get_route_args` / `_get_default_route_args` -/
def ocRouteArgs (api : Api) (r : Route) (dflt : Bool) : List (String × TExpr) :=
  match r.arg.unwrap.1 with
  | .user q =>
    match api.find? q with
    | some (.struct s) =>
      ((structAllFields api q.ns s).filter fun f => !dflt || !f.optional).map fun f =>
        (ocVar f.name, ocType f.ty true (if dflt then false else f.hasDefault))
    | some (.union u) => if dflt then [] else [(ocVar u.name, ocType r.arg true)]
    | none => []
  | _ => []

def ocSelector (name : String) (labels : List String) : String :=
  match labels with
  | [] => name
  | _ :: rest => name ++ ":" ++ String.join (rest.map (· ++ ":"))

def ocRouteFunc (r : Route) : String :=
  if r.version != 1 then ocVar r.name ++ "V" ++ toString r.version else ocVar r.name

def ocClientMethods (api : Api) (o : Options) (auth : String) (ns : Namespace) : List Decl :=
  let C := ocRoutesClass ns.name auth
  (ns.routes.filter (ocShould auth)).flatMap fun r =>
    (o.variants r.style).flatMap fun v =>
      let suffix := (v.map (·.suffix)).getD ""
      let extra := (v.map (·.extra)).getD []
      let retRefs := (if r.result.isVoid then [] else (ocType r.result).refs) ++
                     (if r.error.isVoid then [] else (ocType r.error).refs)
      let mk (dflt : Bool) : Decl :=
        let args := ocRouteArgs api r dflt
        { unit := "h", kind := "method", scope := [C],
          name := ocSelector (ocRouteFunc r ++ suffix) (args.map (·.1) ++ extra.map (·.1)),
          refs := retRefs ++ args.flatMap (·.2.refs) }
      -- the convenience variant is emitted first, for struct arguments (not unwrapped) with optional fields
      if r.arg.isUser && structHasDefaults api r.arg then [mk true, mk false] else [mk false]

def ocClientNsDecls (api : Api) (o : Options) (auth : String) (ns : Namespace) : List Decl :=
  if (ns.routes.filter (ocShould auth)).isEmpty then [] else
  let C := ocRoutesClass ns.name auth
  let methods := ocClientMethods api o auth ns
  [ { unit := "h", kind := "interface", scope := [], name := C, refs := methods.flatMap (·.refs) },
    { unit := "h", kind := "property", scope := [C], name := "client" },
    { unit := "h", kind := "method", scope := [C], name := "init:" },
    { unit := "m", kind := "implementation", scope := [], name := C } ] ++ methods

def objcClientDecls (api : Api) (o : Options) : List Decl :=
  let auth := o.auth.getD "None"
  let props : List Decl := (api.nss.filter fun ns => !(ns.routes.filter (ocShould auth)).isEmpty).map fun ns =>
    { unit := "h", kind := "property", scope := [o.className], name := ocVar ns.name ++ "Routes",
      refs := [TRef.ocRoutes ns.name auth] }
  api.nss.flatMap (ocClientNsDecls api o auth) ++
  [{ unit := "h", kind := "interface", scope := [], name := o.className, refs := props.flatMap (·.refs) }] ++
  props ++ [{ unit := "h", kind := "method", scope := [o.className], name := "initWithTransportClient:" },
            { unit := "m", kind := "implementation", scope := [], name := o.className }]

/-! ## The six backends -/

inductive Backend where
  | swiftTypes | swiftTypesObjc | swiftClient | swiftClientObjc | objcTypes | objcClient
  deriving DecidableEq, Repr, Inhabited

/-- what the invocation declares when it completes -/
def declsOf (b : Backend) (api : Api) (o : Options) : List Decl :=
  match b with
  | .swiftTypes => swiftTypesDecls api
  | .swiftTypesObjc => swiftTypesObjcDecls api
  | .swiftClient => swiftClientDecls api o
  | .swiftClientObjc => swiftClientObjcDecls api o
  | .objcTypes => objcTypesDecls api
  | .objcClient => objcClientDecls api o

/-- the inputs on which the invocation is known to stop with an exception (explicit error result) -/
def crash (b : Backend) (api : Api) (o : Options) : Option String :=
  match b with
  | .swiftTypes => none
  | .swiftTypesObjc => none
  | .swiftClient => (authMissing api).map ("TypeError: argument of type 'NoneType' is not iterable: " ++ ·)
  | .swiftClientObjc =>
    match authMissing api with
    | some e => some ("TypeError: argument of type 'NoneType' is not iterable: " ++ e)
    | none =>
      (api.nss.flatMap fun ns => (ns.routes.filter fun r => reqShown o r && badErrorType r).map fun r =>
        s!"AttributeError: error type of route {ns.name}.{r.name} has no attribute 'namespace'").head?
  | .objcTypes => (authMissing api).map ("AttributeError: 'NoneType' object has no attribute 'split': " ++ ·)
  | .objcClient => (authMissing api).map ("AttributeError: 'NoneType' object has no attribute 'split': " ++ ·)

def decls (b : Backend) (api : Api) (o : Options) : Except String (List Decl) :=
  match crash b api o with
  | some e => .error e
  | none => .ok (declsOf b api o)

/-! ## Specification level (written from the property text, not following the generators) -/

/-- a declared name: file unit, enclosing scope, name (a name is declared once, whatever its kind) -/
abbrev NKey := String × List String × String

def Decl.nkey (d : Decl) : NKey := (d.unit, d.scope, d.name)

/-- the declaration a user-type reference denotes under the naming scheme -/
def TRef.target? : TRef → Option NKey
  | .swType q => some ("", [swClass q.ns], swClass q.name)
  | .swSer q => some ("", [swClass q.ns], swClass q.name ++ "Serializer")
  | .swWrap q => some ("", [], "DBX" ++ swClass q.ns ++ swClass q.name)
  | .ocClass q => some ("h", [], ocClassPrefix q)
  | .ocSer q => some ("h", [], ocClassPrefix q ++ "Serializer")
  | _ => none

/-- user types an IR type definition mentions: itself, its parent, its field types, tag defaults, enumerated subtypes -/
def typeMentions (ns : String) (t : UserT) : List QName :=
  [⟨ns, t.name⟩] ++ t.parent.toList ++ t.fields.flatMap (·.ty.userTypes) ++
  (t.fields.filterMap fun f => f.dfltTag.map (·.1)) ++
  (match t with
   | .struct s => (s.subtypes.getD []).map (·.2)
   | .union _ => [])

/-- user types a route mentions: those of its argument, result and error types -/
def routeMentions (r : Route) : List QName :=
  r.arg.userTypes ++ r.result.userTypes ++ r.error.userTypes

def mentioned (api : Api) : List QName :=
  api.nss.flatMap fun ns => ns.types.flatMap (typeMentions ns.name) ++ ns.routes.flatMap routeMentions

/-- the closure invariant of an accepted specification (C02): every user type that is mentioned is registered in its
namespace. Decidable; evaluated by the driver on every API description of the suite. -/
def ApiWF (api : Api) : Prop := ∀ q ∈ mentioned api, (api.find? q).isSome = true

instance (api : Api) : Decidable (ApiWF api) := by unfold ApiWF; exact inferInstance

/-- the Swift outputs in which Swift type names are declared, and the Objective-C ones -/
def swiftUniverse (api : Api) : List Decl := swiftTypesDecls api ++ swiftTypesObjcDecls api
def objcUniverse (api : Api) : List Decl := objcTypesDecls api

def declUniverse (b : Backend) (api : Api) : List Decl :=
  match b with
  | .objcTypes | .objcClient => objcUniverse api
  | _ => swiftUniverse api

/-- no two declarations of the output share unit, kind, scope and name: the naming scheme of the backend is injective
on the names of this API (decidable; `false` e.g. for two fields `foo_bar` / `fooBar` of one struct) -/
def nameInjective (b : Backend) (api : Api) (o : Options) : Prop := ((declsOf b api o).map Decl.key).Nodup

instance (b : Backend) (api : Api) (o : Options) : Decidable (nameInjective b api o) := by
  unfold nameInjective; exact inferInstance

/-- the declarations the property asks for, per IR item (namespace, struct, union, field, tag, serializer, route),
for the two type backends of each language -/
def itemKeys (b : Backend) (api : Api) : List (String × String × List String × String) :=
  match b with
  | .swiftTypes => api.nss.flatMap fun ns =>
      let N := swClass ns.name
      [("", "class", [], N)] ++
      (ns.types.flatMap fun t =>
        let T := swClass t.name
        [("", if t.isUnion then "enum" else "class", [N], T), ("", "class", [N], T ++ "Serializer")] ++
        (match t with
         | .struct s => s.fields.map fun f => ("", "let", [N, T], swVar f.name)
         | .union u => (unionAllFields api ns.name u).map fun f => ("", "case", [N, T], swVar f.name))) ++
      ns.routes.map fun r => ("", "static_let", [N], swFunc r.name r.version)
  | .swiftTypesObjc => api.nss.flatMap fun ns => ns.types.flatMap fun t =>
      let C := (TRef.swWrap ⟨ns.name, t.name⟩).text
      [("", "class", [], C)] ++
      (match t with
       | .struct s => s.fields.map fun f => ("", "var", [C], swVar f.name)
       | .union u => (unionAllFields api ns.name u).map fun f => ("", "class", [], (TRef.swTag ⟨ns.name, t.name⟩ f.name).text))
  | .objcTypes => api.nss.flatMap fun ns =>
      (ns.types.flatMap fun t =>
        let q : QName := ⟨ns.name, t.name⟩
        let C := ocClassPrefix q
        [("h", "interface", [], C), ("m", "implementation", [], C), ("h", "interface", [], C ++ "Serializer"),
         ("m", "implementation", [], C ++ "Serializer")] ++
        (match t with
         | .struct s => s.fields.map fun f => ("h", "property", [C], ocVar f.name)
         | .union u => (unionAllFields api ns.name u).map fun f =>
             ("h", "enum_const", [C, (TRef.ocTagEnum q).text], (TRef.ocTagConst q f.name).text))) ++
      ns.routes.flatMap fun r =>
        [("h", "method", [ocRouteObjClass ns.name], ocRouteVarName ns.name r.name r.version),
         ("m", "static_var", [ocRouteObjClass ns.name], ocRouteVarName ns.name r.name r.version)]
  | _ => []

end StoneVerif.DeclSwift
