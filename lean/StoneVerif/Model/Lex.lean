/-!
# Line-level model of `stone/frontend/lexer.py` (C11)

What is modelled: how the lexer turns *lines* into `NEWLINE` / `INDENT` / `DEDENT` tokens and into the three
layout errors it records (`Indent is not divisible by 4.`, `Line continuation must increment indent by 1.`,
`Unmatched closing parenthesis.`).  Character-level tokenisation (ply's master regex) is not modelled: the
tokens of a line are opaque, except that `(` and `)` are distinguished because they switch the `WSIGNORE`
state.  The suite `fe.lex` abstracts a text into these records with a small scanner and compares the real
lexer's token stream with `lex` on every layout variant.

Facts about the real lexer the model reproduces (each confirmed by experiment, see harness/suites/fe_lex.py):

* `Lexer.input` appends `"\n"`: every line, the last one included, is terminated by a newline.
* The newline rule is `\n+` and the comment rule is `#[^\n]*\n+`: a run of *empty* (zero length) lines is swallowed
  by the rule that consumes the end of the line before it; `_get_next_line_indent_delta` then looks at the first
  line after the run (`lookahead`).  It does NOT scan further: a space-only line or a comment-only line makes it
  return `None`, and the indentation of the line after *that* one is examined when the space-only / comment
  line's own end is consumed.
* A space-only line therefore yields a `NEWLINE` token of its own (the grammar's `NL : NL NEWLINE` absorbs it).
* A comment-only line whose `#` is preceded by spaces only yields no `NEWLINE`; if a tab precedes the `#` the
  backward scan of `t_INITIAL_comment` classifies it as a partial-line comment and a `NEWLINE` is emitted.
* A comment-only line that is the very first line of the file makes `t_INITIAL_comment` fall off its loop: no
  token and *no indentation check of the following line*.  The first line of a file is never checked either.
* Indentation counts characters removed by `str.lstrip` (spaces and tabs alike) and must be a multiple of 4;
  otherwise an error is recorded and the indentation level is left unchanged.  `INDENT` × k for k levels up
  (there is no "more than one level" error in the lexer; the parser rejects the second `INDENT`),
  `DEDENT` × k for k levels down.
* Inside parentheses (`WSIGNORE` state, a stack) newlines and comments produce no token; the indentation of every
  significant continuation line must be exactly one level above the *current block level* (`cur_indent`, which does
  not change inside parentheses, so nested parentheses do not add levels), otherwise the error
  `Line continuation must increment indent by 1.` is recorded.  Blank and comment lines inside are unconstrained.
* At the end of input with `cur_indent > 0`: a `NEWLINE` is inserted unless the last token was one, then
  `cur_indent` `DEDENT`s.
* A string literal may span physical lines; nothing inside it is seen by the rules above (`join`).
-/
namespace StoneVerif.Lex

/-- `_indent_level_to_spaces_count(1)`, the literal in `indent % 4` and in `indent_delta // 4` -/
def indentUnit : Nat := 4

/-- significant tokens of a line: opaque (`other id`) except for parentheses -/
inductive Tk where
  | other (id : Nat)
  | lpar
  | rpar
  deriving DecidableEq, Repr, Inhabited

/-- what follows the last token of a significant line -/
inductive Trail where
  | none
  | spaces
  | comment
  deriving DecidableEq, Repr, Inhabited

inductive Body where
  /-- zero characters -/
  | empty
  /-- whitespace only, at least one character -/
  | spaces
  /-- first non-whitespace character is `#`; `pure` = every character before it is a space (no tab) -/
  | comment (pure : Bool)
  /-- anything else: tokens (possibly none: a line of illegal characters), then the trailer -/
  | sig (toks : List Tk) (trail : Trail)
  deriving DecidableEq, Repr, Inhabited

/-- a logical line: `indent` = number of leading whitespace characters (`len(line) - len(line.lstrip())`) -/
structure Line where
  indent : Nat
  body : Body
  deriving DecidableEq, Repr, Inhabited

inductive Tok where
  | newline
  | indent
  | dedent
  | tk (t : Tk)
  deriving DecidableEq, Repr, Inhabited

inductive LexErr where
  /-- `Indent is not divisible by 4.` -/
  | notDiv
  /-- `Line continuation must increment indent by 1.` -/
  | contIndent
  /-- `Unmatched closing parenthesis.` -/
  | unmatchedRpar
  deriving DecidableEq, Repr, Inhabited

def Body.isEmpty : Body → Bool
  | .empty => true
  | _ => false

def Body.isSig : Body → Bool
  | .sig _ _ => true
  | _ => false

/-- a line the property calls blank: empty, space-only or comment-only -/
def Line.isBlank (l : Line) : Bool := !l.body.isSig

/-- The line `_get_next_line_indent_delta` looks at: the first line after the run of empty lines that the
`\n+` of the consuming rule swallowed; `none` at the end of the input. -/
def lookahead : List Line → Option Line
  | [] => none
  | l :: rest => if l.body.isEmpty then lookahead rest else some l

/-- `_get_next_line_indent_delta`: `(delta, errors)`; `delta = none` is Python's `None`. -/
def indentDelta (cur : Nat) : Option Line → Option Int × List LexErr
  | none => (none, [])                                   -- reached end of file
  | some l =>
    match l.body with
    | .empty => (none, [])                               -- `if not line`
    | .spaces => (none, [])                              -- only spaces: ignore indentation
    | .comment _ => (none, [])                           -- comment line: ignore indentation
    | .sig _ _ =>
      if l.indent % indentUnit > 0 then (none, [.notDiv])
      else (some (((l.indent : Int) - (cur * indentUnit : Nat)) / (indentUnit : Nat)), [])

/-- state of the lexer between two lines, and what has been produced -/
structure Res where
  toks : List Tok := []
  errs : List LexErr := []
  /-- `cur_indent` -/
  cur : Nat := 0
  /-- height of ply's state stack (0 = `INITIAL`) -/
  depth : Nat := 0
  deriving DecidableEq, Repr, Inhabited

/-- `_create_tokens_for_next_line_dent`: the dent tokens (empty = Python's `None`), the new `cur_indent`. -/
def nextLineDent (cur : Nat) (next : Option Line) : List Tok × Nat × List LexErr :=
  match indentDelta cur next with
  | (none, e) => ([], cur, e)
  | (some d, e) =>
    if d = 0 then ([], cur, e)
    else if d > 0 then (List.replicate d.toNat .indent, cur + d.toNat, e)
    else (List.replicate (-d).toNat .dedent, cur - (-d).toNat, e)

/-- `_check_for_indent` -/
def checkForIndent (cur : Nat) (next : Option Line) : List LexErr :=
  match indentDelta cur next with
  | (none, e) => e
  | (some d, e) => if d = 1 then e else e ++ [.contIndent]

/-- `t_INITIAL_NEWLINE` / `t_WSIGNORE_NEWLINE` -/
def newlineRule (cur depth : Nat) (next : Option Line) : Res :=
  if depth = 0 then
    let (dents, cur', e) := nextLineDent cur next
    { toks := .newline :: dents, errs := e, cur := cur', depth }
  else
    { toks := [], errs := checkForIndent cur next, cur, depth }

/-- how the backward scan of `t_INITIAL_comment` ends -/
inductive CommentPos where
  /-- only spaces back to the start of the input: the loop ends, the function returns `None` -/
  | fileStart
  /-- only spaces back to a newline -/
  | fullLine
  /-- some other character first (a token, a tab, a closing quote, an illegal character) -/
  | partialLine
  deriving DecidableEq, Repr

/-- `t_INITIAL_comment` / `t_WSIGNORE_comment` -/
def commentRule (pos : CommentPos) (cur depth : Nat) (next : Option Line) : Res :=
  if depth = 0 then
    match pos with
    | .fileStart => { toks := [], errs := [], cur, depth }
    | .fullLine =>
      let (dents, cur', e) := nextLineDent cur next
      { toks := dents, errs := e, cur := cur', depth }
    | .partialLine =>
      let (dents, cur', e) := nextLineDent cur next
      { toks := .newline :: dents, errs := e, cur := cur', depth }
  else
    { toks := [], errs := checkForIndent cur next, cur, depth }

/-- tokens of a significant line: `t_LPAR` pushes `WSIGNORE`, `t_RPAR` pops (an empty stack is reported) -/
def emitToks (depth : Nat) : List Tk → List Tok × List LexErr × Nat
  | [] => ([], [], depth)
  | .other i :: r => let (t, e, d) := emitToks depth r; (.tk (.other i) :: t, e, d)
  | .lpar :: r => let (t, e, d) := emitToks (depth + 1) r; (.tk .lpar :: t, e, d)
  | .rpar :: r =>
    if depth = 0 then let (t, e, d) := emitToks 0 r; (.tk .rpar :: t, .unmatchedRpar :: e, d)
    else let (t, e, d) := emitToks (depth - 1) r; (.tk .rpar :: t, e, d)

/-- one line; `first` = it is the first line of the input; `next` = `lookahead` of the lines after it -/
def stepLine (first : Bool) (cur depth : Nat) (l : Line) (next : Option Line) : Res :=
  match l.body with
  | .empty =>
    -- swallowed by the rule that consumed the previous line end, unless the input starts with it
    if first then newlineRule cur depth next else { toks := [], errs := [], cur, depth }
  | .spaces => newlineRule cur depth next
  | .comment pure =>
    commentRule (if pure then (if first then .fileStart else .fullLine) else .partialLine) cur depth next
  | .sig toks trail =>
    let (ts, es, depth') := emitToks depth toks
    let r := match trail with
      | .comment => commentRule .partialLine cur depth' next
      | _ => newlineRule cur depth' next
    { r with toks := ts ++ r.toks, errs := es ++ r.errs }

/-- all lines; `tailNext` is what `lookahead` answers once the list is exhausted (`none` for a whole input) -/
def runL (tailNext : Option Line) (first : Bool) (cur depth : Nat) : List Line → Res
  | [] => { toks := [], errs := [], cur, depth }
  | l :: rest =>
    let r1 := stepLine first cur depth l ((lookahead rest).or tailNext)
    let r2 := runL tailNext false r1.cur r1.depth rest
    { toks := r1.toks ++ r2.toks, errs := r1.errs ++ r2.errs, cur := r2.cur, depth := r2.depth }

def run (first : Bool) (cur depth : Nat) (ls : List Line) : Res := runL none first cur depth ls

/-- is the last token of `g`-then-`toks` a `NEWLINE` (`g` = the answer for the empty list) -/
def lastFlag (g : Bool) : List Tok → Bool
  | [] => g
  | t :: r => lastFlag (t == .newline) r

/-- `last_token` is `None` or a `NEWLINE` -/
def endsNL (toks : List Tok) : Bool := lastFlag true toks

/-- the end-of-input branch of `Lexer.token` -/
def flush (toks : List Tok) (cur : Nat) : List Tok :=
  if cur > 0 then (if endsNL toks then [] else [.newline]) ++ List.replicate cur .dedent else []

structure Out where
  toks : List Tok
  errs : List LexErr
  deriving DecidableEq, Repr

/-- the whole token stream of a text given as its logical lines -/
def lex (ls : List Line) : Out :=
  let r := run true 0 0 ls
  { toks := r.toks ++ flush r.toks r.cur, errs := r.errs }

/-! ## Physical lines: string literals spanning lines -/

/-- a physical line as the scanner sees it *in context*: for a line that starts inside a string literal,
`line.body` is `sig toks trail` with the tokens after the closing quote (none if the literal does not close on
this line); `openStr` = the line ends inside a string literal -/
structure PLine where
  line : Line
  openStr : Bool
  deriving DecidableEq, Repr, Inhabited

def Body.toks : Body → List Tk
  | .sig t _ => t
  | _ => []

def Body.trail : Body → Trail
  | .sig _ t => t
  | _ => .none

/-- a continuation line extends the logical line: its indentation and look are never examined -/
def merge (acc l : Line) : Line :=
  { indent := acc.indent, body := .sig (acc.body.toks ++ l.body.toks) l.body.trail }

def joinGo : Option Line → List PLine → List Line
  | none, [] => []
  | some acc, [] => [acc]
  | none, p :: ps => if p.openStr then joinGo (some p.line) ps else p.line :: joinGo none ps
  | some acc, p :: ps =>
    if p.openStr then joinGo (some (merge acc p.line)) ps else merge acc p.line :: joinGo none ps

/-- physical lines -> logical lines -/
def join (ps : List PLine) : List Line := joinGo none ps

def lexP (ps : List PLine) : Out := lex (join ps)

/-! ## What the grammar does with `NEWLINE` (specification level)

`parser.py` mentions the terminal `NEWLINE` only in `NL : NEWLINE | NL NEWLINE`, and `spec : NL | spec NL`
accepts a run at the very beginning: a stream is read by the parser up to collapsing runs of `NEWLINE` and
dropping a leading run. -/

def normGo (prevNL : Bool) : List Tok → List Tok
  | [] => []
  | t :: r =>
    if t = .newline then (if prevNL then normGo true r else .newline :: normGo true r)
    else t :: normGo false r

def norm (ts : List Tok) : List Tok := normGo true ts

/-- the significant lines only -/
def strip (ls : List Line) : List Line := ls.filter (fun l => l.body.isSig)

end StoneVerif.Lex
