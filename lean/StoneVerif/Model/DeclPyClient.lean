/-
Declaration-level model of the `python_client` backend (C14): which methods the generated client class
offers, with which parameters, and what a call of such a method does.

Code-following part (same branches, same order as the Python):
* `stone/backends/helpers.py`         `split_words`, `fmt_underscores`, `fmt_pascal`
* `stone/backends/python_helpers.py`  `fmt_func`, `fmt_class`, `fmt_var`, `fmt_namespace`, `check_route_name_conflict`
* `stone/backend.py`                  `remove_aliases_from_api` (its effect on field / route types: `stripFirst`)
* `stone/ir/data_types.py`            `Struct.all_fields` (`all_required_fields + all_optional_fields`)
* `stone/backends/python_client.py`   `generate`, `_generate_imports`, `_generate_routes` (no `-w`),
                                      `_generate_route_helper`, `_generate_route_method_decl`,
                                      `_maybe_generate_deprecation_warning`, `_generate_python_value`
* `stone/backends/python_types.py`    `_generate_struct_class_init` (parameter list and which attributes it sets),
                                      the name of a route object (`_generate_routes`)
* Python itself                       call binding (`bindArgs`), name resolution inside a method body (parameters
                                      and assigned locals hide module globals), duplicate / keyword parameters are
                                      a SyntaxError of the whole module, defaults are evaluated when the `def` runs.

Not modelled: the text (line breaking, docstrings), `-w` (`--auth-type`) route selection, `-a` attribute comments.

Specification-level part (from the property text, not following the code): `specNullable`, `specRequired`,
`specParams`, `structDirect`, `expectedOutcome`, `NsPrefixFree`.

Names are `List Char` (ASCII semantics of the character classes: Stone identifiers are ASCII).
Import-free: linked into the correspondence driver.
-/
namespace StoneVerif.DeclPyClient

abbrev Name := List Char

/-! ## stone/backends/helpers.py -/

def isLower (c : Char) : Bool := 'a'.val ≤ c.val && c.val ≤ 'z'.val
def isUpper (c : Char) : Bool := 'A'.val ≤ c.val && c.val ≤ 'Z'.val
def isDigit (c : Char) : Bool := '0'.val ≤ c.val && c.val ≤ '9'.val
/-- `[a-z0-9]` -/
def isLowDig (c : Char) : Bool := isLower c || isDigit c
/-- `[-_/]` -/
def isSep (c : Char) : Bool := c == '-' || c == '_' || c == '/'

def toLowerC (c : Char) : Char := if isUpper c then Char.ofNat (c.toNat + 32) else c
def toUpperC (c : Char) : Char := if isLower c then Char.ofNat (c.toNat - 32) else c
/-- `str.lower()` (ASCII) -/
def lower (w : Name) : Name := w.map toLowerC
/-- `str.capitalize()` (ASCII) -/
def capitalize : Name → Name
  | [] => []
  | c :: cs => toUpperC c :: lower cs

/-- `re.split('[-_/]+', name)`: `prevSep` = the previous character was a separator. -/
def splitGo : Bool → Name → Name → List Name
  | _, acc, [] => [acc.reverse]
  | prevSep, acc, c :: cs =>
    if isSep c then
      if prevSep then splitGo true acc cs else acc.reverse :: splitGo true [] cs
    else splitGo false (c :: acc) cs

def splitSeps (name : Name) : List Name := splitGo false [] name

/-- One attempt of `^[a-z0-9]+|[A-Z][a-z0-9]+|[A-Z]+(?=[A-Z][a-z0-9])|[A-Z]+$` at the current position
(`atStart` = position 0 of the word): the match and the rest, alternatives in order. -/
def matchAt (atStart : Bool) (w : Name) : Option (Name × Name) :=
  let lo := w.takeWhile isLowDig
  if atStart && !lo.isEmpty then some (lo, w.dropWhile isLowDig) else
  match w with
  | [] => none
  | c :: cs =>
    if !isUpper c then none else
    let lo2 := cs.takeWhile isLowDig
    if !lo2.isEmpty then some (c :: lo2, cs.dropWhile isLowDig) else
    let us := w.takeWhile isUpper
    let rest := w.dropWhile isUpper
    match rest with
    | [] => some (us, [])                                       -- `[A-Z]+$`
    | d :: _ =>
      -- `[A-Z]+(?=[A-Z][a-z0-9])`: only the run without its last letter can be followed by `[A-Z][a-z0-9]`
      if isLowDig d && us.length ≥ 2 then some (us.dropLast, us.drop (us.length - 1) ++ rest) else none

/-- `_split_words_capitalization_re.findall(word)`; a position where nothing matches is skipped. -/
def findAll : Nat → Bool → Name → List Name
  | 0, _, _ => []
  | _ + 1, _, [] => []
  | n + 1, atStart, c :: cs =>
    match matchAt atStart (c :: cs) with
    | some (m, rest) => m :: findAll n false rest
    | none => findAll n false cs

/-- `split_words` -/
def splitWords (name : Name) : List Name :=
  (splitSeps name).flatMap fun word =>
    let vals := findAll word.length true word
    if vals.isEmpty then [word] else vals

def joinWith (sep : Name) : List Name → Name
  | [] => []
  | [w] => w
  | w :: ws => w ++ sep ++ joinWith sep ws

/-- `fmt_underscores` -/
def fmtUnderscores (name : Name) : Name := joinWith ['_'] ((splitWords name).map lower)
/-- `fmt_pascal` -/
def fmtPascal (name : Name) : Name := ((splitWords name).map capitalize).flatten

/-! ## stone/backends/python_helpers.py -/

/-- `_reserved_keywords` (pinned to the translator's table in Props/C14.lean) -/
def reservedKeywords : List Name :=
  ["async".toList, "break".toList, "class".toList, "continue".toList, "for".toList, "pass".toList, "while".toList]

def renameIfReserved (s : Name) : Name := if reservedKeywords.contains s then s ++ ['_'] else s

/-- `fmt_func(name, version=version)` (never called with `check_reserved` by python_client) -/
def fmtFunc (name : Name) (version : Nat) : Name :=
  let n := fmtUnderscores name
  if version > 1 then n ++ ['_', 'v'] ++ (Nat.toDigits 10 version) else n

def fmtClass (name : Name) : Name := fmtPascal name
def fmtVar (name : Name) : Name := fmtUnderscores name
/-- `fmt_var(name, True)` -/
def fmtVarR (name : Name) : Name := renameIfReserved (fmtUnderscores name)
def fmtNamespace (name : Name) : Name := renameIfReserved name

/-! ## The part of `stone.ir.Api` the backend reads -/

inductive Ty where
  | prim (name : Name)                        -- Boolean, String, Int32 … (their parameters play no role here)
  | void
  | nullable (t : Ty)
  | list (t : Ty)
  | map (k v : Ty)
  | alias (ns name : Name) (target : Ty)      -- an `Alias` object with its `data_type`
  | struct (ns name : Name)
  | union (ns name : Name)
  deriving DecidableEq, Repr, Inhabited

/-- A field default as the IR stores it (`StructField.default`). -/
inductive Lit where
  | bool (b : Bool)
  | int (i : Int)
  | float (bits : Nat)                         -- the IEEE double, by bit pattern
  | str (s : Name)
  | tag (u : Ty) (tag : Name)                  -- `TagRef(union_data_type, tag_name)`: the union, or an alias of it
  deriving DecidableEq, Repr, Inhabited

structure Field where
  name : Name
  ty : Ty
  dflt : Option Lit                            -- `has_default` / `default`
  deriving DecidableEq, Repr, Inhabited

abbrev Ref := Name × Name                      -- (namespace, name)

structure StructDef where
  ref : Ref
  parent : Option Ref
  fields : List Field                          -- own fields, declaration order (`Struct.fields`)
  deriving Repr, Inhabited

/-- `route.deprecated`: `none` | `some none` (no successor) | `some (some (name, version))` -/
structure Route where
  name : Name
  version : Nat
  arg : Ty
  result : Ty
  deprecated : Option (Option (Name × Nat))
  style : Option Name                          -- `route.attrs.get('style')` when it is a `str`
  deriving Repr, Inhabited

structure Namespace where
  name : Name
  dataTypes : List Name                        -- names of `namespace.data_types` (structs and unions)
  aliases : List (Name × Ty)                   -- `namespace.aliases`: name, `data_type`
  routes : List Route                          -- `namespace.routes` (already sorted by `normalize`)
  deriving Repr, Inhabited

/-- `bool(namespace.data_types)` -/
def Namespace.hasDataTypes (ns : Namespace) : Bool := !ns.dataTypes.isEmpty

structure Api where
  namespaces : List Namespace
  structs : List StructDef
  deriving Repr, Inhabited

/-! ## stone/backend.py `remove_aliases_from_api` -/

/-- What an `Alias` object points to after the first loop of `remove_aliases_from_api`: the first non-alias of
the chain, with the same resolution applied down its `data_type` spine (Nullable, List); `Map`, structs and
unions have no `data_type` attribute, so the walk stops there. -/
def spineResolve : Ty → Ty
  | .alias _ _ t => spineResolve t
  | .nullable t => .nullable (spineResolve t)
  | .list t => .list (spineResolve t)
  | t => t

/-- `strip_alias(field)` for a field type, and `strip_alias(t)` + "strip top-level alias" for a route type: the
first alias on the `data_type` spine is replaced by its (resolved) target. -/
def stripFirst : Ty → Ty
  | .alias _ _ t => spineResolve t
  | .nullable t => .nullable (stripFirst t)
  | .list t => .list (stripFirst t)
  | t => t

def Ty.isNullable : Ty → Bool
  | .nullable _ => true
  | _ => false

def Ty.isVoid : Ty → Bool
  | .void => true
  | _ => false

/-- `is_user_defined_type(t)` with `t.namespace.name` -/
def Ty.userNs : Ty → Option Name
  | .struct ns _ => some ns
  | .union ns _ => some ns
  | _ => none

/-! ## `Struct.all_fields` -/

def findStruct (api : Api) (r : Ref) : Option StructDef := api.structs.find? (fun s => s.ref == r)

/-- the struct, its parent, its grandparent … (fuel = number of structs; the frontend rejects cycles) -/
def chainUp (api : Api) : Nat → Ref → List StructDef
  | 0, _ => []
  | n + 1, r =>
    match findStruct api r with
    | none => []
    | some s => s :: (match s.parent with | none => [] | some p => chainUp api n p)

/-- every field of the struct in declaration order, super types first (`_filter_fields(lambda f: True)`) -/
def declFields (api : Api) (r : Ref) : List Field :=
  ((chainUp api (api.structs.length + 1) r).reverse).flatMap (·.fields)

/-- `required_check` of `all_required_fields`, under a view of the field type (`id` when aliases are preserved
 – python_types –, `stripFirst` after `remove_aliases_from_api` – python_client) -/
def isRequired (view : Ty → Ty) (f : Field) : Bool := !(view f.ty).isNullable && f.dflt.isNone

/-- `Struct.all_fields` = `all_required_fields + all_optional_fields` -/
def allFields (view : Ty → Ty) (api : Api) (r : Ref) : List Field :=
  (declFields api r).filter (isRequired view) ++ (declFields api r).filter (fun f => !isRequired view f)

/-! ## python_types: the things python_client relies on -/

/-- `unwrap_aliases` -/
def unwrapAliases : Ty → Ty
  | .alias _ _ t => unwrapAliases t
  | t => t

/-- the class names a python_types module binds: `class <fmt_class(name)>` per data type, and
`<fmt_class(alias name)> = <class>` for every alias of a user-defined type (`_generate_alias_definition`) -/
def moduleBindings (ns : Namespace) : List (Name × Ref) :=
  ns.dataTypes.map (fun n => (fmtClass n, (ns.name, n))) ++
  ns.aliases.filterMap fun (n, t) =>
    match unwrapAliases t with
    | .struct a b => some (fmtClass n, (a, b))
    | .union a b => some (fmtClass n, (a, b))
    | _ => none

/-- `__init__` parameters after `self` of the class generated for a struct (`_generate_struct_class_init`; every
one has the default `None`): `all_fields` of the alias-preserving IR, as `fmt_var(name, True)`. -/
def structCtorFields (api : Api) (r : Ref) : List Field := allFields id api r
def structCtorParams (api : Api) (r : Ref) : List Name := (structCtorFields api r).map (fun f => fmtVarR f.name)

/-- where python_types puts the class of a user-defined type: module, class name -/
def typesClassOf (r : Ref) : Name × Name := (fmtNamespace r.1, fmtClass r.2)
/-- where python_types puts the route object (`_generate_routes`): module, variable -/
def typesRouteObj (ns : Name) (r : Route) : Name × Name := (fmtNamespace ns, fmtFunc r.name r.version)

/-! ## Values -/

/-- a parameter default as the expression python_client writes -/
inductive Dflt where
  | pyNone
  | lit (l : Lit)                              -- `fmt_obj(value)`: a Python literal denoting the same value
  | tagAttr (mod cls var : Name)               -- `<mod>.<cls>.<var>`
  deriving DecidableEq, Repr, Inhabited

inductive Val where
  | none
  | lit (l : Lit)
  | tagObj (cls : Ref) (var : Name)            -- the attribute `<var>` of the class generated for the union `cls`
  | tok (n : Nat)                              -- some object supplied by the caller
  deriving DecidableEq, Repr, Inhabited

structure Param where
  name : Name
  dflt : Option Dflt
  deriving DecidableEq, Repr, Inhabited

/-- how the method body computes `arg` -/
inductive ArgBuild where
  | void                                            -- `arg = None`
  | union                                           -- `arg` is the parameter
  | ctor (mod cls : Name) (ty : Ref) (args : List Name)   -- `arg = <mod>.<cls>(<args>…)` (positional)
  deriving Repr, Inhabited

structure Method where
  name : Name
  params : List Param                          -- after `self`
  deprecated : Bool                            -- body starts with `warnings.warn(…, DeprecationWarning)`
  successor : Option Name                      -- the route name the warning text recommends
  argBuild : ArgBuild
  routeMod : Name                              -- `self.request(<routeMod>.<routeVar>, '<nsLit>', arg, f | None)`
  routeVar : Name
  nsLit : Name
  passBody : Bool
  toFile : Bool                                -- the `_to_file` variant of a download route
  resultVoid : Bool
  -- provenance
  routeNs : Name
  routeName : Name
  version : Nat
  deriving Repr, Inhabited

structure ClientModule where
  imports : List Name                          -- `from <types_package> import <name>`
  importsWarnings : Bool
  methods : List Method                        -- in emission order
  deriving Repr, Inhabited

inductive GenErr where
  | nameConflict (ns : Name)                   -- RuntimeError of `check_route_name_conflict`
  | unhandledArgType (ns route : Name)         -- AssertionError 'Unhandled request type'
  | defaultWithoutNamespace (field : Name)     -- `_generate_python_value(None, <TagRef>)`: AttributeError
  | defaultNotUserDefined (field : Name)       -- `class_name_for_data_type(<not a struct / union>)`: AssertionError
  deriving Repr, DecidableEq, Inhabited

/-! ## stone/backends/python_client.py -/

/-- `check_route_name_conflict`: `true` = RuntimeError -/
def routeNameConflict (ns : Namespace) : Bool :=
  let rec go (seen : List Name) : List Route → Bool
    | [] => false
    | r :: rs =>
      let n := fmtFunc r.name r.version
      if seen.contains n then true else go (n :: seen) rs
  go [] ns.routes

/-- `_generate_python_value(ns, value)` with `ns = field.data_type.namespace` for user-defined field types. The
field types have lost their aliases, the `TagRef` of a default has not: the class name is the one of
`unwrap_aliases(value.union_data_type)` (since the repair of c14-tag-default-foreign-alias-*; it used to be the
alias's own name, looked up in the union's module). A string is printed with `repr` (since the repair of
c14-string-default-with-blank; `fmt_obj` = `pprint.pformat(width=1)` wrapped it at blanks and `emit` refused the
text), every other literal with `fmt_obj`: a Python literal denoting the same value either way. -/
def genPythonValue (fieldName : Name) (ns : Option Name) : Lit → Except GenErr Dflt
  | .tag u tag =>
    match ns with
    | none => .error (.defaultWithoutNamespace fieldName)
    | some n =>
      match unwrapAliases u with
      | .struct _ uname => .ok (.tagAttr (fmtNamespace n) (fmtClass uname) (fmtVar tag))
      | .union _ uname => .ok (.tagAttr (fmtNamespace n) (fmtClass uname) (fmtVar tag))
      | _ => .error (.defaultNotUserDefined fieldName)
  | l => .ok (.lit l)

/-- one field of a struct argument in `_generate_route_method_decl` (the IR has no aliases any more) -/
def fieldParam (f : Field) : Except GenErr Param :=
  let ty := stripFirst f.ty
  if ty.isNullable then .ok ⟨f.name, some .pyNone⟩
  else match f.dflt with
    | some d => do
      let e ← genPythonValue f.name ty.userNs d
      pure ⟨f.name, some e⟩
    | none => .ok ⟨f.name, none⟩

def styleIs (r : Route) (s : String) : Bool := r.style == some s.toList

/-- the parameters `_generate_route_method_decl` derives from the argument type -/
def argParamsOf (api : Api) (ns : Namespace) (r : Route) : Except GenErr (List Param) :=
  match stripFirst r.arg with
  | .struct sns sname => (allFields stripFirst api (sns, sname)).mapM fieldParam
  | .union _ _ => .ok [⟨"arg".toList, none⟩]
  | .void => .ok []
  | _ => .error (.unhandledArgType ns.name r.name)

/-- "Code to instantiate a class for the request data type" of `_generate_route_helper` -/
def argBuildOf (api : Api) (r : Route) : ArgBuild :=
  match stripFirst r.arg with
  | .struct sns sname =>
    .ctor (fmtNamespace sns) (fmtClass sname) (sns, sname) ((allFields stripFirst api (sns, sname)).map (·.name))
  | .union _ _ => .union
  | _ => .void

/-- the rest of `_generate_route_method_decl` + `_generate_route_helper` (`toFile` = `download_to_file`) -/
def mkMethod (api : Api) (ns : Namespace) (r : Route) (toFile : Bool) (argParams : List Param) : Method :=
  let upload := styleIs r "upload"
  let extra : List Param := if toFile then [⟨"download_path".toList, none⟩] else []
  let fparam : List Param := if upload then [⟨['f'], none⟩] else []
  let suffix : Name := if toFile then "_to_file".toList else []
  { name := fmtUnderscores ns.name ++ ['_'] ++ fmtFunc (r.name ++ suffix) r.version
    params := extra ++ fparam ++ argParams
    deprecated := r.deprecated.isSome
    successor := match r.deprecated with | some (some (n, _)) => some n | _ => none
    argBuild := argBuildOf api r
    routeMod := fmtNamespace ns.name, routeVar := fmtFunc r.name r.version, nsLit := ns.name
    passBody := upload, toFile, resultVoid := (stripFirst r.result).isVoid
    routeNs := ns.name, routeName := r.name, version := r.version }

/-- `_generate_route_method_decl` + `_generate_route_helper` for one route -/
def routeMethod (api : Api) (ns : Namespace) (r : Route) (toFile : Bool) : Except GenErr Method :=
  (argParamsOf api ns r).map (mkMethod api ns r toFile)

/-- one round of the loop of `_generate_routes` without `-w`: the route's method, plus the `_to_file` twin of a
download route -/
def routeMethods (api : Api) (ns : Namespace) (r : Route) : Except GenErr (List Method) :=
  match routeMethod api ns r false with
  | .error e => .error e
  | .ok m =>
    if styleIs r "download" then
      match routeMethod api ns r true with
      | .error e => .error e
      | .ok m2 => .ok [m, m2]
    else .ok [m]

/-- `_generate_routes` -/
def nsMethods (api : Api) (ns : Namespace) : Except GenErr (List Method) :=
  if routeNameConflict ns then .error (.nameConflict ns.name)
  else (ns.routes.mapM (routeMethods api ns)).map List.flatten

/-- `PythonClientBackend.generate` -/
def pyClient (api : Api) : Except GenErr ClientModule :=
  ((api.namespaces.filter (fun ns => !ns.routes.isEmpty)).mapM (nsMethods api)).map fun ms =>
    { imports := (api.namespaces.filter (fun ns => ns.hasDataTypes || !ns.routes.isEmpty)).map (fun ns => fmtNamespace ns.name)
      importsWarnings := api.namespaces.any (fun ns => ns.routes.any (·.deprecated.isSome))
      methods := ms.flatten }

/-- `pyClientMethods api` of the design: the methods of the generated class -/
def pyClientMethods (api : Api) : List Method :=
  match pyClient api with
  | .ok cm => cm.methods
  | .error _ => []

/-- the class attribute of that name: a later `def` replaces an earlier one -/
def classAttr (cm : ClientModule) (name : Name) : Option Method :=
  cm.methods.reverse.find? (fun m => m.name == name)

/-! ## Python: loading the module -/

inductive PyErr where
  | syntaxError (method : Name) (what : Name)   -- duplicate parameter / keyword as parameter
  | nameError (n : Name)
  | attributeError (n : Name)                   -- `<module>.<n>`: the types module binds no such name
  | shadowed (n : Name)                         -- a module global is hidden by a parameter / local of the method:
                                                --   AttributeError or UnboundLocalError
  | typeError
  deriving Repr, DecidableEq, Inhabited

/-- `keyword.kwlist` of CPython 3.12 (compared with the interpreter on every run) -/
def pyKeywords : List Name :=
  ["False", "None", "True", "and", "as", "assert", "async", "await", "break", "class", "continue", "def", "del",
   "elif", "else", "except", "finally", "for", "from", "global", "if", "import", "in", "is", "lambda", "nonlocal",
   "not", "or", "pass", "raise", "return", "try", "while", "with", "yield"].map String.toList

def selfN : Name := "self".toList

def hasDup : List Name → Bool
  | [] => false
  | n :: ns => ns.contains n || hasDup ns

def paramNames (m : Method) : List Name := selfN :: m.params.map (·.name)

/-- the module-level names the generated module defines before the class body runs -/
def moduleGlobals (cm : ClientModule) : List Name :=
  ["ABCMeta".toList, "abstractmethod".toList] ++ (if cm.importsWarnings then ["warnings".toList] else []) ++ cm.imports

def lookupBinding : List (Name × Ref) → Name → Option Ref
  | [], _ => none
  | (k, v) :: rest, n => if k == n then some v else lookupBinding rest n

/-- evaluating a default expression in the module globals, when the `def` statement runs -/
def evalDflt (api : Api) (cm : ClientModule) : Dflt → Except PyErr Val
  | .pyNone => .ok .none
  | .lit l => .ok (.lit l)
  | .tagAttr mod cls var =>
    if !(moduleGlobals cm).contains mod then .error (.nameError mod) else
    match api.namespaces.find? (fun ns => fmtNamespace ns.name == mod) with
    | none => .error (.nameError mod)
    | some ns =>
      match lookupBinding (moduleBindings ns) cls with
      | some r => .ok (.tagObj r var)
      | none => .error (.attributeError cls)

/-- a parameter once its `def` has run: name, evaluated default -/
abbrev BParam := Name × Option Val

def evalParam (api : Api) (cm : ClientModule) (p : Param) : Except PyErr BParam :=
  match p.dflt with
  | none => .ok (p.name, none)
  | some d => (evalDflt api cm d).map fun v => (p.name, some v)

/-- compiling one `def` and evaluating its defaults (at class-body time) -/
def loadMethod (api : Api) (cm : ClientModule) (m : Method) : Except PyErr (List BParam) :=
  if hasDup (paramNames m) then .error (.syntaxError m.name "duplicate".toList)
  else if (paramNames m).any pyKeywords.contains then .error (.syntaxError m.name "keyword".toList)
  else m.params.mapM (evalParam api cm)

/-- importing the generated module (next to the python_types output, which has a module for every namespace):
a SyntaxError anywhere wins (the module is compiled first), then the `def`s run in order -/
def loadModule (api : Api) (cm : ClientModule) : Except PyErr Unit :=
  match cm.methods.find? (fun m => hasDup (paramNames m) || (paramNames m).any pyKeywords.contains) with
  | some m => (loadMethod api cm m).map fun _ => ()
  | none => (cm.methods.mapM (loadMethod api cm)).map fun _ => ()

/-! ## Python: calling a method -/

structure Call where
  pos : List Val
  kw : List (Name × Val)
  deriving Repr, Inhabited

def lookup (σ : List (Name × Val)) (n : Name) : Option Val :=
  match σ with
  | [] => none
  | (k, v) :: rest => if k == n then some v else lookup rest n

/-- positional arguments first, then keywords, then defaults -/
def bindGo : List BParam → List Val → List (Name × Val) → Except PyErr (List (Name × Val))
  | [], [], _ => .ok []
  | [], _ :: _, _ => .error .typeError                                   -- too many positional arguments
  | p :: ps, v :: vs, kw =>
    if (lookup kw p.1).isSome then .error .typeError                     -- multiple values for the parameter
    else (bindGo ps vs kw).map ((p.1, v) :: ·)
  | p :: ps, [], kw =>
    match lookup kw p.1 with
    | some v => (bindGo ps [] kw).map ((p.1, v) :: ·)
    | none =>
      match p.2 with
      | some d => (bindGo ps [] kw).map ((p.1, d) :: ·)
      | none => .error .typeError                                        -- missing required argument

/-- `obj.method(*pos, **kw)` for a method with distinct parameter names -/
def bindArgs (ps : List BParam) (c : Call) : Except PyErr (List (Name × Val)) :=
  if hasDup (c.kw.map (·.1)) then .error .typeError
  else if c.kw.any (fun kv => !(ps.map (·.1)).contains kv.1) then .error .typeError    -- unexpected keyword (or `self=`)
  else bindGo ps c.pos c.kw

/-- the object handed to `request` as `request_arg` -/
inductive ArgObj where
  | none
  | value (v : Val)                                         -- the caller's union object itself
  | struct (mod cls : Name) (fields : List (Name × Val))    -- instance of `<mod>.<cls>` with these attributes set
  deriving DecidableEq, Repr, Inhabited

structure Request where
  route : Name × Name                          -- module, variable of the route object
  ns : Name
  arg : ArgObj
  body : Option Val
  deriving DecidableEq, Repr, Inhabited

inductive Ret where
  | none                                       -- `return None`
  | result                                     -- `return r`
  | resultFst                                  -- `return r[0]`
  deriving DecidableEq, Repr, Inhabited

structure Outcome where
  requests : List Request
  warned : Bool
  saved : Option Val                           -- `self._save_body_to_file(download_path, r[1])`
  ret : Ret
  deriving DecidableEq, Repr, Inhabited

/-- `__init__` of the generated struct class called with positional arguments: parameters are bound in
`structCtorParams` order (missing ones are `None`), each field whose parameter is not `None` is assigned
(parent classes first: `super().__init__` passes the parent's parameters by name). -/
def ctorApply (api : Api) (ty : Ref) (mod cls : Name) (vs : List Val) : Except PyErr ArgObj :=
  let ps := structCtorParams api ty
  if vs.length > ps.length then .error .typeError else
  let env := ps.zip (vs ++ List.replicate (ps.length - vs.length) Val.none)
  .ok (.struct mod cls ((declFields api ty).filterMap fun f =>
    match lookup env (fmtVarR f.name) with
    | some v => if v == .none then none else some (f.name, v)
    | none => none))

/-- names that are local to the method body (parameters, assigned variables): they hide module globals -/
def localNames (m : Method) : List Name :=
  paramNames m ++ (match m.argBuild with | .union => [] | _ => ["arg".toList]) ++ [['r']]

def resolveGlobal (cm : ClientModule) (m : Method) (n : Name) : Except PyErr Unit :=
  if (localNames m).contains n then .error (.shadowed n)
  else if (moduleGlobals cm).contains n then .ok ()
  else .error (.nameError n)

/-- the module-level names a method body refers to -/
def globalsUsed (m : Method) : List Name :=
  (if m.deprecated then ["warnings".toList] else []) ++
  (match m.argBuild with | .ctor mod _ _ _ => [mod] | _ => []) ++ [m.routeMod]

/-- every module-level name the body uses is defined by the module and not hidden by a local name -/
def hygienic (cm : ClientModule) (m : Method) : Bool :=
  (globalsUsed m).all fun n => !(localNames m).contains n && (moduleGlobals cm).contains n

def lookupLocal (σ : List (Name × Val)) (n : Name) : Except PyErr Val :=
  match lookup σ n with
  | some v => .ok v
  | none => .error (.nameError n)

/-- `warnings.warn(…)` at the top of the body of a deprecated route -/
def warnStep (cm : ClientModule) (m : Method) : Except PyErr Unit :=
  if m.deprecated then resolveGlobal cm m "warnings".toList else .ok ()

/-- "Code to instantiate a class for the request data type" -/
def buildArg (api : Api) (cm : ClientModule) (m : Method) (σ : List (Name × Val)) : Except PyErr ArgObj :=
  match m.argBuild with
  | .void => .ok ArgObj.none
  | .union => (lookupLocal σ "arg".toList).map ArgObj.value
  | .ctor mod cls ty args =>
    match resolveGlobal cm m mod with
    | .error e => .error e
    | .ok _ =>
      match args.mapM (lookupLocal σ) with
      | .error e => .error e
      | .ok vs => ctorApply api ty mod cls vs

/-- the last argument of `self.request(…)`: `f` or `None` -/
def bodyArg (m : Method) (σ : List (Name × Val)) : Except PyErr (Option Val) :=
  if m.passBody then (lookupLocal σ ['f']).map some else .ok none

/-- `self._save_body_to_file(download_path, r[1])` of the `_to_file` twin -/
def savedArg (m : Method) (σ : List (Name × Val)) : Except PyErr (Option Val) :=
  if m.toFile then (lookupLocal σ "download_path".toList).map some else .ok none

/-- executing the body of a generated method with the parameters bound as `σ` -/
def runMethod (api : Api) (cm : ClientModule) (m : Method) (σ : List (Name × Val)) : Except PyErr Outcome :=
  match warnStep cm m with
  | .error e => .error e
  | .ok _ =>
  match buildArg api cm m σ with
  | .error e => .error e
  | .ok arg =>
  match resolveGlobal cm m m.routeMod with
  | .error e => .error e
  | .ok _ =>
  match bodyArg m σ with
  | .error e => .error e
  | .ok body =>
  match savedArg m σ with
  | .error e => .error e
  | .ok saved =>
    .ok {
      requests := [{ route := (m.routeMod, m.routeVar), ns := m.nsLit, arg, body }]
      warned := m.deprecated
      saved
      ret := if m.resultVoid then .none else if m.toFile then .resultFst else .result }

/-- import the module, bind the call, run the body -/
def callMethod (api : Api) (cm : ClientModule) (m : Method) (c : Call) : Except PyErr Outcome := do
  loadModule api cm
  let ps ← loadMethod api cm m
  let σ ← bindArgs ps c
  runMethod api cm m σ

/-! ## Specification level (from the property text) -/

/-- "nullable" as the spec author sees it: `T?`, directly or through aliases -/
def specNullable : Ty → Bool
  | .alias _ _ t => specNullable t
  | .nullable _ => true
  | _ => false

/-- the type a route names, aliases looked through -/
def specUnalias : Ty → Ty
  | .alias _ _ t => specUnalias t
  | t => t

def specRequired (f : Field) : Bool := !specNullable f.ty && f.dflt.isNone

/-- the Python value a spec default denotes: the literal itself, or the tag object of the union's class -/
def specDefault (f : Field) : Dflt :=
  match f.dflt with
  | some (.tag _ tag) =>
    if specNullable f.ty then .pyNone else
    match specUnalias f.ty with
    | .union uns uname => .tagAttr (fmtNamespace uns) (fmtClass uname) (fmtVar tag)
    | _ => .pyNone
  | some l => if specNullable f.ty then .pyNone else .lit l
  | none => .pyNone

/-- the same as a value: a tag default denotes the tag object of the union the field is declared with -/
def specDefaultVal (f : Field) : Val :=
  if specNullable f.ty then .none else
  match f.dflt with
  | some (.tag _ tag) =>
    match specUnalias f.ty with
    | .union uns uname => .tagObj (uns, uname) (fmtVar tag)
    | _ => .none
  | some l => .lit l
  | none => .none

/-- "required ones positional in declaration order and optional ones keyword parameters carrying the spec
defaults" -/
def specParams (api : Api) (r : Ref) : List Param :=
  ((declFields api r).filter specRequired).map (fun f => ⟨f.name, none⟩) ++
  ((declFields api r).filter (fun f => !specRequired f)).map (fun f => ⟨f.name, some (specDefault f)⟩)

/-- the struct built directly from the parameter values: every field whose value is not `None` is set -/
def structDirect (api : Api) (r : Ref) (σ : List (Name × Val)) : ArgObj :=
  .struct (typesClassOf r).1 (typesClassOf r).2 ((declFields api r).filterMap fun f =>
    match lookup σ f.name with
    | some v => if v == .none then none else some (f.name, v)
    | none => none)

/-- the request the property text asks for -/
def expectedRequest (api : Api) (ns : Namespace) (r : Route) (σ : List (Name × Val)) : Request :=
  { route := typesRouteObj ns.name r
    ns := ns.name
    arg := match specUnalias r.arg with
      | .struct sns sname => structDirect api (sns, sname) σ
      | .union _ _ => match lookup σ "arg".toList with | some v => .value v | none => .none
      | _ => .none
    body := if r.style == some "upload".toList then lookup σ ['f'] else none }

def expectedOutcome (api : Api) (ns : Namespace) (r : Route) (σ : List (Name × Val)) : Outcome :=
  { requests := [expectedRequest api ns r σ]
    warned := r.deprecated.isSome
    saved := none
    ret := if (specUnalias r.result).isVoid then .none else .result }

def Ty.isUnion : Ty → Bool
  | .union _ _ => true
  | _ => false

/-- a tag-reference default refers to the union the field is declared with, by the union itself or by any alias of
it (what the frontend builds: `TagRef(field.data_type, …)` with the `Nullable` wrapper taken off) -/
def defaultsWellTyped (api : Api) (r : Ref) : Bool :=
  (declFields api r).all fun f =>
    match f.dflt with
    | some (.tag u _) => (specUnalias f.ty).isUnion && specUnalias u == specUnalias f.ty
    | _ => true

/-- no field type is an alias of a nullable type (then python_types and python_client agree on which fields
are optional) -/
def noNullableAlias (api : Api) (r : Ref) : Bool :=
  (declFields api r).all fun f => (stripFirst f.ty).isNullable == f.ty.isNullable

/-- `a` is a prefix of `b` -/
def isPrefix : Name → Name → Bool
  | [], _ => true
  | _ :: _, [] => false
  | a :: as, b :: bs => a == b && isPrefix as bs

/-- no namespace's method-name prefix `ns_` is a prefix of another namespace's -/
def nsPrefixFree (api : Api) : Bool :=
  api.namespaces.all fun a => api.namespaces.all fun b =>
    a.name == b.name || !isPrefix (fmtUnderscores a.name ++ ['_']) (fmtUnderscores b.name ++ ['_'])

end StoneVerif.DeclPyClient
