import StoneVerif.Model.FeCompile
import StoneVerif.Model.IrCheck
/-!
# The value of a route attribute: C10's value checker behind an adapter

`<Type>.check_attr_repr(attr)` (stone/ir/data_types.py) is, for the value part, `<Type>.check(attr.value)`:
`Alias` hands the attribute to its target, `Nullable` answers `None` for `null` and otherwise hands it on, every
primitive type calls `self.check` and turns the `ValueError` into `InvalidSpec`, `Union` wants a tag reference
(`Expected union tag as value.`) and calls `self.check(TagRef(self, tag))`.  `Bytes` / `Timestamp` then convert the
value (`encode`, `strptime` -- the latter already succeeded inside `check`).  `Void.check_attr_repr` raises
`NotImplementedError`; it is never reached: `StructField.check_attr_repr` refuses a value for a Void attribute first.

`attrVal` walks aliases and `Nullable` the same way and asks `IrCheck.check` (Model/IrCheck.lean, the model of
`<Type>.check` that C10 ties to the code) at the primitive type or union it arrives at.  Its external calls are
IrCheck's: `Ext` (float comparisons, `float(int)`, whole-pattern `re` match) and `CExt` (`float(n) == n`, `strptime`).
-/
namespace StoneVerif.FeCompile
open StoneVerif.FeParams (TyKind TyVal Arg FVal)
open StoneVerif.Rt (IrTy Ext)
open StoneVerif.IrCheck (CExt Lit CUnion CTag)

def litOf : AVal → Lit
  | .null => .null
  | .bool b => .bool b
  | .int n => .int n
  | .flt b => .flt b
  | .str s => .str s
  | .tag t => .tagref t

/-- the IEEE-754 bits of a double given exactly as `num / den` (`den` a power of two; what `FeParams` stores as a bound:
a float literal, or `float(n)` of an integer literal) -/
def bitsOfFVal : FVal → Nat
  | .pinf => 0x7FF0000000000000
  | .ninf => 0xFFF0000000000000
  | .fin n d =>
    if n == 0 then 0 else
    let sign : Nat := if n < 0 then 2 ^ 63 else 0
    let a := n.natAbs
    let k := Nat.log2 d
    let la := Nat.log2 a
    let e2 : Int := (la : Int) - (k : Int)
    if e2 ≥ -1022 then
      let mant := if la ≤ 52 then a * 2 ^ (52 - la) else a / 2 ^ (la - 52)
      sign + (e2 + 1023).toNat * 2 ^ 52 + (mant - 2 ^ 52)
    else sign + a * 2 ^ 1074 / d

/-- a primitive type as C10's model describes it (`List` / `Map` are not primitive) -/
def primIr : TyVal → Option IrTy
  | .plain .boolean => some .bool
  | .plain .bytes => some .bytes
  | .plain .void => some .void
  | .plain _ => none
  | .int k lo hi => some (.int k.pyName lo hi)
  | .float k lo hi => some (.float k.pyName (lo.map bitsOfFVal) (hi.map bitsOfFVal))
  | .string mn mx pat => some (.str (mn.map Int.toNat) (mx.map Int.toNat) (match pat with | some (.str p) => some p | _ => none))
  | .timestamp fmt => some (.ts fmt)
  | .list .. => none
  | .map .. => none

def clsOf (k : Key) : String := k.1 ++ "." ++ k.2

/-- a union as `Union.check` reads it: `all_fields` (the ancestors' tags first; the implicit `other` is a member) and
whether the type of a tag is literally Void -/
def unionOf (types : Key → Option CType) (ft : Nat) (k : Key) : Option CUnion :=
  match chainFields types ft (some k) with
  | .error _ => none
  | .ok fs => some { cls := clsOf k, chain := [(clsOf k, fs.map fun f => { name := f.name, ty := if f.ty == tyVoid then .void else .bool })] }

/-- `t.check_attr_repr(attr)` succeeds; `fuel` bounds the walk through aliases and `Nullable` -/
def attrValW (E : Ext) (C : CExt) (look : Look) (types : Key → Option CType) (ft : Nat) : Nat → Ty → AVal → Bool
  | 0, _, _ => false
  | f + 1, t, v =>
    match t with
    | .nullable u => v == .null || attrValW E C look types ft f u v
    | .alias k => (match look k with
      | some u => attrValW E C look types ft f u v
      | none => false)
    | .prim tv => (match primIr tv with
      | some it => (match StoneVerif.IrCheck.check E C [] it (litOf v) with | .ok _ => true | .error _ => false)
      | none => false)
    | .user k => (match types k with
      | some c =>
        if c.isStruct then false else
        (match unionOf types ft k with
         | some u => (match StoneVerif.IrCheck.check E C [u] (.union (clsOf k)) (litOf v) with | .ok _ => true | .error _ => false)
         | none => false)
      | none => false)
    | _ => false

/-- the value test of route attributes -/
def attrVal (E : Ext) (C : CExt) : ValCk := fun look types fa ft t v => attrValW E C look types ft (2 * fa + 2) t v

end StoneVerif.FeCompile
