/-!
Model of what the parser does to the text of a documentation string (C11: trailing whitespace does not matter).

`stone/frontend/parser.py`, rule `docstring : STRING` (`p_docstring_string`):

    p[0] = '\n'.join([line.rstrip() for line in p[1].split('\n')])

* `splitNL`   `str.split('\n')`: never empty, one more piece than there are newlines
* `rstrip`    `str.rstrip()` without argument: the longest suffix of characters for which `str.isspace` holds is removed
              (`isSpace`: the characters CPython's `Py_UNICODE_ISSPACE` accepts, written from the Python reference -
              bidirectional class WS / B / S or category Zs)
* `joinNL`    `'\n'.join`
* `docClean`  the rule, following the code: split, strip every piece, join

Specification level (not following the code): `addTrail` - the text in which line `k` is followed by `ws[k]`; the
theorems of `Props/C11.lean` say that `docClean` does not see it.  Import-free, total, executable (op `fe.doctrim`).
-/
namespace StoneVerif.DocTrim

/-- `str.isspace` for one character -/
def isSpace (c : Char) : Bool :=
  let n := c.toNat
  (0x09 ≤ n && n ≤ 0x0D) || (0x1C ≤ n && n ≤ 0x20) || n == 0x85 || n == 0xA0 || n == 0x1680 ||
  (0x2000 ≤ n && n ≤ 0x200A) || n == 0x2028 || n == 0x2029 || n == 0x202F || n == 0x205F || n == 0x3000

/-- `s.split('\n')` -/
def splitNL : List Char → List (List Char)
  | [] => [[]]
  | c :: cs =>
    if c == '\n' then [] :: splitNL cs
    else match splitNL cs with
      | [] => [[c]]                      -- unreachable: `splitNL` is never empty
      | l :: ls => (c :: l) :: ls

/-- `'\n'.join(ls)` -/
def joinNL : List (List Char) → List Char
  | [] => []
  | [l] => l
  | l :: l2 :: ls => l ++ '\n' :: joinNL (l2 :: ls)

/-- `l.rstrip()` -/
def rstrip : List Char → List Char
  | [] => []
  | c :: cs =>
    match rstrip cs with
    | [] => if isSpace c then [] else [c]
    | r :: rs => c :: r :: rs

/-- `p_docstring_string` -/
def docClean (s : List Char) : List Char := joinNL ((splitNL s).map rstrip)

/-- specification level: line `k` of `ls` followed by `ws[k]` (lines beyond `ws` unchanged) -/
def addTrail : List (List Char) → List (List Char) → List (List Char)
  | [], _ => []
  | l :: ls, [] => l :: ls
  | l :: ls, w :: ws => (l ++ w) :: addTrail ls ws

/-- every character is white space and none is the line separator -/
def blankTail (w : List Char) : Bool := w.all fun c => isSpace c && c != '\n'

def docCleanS (s : String) : String := String.ofList (docClean s.toList)

end StoneVerif.DocTrim
