/-!
# How `stone.cli.main` cuts standard input into specs (C11, stdin delivery)

```python
# A new spec starts at each line that begins with the namespace keyword
parts = re.split(r'(?m)^(?=namespace\b)', stdin_text)
if len(parts) == 1:
    specs.append(('stdin.1', parts[0]))
else:
    specs.append(('stdin.1', parts.pop(0) + parts.pop(0)))
    while parts:
        specs.append(('stdin.%s' % (len(specs) + 1), parts.pop(0)))
```
(`specs` is empty before: files and stdin together are refused.)  `re.split` with a pattern that matches the empty
string cuts at every match position, position 0 included (the first part is then `''`).  `^` with `(?m)` matches at
position 0 and after every `'\n'`; `\b` after the `e` holds at the end of the text or before a non-word character.

(Until commit de8ede2 of the repository the text was cut at every occurrence of the substring `namespace`,
defect D14: see `StoneVerif.C11.stdin_split_regression`.)
-/
namespace StoneVerif.Stdin

/-- the keyword of the pattern -/
def kw : List Char := "namespace".toList

/-- `(?=namespace\b)` at the head of `s`; `isWord` = Python's `\w` -/
def kwb (isWord : Char → Bool) (s : List Char) : Bool :=
  kw.isPrefixOf s &&
    match s.drop kw.length with
    | [] => true
    | c :: _ => !isWord c

/-- `re.split(r'(?m)^(?=namespace\b)', s)`: `ls` = the position is the start of a line.  The head of the result is
the rest of the part being read; the result is never empty. -/
def splitLines (isWord : Char → Bool) : Bool → List Char → List (List Char)
  | _, [] => [[]]
  | ls, c :: cs =>
    match splitLines isWord (c == '\n') cs with
    | [] => [[c]]
    | h :: t => if ls && kwb isWord (c :: cs) then [] :: (c :: h) :: t else (c :: h) :: t

/-- `('stdin.%s' % k, part)` for the parts after the first two; `k = len(specs) + 1` -/
def number (k : Nat) : List (List Char) → List (Nat × List Char)
  | [] => []
  | p :: ps => (k, p) :: number (k + 1) ps

/-- the stdin branch, with the index `k` standing for the name `stdin.k` -/
def splitStdinW (isWord : Char → Bool) (text : List Char) : List (Nat × List Char) :=
  match splitLines isWord true text with
  | [] => []
  | [p] => [(1, p)]
  | p0 :: p1 :: more => (1, p0 ++ p1) :: number 2 more

/-- `\w` on ASCII; the model is claimed for texts in which the character right after a line-initial `namespace` is
ASCII (a non-ASCII character there is read as a word character, as Python does for letters and digits) -/
def asciiWord (c : Char) : Bool := c.isAlphanum || c == '_' || c.toNat ≥ 128

def splitStdinL (text : List Char) : List (Nat × List Char) := splitStdinW asciiWord text

/-- `(name, text)` pairs as handed to `specs_to_ir` -/
def splitStdin (text : String) : List (String × String) :=
  (splitStdinL text.toList).map fun p => ("stdin." ++ toString p.1, String.ofList p.2)

/-- number of lines of `s` (the first one counted only if `ls`) that begin with `namespace\b` -/
def starts (isWord : Char → Bool) : Bool → List Char → Nat
  | _, [] => 0
  | ls, c :: cs => (if ls && kwb isWord (c :: cs) then 1 else 0) + starts isWord (c == '\n') cs

/-- the text is empty or ends with a newline -/
def endsNL : List Char → Bool
  | [] => true
  | [c] => c == '\n'
  | _ :: cs => endsNL cs

end StoneVerif.Stdin
