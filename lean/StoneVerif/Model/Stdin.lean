/-!
# How `stone.cli.main` cuts standard input into specs (C11, stdin delivery)

```python
parts = stdin_text.split('namespace')
if len(parts) == 1:
    specs.append(('stdin.1', parts[0]))
else:
    specs.append(('stdin.1', '{}namespace{}'.format(parts.pop(0), parts.pop(0))))
    while parts:
        specs.append(('stdin.%s' % (len(specs) + 1), 'namespace%s' % parts.pop(0)))
```
(`specs` is empty before: files and stdin together are refused.)
-/
namespace StoneVerif.Stdin

/-- the separator literal of the `split` call -/
def kw : List Char := "namespace".toList

/-- Python `str.split(sep)` for a non-empty `sep`: leftmost, non-overlapping occurrences.
`skip` = characters of a matched separator still to be passed over.  The result is never empty. -/
def split (sep : List Char) : Nat → List Char → List (List Char)
  | _, [] => [[]]
  | skip + 1, _ :: cs => split sep skip cs
  | 0, c :: cs =>
    if sep.isPrefixOf (c :: cs) then [] :: split sep (sep.length - 1) cs
    else
      match split sep 0 cs with
      | [] => [[c]]
      | p :: ps => (c :: p) :: ps

/-- `('stdin.%s' % k, 'namespace%s' % part)` for the parts after the first two; `k = len(specs) + 1` -/
def number (k : Nat) : List (List Char) → List (Nat × List Char)
  | [] => []
  | p :: ps => (k, kw ++ p) :: number (k + 1) ps

/-- the stdin branch, with the index `k` standing for the name `stdin.k` -/
def splitStdinL (text : List Char) : List (Nat × List Char) :=
  match split kw 0 text with
  | [] => []
  | [p] => [(1, p)]
  | p0 :: p1 :: more => (1, p0 ++ kw ++ p1) :: number 2 more

/-- `(name, text)` pairs as handed to `specs_to_ir` -/
def splitStdin (text : String) : List (String × String) :=
  (splitStdinL text.toList).map fun p => ("stdin." ++ toString p.1, String.ofList p.2)

/-- number of positions at which `sep` occurs in `s` (overlapping occurrences counted) -/
def occ (sep : List Char) : List Char → Nat
  | [] => 0
  | c :: cs => (if sep.isPrefixOf (c :: cs) then 1 else 0) + occ sep cs

end StoneVerif.Stdin
