import StoneVerif.Gen.Tables
import StoneVerif.Model.FeParams
/-!
# Registration of names (C01 "no clashing names"; C03 crash layer of the same pass)

Code-following part: the first loop of `IRGenerator.generate_IR` reduced to names --
`_extract_namespace_ast_node` (the namespace node is stored under `base_name(ns, ns)`, *unconditionally*),
`_add_data_types_and_routes_to_api` with `_create_type` / `_create_alias` / `_create_annotation` /
`_create_annotation_type` / `_create_route` (exact-name test `item.name in env` on the per-namespace environment,
which starts as a copy of `default_env` = the built-in type classes), `_raise_symbol_already_defined` and
`_check_canonical_name_available` (`_get_base_name`: `name.replace('_','').replace('/','').lower() + '/' +
ns.replace('_','').lower()` -- the separator `Tables.feCanonicalSep` cannot occur in the first part, so the key
determines both parts; routes may repeat a canonical name against routes only).

Python partiality that is left in this pass: `_raise_symbol_already_defined` reads
`existing.at_version[min(existing.at_version)]` of an `ApiRoutesByVersion`; `min` of an empty dictionary raises
`ValueError`.  `_create_route` never leaves an empty `ApiRoutesByVersion` in an environment, which is what
`register_no_crash` proves.  (The location of what is already there is read with `getattr(·, '_ast_node', None)`:
built-in classes have none and are reported as "built-in"; `_get_user_friendly_item_type_as_string` has a branch
for every one of the six AST classes that can be stored.)

Not modelled (assumed well formed): annotation arguments, annotation-type parameters, `Struct.__init__`'s own
parameter check, patches (they are keyed by the same canonical name in a separate dictionary), imports (bound to the
environment in a later pass).

Names are ASCII (`[a-zA-Z_][a-zA-Z0-9_-]*`, route names may contain `/`), so `str.lower` is `Char.toLower`.

Specification level (`NoClash`): written from DESIGN Appendix A (A8 - A10, B19) / Appendix C 14: no two distinct
items with the same canonical name in (canonically) the same namespace unless both are routes, no route version
twice, no item canonically named like its namespace, no built-in name redefined.
-/
namespace StoneVerif.FeNames
open StoneVerif.FeParams (PyExc)

abbrev Name := List Char

def lower (s : Name) : Name := s.map Char.toLower

/-- `name.replace('_', '').replace('/', '').lower()` -/
def canonName (s : Name) : Name := lower (s.filter fun c => c != '_' && c != '/')

/-- `namespace_name.replace('_', '').lower()` -/
def canonNs (s : Name) : Name := lower (s.filter fun c => c != '_')

/-- what `_get_base_name` puts between the two parts -/
def sep : Name := Tables.feCanonicalSep.toList

/-- `_get_base_name` -/
def key (name ns : Name) : Name := canonName name ++ sep ++ canonNs ns

/-- class of the AST node kept in `_item_by_canonical_name` -/
inductive Cls where
  | ns | type | route | alias | annotation | annotationType
  deriving DecidableEq, Repr, Inhabited

inductive ItemKind where
  | type | alias | annotation | annotationType
  | route (version : Int)
  deriving DecidableEq, Repr, Inhabited

def ItemKind.cls : ItemKind → Cls
  | .type => .type | .alias => .alias | .annotation => .annotation | .annotationType => .annotationType
  | .route _ => .route

def ItemKind.isRoute : ItemKind → Bool
  | .route _ => true
  | _ => false

structure Item where
  kind : ItemKind
  name : Name
  deriving DecidableEq, Repr, Inhabited

/-- one spec file: its namespace line and its definitions in order -/
structure File where
  ns : Name
  items : List Item
  deriving DecidableEq, Repr, Inhabited

def builtinTypes : List Name := Tables.feBuiltinTypes.map String.toList
def builtinAnnotations : List Name := Tables.feBuiltinAnnotations.map String.toList

/-- what `env[name]` holds -/
inductive EnvEntry where
  | user                          -- Struct / Union / Alias / Annotation / AnnotationType
  | routes (versions : List Int)  -- ApiRoutesByVersion (keys of `at_version`)
  deriving DecidableEq, Repr, Inhabited

structure State where
  canon : List (Name × Cls) := []                  -- `_item_by_canonical_name`; first match = current value
  env : List ((Name × Name) × EnvEntry) := []      -- (namespace, symbol) ↦ entry; the built-in classes are implicit
  deriving Repr, Inhabited

inductive Reason where
  | symbolDefined          -- "Symbol %s already defined (%s:%d)."
  | routeVersionDefined    -- "Route %s at version %d already defined (%s:%d)."
  | builtinAnnotation      -- "Cannot redefine built-in annotation type %s."
  | nameConflict           -- "Name of %s '%s' conflicts with name of %s '%s' (%s:%s)."
  deriving DecidableEq, Repr, Inhabited

inductive Err where
  | specerr (r : Reason)
  | crash (e : PyExc)
  deriving DecidableEq, Repr, Inhabited

/-- `_check_canonical_name_available` -/
def checkCanon (st : State) (c : Cls) (name ns : Name) (allowDup : Bool) : Except Err State :=
  let k := key name ns
  match st.canon.lookup k with
  | none => .ok { st with canon := (k, c) :: st.canon }
  | some stored =>
    if c == stored && allowDup then .ok st
    else .error (.specerr .nameConflict)

/-- `_raise_symbol_already_defined(existing, item)`; `none` = a built-in type class (no `_ast_node`: "built-in") -/
def symbolAlreadyDefined : Option EnvEntry → Err
  | some (.routes []) => .crash .valueError       -- `min(existing.at_version)` of an empty dictionary
  | _ => .specerr .symbolDefined

/-- `_create_*` followed by `_check_canonical_name_available` for one definition of namespace `ns` -/
def addItem (st : State) (ns : Name) (x : Item) : Except Err State :=
  if builtinTypes.contains x.name then .error (symbolAlreadyDefined none) else    -- `item.name in env`: a class
  match x.kind, st.env.lookup (ns, x.name) with
  | .route v, some (.routes vs) =>
    if vs.contains v then .error (.specerr .routeVersionDefined)
    else checkCanon { st with env := ((ns, x.name), .routes (v :: vs)) :: st.env } .route x.name ns true
  | .route v, none =>
    checkCanon { st with env := ((ns, x.name), .routes [v]) :: st.env } .route x.name ns true
  | _, some e => .error (symbolAlreadyDefined (some e))
  | k, none =>
    if k == .annotationType && builtinAnnotations.contains x.name then .error (.specerr .builtinAnnotation)
    else checkCanon { st with env := ((ns, x.name), .user) :: st.env } k.cls x.name ns false

def addItems (st : State) (ns : Name) : List Item → Except Err State
  | [] => .ok st
  | x :: xs => match addItem st ns x with
    | .ok st' => addItems st' ns xs
    | .error e => .error e

/-- one iteration of the `for partial_ast` loop -/
def addFile (st : State) (f : File) : Except Err State :=
  addItems { st with canon := (key f.ns f.ns, .ns) :: st.canon } f.ns f.items

def registerFrom (st : State) : List File → Except Err State
  | [] => .ok st
  | f :: fs => match addFile st f with
    | .ok st' => registerFrom st' fs
    | .error e => .error e

def register (fs : List File) : Except Err State := registerFrom {} fs

def isOk {ε α} : Except ε α → Bool
  | .ok _ => true
  | .error _ => false

/-! ## Specification level -/

/-- a definition together with its namespace -/
structure Decl where
  ns : Name
  item : Item
  deriving DecidableEq, Repr

def decls (fs : List File) : List Decl := fs.flatMap fun f => f.items.map fun x => ⟨f.ns, x⟩

def namespaces (fs : List File) : List Name := fs.map (·.ns)

/-- two definitions clash: same canonical name in canonically the same namespace, unless both are routes; two routes
clash when they are the same route (namespace, name) at the same version -/
def clash (a b : Decl) : Bool :=
  match a.item.kind, b.item.kind with
  | .route v, .route w => a.ns == b.ns && a.item.name == b.item.name && v == w
  | _, _ => canonName a.item.name == canonName b.item.name && canonNs a.ns == canonNs b.ns

/-- a definition is canonically named like a declared namespace it (canonically) lives in -/
def clashNs (a : Decl) (m : Name) : Bool :=
  canonName a.item.name == canonNs m && canonNs a.ns == canonNs m

/-- a built-in type name, or (for an annotation type) a built-in annotation name, is redefined -/
def redefinesBuiltin (a : Decl) : Bool :=
  builtinTypes.contains a.item.name ||
    (a.item.kind == .annotationType && builtinAnnotations.contains a.item.name)

/-- the names of a set of spec files obey the rules -/
def NoClash (fs : List File) : Prop :=
  (decls fs).Pairwise (fun a b => clash a b = false) ∧
  (∀ a ∈ decls fs, ∀ m ∈ namespaces fs, clashNs a m = false) ∧
  (∀ a ∈ decls fs, redefinesBuiltin a = false)

/-- all canonical keys in play: of every definition and of every namespace line -/
def keyParts (fs : List File) : List (Name × Name) :=
  (decls fs).map (fun a => (canonName a.item.name, canonNs a.ns)) ++ (namespaces fs).map (fun m => (canonNs m, canonNs m))

/-- the keys of `_get_base_name` are unambiguous on these inputs: two keys are equal only if both parts are.
(Before the separator was introduced `Ab` in `c` and `A` in `bc` both gave `abc`; now this holds for every input
whose namespace names are identifiers, `concatUnambiguous_of_nsLexical`.) -/
def ConcatUnambiguous (fs : List File) : Prop :=
  ∀ p ∈ keyParts fs, ∀ q ∈ keyParts fs, p.1 ++ sep ++ p.2 = q.1 ++ sep ++ q.2 → p = q

/-- the same declarations, possibly in other files / another order (files of one namespace may be merged or split) -/
def SameDecls (fs fs' : List File) : Prop :=
  (decls fs).Perm (decls fs') ∧ (∀ m, m ∈ namespaces fs ↔ m ∈ namespaces fs')

instance (fs : List File) : Decidable (NoClash fs) := by unfold NoClash; infer_instance
instance (fs : List File) : Decidable (ConcatUnambiguous fs) := by unfold ConcatUnambiguous; infer_instance

end StoneVerif.FeNames
