/-
Model of `textwrap.fill(s, initial_indent=…, subsequent_indent=…, width=…, break_long_words=False,
break_on_hyphens=False)` as called by `Backend.emit_wrapped_text` (stone/backend.py), following
CPython 3.12 `textwrap.py` (`_munge_whitespace`, `_split` with `wordsep_simple_re`, `_wrap_chunks`
with `drop_whitespace=True`, `max_lines=None`, `_handle_long_word` with `break_long_words=False`).
`fix_sentence_endings` is off (default). Tabs are expanded with `str.expandtabs(8)`.

Import-free: this file is linked into the correspondence driver.
-/
namespace StoneVerif.Wrap

abbrev Str := List Char

/-- `ch.isspace()` (CPython `_PyUnicode_IsWhitespace`): what `chunk.strip() == ''` and `str.split()` use. -/
def isPySpace (c : Char) : Bool :=
  let n := c.toNat
  (9 ≤ n && n ≤ 13) || (28 ≤ n && n ≤ 32) || n == 0x85 || n == 0xa0 || n == 0x1680 ||
  (0x2000 ≤ n && n ≤ 0x200a) || n == 0x2028 || n == 0x2029 || n == 0x202f || n == 0x205f || n == 0x3000

/-- `textwrap._whitespace = '\t\n\x0b\x0c\r '`: what is munged to a space and what splits chunks. -/
def isTwSpace (c : Char) : Bool :=
  let n := c.toNat
  (9 ≤ n && n ≤ 13) || n == 32

/-- `str.expandtabs(tabsize)`; `col` is the running column (`j` in CPython's loop). -/
def expandTabs (tabsize : Nat) : Nat → Str → Str
  | _, [] => []
  | col, c :: cs =>
    if c = '\t' then
      if tabsize > 0 then
        let incr := tabsize - col % tabsize
        List.replicate incr ' ' ++ expandTabs tabsize (col + incr) cs
      else expandTabs tabsize col cs
    else if c = '\n' ∨ c = '\r' then c :: expandTabs tabsize 0 cs
    else c :: expandTabs tabsize (col + 1) cs

/-- `text.translate(unicode_whitespace_trans)` for one character -/
def trSpace (c : Char) : Char := if isTwSpace c then ' ' else c

/-- `_munge_whitespace` with `expand_tabs=True`, `replace_whitespace=True`, `tabsize=8` -/
def munge (s : Str) : Str := (expandTabs 8 0 s).map trSpace

/-- `[c for c in wordsep_simple_re.split(text) if c]`: maximal runs of whitespace / non-whitespace -/
def chunks : Str → List Str
  | [] => []
  | c :: cs =>
    match chunks cs with
    | [] => [[c]]
    | [] :: rest => [c] :: rest
    | (d :: w) :: rest =>
      if isTwSpace c = isTwSpace d then (c :: d :: w) :: rest else [c] :: (d :: w) :: rest

/-- `chunk.strip() == ''` -/
def isBlank (chunk : Str) : Bool := chunk.all isPySpace

/-- the inner `while chunks:` loop: take chunks while `cur_len + len(chunk) <= width` -/
def takeFit (width : Int) : Nat → List Str → List Str × List Str
  | _, [] => ([], [])
  | curLen, c :: cs =>
    if ((curLen + c.length : Nat) : Int) ≤ width then
      let r := takeFit width (curLen + c.length) cs
      (c :: r.1, r.2)
    else ([], c :: cs)

/-- `del chunks[-1]` at the start of a line when the chunk is blank and a line was already produced -/
def dropLeading (started : Bool) : List Str → List Str
  | c :: cs => if isBlank c && started then cs else c :: cs
  | [] => []

/-- `_handle_long_word` with `break_long_words=False`, guarded by `chunks and len(chunks[-1]) > width` -/
def longWord (width : Int) (cur rest : List Str) : List Str × List Str :=
  match rest with
  | r :: rs => if (r.length : Int) > width then (if cur = [] then ([r], rs) else (cur, rest)) else (cur, rest)
  | [] => (cur, rest)

/-- `if cur_line and cur_line[-1].strip() == '': del cur_line[-1]` -/
def dropTrailing (cur : List Str) : List Str :=
  match cur.getLast? with
  | some l => if isBlank l then cur.dropLast else cur
  | none => cur

/-- one iteration of the outer loop: (cur_line, remaining chunks) -/
def lineStep (width : Int) (started : Bool) (chunks : List Str) : List Str × List Str :=
  let chunks1 := dropLeading started chunks
  let r := takeFit width 0 chunks1
  let r2 := longWord width r.1 r.2
  (dropTrailing r2.1, r2.2)

theorem takeFit_length (width : Int) (n : Nat) (l : List Str) : (takeFit width n l).2.length ≤ l.length := by
  induction l generalizing n with
  | nil => simp [takeFit]
  | cons c cs ih =>
    simp only [takeFit]; split
    · have := ih (n + c.length); simp; omega
    · simp

theorem longWord_length (width : Int) (cur rest : List Str) : (longWord width cur rest).2.length ≤ rest.length := by
  unfold longWord; split
  · split
    · split <;> simp
    · simp
  · simp

/-- every iteration of the outer loop consumes at least one chunk -/
theorem lineStep_length (width : Int) (started : Bool) (c : Str) (cs : List Str) :
    (lineStep width started (c :: cs)).2.length < (c :: cs).length := by
  unfold lineStep
  simp only [dropLeading]
  split
  · have h1 := takeFit_length width 0 cs
    have h2 := longWord_length width (takeFit width 0 cs).1 (takeFit width 0 cs).2
    simp; omega
  · simp only [takeFit]
    split
    · have h1 := takeFit_length width (0 + c.length) cs
      have h2 := longWord_length width (c :: (takeFit width (0 + c.length) cs).1) (takeFit width (0 + c.length) cs).2
      simp only [Nat.zero_add, List.length_cons] at h1 h2 ⊢; omega
    · next h =>
      have : (c.length : Int) > width := by simp at h; omega
      simp [longWord, this]

/-- The outer `while chunks:` loop. Each produced line is (indent, cur_line); `started` is `bool(lines)`. -/
def wrapLoop (width : Int) (ini sub : Str) (started : Bool) (chunks : List Str) : List (Str × List Str) :=
  match chunks with
  | [] => []
  | c :: cs =>
    let indent := if started then sub else ini
    let r := lineStep (width - indent.length) started (c :: cs)
    have : r.2.length < (c :: cs).length := lineStep_length _ _ _ _
    if r.1 ≠ [] then (indent, r.1) :: wrapLoop width ini sub true r.2
    else wrapLoop width ini sub started r.2
termination_by chunks.length

/-- `'\n'.join(lines)` -/
def joinLines : List Str → Str
  | [] => []
  | [a] => a
  | a :: rest => a ++ '\n' :: joinLines rest

/-- `TextWrapper(...).wrap(text)`; `.error ()` = `ValueError("invalid width")` -/
def wrap (width : Int) (ini sub : Str) (text : Str) : Except Unit (List Str) :=
  if width ≤ 0 then .error ()
  else .ok ((wrapLoop width ini sub false (chunks (munge text))).map fun l => l.1 ++ l.2.flatten)

/-- `textwrap.fill(text, width=…, initial_indent=…, subsequent_indent=…, break_long_words=False, break_on_hyphens=False)` -/
def fill (width : Int) (ini sub : Str) (text : Str) : Except Unit Str :=
  (wrap width ini sub text).map joinLines

/-! Specification-level vocabulary (what "keeping every word in order" means). -/

/-- split at every whitespace character (like `re.split(r'\s', s)`), keeping empty pieces -/
def splitBy (p : Char → Bool) : Str → List Str
  | [] => [[]]
  | c :: cs =>
    if p c then [] :: splitBy p cs
    else match splitBy p cs with
      | w :: ws => (c :: w) :: ws
      | [] => [[c]]

/-- `s.split()`: maximal runs of non-whitespace characters -/
def words (s : Str) : List Str := (splitBy isPySpace s).filter (· ≠ [])

end StoneVerif.Wrap
