import StoneVerif.Model.Fmt
import StoneVerif.Model.Wrap
/-
Model of the emit machine of `stone.backend.Backend` / `CodeBackend` (stone/backend.py):
`emit`, `emit_raw`, `emit_wrapped_text`, `emit_placeholder`, `add_positional_placeholder`,
`add_named_placeholder`, `indent`, `block`, `generate_multiline_list`, `output_buffer_to_string`,
together with an independently written reference pretty-printer (`pieces` / `refText`).

A script is a tree: the `with self.indent(): …` / `with self.block(…): …` context managers are nodes
with a body. Python assertion failures are explicit errors.

Import-free apart from sibling models: linked into the correspondence driver.
-/
namespace StoneVerif.Emit
open StoneVerif.Fmt

abbrev Str := List Char

inductive Op where
  | emit (s : Str)
  | emitRaw (s : Str)
  | placeholder (name : Str)
  | addPos (s : Str)
  | addNamed (k v : Str)
  | wrapped (s pre ini sub : Str) (width : Int)
  | indent (dent : Option Int) (body : List Op)
  | block (before after : Str) (d0 d1 : Option Str) (dent : Option Int) (allman : Bool) (body : List Op)
  | mlist (items : List Str) (before after d0 d1 : Str) (compact : Bool) (sep : Str) (skipLastSep : Bool)

inductive Err where
  | newlineInEmit      -- assert '\n' not in s
  | rawNoNewline       -- 'Input string to emit_raw must end with a newline.'
  | negativeDent       -- assert dent is None or dent >= 0
  | badWidth           -- textwrap: ValueError("invalid width")
  | format             -- KeyError / IndexError / ValueError of str.format
  | nameOutsideModel   -- emit_placeholder name outside the modelled subset of str.format
  deriving Repr, DecidableEq

/-- the mutable attributes of `Backend` the emit functions touch -/
structure St where
  out : List Str                  -- self.output
  ind : Nat                       -- self.cur_indent
  pos : List Str                  -- self.positional_placeholders
  named : List (Str × Str)        -- self.named_placeholders, most recent assignment first

def St.init : St := { out := [], ind := 0, pos := [], named := [] }

/-- `indent_step()` -/
def indentStep (tabs : Bool) : Nat := if tabs then 1 else 4

/-- `make_indent()` -/
def makeIndent (tabs : Bool) (n : Nat) : Str := List.replicate n (if tabs then '\t' else ' ')

/-- `emit_raw(s)` -/
def emitRaw (st : St) (s : Str) : Except Err St :=
  let st' := { st with out := st.out ++ [escape s] }
  if s ≠ [] ∧ s.getLast? ≠ some '\n' then .error .rawNoNewline else .ok st'

/-- `emit(s)` -/
def emit (tabs : Bool) (st : St) (s : Str) : Except Err St :=
  if '\n' ∈ s then .error .newlineInEmit
  else if s ≠ [] then emitRaw st (makeIndent tabs st.ind ++ s ++ ['\n'])
  else emitRaw st ['\n']

/-- `emit_wrapped_text(s, prefix, initial_prefix, subsequent_prefix, width)` -/
def emitWrapped (tabs : Bool) (st : St) (s pre ini sub : Str) (width : Int) : Except Err St :=
  let pre' := makeIndent tabs st.ind ++ pre
  match Wrap.fill width (pre' ++ ini) (pre' ++ sub) s with
  | .error _ => .error .badWidth
  | .ok t => emitRaw st (t ++ ['\n'])

/-- the `for (i, item) in enumerate(items)` loop of the compact branch (`emit_list`) -/
def emitListCompact (tabs : Bool) (sep tail : Str) : St → List Str → Except Err St
  | st, [] => .ok st
  | st, [item] => emit tabs st (item ++ tail)
  | st, item :: rest => do
    let st ← emit tabs st (item ++ sep)
    emitListCompact tabs sep tail st rest

/-- the `for (i, item) in enumerate(items)` loop of the non-compact branch -/
def emitListLoose (tabs : Bool) (sep : Str) (skipLast : Bool) : St → List Str → Except Err St
  | st, [] => .ok st
  | st, [item] => if skipLast then emit tabs st item else emit tabs st (item ++ sep)
  | st, item :: rest => do
    let st ← emit tabs st (item ++ sep)
    emitListLoose tabs sep skipLast st rest

/-- `with self.indent(dent): body` around an arbitrary continuation -/
def withIndent (tabs : Bool) (st : St) (dent : Option Int) (body : St → Except Err St) : Except Err St :=
  match dent with
  | some d =>
    if d < 0 then .error .negativeDent
    else do
      let st' ← body { st with ind := st.ind + d.toNat }
      pure { st' with ind := st'.ind - d.toNat }
  | none => do
    let st' ← body { st with ind := st.ind + indentStep tabs }
    pure { st' with ind := st'.ind - indentStep tabs }

/-- `generate_multiline_list(items, before, after, delim, compact, sep, skip_last_sep)` -/
def mlist (tabs : Bool) (st : St) (items : List Str) (before after d0 d1 : Str) (compact : Bool) (sep : Str)
    (skipLast : Bool) : Except Err St :=
  match items with
  | [] => emit tabs st (before ++ d0 ++ d1 ++ after)
  | [x] => emit tabs st (before ++ d0 ++ x ++ d1 ++ after)
  | x :: rest =>
    if compact then do
      let st ← emit tabs st (before ++ d0 ++ x ++ sep)
      if before ≠ [] ∨ d0 ≠ [] then
        withIndent tabs st (some ((before.length + d0.length : Nat) : Int))
          (fun st => emitListCompact tabs sep (d1 ++ after) st rest)
      else emitListCompact tabs sep (d1 ++ after) st rest
    else do
      let st ← if before ≠ [] ∨ d0 ≠ [] then emit tabs st (before ++ d0) else pure st
      let st ← withIndent tabs st none (fun st => emitListLoose tabs sep skipLast st (x :: rest))
      if d1 ≠ [] ∨ after ≠ [] then emit tabs st (d1 ++ after)
      else if d1 ≠ [] then emit tabs st d1
      else pure st

/-- the lines `block` emits before the body -/
def blockHeader (tabs : Bool) (st : St) (before : Str) (d0 : Option Str) (allman : Bool) : Except Err St :=
  if before ≠ [] ∧ allman = false then
    match d0 with
    | some d => emit tabs st (before ++ ' ' :: d)
    | none => emit tabs st before
  else
    (if before ≠ [] then emit tabs st before else pure st) >>= fun st =>
      match d0 with
      | some d => emit tabs st d
      | none => pure st

/-- the line `block` emits after the body -/
def blockFooter (tabs : Bool) (st : St) (after : Str) (d1 : Option Str) : Except Err St :=
  match d1 with
  | some d => emit tabs st (d ++ after)
  | none => emit tabs st after

mutual
/-- run one operation -/
def run (tabs : Bool) (st : St) : Op → Except Err St
  | .emit s => emit tabs st s
  | .emitRaw s => emitRaw st s
  | .placeholder name =>
    if validName name then .ok { st with out := st.out ++ ['{' :: name ++ ['}']] }
    else .error .nameOutsideModel
  | .addPos s => .ok { st with pos := st.pos ++ [s] }
  | .addNamed k v => .ok { st with named := (k, v) :: st.named }
  | .wrapped s pre ini sub width => emitWrapped tabs st s pre ini sub width
  | .indent dent body => withIndent tabs st dent (fun st => runList tabs st body)
  | .block before after d0 d1 dent allman body =>
    blockHeader tabs st before d0 allman >>= fun st =>
      withIndent tabs st dent (fun st => runList tabs st body) >>= fun st =>
        blockFooter tabs st after d1
  | .mlist items before after d0 d1 compact sep skipLast =>
    mlist tabs st items before after d0 d1 compact sep skipLast

def runList (tabs : Bool) (st : St) : List Op → Except Err St
  | [] => .ok st
  | op :: ops => do
    let st' ← run tabs st op
    runList tabs st' ops
end

/-- `output_buffer_to_string()` -/
def bufferToString (st : St) : Except Err Str :=
  match pyFormat st.named st.pos st.out.flatten with
  | some t => .ok t
  | none => .error .format

/-- a whole script on a fresh backend, then `output_buffer_to_string()` -/
def runScript (tabs : Bool) (script : List Op) : Except Err Str := do
  let st ← runList tabs St.init script
  bufferToString st

/-! ## Reference pretty-printer (specification side)

Written from the documentation of the emit functions, with the indentation as an explicit
argument instead of mutable state and without any escaping / formatting round trip:
each line = indentation of the enclosing contexts ++ text ++ "\n" (an empty text gives a bare
newline), raw text verbatim, placeholders replaced by their registered text. -/

inductive Piece where
  | line (ind : Nat) (text : Str)
  | raw (text : Str)
  | field (name : Str)

def dentOf (tabs : Bool) : Option Int → Nat
  | some d => d.toNat
  | none => indentStep tabs

/-- lines of `generate_multiline_list` -/
def mlistPieces (tabs : Bool) (ind : Nat) (items : List Str) (before after d0 d1 : Str) (compact : Bool)
    (sep : Str) (skipLast : Bool) : List Piece :=
  match items with
  | [] => [.line ind (before ++ d0 ++ d1 ++ after)]
  | [x] => [.line ind (before ++ d0 ++ x ++ d1 ++ after)]
  | x :: rest =>
    if compact then
      let ind' := ind + before.length + d0.length
      [.line ind (before ++ d0 ++ x ++ sep)]
        ++ rest.dropLast.map (fun i => .line ind' (i ++ sep))
        ++ [.line ind' (rest.getLast?.getD [] ++ d1 ++ after)]
    else
      let ind' := ind + indentStep tabs
      let all := x :: rest
      (if before ++ d0 ≠ [] then [.line ind (before ++ d0)] else [])
        ++ all.dropLast.map (fun i => .line ind' (i ++ sep))
        ++ [.line ind' (all.getLast?.getD [] ++ (if skipLast then [] else sep))]
        ++ (if d1 ++ after ≠ [] then [.line ind (d1 ++ after)] else [])

mutual
def pieces (tabs : Bool) (ind : Nat) : Op → List Piece
  | .emit s => [.line ind s]
  | .emitRaw s => [.raw s]
  | .placeholder name => [.field name]
  | .addPos _ => []
  | .addNamed _ _ => []
  | .wrapped s pre ini sub width =>
    let p := makeIndent tabs ind ++ pre
    match Wrap.fill width (p ++ ini) (p ++ sub) s with
    | .ok t => [.raw (t ++ ['\n'])]
    | .error _ => []
  | .indent dent body => piecesList tabs (ind + dentOf tabs dent) body
  | .block before after d0 d1 dent allman body =>
    (if before ≠ [] ∧ allman = false then
        [.line ind (match d0 with | some d => before ++ ' ' :: d | none => before)]
      else
        (if before ≠ [] then [.line ind before] else []) ++ (match d0 with | some d => [.line ind d] | none => []))
    ++ piecesList tabs (ind + dentOf tabs dent) body
    ++ [.line ind (match d1 with | some d => d ++ after | none => after)]
  | .mlist items before after d0 d1 compact sep skipLast =>
    mlistPieces tabs ind items before after d0 d1 compact sep skipLast

def piecesList (tabs : Bool) (ind : Nat) : List Op → List Piece
  | [] => []
  | op :: ops => pieces tabs ind op ++ piecesList tabs ind ops
end

/-- the text a piece contributes / the field it stands for -/
def pieceSeg (tabs : Bool) : Piece → Seg
  | .line ind text => .lit (if text = [] then ['\n'] else makeIndent tabs ind ++ text ++ ['\n'])
  | .raw text => .lit text
  | .field name => .field name

/-- a piece the real code accepts: no newline inside an emitted line, raw text ends with a newline,
field name inside the modelled subset -/
def pieceOk : Piece → Bool
  | .line _ text => !('\n' ∈ text)
  | .raw text => text = [] || text.getLast? = some '\n'
  | .field name => validName name

mutual
/-- contexts have non-negative dents, wrap widths are positive -/
def ctxOk : Op → Bool
  | .wrapped _ _ _ _ width => 0 < width
  | .indent dent body => (match dent with | some d => 0 ≤ d | none => true) && ctxOkList body
  | .block _ _ _ _ dent _ body => (match dent with | some d => 0 ≤ d | none => true) && ctxOkList body
  | _ => true
def ctxOkList : List Op → Bool
  | [] => true
  | op :: ops => ctxOk op && ctxOkList ops
end

mutual
/-- positional placeholders in registration order -/
def posOf : Op → List Str
  | .addPos s => [s]
  | .indent _ body => posOfList body
  | .block _ _ _ _ _ _ body => posOfList body
  | _ => []
def posOfList : List Op → List Str
  | [] => []
  | op :: ops => posOf op ++ posOfList ops
end

mutual
/-- named placeholders, most recent registration first (a later registration overrides) -/
def namedOf : Op → List (Str × Str)
  | .addNamed k v => [(k, v)]
  | .indent _ body => namedOfList body
  | .block _ _ _ _ _ _ body => namedOfList body
  | _ => []
def namedOfList : List Op → List (Str × Str)
  | [] => []
  | op :: ops => namedOfList ops ++ namedOf op
end

/-- well-formed script: everything the real code asserts -/
def wellFormed (tabs : Bool) (script : List Op) : Bool :=
  ctxOkList script && (piecesList tabs 0 script).all pieceOk

/-- The reference pretty-printer: final text of a script, `none` if the script is refused. -/
def refText (tabs : Bool) (script : List Op) : Option Str :=
  if wellFormed tabs script then
    expand (namedOfList script) (posOfList script) ((piecesList tabs 0 script).map (pieceSeg tabs))
  else none

end StoneVerif.Emit
