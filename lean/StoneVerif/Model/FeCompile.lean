import StoneVerif.Gen.Tables
import StoneVerif.Model.FeParams
import StoneVerif.Model.FeNames
/-!
# The core of the IR generator: declarations -> the type graph of the Api (C02)

Code-following part (`compile`): stone/frontend/ir_generator.py as it is in the repository now,

* `generate_IR`: the passes in their order -- registration of every file, imports, `_populate_type_attributes`,
  `_populate_field_defaults` (only its type tests), `_populate_enumerated_subtypes`, `_populate_route_attributes`
  (the three types and `deprecated by`; `stone_cfg` and the attributes: `compileFull`, the last section of this file);
* `_add_data_types_and_routes_to_api` with `_create_type` / `_create_alias` / `_create_route` / `_create_annotation*`
  reduced to the name they bind (`item.name in env`), `_check_canonical_name_available` (`FeNames.key`);
* `_add_imports_to_env`, `_env_imports_namespace` (the import graph is searched depth first);
* `_resolve_type` / `_resolve_args` / `_instantiate_data_type` (= `FeParams.instantiate`, the model of C01, used as it
  is): name lookup in the environment of the namespace (imports shadow definitions shadow built-in classes), the
  `ns.` prefix re-binds the environment (also for the arguments), `?` wraps after the alias-aware tests;
* `_populate_struct_type_attributes` / `_populate_union_type_attributes` / `_create_struct_field` /
  `_create_union_field`, `UserDefined.set_attributes` (field names unique, and unique along the chain of parents),
  `Union.set_attributes`, the implicit catch-all `other`;
* the on-demand population of a parent (`enforce_fully_defined`) with `_resolution_in_progress`: a depth-first walk
  with a visiting set. `populate` recurses on explicit fuel (`populateFuel` = number of type declarations + 1);
  running out of fuel is the explicit error `outOfFuel` -- never a verdict (Lemmas/FeCompileFuel.lean: it does not
  happen); the walks along aliases, ancestors and imports have their own bounds and errors `fuelAlias`,
  `fuelAncestors`, `fuelImports`;
* `Alias.set_attributes`: the cycle search through aliases / List / Map / Nullable. Python keeps a visited set; the
  model searches without one (`reachK`, on fuel). On the state the search runs in -- the targets set so far contain
  no cycle, which is the loop invariant proved in Lemmas/FeCompileAcyclic.lean -- both visit the same aliases;
* the re-check of `_nullable_refs` at the end of `_populate_type_attributes`.

Left out (the input AST has no place for them): docs, annotations applied to members, examples, patches, route
attributes, the value of a default (C10), doc references.  Annotation and annotation-type definitions are kept as
names only (they occupy a symbol and a canonical name).

Type references.  `TRef` has three shapes: no type argument (`T`, `T(lit, ..)`), one (`List(T)`), two (`Map(K, V)`);
keyword arguments are literals.  A reference that mixes literal and type positional arguments, or passes a type by
keyword, is outside the modelled input (the harness counts and skips those).

Specification level (`denote`): written from docs/lang_ref.rst -- what each declaration means given ALL files:
a namespace is the union of its files, a name means the definition of that name in its namespace (or the built-in
type), `ns.T` needs an `import ns` somewhere in the namespace, open unions that do not inherit a catch-all get the
`other` tag.  It never looks at the order of files or declarations except to list members in declaration order.
-/
namespace StoneVerif.FeCompile
open StoneVerif.FeParams (TyKind Arg TyVal PyExc)

/-- (namespace, name) -/
abbrev Key := String × String

/-! ## Input: the parser's AST, reduced -/

structure RefHead where
  ns : Option String
  name : String
  kw : List (String × Arg)
  nullable : Bool
  deriving DecidableEq, Repr, Inhabited

inductive TRef where
  | leaf (h : RefHead) (lits : List Arg)      -- `T`, `T?`, `String(min_length=1)`, `Timestamp("%Y")`
  | app1 (h : RefHead) (a : TRef)             -- `List(T, ..)`
  | app2 (h : RefHead) (a b : TRef)           -- `Map(K, V)`
  deriving DecidableEq, Repr, Inhabited

def TRef.head : TRef → RefHead
  | .leaf h _ => h
  | .app1 h _ => h
  | .app2 h _ _ => h

/-- an applied annotation: `@name` / `@ns.name` -/
structure ARef where
  ns : Option String
  name : String
  deriving DecidableEq, Repr, Inhabited

/-- what an annotation definition instantiates: a built-in annotation type, or a custom one -/
inductive AnnotKind where
  | deprecated | omitted | preview | redacted | custom
  deriving DecidableEq, Repr, Inhabited

/-- a struct field / union tag; `ty = none` is an `AstVoidField` -/
structure AField where
  name : String
  ty : Option TRef
  hasDefault : Bool := false
  annots : List ARef := []
  deriving DecidableEq, Repr, Inhabited

inductive TypeKind where
  | struct
  | union (closed : Bool)
  deriving DecidableEq, Repr, Inhabited

structure TypeDecl where
  name : String
  kind : TypeKind
  «extends» : Option TRef := none
  fields : List AField := []
  /-- the inner `union` / `union_closed` of a struct: tags with their subtype references, catch-all flag -/
  subtypes : Option (List (String × TRef) × Bool) := none
  deriving DecidableEq, Repr, Inhabited

/-- the value of a route attribute (`attrs` section): a literal (`flt` = the IEEE-754 bits of the double) or a bare
identifier, which the parser hands over as a tag reference -/
inductive AVal where
  | null
  | bool (b : Bool)
  | int (n : Int)
  | flt (bits : Nat)
  | str (s : String)
  | tag (t : String)
  deriving DecidableEq, Repr, Inhabited

structure RouteDecl where
  name : String
  version : Int
  arg : TRef
  result : TRef
  error : Option TRef
  /-- `none`; `some none` = `deprecated`; `some (some (name, version))` = `deprecated by name:version` -/
  deprecated : Option (Option (String × Int)) := none
  /-- the `attrs` section: attribute name, value -/
  attrs : List (String × AVal) := []
  deriving DecidableEq, Repr, Inhabited

/-- `patch struct S` / `patch union U` / `patch union_closed U`: members to be added to a type declared elsewhere -/
structure PatchDecl where
  name : String
  kind : TypeKind
  fields : List AField := []
  deriving DecidableEq, Repr, Inhabited

inductive Decl where
  | type (d : TypeDecl)
  | alias (name : String) (ref : TRef)
  | route (r : RouteDecl)
  | imp (target : String)
  | annot (name : String) (kind : AnnotKind)
  | annotType (name : String)
  | patch (p : PatchDecl)
  /-- the annotations applied to the alias `name` (carried beside its declaration) -/
  | aliasAnnots (name : String) (annots : List ARef)
  deriving DecidableEq, Repr, Inhabited

structure File where
  ns : String
  decls : List Decl
  deriving DecidableEq, Repr, Inhabited

/-! ## Output -/

/-- a resolved type: what the `DataType` object graph is, with user types and aliases by (namespace, name) -/
inductive Ty where
  | prim (v : TyVal)
  | list (e : Ty) (mn mx : Option Int)
  | map (k v : Ty)
  | nullable (t : Ty)
  | user (k : Key)
  | alias (k : Key)
  deriving DecidableEq, Repr, Inhabited

def tyVoid : Ty := .prim (.plain .void)

structure CField where
  name : String
  ty : Ty
  hasDefault : Bool := false
  deriving DecidableEq, Repr, Inhabited

structure CType where
  isStruct : Bool
  closed : Bool := false
  parent : Option Key := none
  /-- `fields`: the declared members in order, then (unions) the implicit `other` when `catchAll` -/
  fields : List CField := []
  catchAll : Bool := false
  deriving DecidableEq, Repr, Inhabited

structure CRoute where
  name : String
  version : Int
  arg : Ty
  result : Ty
  error : Ty
  deprecated : Option (Option (String × Int)) := none
  deriving DecidableEq, Repr, Inhabited

structure NsOut where
  name : String
  types : List (String × CType)
  aliases : List (String × Ty)
  routes : List CRoute
  /-- enumerated subtypes of the structs that declare them: tag, subtype; catch-all flag -/
  enums : List (String × (List (String × Key) × Bool))
  deriving DecidableEq, Repr, Inhabited

structure Api where
  nss : List NsOut
  deriving DecidableEq, Repr, Inhabited

/-! ## Errors: the `InvalidSpec` sites of the modelled functions -/

inductive Err where
  -- registration
  | symbolDefined | routeVersionDefined | nameConflict | builtinAnnotation
  -- `_merge_patches`
  | patchNoTarget | patchMismatch | patchFieldClash
  -- imports
  | importSelf | importUndefined | importCircular
  -- `_resolve_type`
  | nsNotImported | notNamespace | undefinedSymbol | voidNullable | routeRef | notDataType | attrsOnUser
  | params (r : FeParams.Reason)
  | circular | nullableNullable
  -- `_populate_*_type_attributes`, `set_attributes`
  | extendsAlias | extendsNullable | extendsNonStruct | extendsNonUnion
  | voidField | nullableDefault | otherReserved | voidExplicit | closedExtendsOpen
  | dupField | parentField
  | aliasCycle
  -- `_populate_field_defaults`
  | defaultNotAllowed
  -- `_populate_enumerated_subtypes`, `set_enumerated_subtypes`
  | undefinedSubtype | subtypeNotStruct | enumExtends | subtypeTwice | notSubtype | tagFieldClash | missingSubtype
  | subtypeExtended
  -- routes
  | routeTwoTypes | undefinedRoute | notRoute
  -- annotations applied to members and aliases
  | annotNotExist | annotNotRecognized | aliasAnnotUnsupported
  | deprecatedTwice | omittedTwice | previewTwice | redactorTwice | deprecatedPreview
  | redactorOnAliasRef | redactorAlready | redactorOnUser
  -- `_validate_stone_cfg`, `Struct.check_attr_repr`, `StructField.check_attr_repr`
  | cfgRoutes | cfgNotRoute | attrNotSettable | attrValue | attrMissing | attrUnknown
  -- not `InvalidSpec`
  | crash (e : PyExc)     -- an exception of another class
  | outOfFuel             -- the recursion bound of `populate` was hit: no verdict
  | fuelAlias | fuelAncestors | fuelImports   -- the bound of an alias / ancestor / import walk was hit: no verdict
  | internal              -- a state the code cannot be in (a populated parent that is not there)
  deriving DecidableEq, Repr, Inhabited

/-! ## Environments -/

/-- what a definition binds in the environment of its namespace -/
inductive Item where
  | type (d : TypeDecl)
  | alias (r : TRef)
  | routes (versions : List Int)      -- `ApiRoutesByVersion`
  | other                             -- annotation type
  | annot (k : AnnotKind)             -- annotation
  deriving DecidableEq, Repr, Inhabited

/-- the state after registration and imports; nothing later changes it -/
structure Env where
  files : List File := []
  nss : List String := []                       -- `api.namespaces`, order of first appearance
  items : List (Key × Item) := []               -- latest first
  imports : List (String × String) := []        -- (namespace, imported namespace)
  deriving Repr, Inhabited

inductive Entry where
  | builtin (k : TyKind)
  | item (i : Item)
  | ns (target : String)                        -- an `Environment`
  deriving DecidableEq, Repr, Inhabited

/-- `env[name]` before the imports are bound -/
def lookupSym (items : List (Key × Item)) (ns name : String) : Option Entry :=
  match items.lookup (ns, name) with
  | some i => some (.item i)
  | none => (TyKind.ofName? name).map .builtin

/-- `env[name]` of the namespace `ns`: `env[target] = imported_env` is assigned last, so an import shadows -/
def Env.lookup (E : Env) (ns name : String) : Option Entry :=
  if E.imports.contains (ns, name) then some (.ns name) else lookupSym E.items ns name

/-! ## Pass 1: registration -/

structure RegSt where
  nss : List String := []
  items : List (Key × Item) := []
  canon : List (FeNames.Name × FeNames.Cls) := []
  deriving Repr, Inhabited

/-- `_check_canonical_name_available` -/
def checkCanon (st : RegSt) (c : FeNames.Cls) (name ns : String) (allowDup : Bool) : Except Err RegSt :=
  let k := FeNames.key name.toList ns.toList
  match st.canon.lookup k with
  | none => .ok { st with canon := (k, c) :: st.canon }
  | some stored => if c == stored && allowDup then .ok st else .error .nameConflict

/-- `_create_type` / `_create_alias` / `_create_annotation*`: bind a new symbol -/
def bindNew (st : RegSt) (ns name : String) (i : Item) (c : FeNames.Cls) : Except Err RegSt :=
  match lookupSym st.items ns name with
  | some _ => .error .symbolDefined
  | none => checkCanon { st with items := ((ns, name), i) :: st.items } c name ns false

def regDecl (st : RegSt) (ns : String) : Decl → Except Err RegSt
  | .type d => bindNew st ns d.name (.type d) .type
  | .alias name r => bindNew st ns name (.alias r) .alias
  | .annot name k => bindNew st ns name (.annot k) .annotation
  | .annotType name =>
    match lookupSym st.items ns name with
    | some _ => .error .symbolDefined
    | none =>
      if Tables.feBuiltinAnnotations.contains name then .error .builtinAnnotation
      else checkCanon { st with items := ((ns, name), .other) :: st.items } .annotationType name ns false
  | .imp _ => .ok st
  | .patch _ => .ok st          -- kept in `_patch_data_by_canonical_name` for later
  | .aliasAnnots _ _ => .ok st  -- part of the alias declaration
  | .route r =>
    match lookupSym st.items ns r.name with
    | some (.item (.routes vs)) =>
      if vs.contains r.version then .error .routeVersionDefined
      else checkCanon { st with items := ((ns, r.name), .routes (r.version :: vs)) :: st.items } .route r.name ns true
    | some _ => .error .symbolDefined
    | none => checkCanon { st with items := ((ns, r.name), .routes [r.version]) :: st.items } .route r.name ns true

def regDecls (st : RegSt) (ns : String) : List Decl → Except Err RegSt
  | [] => .ok st
  | d :: ds => match regDecl st ns d with
    | .ok st' => regDecls st' ns ds
    | .error e => .error e

/-- one iteration of the `for partial_ast` loop of `generate_IR` -/
def regFile (st : RegSt) (f : File) : Except Err RegSt :=
  regDecls { st with nss := if st.nss.contains f.ns then st.nss else st.nss ++ [f.ns],
                     canon := (FeNames.key f.ns.toList f.ns.toList, .ns) :: st.canon } f.ns f.decls

def regFiles (st : RegSt) : List File → Except Err RegSt
  | [] => .ok st
  | f :: fs => match regFile st f with
    | .ok st' => regFiles st' fs
    | .error e => .error e

/-! ## Pass 2: imports -/

inductive Tri where
  | yes | no | fuel
  deriving DecidableEq, Repr, Inhabited

/-- some element answers `yes` (the search stops there); otherwise `fuel` if some answer is missing -/
def anyTri {α} (f : α → Tri) : List α → Tri
  | [] => .no
  | x :: xs => match f x with
    | .yes => .yes
    | .no => anyTri f xs
    | .fuel => match anyTri f xs with
      | .yes => .yes
      | _ => .fuel

def importsOf (I : List (String × String)) (n : String) : List String :=
  (I.filter (·.1 == n)).map (·.2)

/-- depth-first search for `goal` from `n` in the graph `succ`, without a visited set, on fuel: `yes` = reached,
`no` = every branch ended, `fuel` = some branch was cut. (`_env_imports_namespace` and the loop of
`Alias.set_attributes` keep a visited set; on the acyclic graphs they run on the answers are the same.) -/
def search {α} [BEq α] (succ : α → List α) (goal : α) : Nat → α → Tri
  | 0, _ => .fuel
  | f + 1, n => if n == goal then .yes else anyTri (search succ goal f) (succ n)

def addImport (nss : List String) (I : List (String × String)) (ns target : String) :
    Except Err (List (String × String)) :=
  if ns == target then .error .importSelf
  else if !nss.contains target then .error .importUndefined
  else match anyTri (search (importsOf I) ns (nss.length + 1)) (importsOf I target) with
    | .yes => .error .importCircular
    | .fuel => .error .fuelImports
    | .no => .ok ((ns, target) :: I)

def addImportsDecls (nss : List String) (I : List (String × String)) (ns : String) :
    List Decl → Except Err (List (String × String))
  | [] => .ok I
  | .imp t :: ds => match addImport nss I ns t with
    | .ok I' => addImportsDecls nss I' ns ds
    | .error e => .error e
  | _ :: ds => addImportsDecls nss I ns ds

def addImportsFiles (nss : List String) (I : List (String × String)) : List File → Except Err (List (String × String))
  | [] => .ok I
  | f :: fs => match addImportsDecls nss I f.ns f.decls with
    | .ok I' => addImportsFiles nss I' fs
    | .error e => .error e

/-- passes 1 and 2 -/
def buildEnv (fs : List File) : Except Err Env :=
  match regFiles {} fs with
  | .error e => .error e
  | .ok st => match addImportsFiles st.nss [] fs with
    | .error e => .error e
    | .ok I => .ok { files := fs, nss := st.nss, items := st.items, imports := I }

/-- the declarations of a namespace, files in command-line order -/
def declsOf (fs : List File) (ns : String) : List Decl :=
  (fs.filter (·.ns == ns)).flatMap (·.decls)

def typeDecls : List Decl → List TypeDecl
  | [] => []
  | .type d :: ds => d :: typeDecls ds
  | _ :: ds => typeDecls ds

def aliasDecls : List Decl → List (String × TRef)
  | [] => []
  | .alias n r :: ds => (n, r) :: aliasDecls ds
  | _ :: ds => aliasDecls ds

def routeDecls : List Decl → List RouteDecl
  | [] => []
  | .route r :: ds => r :: routeDecls ds
  | _ :: ds => routeDecls ds

def allTypeDecls (fs : List File) : List TypeDecl := typeDecls (fs.flatMap (·.decls))

def populateFuel (E : Env) : Nat := (allTypeDecls E.files).length + 1

def allAliasDecls (fs : List File) : List (String × TRef) := aliasDecls (fs.flatMap (·.decls))

/-- bound of every walk along alias targets: number of alias declarations + 1 -/
def aliasFuel (E : Env) : Nat := (allAliasDecls E.files).length + 1

/-! ## `_resolve_type` -/

def Ty.isStringInst : Ty → Bool
  | .prim (.string ..) => true
  | _ => false

def Ty.isVoid : Ty → Bool
  | .prim (.plain .void) => true
  | _ => false

def Ty.isNullable : Ty → Bool
  | .nullable _ => true
  | _ => false

/-- the instance the constructor returned, with its type-valued arguments put back -/
def mkTy (tv : TyVal) (tys : List Ty) : Ty :=
  match tv, tys with
  | .list _ mn mx, [e] => .list e mn mx
  | .map _ _, [k, v] => .map k v
  | tv, _ => .prim tv

/-- `_instantiate_data_type` on the resolved arguments -/
def instBuiltin (rx : String → Bool) (k : TyKind) (tys : List Ty) (lits : List Arg) (kw : List (String × Arg)) :
    Except Err Ty :=
  match FeParams.instantiate rx k (tys.map (fun t => Arg.ty t.isStringInst) ++ lits) kw with
  | .ok tv => .ok (mkTy tv tys)
  | .error (.specerr r) => .error (.params r)
  | .error (.crash e) => .error (.crash e)

/-- aliases whose target is set (`alias.data_type is not None`) -/
abbrev AliasMap := List (Key × Ty)

/-- the target of an alias, where it is known -/
abbrev Look := Key → Option Ty

def lookOf (A : AliasMap) : Look := fun k => A.lookup k

/-- `unwrap_aliases(t)[0]`; `none` = Python `None` (an alias without target yet) -/
def unwrapAliases (look : Look) : Nat → Ty → Except Err (Option Ty)
  | f + 1, .alias k => match look k with
    | none => .ok none
    | some t => unwrapAliases look f t
  | 0, .alias _ => .error .fuelAlias
  | _, t => .ok (some t)

/-- the end of `_resolve_type`: `if type_ref.nullable: ...` -/
def wrapNull (fuel : Nat) (look : Look) (nullable : Bool) (t : Ty) : Except Err Ty :=
  if !nullable then .ok t else
  match unwrapAliases look fuel t with
  | .error e => .error e
  | .ok (some (.nullable _)) => .error .nullableNullable
  | .ok (some (.prim (.plain .void))) => .error .voidNullable
  | .ok _ => .ok (.nullable t)

/-- the `ns.` prefix and the name: the namespace whose environment is current afterwards, and `env[name]` -/
def headLookup (E : Env) (cur : String) (h : RefHead) : Except Err (String × Entry) :=
  match h.ns with
  | some q =>
    match E.lookup cur q with
    | none => .error .nsNotImported
    | some (.ns target) =>
      (match E.lookup target h.name with
       | none => .error .undefinedSymbol
       | some e => .ok (target, e))
    | some _ => .error .notNamespace
  | none =>
    match E.lookup cur h.name with
    | none => .error .undefinedSymbol
    | some e => .ok (cur, e)

/-- the branches of `_resolve_type` for an `obj` that is not a class -/
def nonClass (ens : String) (h : RefHead) (hasArgs : Bool) : Entry → Except Err Ty
  | .item (.routes _) => .error .routeRef
  | .item .other => .error .notDataType
  | .item (.annot _) => .error .notDataType
  | .ns _ => .error .notDataType
  | .builtin _ => .error .internal
  | .item (.type _) => if hasArgs then .error .attrsOnUser else .ok (.user (ens, h.name))
  | .item (.alias _) => if hasArgs then .error .attrsOnUser else .ok (.alias (ens, h.name))

def finish (fuel : Nat) (look : Look) (wrap : Bool) (h : RefHead) (t : Ty) : Except Err Ty :=
  if wrap then wrapNull fuel look h.nullable t else .ok t

/-- `_resolve_type(env of cur, r)`; `wrap = false` stops before the final `if type_ref.nullable` (the caller that
enforces full definition does its work there) -/
def resolveW (rx : String → Bool) (E : Env) (A : AliasMap) (wrap : Bool) (cur : String) : TRef → Except Err Ty
  | .leaf h lits =>
    match headLookup E cur h with
    | .error e => .error e
    | .ok (_, .builtin k) =>
      if k == .void && h.nullable then .error .voidNullable else
      (match instBuiltin rx k [] lits h.kw with
       | .error e => .error e
       | .ok t => finish (aliasFuel E) (lookOf A) wrap h t)
    | .ok (ens, ent) =>
      (match nonClass ens h (!lits.isEmpty || !h.kw.isEmpty) ent with
       | .error e => .error e
       | .ok t => finish (aliasFuel E) (lookOf A) wrap h t)
  | .app1 h a =>
    match headLookup E cur h with
    | .error e => .error e
    | .ok (ens, .builtin k) =>
      if k == .void && h.nullable then .error .voidNullable else
      (match resolveW rx E A true ens a with
       | .error e => .error e
       | .ok ta =>
         match instBuiltin rx k [ta] [] h.kw with
         | .error e => .error e
         | .ok t => finish (aliasFuel E) (lookOf A) wrap h t)
    | .ok (ens, ent) =>
      (match nonClass ens h true ent with
       | .error e => .error e
       | .ok t => finish (aliasFuel E) (lookOf A) wrap h t)
  | .app2 h a b =>
    match headLookup E cur h with
    | .error e => .error e
    | .ok (ens, .builtin k) =>
      if k == .void && h.nullable then .error .voidNullable else
      (match resolveW rx E A true ens a with
       | .error e => .error e
       | .ok ta =>
         match resolveW rx E A true ens b with
         | .error e => .error e
         | .ok tb =>
           match instBuiltin rx k [ta, tb] [] h.kw with
           | .error e => .error e
           | .ok t => finish (aliasFuel E) (lookOf A) wrap h t)
    | .ok (ens, ent) =>
      (match nonClass ens h true ent with
       | .error e => .error e
       | .ok t => finish (aliasFuel E) (lookOf A) wrap h t)

def resolve (rx : String → Bool) (E : Env) (A : AliasMap) (cur : String) (r : TRef) : Except Err Ty :=
  resolveW rx E A true cur r

/-- what one `_resolve_type` call appends to `_nullable_refs`: the referenced type of every `?`, inner first -/
def nullRefs : Ty → List Ty
  | .nullable t => nullRefs t ++ [t]
  | .list e _ _ => nullRefs e
  | .map k v => nullRefs k ++ nullRefs v
  | _ => []

/-- user types / aliases written in a type expression, through List / Map / Nullable -/
def Ty.users : Ty → List Key
  | .user k => [k]
  | .list e _ _ => e.users
  | .map k v => k.users ++ v.users
  | .nullable t => t.users
  | _ => []

def Ty.aliases : Ty → List Key
  | .alias k => [k]
  | .list e _ _ => e.aliases
  | .map k v => k.aliases ++ v.aliases
  | .nullable t => t.aliases
  | _ => []

/-! ## Pass 3: `_populate_type_attributes` -/

structure St where
  aliases : AliasMap := []
  done : List (Key × CType) := []         -- populated types, latest first (`not _is_forward_ref`)
  nrefs : List Ty := []                   -- `_nullable_refs`
  deriving Repr, Inhabited

/-- the aliases the target of alias `k` mentions (through List / Map / Nullable); none while it has no target -/
def aliasSucc (look : Look) (k : Key) : List Key :=
  match look k with
  | some t => t.aliases
  | none => []

/-- one iteration of `for alias in namespace.aliases` -/
def setAlias (rx : String → Bool) (E : Env) (st : St) (ns name : String) (r : TRef) : Except Err St :=
  match resolve rx E st.aliases ns r with
  | .error e => .error e
  | .ok t =>
    match anyTri (search (aliasSucc (lookOf st.aliases)) (ns, name) (aliasFuel E)) t.aliases with
    | .yes => .error .aliasCycle
    | .fuel => .error .fuelAlias
    | .no => .ok { st with aliases := ((ns, name), t) :: st.aliases, nrefs := st.nrefs ++ nullRefs t }

/-- the populated type under a key -/
def typesOf (done : List (Key × CType)) : Key → Option CType := fun k => done.lookup k

def dupName : List String → Bool
  | [] => false
  | x :: xs => xs.contains x || dupName xs

/-- the names in `_fields_by_name` of the ancestors, nearest first (`while cur_type:` of `set_attributes`) -/
def ancestorNames (types : Key → Option CType) : Nat → Option Key → Except Err (List String)
  | _, none => .ok []
  | 0, some _ => .error .fuelAncestors
  | f + 1, some p =>
    match types p with
    | none => .error .internal
    | some c => match ancestorNames types f c.parent with
      | .error e => .error e
      | .ok ns => .ok (c.fields.map (·.name) ++ ns)

/-- `UserDefined.set_attributes` -/
def setAttributes (fuel : Nat) (st : St) (key : Key) (c : CType) : Except Err St :=
  if dupName (c.fields.map (·.name)) then .error .dupField else
  match ancestorNames (typesOf st.done) fuel c.parent with
  | .error e => .error e
  | .ok anc =>
    if c.fields.any (fun f => anc.contains f.name) then .error .parentField
    else .ok { st with done := (key, c) :: st.done }

/-- `_create_struct_field` -/
def structField (rx : String → Bool) (E : Env) (A : AliasMap) (ns : String) (f : AField) : Except Err CField :=
  match f.ty with
  | none => .error .voidField
  | some r =>
    match resolve rx E A ns r with
    | .error e => .error e
    | .ok t =>
      if t.isVoid then .error .voidField
      else if t.isNullable && f.hasDefault then .error .nullableDefault
      else .ok { name := f.name, ty := t, hasDefault := f.hasDefault }

/-- the tag loop of `_populate_union_type_attributes` with `_create_union_field` -/
def unionField (rx : String → Bool) (E : Env) (A : AliasMap) (ns : String) (f : AField) : Except Err CField :=
  if f.name == "other" then .error .otherReserved else
  match f.ty with
  | none => .ok { name := f.name, ty := tyVoid, hasDefault := false }
  | some r =>
    match resolve rx E A ns r with
    | .error e => .error e
    | .ok t =>
      if t.isVoid then .error .voidExplicit
      else .ok { name := f.name, ty := t, hasDefault := false }

def mapFields (g : AField → Except Err CField) : List AField → Except Err (List CField)
  | [] => .ok []
  | f :: fs => match g f with
    | .error e => .error e
    | .ok c => match mapFields g fs with
      | .error e => .error e
      | .ok cs => .ok (c :: cs)

def kindOf (E : Env) (k : Key) : Option TypeKind :=
  match E.items.lookup k with
  | some (.type d) => some d.kind
  | _ => none

/-- the tests on the resolved parent of a struct -/
def structParent (E : Env) : Ty → Except Err Key
  | .alias _ => .error .extendsAlias
  | .nullable _ => .error .extendsNullable
  | .user k => if kindOf E k == some .struct then .ok k else .error .extendsNonStruct
  | _ => .error .extendsNonStruct

/-- the tests on the resolved parent of a union; the parent with its `closed` -/
def unionParent (E : Env) : Ty → Except Err (Key × Bool)
  | .alias _ => .error .extendsAlias
  | .nullable _ => .error .extendsNullable
  | .user k => match kindOf E k with
    | some (.union c) => .ok (k, c)
    | _ => .error .extendsNonUnion
  | _ => .error .extendsNonUnion

def otherField : CField := { name := "other", ty := tyVoid }

def structParentOpt (E : Env) : Option Ty → Except Err (Option Key)
  | none => .ok none
  | some t => match structParent E t with
    | .ok k => .ok (some k)
    | .error e => .error e

def unionParentOpt (E : Env) : Option Ty → Except Err (Option (Key × Bool))
  | none => .ok none
  | some t => match unionParent E t with
    | .ok p => .ok (some p)
    | .error e => .error e

def parentIsOpen : Option (Key × Bool) → Bool
  | some (_, c) => !c
  | none => false

/-- what `_populate_union_type_attributes` hands to `set_attributes`: the catch-all `other` is appended for an open
union that does not inherit one -/
def unionCType (closed : Bool) (parent : Option (Key × Bool)) (fields : List CField) : CType :=
  let catchAll := !closed && !parentIsOpen parent
  { isStruct := false, closed := closed, parent := parent.map (·.1),
    fields := if catchAll then fields ++ [otherField] else fields, catchAll := catchAll }

/-- `_populate_struct_type_attributes` / `_populate_union_type_attributes` after the `extends` clause: the tests on
the resolved parent `pty`, the members, `set_attributes` -/
def populateStep (rx : String → Bool) (E : Env) (st1 : St) (key : Key) (d : TypeDecl) (pty : Option Ty) : Except Err St :=
  match d.kind with
  | .struct =>
    (match structParentOpt E pty with
     | .error e => .error e
     | .ok parent =>
       match mapFields (structField rx E st1.aliases key.1) d.fields with
       | .error e => .error e
       | .ok fields =>
         setAttributes (populateFuel E) { st1 with nrefs := st1.nrefs ++ fields.flatMap (fun f => nullRefs f.ty) } key
           { isStruct := true, parent := parent, fields := fields })
  | .union closed =>
    (match unionParentOpt E pty with
     | .error e => .error e
     | .ok parent =>
       match mapFields (unionField rx E st1.aliases key.1) d.fields with
       | .error e => .error e
       | .ok fields =>
         if closed && parentIsOpen parent then .error .closedExtendsOpen else
         setAttributes (populateFuel E) { st1 with nrefs := st1.nrefs ++ fields.flatMap (fun f => nullRefs f.ty) } key
           (unionCType closed parent fields))

/-- `_populate_struct_type_attributes` / `_populate_union_type_attributes` for the type `key` (declared as `d`);
`prog` = `_resolution_in_progress` (contains `key`). The parent is populated first when it is still a forward
reference (`_resolve_type(.., enforce_fully_defined=True)`), in the environment of ITS namespace. -/
def populate (rx : String → Bool) (E : Env) : Nat → List Key → St → Key → TypeDecl → Except Err St
  | 0, _, _, _, _ => .error .outOfFuel
  | fuel + 1, prog, st, key, d =>
    match d.extends with
    | none => populateStep rx E st key d none
    | some r =>
      match resolveW rx E st.aliases false key.1 r with
      | .error e => .error e
      | .ok t =>
        let st1 : Except Err St :=
          match t with
          | .user k =>
            if (st.done.lookup k).isSome then .ok st
            else if prog.contains k then .error .circular
            else match E.items.lookup k with
              | some (.type d') => populate rx E fuel (k :: prog) st k d'
              | _ => .error .internal
          | _ => .ok st
        match st1 with
        | .error e => .error e
        | .ok st1 =>
          match wrapNull (aliasFuel E) (lookOf st1.aliases) r.head.nullable t with
          | .error e => .error e
          | .ok t' => populateStep rx E { st1 with nrefs := st1.nrefs ++ nullRefs t' } key d (some t')

def setAliases (rx : String → Bool) (E : Env) (st : St) (ns : String) : List (String × TRef) → Except Err St
  | [] => .ok st
  | (n, r) :: as => match setAlias rx E st ns n r with
    | .error e => .error e
    | .ok st' => setAliases rx E st' ns as

/-- `for data_type in namespace.data_types: if not data_type._is_forward_ref: continue ...` -/
def populateAll (rx : String → Bool) (E : Env) (st : St) (ns : String) : List TypeDecl → Except Err St
  | [] => .ok st
  | d :: ds =>
    if (st.done.lookup (ns, d.name)).isSome then populateAll rx E st ns ds else
    match populate rx E (populateFuel E) [(ns, d.name)] st (ns, d.name) d with
    | .error e => .error e
    | .ok st' => populateAll rx E st' ns ds

def pass3Nss (rx : String → Bool) (E : Env) (st : St) : List String → Except Err St
  | [] => .ok st
  | ns :: nss =>
    match setAliases rx E st ns (aliasDecls (declsOf E.files ns)) with
    | .error e => .error e
    | .ok st1 => match populateAll rx E st1 ns (typeDecls (declsOf E.files ns)) with
      | .error e => .error e
      | .ok st2 => pass3Nss rx E st2 nss

/-- the loop over `_nullable_refs` at the end of `_populate_type_attributes` -/
def recheckNullable (fuel : Nat) (look : Look) : List Ty → Except Err Unit
  | [] => .ok ()
  | t :: ts =>
    match unwrapAliases look fuel t with
    | .error e => .error e
    | .ok (some (.nullable _)) => .error .nullableNullable
    | .ok (some (.prim (.plain .void))) => .error .voidNullable
    | .ok _ => recheckNullable fuel look ts

def pass3 (rx : String → Bool) (E : Env) : Except Err St :=
  match pass3Nss rx E {} E.nss with
  | .error e => .error e
  | .ok st => match recheckNullable (aliasFuel E) (lookOf st.aliases) st.nrefs with
    | .error e => .error e
    | .ok () => .ok st

/-! ## Pass 4: `_populate_field_defaults` (the tests on the type only) -/

def stripNullable : Ty → Ty
  | .nullable t => stripNullable t
  | t => t

/-- `unwrap(t)[0]`: through aliases and nullables -/
def unwrapAll (look : Look) : Nat → Ty → Except Err (Option Ty)
  | fuel, t =>
    match stripNullable t with
    | .alias k =>
      (match fuel with
       | 0 => .error .fuelAlias
       | f + 1 => match look k with
         | none => .ok none
         | some t' => unwrapAll look f t')
    | u => .ok (some u)

/-- the tests of `_populate_field_defaults` on the type of one field; `isUnion k` = the user type `k` is a union -/
def defaultLegal (fuel : Nat) (look : Look) (isUnion : Key → Bool) (f : CField) : Except Err Unit :=
  match unwrapAliases look fuel f.ty with
  | .error e => .error e
  | .ok u =>
    if (match u with | some t => t.isVoid | none => false) then .error .voidField
    else if !f.hasDefault then .ok ()
    else if (match f.ty, u with | .alias _, some (.nullable _) => true | _, _ => false) then .error .nullableDefault
    else match unwrapAll look fuel f.ty with
      | .error e => .error e
      | .ok (some (.prim _)) => .ok ()
      | .ok (some (.user k)) => if isUnion k then .ok () else .error .defaultNotAllowed
      | .ok _ => .error .defaultNotAllowed

def isUnionKind : Option TypeKind → Bool
  | some (.union _) => true
  | _ => false

def defaultField (E : Env) (A : AliasMap) (f : CField) : Except Err Unit :=
  defaultLegal (aliasFuel E) (lookOf A) (fun k => isUnionKind (kindOf E k)) f

def defaultFields (E : Env) (A : AliasMap) : List CField → Except Err Unit
  | [] => .ok ()
  | f :: fs => match defaultField E A f with
    | .error e => .error e
    | .ok () => defaultFields E A fs

/-- all (namespace, type declaration) pairs, namespaces in `api.namespaces` order, types in declaration order -/
def nsTypeDecls (E : Env) : List (String × TypeDecl) :=
  E.nss.flatMap fun ns => (typeDecls (declsOf E.files ns)).map fun d => (ns, d)

def pass4Types (E : Env) (st : St) : List (String × TypeDecl) → Except Err Unit
  | [] => .ok ()
  | (ns, d) :: rest =>
    match d.kind with
    | .struct =>
      (match st.done.lookup (ns, d.name) with
       | none => .error .internal
       | some c => match defaultFields E st.aliases c.fields with
         | .error e => .error e
         | .ok () => pass4Types E st rest)
    | _ => pass4Types E st rest

/-! ## Pass 5: `_populate_enumerated_subtypes` -/

abbrev EnumMap := List (Key × (List (String × Key) × Bool))

/-- `Struct.subtypes`: the populated structs whose parent is `k` -/
def subtypesOf (st : St) (k : Key) : List Key :=
  (st.done.filter (fun p => p.2.parent == some k)).map (·.1)

/-- resolve the subtype references of one struct (first loop body, up to `set_enumerated_subtypes`) -/
def subtypeFields (rx : String → Bool) (E : Env) (st : St) (ns : String) :
    List (String × TRef) → Except Err (List (String × Key))
  | [] => .ok []
  | (tag, r) :: rest =>
    if (E.lookup ns r.head.name).isNone then .error .undefinedSubtype else
    match resolve rx E st.aliases ns r with
    | .error e => .error e
    | .ok t =>
      match t with
      | .user k =>
        if kindOf E k == some .struct then
          (match subtypeFields rx E st ns rest with
           | .error e => .error e
           | .ok fs => .ok ((tag, k) :: fs))
        else .error .subtypeNotStruct
      | _ => .error .subtypeNotStruct

/-- the `for subtype_field in subtype_fields` loop of `Struct.set_enumerated_subtypes`;
`names` = `_fields_by_name` keys so far, `seen` = `enumerated_subtype_names` -/
def enumLoop (parentOf : Key → Option Key) (self : Key) :
    List String → List String → List (String × Key) → Except Err (List String)
  | _, seen, [] => .ok seen
  | names, seen, (tag, k) :: rest =>
    if seen.contains k.2 then .error .subtypeTwice
    else if parentOf k != some self then .error .notSubtype
    else if names.contains tag then .error .tagFieldClash
    else enumLoop parentOf self (tag :: names) (k.2 :: seen) rest

/-- `Struct.set_enumerated_subtypes`; `parentOf` = the parent of a populated type, `subtypes` = `self.subtypes` -/
def enumCheck (parentOf : Key → Option Key) (subtypes : List Key) (self : Key) (c : CType)
    (fields : List (String × Key)) : Except Err Unit :=
  if c.parent.isSome then .error .enumExtends else
  match enumLoop parentOf self (c.fields.map (·.name)) [] fields with
  | .error e => .error e
  | .ok seen =>
    if fields.isEmpty then .error (.crash .assertionError) else      -- `assert len(self._enumerated_subtypes) > 0`
    if subtypes.any (fun k => !seen.contains k.2) then .error .missingSubtype else .ok ()

def parentIn (done : List (Key × CType)) : Key → Option Key := fun k => (done.lookup k).bind (·.parent)

def setEnumerated (st : St) (self : Key) (c : CType) (fields : List (String × Key)) : Except Err Unit :=
  enumCheck (parentIn st.done) (subtypesOf st self) self c fields

/-- `isinstance(data_type, Struct) and data_type._ast_node.subtypes` -/
def enumOf (d : TypeDecl) : Option (List (String × TRef) × Bool) :=
  match d.kind with
  | .struct => d.subtypes
  | _ => none

/-- first loop over the data types of one namespace -/
def enumFirst (rx : String → Bool) (E : Env) (st : St) (ns : String) (en : EnumMap) : List TypeDecl → Except Err EnumMap
  | [] => .ok en
  | d :: ds =>
    match enumOf d with
    | some (subs, catchAll) =>
      (match st.done.lookup (ns, d.name) with
       | none => .error .internal
       | some c =>
         match subtypeFields rx E st ns subs with
         | .error e => .error e
         | .ok fields =>
           match setEnumerated st (ns, d.name) c fields with
           | .error e => .error e
           | .ok () => enumFirst rx E st ns (((ns, d.name), (fields, catchAll)) :: en) ds)
    | none => enumFirst rx E st ns en ds

def hasEnum (en : EnumMap) (k : Key) : Bool :=
  match en.lookup k with
  | some (fs, _) => !fs.isEmpty
  | none => false

/-- second loop: a subtype without enumerated subtypes of its own has no subtypes -/
def enumSecond (st : St) (ns : String) (en : EnumMap) : List TypeDecl → Except Err Unit
  | [] => .ok ()
  | d :: ds =>
    if hasEnum en (ns, d.name) && d.kind == .struct then
      let fields := match en.lookup (ns, d.name) with
        | some (fs, _) => fs
        | none => []
      if fields.any (fun p => !hasEnum en p.2 && !(subtypesOf st p.2).isEmpty) then .error .subtypeExtended
      else enumSecond st ns en ds
    else enumSecond st ns en ds

def pass5Nss (rx : String → Bool) (E : Env) (st : St) (en : EnumMap) : List String → Except Err EnumMap
  | [] => .ok en
  | ns :: nss =>
    match enumFirst rx E st ns en (typeDecls (declsOf E.files ns)) with
    | .error e => .error e
    | .ok en1 => match enumSecond st ns en1 (typeDecls (declsOf E.files ns)) with
      | .error e => .error e
      | .ok () => pass5Nss rx E st en1 nss

/-! ## Pass 6: routes -/

def routeDeprecated (E : Env) (ns : String) : Option (Option (String × Int)) → Except Err Unit
  | some (some (name, v)) =>
    match E.lookup ns name with
    | some (.item (.routes vs)) => if vs.contains v then .ok () else .error .undefinedRoute
    | some _ => .error .notRoute
    | none => .error .undefinedRoute
  | _ => .ok ()

/-- `_populate_route_attributes_helper` -/
def compileRoute (rx : String → Bool) (E : Env) (A : AliasMap) (ns : String) (r : RouteDecl) : Except Err CRoute :=
  match resolve rx E A ns r.arg with
  | .error e => .error e
  | .ok ta => match resolve rx E A ns r.result with
    | .error e => .error e
    | .ok tr => match r.error with
      | none => .error .routeTwoTypes
      | some re => match resolve rx E A ns re with
        | .error e => .error e
        | .ok te => match routeDeprecated E ns r.deprecated with
          | .error e => .error e
          | .ok () => .ok { name := r.name, version := r.version, arg := ta, result := tr, error := te,
                            deprecated := r.deprecated }

def compileRoutes (rx : String → Bool) (E : Env) (A : AliasMap) (ns : String) : List RouteDecl → Except Err (List CRoute)
  | [] => .ok []
  | r :: rs => match compileRoute rx E A ns r with
    | .error e => .error e
    | .ok c => match compileRoutes rx E A ns rs with
      | .error e => .error e
      | .ok cs => .ok (c :: cs)

def pass6Nss (rx : String → Bool) (E : Env) (A : AliasMap) : List String → Except Err (List (String × List CRoute))
  | [] => .ok []
  | ns :: nss => match compileRoutes rx E A ns (routeDecls (declsOf E.files ns)) with
    | .error e => .error e
    | .ok rs => match pass6Nss rx E A nss with
      | .error e => .error e
      | .ok rest => .ok ((ns, rs) :: rest)

/-! ## The Api -/

def typesOut (st : St) (ns : String) : List TypeDecl → Except Err (List (String × CType))
  | [] => .ok []
  | d :: ds => match st.done.lookup (ns, d.name) with
    | none => .error .internal
    | some c => match typesOut st ns ds with
      | .error e => .error e
      | .ok cs => .ok ((d.name, c) :: cs)

def aliasesOut (st : St) (ns : String) : List (String × TRef) → Except Err (List (String × Ty))
  | [] => .ok []
  | (n, _) :: as => match st.aliases.lookup (ns, n) with
    | none => .error .internal
    | some t => match aliasesOut st ns as with
      | .error e => .error e
      | .ok ts => .ok ((n, t) :: ts)

def enumsOut (en : EnumMap) (ns : String) : List TypeDecl → List (String × (List (String × Key) × Bool))
  | [] => []
  | d :: ds => match en.lookup (ns, d.name) with
    | some e => (d.name, e) :: enumsOut en ns ds
    | none => enumsOut en ns ds

def assemble (E : Env) (st : St) (en : EnumMap) : List (String × List CRoute) → Except Err (List NsOut)
  | [] => .ok []
  | (ns, routes) :: rest =>
    match typesOut st ns (typeDecls (declsOf E.files ns)) with
    | .error e => .error e
    | .ok types => match aliasesOut st ns (aliasDecls (declsOf E.files ns)) with
      | .error e => .error e
      | .ok aliases => match assemble E st en rest with
        | .error e => .error e
        | .ok outs => .ok ({ name := ns, types := types, aliases := aliases, routes := routes,
                             enums := enumsOut en ns (typeDecls (declsOf E.files ns)) } :: outs)

/-- passes 3 - 6 on a built environment -/
def compileEnv (rx : String → Bool) (E : Env) : Except Err Api :=
  match pass3 rx E with
  | .error e => .error e
  | .ok st => match pass4Types E st (nsTypeDecls E) with
    | .error e => .error e
    | .ok () => match pass5Nss rx E st [] E.nss with
      | .error e => .error e
      | .ok en => match pass6Nss rx E st.aliases E.nss with
        | .error e => .error e
        | .ok routes => match assemble E st en routes with
          | .error e => .error e
          | .ok nss => .ok { nss := nss }

/-- passes 1 - 6 on files without patches (what `generate_IR` does once the patches are merged into the declarations);
`rx` = does `re.compile` accept the pattern (external) -/
def compileCore (rx : String → Bool) (fs : List File) : Except Err Api :=
  match buildEnv fs with
  | .error e => .error e
  | .ok E => compileEnv rx E


/-! ## Views of the Api used by the statements -/

def Api.ns? (api : Api) (n : String) : Option NsOut := api.nss.find? (·.name == n)

def Api.type? (api : Api) (k : Key) : Option CType := (api.ns? k.1).bind (·.types.lookup k.2)

def Api.alias? (api : Api) (k : Key) : Option Ty := (api.ns? k.1).bind (·.aliases.lookup k.2)

def Api.hasType (api : Api) (k : Key) : Bool := (api.type? k).isSome
def Api.hasAlias (api : Api) (k : Key) : Bool := (api.alias? k).isSome

/-- every type expression of the Api, with where it stands -/
def NsOut.tys (n : NsOut) : List Ty :=
  n.types.flatMap (fun p => p.2.fields.map (·.ty)) ++ n.aliases.map (·.2)
    ++ n.routes.flatMap (fun r => [r.arg, r.result, r.error])

def Api.tys (api : Api) : List Ty := api.nss.flatMap (·.tys)

/-- every parent link and enumerated-subtype link -/
def NsOut.links (n : NsOut) : List Key :=
  n.types.filterMap (·.2.parent) ++ n.enums.flatMap (fun p => p.2.1.map (·.2))

def Api.links (api : Api) : List Key := api.nss.flatMap (·.links)

/-- the closure statement, decidable: every (namespace, name) mentioned anywhere is a data type, respectively an
alias, the Api holds in that namespace -/
def Api.closed (api : Api) : Bool :=
  api.tys.all (fun t => t.users.all api.hasType && t.aliases.all api.hasAlias) && api.links.all api.hasType

def allPairs (fs : List File) : List (String × Decl) := fs.flatMap fun f => f.decls.map fun d => (f.ns, d)

/-! ## Annotations applied to members and aliases

`_resolve_annotation_type`, `Field.set_annotations`, `Alias.set_annotations`, `_validate_annotations`
(`_validate_field_can_be_tagged_with_redactor`, `_validate_object_can_be_tagged_with_redactor`).  The code applies
the annotations while it creates each member in pass 3 and validates the redactors in a last pass; the model runs all
of it as one stage after the type passes, on the resolved types (`checkAnnots`): the same verdict -- when a spec breaks
an annotation rule AND a type rule that pass 3 meets later, the code reports the annotation rule, the model the type
rule.  The stage is written over the functions it looks things up with (`ra`: what an applied annotation names,
`look`: the target of an alias, `types`: the compiled type under a key), so that the specification level uses the very
same tests with the specification-level maps.  Arguments of annotation definitions and annotation types are not
modelled; `Omitted`'s caller is taken to be non-empty. -/

/-- `_resolve_annotation_type`: the environment entry an applied annotation names -/
def resolveAnnot (E : Env) (cur : String) (a : ARef) : Except Err Entry :=
  match headLookup E cur { ns := a.ns, name := a.name, kw := [], nullable := false } with
  | .ok (_, e) => .ok e
  | .error .undefinedSymbol => .error .annotNotExist
  | .error e => .error e

def annKindOf : Entry → Option AnnotKind
  | .item (.annot k) => some k
  | _ => none

def raE (E : Env) (cur : String) (a : ARef) : Except Err (Option AnnotKind) :=
  match resolveAnnot E cur a with
  | .ok e => .ok (annKindOf e)
  | .error e => .error e

def mapE {α β} (g : α → Except Err β) : List α → Except Err (List β)
  | [] => .ok []
  | x :: xs => match g x with
    | .error e => .error e
    | .ok y => match mapE g xs with
      | .error e => .error e
      | .ok ys => .ok (y :: ys)

structure AnnFlags where
  dep : Bool := false
  pre : Bool := false
  omi : Bool := false
  red : Bool := false
  deriving DecidableEq, Repr, Inhabited

/-- one iteration of the loop of `Field.set_annotations`; `none` = the name is not an annotation -/
def fieldAnnStep (fl : AnnFlags) : Option AnnotKind → Except Err AnnFlags
  | some .deprecated =>
    if fl.dep then .error .deprecatedTwice else if fl.pre then .error .deprecatedPreview else .ok { fl with dep := true }
  | some .omitted => if fl.omi then .error .omittedTwice else .ok { fl with omi := true }
  | some .preview =>
    if fl.pre then .error .previewTwice else if fl.dep then .error .deprecatedPreview else .ok { fl with pre := true }
  | some .redacted => if fl.red then .error .redactorTwice else .ok { fl with red := true }
  | some .custom => .ok fl
  | none => .error .annotNotRecognized

def fieldAnn (fl : AnnFlags) : List (Option AnnotKind) → Except Err AnnFlags
  | [] => .ok fl
  | k :: ks => match fieldAnnStep fl k with
    | .error e => .error e
    | .ok fl' => fieldAnn fl' ks

/-- `Alias.set_annotations`: only redactors and custom annotations; the result says whether a redactor is set -/
def aliasAnn (red : Bool) : List (Option AnnotKind) → Except Err Bool
  | [] => .ok red
  | some .redacted :: ks => if red then .error .redactorTwice else aliasAnn true ks
  | some .custom :: ks => aliasAnn red ks
  | _ :: _ => .error .aliasAnnotUnsupported

/-- the annotation lists applied to the alias `name` of namespace `ns` -/
def aliasAnnotsOf (fs : List File) (ns name : String) : List ARef :=
  (declsOf fs ns).flatMap fun d =>
    match d with
    | .aliasAnnots n as => if n == name then as else []
    | _ => []

/-- `alias.redactor` is set -/
def aliasRedacted (ra : String → ARef → Except Err (Option AnnotKind)) (fs : List File) (k : Key) : Bool :=
  (aliasAnnotsOf fs k.1 k.2).any fun a =>
    match ra k.1 a with
    | .ok (some .redacted) => true
    | _ => false

/-- the `while isinstance(curr_data_type, (Alias, Nullable))` walk of `_validate_object_can_be_tagged_with_redactor` -/
def redWalk (look : Look) (red : Key → Bool) : Nat → Ty → Except Err (Option Ty)
  | fuel, t =>
    match stripNullable t with
    | .alias k =>
      if red k then .error .redactorAlready else
      (match fuel with
       | 0 => .error .fuelAlias
       | f + 1 => match look k with
         | none => .ok none
         | some t' => redWalk look red f t')
    | u => .ok (some u)

/-- through the values of lists and maps (and nullables on the way) -/
def redDescend : Ty → Ty
  | .list e _ _ => redDescend e
  | .map _ v => redDescend v
  | .nullable t => redDescend t
  | t => t

def Ty.isUser : Ty → Bool
  | .user _ => true
  | _ => false

/-- `_validate_object_can_be_tagged_with_redactor` on the type of a redacted member / the target of a redacted alias -/
def redactorOK (look : Look) (red : Key → Bool) (fuel : Nat) (t : Ty) : Except Err Unit :=
  match redWalk look red fuel t with
  | .error e => .error e
  | .ok none => .ok ()
  | .ok (some u) =>
    let leaf := redDescend u
    if leaf.isUser || leaf.isVoid then .error .redactorOnUser else .ok ()

/-- the annotations of one member, and the redactor validation of `_validate_field_can_be_tagged_with_redactor` -/
def memberAnnots (ra : String → ARef → Except Err (Option AnnotKind)) (look : Look) (red : Key → Bool) (fuel : Nat)
    (ns : String) (c : Option CType) (f : AField) : Except Err Unit :=
  match mapE (ra ns) f.annots with
  | .error e => .error e
  | .ok kinds =>
    match fieldAnn {} kinds with
    | .error e => .error e
    | .ok fl =>
      if !fl.red then .ok () else
      match c.bind fun c => c.fields.find? (·.name == f.name) with
      | none => .error .internal
      | some cf =>
        if (match cf.ty with | .alias _ => true | _ => false) then .error .redactorOnAliasRef
        else redactorOK look red fuel cf.ty

def firstErr {α} (g : α → Except Err Unit) : List α → Except Err Unit
  | [] => .ok ()
  | x :: xs => match g x with
    | .error e => .error e
    | .ok () => firstErr g xs

def declAnnots (ra : String → ARef → Except Err (Option AnnotKind)) (look : Look) (types : Key → Option CType)
    (red : Key → Bool) (fuel : Nat) (ns : String) : Decl → Except Err Unit
  | .type d => firstErr (memberAnnots ra look red fuel ns (types (ns, d.name))) d.fields
  | .aliasAnnots n as =>
    match mapE (ra ns) as with
    | .error e => .error e
    | .ok kinds =>
      match aliasAnn false kinds with
      | .error e => .error e
      | .ok false => .ok ()
      | .ok true =>
        match look (ns, n) with
        | none => .ok ()
        | some t => redactorOK look red fuel t
  | _ => .ok ()

/-- all annotation tests over the (merged) files -/
def checkAnnotsG (ra : String → ARef → Except Err (Option AnnotKind)) (look : Look) (types : Key → Option CType)
    (fuel : Nat) (fs : List File) : Except Err Unit :=
  firstErr (fun p => declAnnots ra look types (aliasRedacted ra fs) fuel p.1 p.2) (allPairs fs)

def checkAnnots (E : Env) (fs : List File) (api : Api) : Except Err Unit :=
  checkAnnotsG (raE E) (fun k => api.alias? k) (fun k => api.type? k) (aliasFuel E) fs

/-! ## Patches: `_merge_patches`

`patch struct S` adds members to the declaration stored under the canonical name of `S` in `_item_by_canonical_name`.
After a successful registration that dictionary holds, under every key, the namespace node (a definition may not be
named like its namespace) or the first definition registered under that canonical name; the model reads it off the
environment (`itemAt`).  The patched AST nodes are the ones the forward references hold: the model re-reads the
environment from the merged files (`mergeFiles`) and runs the remaining passes on them.  Patches are taken in the
order of files and declarations (the code groups them by canonical name first: the same verdict, possibly another
error when several patches are wrong).  Examples of patches are not modelled. -/

def canonKey (name ns : String) : FeNames.Name := FeNames.key name.toList ns.toList

/-- what `_item_by_canonical_name` holds under `K`, when it is a definition -/
def itemAt (items : List (Key × Item)) (K : FeNames.Name) : Option (Key × Item) :=
  items.find? fun p => canonKey p.1.2 p.1.1 == K

def patchOf : String × Decl → Option (String × PatchDecl)
  | (ns, .patch p) => some (ns, p)
  | _ => none

def patchesOf (fs : List File) : List (String × PatchDecl) := (allPairs fs).filterMap patchOf

/-- one iteration of the loop of `_merge_patches`; `acc` = (canonical name, member name) of the members added so far -/
def checkPatch (E : Env) (acc : List (FeNames.Name × String)) (ns : String) (p : PatchDecl) :
    Except Err (List (FeNames.Name × String)) :=
  let K := canonKey p.name ns
  if E.nss.any (fun m => canonKey m m == K) then .error .patchMismatch      -- the namespace node
  else match itemAt E.items K with
    | none => .error .patchNoTarget
    | some (_, .type d) =>
      if d.kind != p.kind then .error .patchMismatch
      else if p.fields.any (fun f => (d.fields.map (·.name)).contains f.name || acc.contains (K, f.name)) then
        .error .patchFieldClash
      else .ok (p.fields.map (fun f => (K, f.name)) ++ acc)
    | some _ => .error .patchMismatch

def checkPatches (E : Env) (acc : List (FeNames.Name × String)) : List (String × PatchDecl) → Except Err Unit
  | [] => .ok ()
  | (ns, p) :: ps => match checkPatch E acc ns p with
    | .error e => .error e
    | .ok acc' => checkPatches E acc' ps

/-- the members all patches add to the declaration with canonical name `K`, in the order of files and declarations -/
def patchFieldsFor (fs : List File) (K : FeNames.Name) : List AField :=
  (patchesOf fs).flatMap fun q => if canonKey q.2.name q.1 == K then q.2.fields else []

def mergeDecl (fs : List File) (ns : String) : Decl → Decl
  | .type d => .type { d with fields := d.fields ++ patchFieldsFor fs (canonKey d.name ns) }
  | d => d

/-- the declarations with the members of their patches appended -/
def mergeFiles (fs : List File) : List File :=
  fs.map fun f => { f with decls := f.decls.map (mergeDecl fs f.ns) }

/-- `IRGenerator(partial_asts).generate_IR()` restricted to the type graph -/
def compile (rx : String → Bool) (fs : List File) : Except Err Api :=
  match buildEnv fs with
  | .error e => .error e
  | .ok E => match checkPatches E [] (patchesOf fs) with
    | .error e => .error e
    | .ok () =>
      match compileCore rx (mergeFiles fs) with
      | .error e => .error e
      | .ok api =>
        match buildEnv (mergeFiles fs) with
        | .error e => .error e
        | .ok E' => match checkAnnots E' (mergeFiles fs) api with
          | .error e => .error e
          | .ok () => .ok api

/-! ## Specification level: what the declarations mean (docs/lang_ref.rst) -/

/-- all declarations of namespace `ns`, whatever file they are in -/
def specDecls (fs : List File) (ns : String) : List Decl := declsOf fs ns

def declName : Decl → Option String
  | .type d => some d.name
  | .alias n _ => some n
  | _ => none

/-- the definition (struct, union or alias) called `name` in namespace `ns` -/
def findDef (fs : List File) (ns name : String) : Option Decl :=
  (specDecls fs ns).find? (fun d => declName d == some name)

/-- "You can refer to types and aliases in other namespaces by using the import directive" -/
def imported (fs : List File) (ns q : String) : Bool :=
  (specDecls fs ns).contains (.imp q)

/-- what a name written in namespace `ns` stands for -/
inductive Meaning where
  | builtin (k : TyKind)
  | user (k : Key)
  | alias (k : Key)
  deriving DecidableEq, Repr

def meaningIn (fs : List File) (ns name : String) : Option Meaning :=
  match findDef fs ns name with
  | some (.type _) => some (.user (ns, name))
  | some (.alias _ _) => some (.alias (ns, name))
  | _ => (TyKind.ofName? name).map .builtin

/-- the namespace a reference is read in and what its name means there -/
def headMeaning (fs : List File) (cur : String) (h : RefHead) : Option (String × Meaning) :=
  match h.ns with
  | some q => if imported fs cur q then (meaningIn fs q h.name).map (fun m => (q, m)) else none
  | none => (meaningIn fs cur h.name).map (fun m => (cur, m))

def builtinMeaning (rx : String → Bool) (k : TyKind) (tys : List Ty) (lits : List Arg) (kw : List (String × Arg)) :
    Option Ty :=
  match FeParams.instantiate rx k (tys.map (fun t => Arg.ty t.isStringInst) ++ lits) kw with
  | .ok tv => some (mkTy tv tys)
  | .error _ => none

def nullableMeaning (h : RefHead) (t : Ty) : Ty := if h.nullable then .nullable t else t

/-- the type a reference written in namespace `cur` denotes (the arguments of the built-in types are C01's subject:
`FeParams.instantiate` is taken as given) -/
def denoteRef (rx : String → Bool) (fs : List File) (cur : String) : TRef → Option Ty
  | .leaf h lits =>
    match headMeaning fs cur h with
    | some (_, .builtin k) => (builtinMeaning rx k [] lits h.kw).map (nullableMeaning h)
    | some (_, .user k) => some (nullableMeaning h (.user k))
    | some (_, .alias k) => some (nullableMeaning h (.alias k))
    | none => none
  | .app1 h a =>
    match headMeaning fs cur h with
    | some (ens, .builtin k) =>
      (match denoteRef rx fs ens a with
       | some ta => (builtinMeaning rx k [ta] [] h.kw).map (nullableMeaning h)
       | none => none)
    | _ => none
  | .app2 h a b =>
    match headMeaning fs cur h with
    | some (ens, .builtin k) =>
      (match denoteRef rx fs ens a, denoteRef rx fs ens b with
       | some ta, some tb => (builtinMeaning rx k [ta, tb] [] h.kw).map (nullableMeaning h)
       | _, _ => none)
    | _ => none

def optMapM {α β} (g : α → Option β) : List α → Option (List β)
  | [] => some []
  | x :: xs => match g x, optMapM g xs with
    | some y, some ys => some (y :: ys)
    | _, _ => none

def denoteField (rx : String → Bool) (fs : List File) (ns : String) (isStruct : Bool) (f : AField) : Option CField :=
  match f.ty with
  | none => some { name := f.name, ty := tyVoid, hasDefault := isStruct && f.hasDefault }
  | some r => (denoteRef rx fs ns r).map fun t => { name := f.name, ty := t, hasDefault := isStruct && f.hasDefault }

/-- the parent a declaration names -/
def denoteParent (rx : String → Bool) (fs : List File) (ns : String) (d : TypeDecl) : Option (Option Key) :=
  match d.extends with
  | none => some none
  | some r => match denoteRef rx fs ns r with
    | some (.user k) => some (some k)
    | _ => none

/-- is the union `k` open ("By default, unions are open")? -/
def isOpenUnion (fs : List File) (k : Key) : Bool :=
  match findDef fs k.1 k.2 with
  | some (.type d) => d.kind == .union false
  | _ => false

/-- does a union with this parent inherit the catch-all tag? -/
def inheritsOther (fs : List File) : Option Key → Bool
  | some p => isOpenUnion fs p
  | none => false

/-- "A union inherits all of the options of the parent type": an open union gets the virtual tag `other` unless it
inherits it from an open parent -/
def denoteType (rx : String → Bool) (fs : List File) (ns : String) (d : TypeDecl) : Option CType :=
  match denoteParent rx fs ns d, optMapM (denoteField rx fs ns (d.kind == .struct)) d.fields with
  | some parent, some fields =>
    (match d.kind with
     | .struct => some { isStruct := true, parent := parent, fields := fields }
     | .union closed =>
       let catchAll := !closed && !inheritsOther fs parent
       some { isStruct := false, closed := closed, parent := parent,
              fields := if catchAll then fields ++ [otherField] else fields, catchAll := catchAll })
  | _, _ => none

def denoteRoute (rx : String → Bool) (fs : List File) (ns : String) (r : RouteDecl) : Option CRoute :=
  match denoteRef rx fs ns r.arg, denoteRef rx fs ns r.result, r.error.bind (denoteRef rx fs ns) with
  | some a, some b, some c => some { name := r.name, version := r.version, arg := a, result := b, error := c,
                                      deprecated := r.deprecated }
  | _, _, _ => none

/-- the subtype a tag of an enumerated-subtypes block names -/
def subDen (rx : String → Bool) (fs : List File) (ns : String) (p : String × TRef) : Option (String × Key) :=
  match denoteRef rx fs ns p.2 with
  | some (.user k) => some (p.1, k)
  | _ => none

def denoteEnum (rx : String → Bool) (fs : List File) (ns : String) (d : TypeDecl) :
    Option (Option (String × (List (String × Key) × Bool))) :=
  match enumOf d with
  | some (subs, catchAll) => (optMapM (subDen rx fs ns) subs).map fun l => some (d.name, (l, catchAll))
  | none => some none

/-- the namespaces of a set of files, in order of first mention -/
def nsNames : List File → List String → List String
  | [], acc => acc
  | f :: fs, acc => nsNames fs (if acc.contains f.ns then acc else acc ++ [f.ns])

def denoteNs (rx : String → Bool) (fs : List File) (ns : String) : Option NsOut :=
  let ds := specDecls fs ns
  match optMapM (fun d => (denoteType rx fs ns d).map fun c => (d.name, c)) (typeDecls ds),
        optMapM (fun (p : String × TRef) => (denoteRef rx fs ns p.2).map fun t => (p.1, t)) (aliasDecls ds),
        optMapM (denoteRoute rx fs ns) (routeDecls ds),
        optMapM (denoteEnum rx fs ns) (typeDecls ds) with
  | some types, some aliases, some routes, some enums =>
    some { name := ns, types := types, aliases := aliases, routes := routes, enums := enums.filterMap id }
  | _, _, _, _ => none

/-- the Api a set of spec files denotes (`none`: some reference has no meaning) -/
def denoteCore (rx : String → Bool) (fs : List File) : Option Api :=
  (optMapM (denoteNs rx fs) (nsNames fs [])).map fun nss => { nss := nss }

/-! ## Specification level: which inputs are legal

`Legal rx fs` is a conjunction of rules over the declarations of ALL files, none of which looks at the order of files
or declarations (written from docs/lang_ref.rst and the rule catalogue of DESIGN Appendix A):

* names (`namesLegal`): `FeNames.NoClash` -- no two definitions with the same canonical name in one namespace unless
  both are routes, no route version twice, no definition named like its namespace, no built-in name redefined;
* imports (`importsLegal`): no namespace imports itself, every imported namespace exists, no namespace is imported
  (directly or through others) by a namespace it imports;
* references (`refStatic`, `tyNullLegal`): the (prefixed) name means a built-in type with legal arguments (C01's
  `FeParams.instantiate`), or a struct / union / alias without arguments; a prefix is an imported namespace; a name that
  is also an imported namespace means that namespace; `Void` is never nullable, neither is a type that is nullable or
  Void once its aliases are unfolded;
* aliases (`aliasLegal`): the target is a legal reference and does not lead back to the alias through aliases, List,
  Map and Nullable;
* structs and unions (`typeLegal`): the parent is a plain reference to a struct (for a struct) / a union (for a union),
  a closed union does not extend an open one; struct members have a type that is not Void (aliases unfolded), a
  nullable member has no default, a default needs a primitive or union type; the tag `other` is reserved, a tag is not
  declared `Void`; no member name (the implicit `other` included) occurs twice in the type or in the type and an
  ancestor -- which also says the chain of parents ends;
* enumerated subtypes (`enumLegal`): the root has no parent, every listed subtype is known by its plain name, is a
  struct, has the root as parent, is listed once, under a tag that is no member name and no other tag; at least one is
  listed; every struct that extends the root is listed; a listed subtype that does not enumerate subtypes itself has
  none;
* routes (`routeLegal`): three legal type references; `deprecated by` names a route and version of the namespace.
-/

def isOk {ε α} : Except ε α → Bool
  | .ok _ => true
  | .error _ => false

def declItem : Decl → Option FeNames.Item
  | .type d => some { kind := .type, name := d.name.toList }
  | .alias n _ => some { kind := .alias, name := n.toList }
  | .route r => some { kind := .route r.version, name := r.name.toList }
  | .annot n _ => some { kind := .annotation, name := n.toList }
  | .annotType n => some { kind := .annotationType, name := n.toList }
  | .imp _ => none
  | .patch _ => none
  | .aliasAnnots _ _ => none

/-- the files as the name rules of C01 see them -/
def toNames (fs : List File) : List FeNames.File :=
  fs.map fun f => { ns := f.ns.toList, items := f.decls.filterMap declItem }

def namesLegal (fs : List File) : Bool := decide (FeNames.NoClash (toNames fs))

/-- namespace names are `ID` tokens of the lexer: no `/` (a hypothesis on the parser's output, not a rule) -/
def nsLexical (fs : List File) : Bool := fs.all fun f => !f.ns.toList.contains '/'

def importOf : String × Decl → Option (String × String)
  | (ns, .imp t) => some (ns, t)
  | _ => none

def importPairs (fs : List File) : List (String × String) := (allPairs fs).filterMap importOf

def importsLegal (fs : List File) : Bool :=
  let I := importPairs fs
  let nss := nsNames fs []
  I.all fun p => p.1 != p.2 && nss.contains p.2 &&
    anyTri (search (importsOf I) p.1 (nss.length + 1)) (importsOf I p.2) == .no

/-- the name every definition binds -/
def anyName : Decl → Option String
  | .type d => some d.name
  | .alias n _ => some n
  | .route r => some r.name
  | .annot n _ => some n
  | .annotType n => some n
  | .imp _ => none
  | .patch _ => none
  | .aliasAnnots _ _ => none

/-- `name` means something in namespace `ns`: an imported namespace, a definition, a built-in type -/
def known (fs : List File) (ns name : String) : Bool :=
  imported fs ns name || (declsOf fs ns).any (fun d => anyName d == some name) || (TyKind.ofName? name).isSome

/-- the target every alias denotes -/
def aliasS (rx : String → Bool) (fs : List File) : Look := fun k =>
  match findDef fs k.1 k.2 with
  | some (.alias _ r) => denoteRef rx fs k.1 r
  | _ => none

/-- the data type every struct / union declaration denotes -/
def typeS (rx : String → Bool) (fs : List File) : Key → Option CType := fun k =>
  match findDef fs k.1 k.2 with
  | some (.type d) => denoteType rx fs k.1 d
  | _ => none

def kindS (fs : List File) (k : Key) : Option TypeKind :=
  match findDef fs k.1 k.2 with
  | some (.type d) => some d.kind
  | _ => none

def fuelA (fs : List File) : Nat := (allAliasDecls fs).length + 1
def fuelT (fs : List File) : Nat := (allTypeDecls fs).length + 1

/-- the head of a reference, where the name is not also an imported namespace of the namespace it is read in -/
def headS (fs : List File) (cur : String) (h : RefHead) : Option (String × Meaning) :=
  match headMeaning fs cur h with
  | some (ens, m) => if imported fs ens h.name then none else some (ens, m)
  | none => none

def voidNullable (k : TyKind) (h : RefHead) : Bool := k == .void && h.nullable

/-- the reference is well formed, aliases not looked into -/
def refStatic (rx : String → Bool) (fs : List File) (cur : String) : TRef → Bool
  | .leaf h lits =>
    match headS fs cur h with
    | some (_, .builtin k) => !voidNullable k h && (builtinMeaning rx k [] lits h.kw).isSome
    | some (_, _) => lits.isEmpty && h.kw.isEmpty
    | none => false
  | .app1 h a =>
    match headS fs cur h with
    | some (ens, .builtin k) =>
      !voidNullable k h && refStatic rx fs ens a &&
        (match denoteRef rx fs ens a with
         | some ta => (builtinMeaning rx k [ta] [] h.kw).isSome
         | none => false)
    | _ => false
  | .app2 h a b =>
    match headS fs cur h with
    | some (ens, .builtin k) =>
      !voidNullable k h && refStatic rx fs ens a && refStatic rx fs ens b &&
        (match denoteRef rx fs ens a, denoteRef rx fs ens b with
         | some ta, some tb => (builtinMeaning rx k [ta, tb] [] h.kw).isSome
         | _, _ => false)
    | _ => false

/-- the type under a `?` is neither nullable nor Void once its aliases are unfolded -/
def nullOK (look : Look) (fuel : Nat) (u : Ty) : Bool :=
  match unwrapAliases look fuel u with
  | .ok (some (.nullable _)) => false
  | .ok (some (.prim (.plain .void))) => false
  | .ok _ => true
  | .error _ => false

def tyNullLegal (look : Look) (fuel : Nat) (t : Ty) : Bool := (nullRefs t).all (nullOK look fuel)

def refLegal (rx : String → Bool) (fs : List File) (ns : String) (r : TRef) : Bool :=
  refStatic rx fs ns r &&
    match denoteRef rx fs ns r with
    | some t => tyNullLegal (aliasS rx fs) (fuelA fs) t
    | none => false

def aliasLegal (rx : String → Bool) (fs : List File) (ns name : String) (r : TRef) : Bool :=
  refLegal rx fs ns r &&
    match denoteRef rx fs ns r with
    | some t => anyTri (search (aliasSucc (aliasS rx fs)) (ns, name) (fuelA fs)) t.aliases == .no
    | none => false

def structMemberLegal (rx : String → Bool) (fs : List File) (ns : String) (f : AField) : Bool :=
  match f.ty with
  | none => false
  | some r => refLegal rx fs ns r &&
    match denoteRef rx fs ns r with
    | some t => !t.isVoid && !(t.isNullable && f.hasDefault)
    | none => false

def unionMemberLegal (rx : String → Bool) (fs : List File) (ns : String) (f : AField) : Bool :=
  f.name != "other" &&
    match f.ty with
    | none => true
    | some r => refLegal rx fs ns r &&
      match denoteRef rx fs ns r with
      | some t => !t.isVoid
      | none => false

/-- the `extends` clause: a plain reference to a type of the right kind; not closed below open -/
def extendsLegal (rx : String → Bool) (fs : List File) (ns : String) (d : TypeDecl) : Bool :=
  match d.extends with
  | none => true
  | some r => !r.head.nullable && refStatic rx fs ns r &&
    match denoteRef rx fs ns r with
    | some (.user p) =>
      (match d.kind, kindS fs p with
       | .struct, some .struct => true
       | .union closed, some (.union pclosed) => !(closed && !pclosed)
       | _, _ => false)
    | _ => false

/-- the structs that extend `k`, in any namespace -/
def subtypesS (rx : String → Bool) (fs : List File) (k : Key) : List Key :=
  (allPairs fs).filterMap fun p =>
    match p.2 with
    | .type d => if denoteParent rx fs p.1 d == some (some k) then some (p.1, d.name) else none
    | _ => none

def hasEnumS (fs : List File) (k : Key) : Bool :=
  match findDef fs k.1 k.2 with
  | some (.type d) => (match enumOf d with
    | some (subs, _) => !subs.isEmpty
    | none => false)
  | _ => false

def subtypeRefLegal (rx : String → Bool) (fs : List File) (ns : String) (p : String × TRef) : Bool :=
  known fs ns p.2.head.name && refLegal rx fs ns p.2 &&
    match denoteRef rx fs ns p.2 with
    | some (.user k) => kindS fs k == some .struct
    | _ => false

def enumLegal (rx : String → Bool) (fs : List File) (ns : String) (d : TypeDecl) (c : CType) : Bool :=
  match enumOf d with
  | none => true
  | some (subs, _) =>
    subs.all (subtypeRefLegal rx fs ns) &&
      match optMapM (subDen rx fs ns) subs with
      | none => false
      | some fields =>
        isOk (enumCheck (fun k => (typeS rx fs k).bind (·.parent)) (subtypesS rx fs (ns, d.name)) (ns, d.name) c fields) &&
          fields.all (fun p => hasEnumS fs p.2 || (subtypesS rx fs p.2).isEmpty)

def typeLegal (rx : String → Bool) (fs : List File) (ns : String) (d : TypeDecl) : Bool :=
  extendsLegal rx fs ns d &&
  (match d.kind with
   | .struct => d.fields.all (structMemberLegal rx fs ns)
   | .union _ => d.fields.all (unionMemberLegal rx fs ns)) &&
  match denoteType rx fs ns d with
  | none => false
  | some c =>
    !dupName (c.fields.map (·.name)) &&
    (match ancestorNames (typeS rx fs) (fuelT fs) c.parent with
     | .ok anc => !(c.fields.any fun f => anc.contains f.name)
     | .error _ => false) &&
    (match d.kind with
     | .struct => c.fields.all fun f =>
         isOk (defaultLegal (fuelA fs) (aliasS rx fs) (fun k => isUnionKind (kindS fs k)) f)
     | .union _ => true) &&
    enumLegal rx fs ns d c

def deprecatedLegal (fs : List File) (ns : String) : Option (Option (String × Int)) → Bool
  | some (some (name, v)) =>
    !imported fs ns name && (routeDecls (declsOf fs ns)).any (fun r => r.name == name && r.version == v)
  | _ => true

def routeLegal (rx : String → Bool) (fs : List File) (ns : String) (r : RouteDecl) : Bool :=
  refLegal rx fs ns r.arg && refLegal rx fs ns r.result &&
    (match r.error with
     | some e => refLegal rx fs ns e
     | none => false) &&
    deprecatedLegal fs ns r.deprecated

def declLegal (rx : String → Bool) (fs : List File) (ns : String) : Decl → Bool
  | .type d => typeLegal rx fs ns d
  | .alias n r => aliasLegal rx fs ns n r
  | .route r => routeLegal rx fs ns r
  | _ => true

/-- the set of spec files obeys every rule -/
def LegalCore (rx : String → Bool) (fs : List File) : Bool :=
  namesLegal fs && importsLegal fs && (allPairs fs).all fun p => declLegal rx fs p.1 p.2

/-! ## Patches at the specification level; the whole language -/

/-- the definition with canonical name `K` (the name rules leave at most one that is not a route; the last one is
taken) -/
def namedPred (K : FeNames.Name) (q : String × Decl) : Bool :=
  match anyName q.2 with
  | some n => canonKey n q.1 == K
  | none => false

def namedAt (fs : List File) (K : FeNames.Name) : Option (String × Decl) :=
  (allPairs fs).reverse.find? (namedPred K)

/-- the patch `p` written in namespace `ns` names a struct / union of its kind and adds no member the declaration
already has -/
def patchStatic (fs : List File) (ns : String) (p : PatchDecl) : Bool :=
  !(nsNames fs []).any (fun m => canonKey m m == canonKey p.name ns) &&
    match namedAt fs (canonKey p.name ns) with
    | some (_, .type d) => d.kind == p.kind && !(p.fields.any fun f => (d.fields.map (·.name)).contains f.name)
    | _ => false

/-- two patches of one type add no member of the same name -/
def patchesDisjoint (a b : String × PatchDecl) : Bool :=
  !(canonKey a.2.name a.1 == canonKey b.2.name b.1 &&
    a.2.fields.any fun f => (b.2.fields.map (·.name)).contains f.name)

def pairwiseB {α} (r : α → α → Bool) : List α → Bool
  | [] => true
  | x :: xs => xs.all (r x) && pairwiseB r xs

/-- the rules for patches: the patched type exists, is of the same kind (struct / union / union_closed), no member
of the patch is a declared member of the type or a member of another patch of it -/
def patchesLegal (fs : List File) : Bool :=
  (patchesOf fs).all (fun q => patchStatic fs q.1 q.2) && pairwiseB patchesDisjoint (patchesOf fs)

/-! ## Annotations at the specification level -/

/-- the annotation definition called `name` in namespace `ns` -/
def annotDefS (fs : List File) (ns name : String) : Option AnnotKind :=
  ((declsOf fs ns).filterMap fun d =>
    match d with
    | .annot n k => if n == name then some k else none
    | _ => none).head?

/-- what an applied annotation names: an annotation definition of the namespace or of an imported one; a name that
means something else (a type, a route, an imported namespace ...) is no annotation -/
def raS (fs : List File) (cur : String) (a : ARef) : Except Err (Option AnnotKind) :=
  let found (ens : String) : Except Err (Option AnnotKind) :=
    if imported fs ens a.name then .ok none
    else if !known fs ens a.name then .error .annotNotExist
    else .ok (annotDefS fs ens a.name)
  match a.ns with
  | some q =>
    if imported fs cur q then found q
    else if known fs cur q then .error .notNamespace else .error .nsNotImported
  | none => found cur

/-- the rules for applied annotations: every `@name` is an annotation; on a member at most one `Deprecated`, one
`Preview` (never both), one `Omitted`, one redactor; on an alias only redactors (at most one) and custom annotations; a
redactor is applied to an alias definition, not to a member whose type is an alias; the annotated type (aliases and
nullables unfolded) carries no redactor of its own and is, through lists and maps, neither a struct / union nor Void -/
def annotsLegal (rx : String → Bool) (fs : List File) : Bool :=
  (allPairs fs).all fun p =>
    isOk (declAnnots (raS fs) (aliasS rx fs) (typeS rx fs) (aliasRedacted (raS fs) fs) (fuelA fs) p.1 p.2)

/-- what the spec files denote: the declarations with their patches merged -/
def denote (rx : String → Bool) (fs : List File) : Option Api := denoteCore rx (mergeFiles fs)

/-- the set of spec files obeys every rule -/
def Legal (rx : String → Bool) (fs : List File) : Bool :=
  patchesLegal fs && LegalCore rx (mergeFiles fs) && annotsLegal rx (mergeFiles fs)

/-! ## Route attributes: `_populate_route_attributes`

`stone_cfg` is an ordinary namespace for every earlier pass; `_validate_stone_cfg` then takes it out of the API and
reads the schema of route attributes off it: the struct `Route` (no routes and nothing but that struct may be defined
there; aliases are allowed), or a struct without fields when there is none.  Every route of every other namespace is
then checked against `Route.all_fields` (`Struct.check_attr_repr`, `StructField.check_attr_repr`).  In the code this
happens inside the route pass, before the annotations are validated; the model runs it as a last stage over the
compiled types (the same verdict, possibly another error when several things are wrong).

The test of one value against the type of its attribute (`<Type>.check_attr_repr` = `<Type>.check` through aliases and
`Nullable`) is the parameter `vc`: `Model/FeAttrVal.lean` instantiates it with C10's checker. -/

def cfgNs : String := "stone_cfg"

/-- the value test: alias table, type table, their walk bounds, the attribute's type, the value -/
abbrev ValCk := Look → (Key → Option CType) → Nat → Nat → Ty → AVal → Bool

/-- `_validate_stone_cfg` -/
def validateCfg (fs : List File) : Except Err Unit :=
  let ds := declsOf fs cfgNs
  if !(routeDecls ds).isEmpty then .error .cfgRoutes
  else if (typeDecls ds).any (fun d => !(d.name == "Route" && d.kind == .struct)) then .error .cfgNotRoute
  else .ok ()

/-- the fields of a struct and of its ancestors, the root's first -/
def chainFields (types : Key → Option CType) : Nat → Option Key → Except Err (List CField)
  | _, none => .ok []
  | 0, some _ => .error .fuelAncestors
  | f + 1, some p =>
    match types p with
    | none => .error .internal
    | some c => match chainFields types f c.parent with
      | .error e => .error e
      | .ok fs => .ok (fs ++ c.fields)

def fieldOptional (f : CField) : Bool := f.hasDefault || (match f.ty with | .nullable _ => true | _ => false)

/-- `route_schema.all_fields`: required before optional; no field when `stone_cfg` defines no `Route` -/
def schemaFields (types : Key → Option CType) (fuel : Nat) (fs : List File) : Except Err (List CField) :=
  if (typeDecls (declsOf fs cfgNs)).isEmpty then .ok [] else
  match chainFields types fuel (some (cfgNs, "Route")) with
  | .error e => .error e
  | .ok l => .ok (l.filter (fun f => !fieldOptional f) ++ l.filter fieldOptional)

/-- `unwrap(t)`: the type under every alias and `Nullable`, and whether a `Nullable` was passed -/
def unwrapN (look : Look) : Nat → Ty → Except Err (Option Ty × Bool)
  | fuel, t =>
    let n := match t with | .nullable _ => true | _ => false
    match stripNullable t with
    | .alias k =>
      (match fuel with
       | 0 => .error .fuelAlias
       | f + 1 => match look k with
         | none => .ok (none, n)
         | some t' => match unwrapN look f t' with
           | .error e => .error e
           | .ok (u, n') => .ok (u, n || n'))
    | u => .ok (some u, n)

/-- `not is_void_type(t) and (is_primitive_type(t) or is_union_type(t))` -/
def settable (types : Key → Option CType) : Option Ty → Bool
  | some (.prim (.list ..)) => false
  | some (.prim (.map ..)) => false
  | some (.prim v) => v != .plain .void
  | some (.user k) => (match types k with | some c => !c.isStruct | none => false)
  | _ => false

/-- `StructField.check_attr_repr(attrs.pop(field.name, None))` -/
def attrField (vc : ValCk) (look : Look) (types : Key → Option CType) (fa ft : Nat) (attrs : List (String × AVal))
    (f : CField) : Except Err Unit :=
  match unwrapN look fa f.ty with
  | .error e => .error e
  | .ok (u, nullable) =>
    let absent := if f.hasDefault || nullable then .ok () else .error .attrMissing
    match attrs.lookup f.name with
    | none => absent
    | some v =>
      if nullable && v == .null then absent                 -- `Nullable.check_attr_repr` answers `None`
      else if !settable types u then .error .attrNotSettable
      else if !vc look types fa ft f.ty v then .error .attrValue
      else .ok ()

/-- `route_schema.check_attr_repr(attr_by_name)` -/
def routeAttrs (vc : ValCk) (look : Look) (types : Key → Option CType) (fa ft : Nat) (schema : List CField)
    (attrs : List (String × AVal)) : Except Err Unit :=
  match firstErr (attrField vc look types fa ft attrs) schema with
  | .error e => .error e
  | .ok () => if attrs.all (fun a => (schema.map (·.name)).contains a.1) then .ok () else .error .attrUnknown

/-- the routes whose attributes are checked: `stone_cfg` has left the API -/
def attrsOf : String × Decl → List (String × AVal)
  | (ns, .route r) => if ns == cfgNs then [] else r.attrs
  | _ => []

def isRouteOutsideCfg : String × Decl → Bool
  | (ns, .route _) => ns != cfgNs
  | _ => false

def checkRouteAttrsG (vc : ValCk) (look : Look) (types : Key → Option CType) (fa ft : Nat) (fs : List File) :
    Except Err Unit :=
  match validateCfg fs with
  | .error e => .error e
  | .ok () => match schemaFields types ft fs with
    | .error e => .error e
    | .ok schema =>
      firstErr (fun p => routeAttrs vc look types fa ft schema (attrsOf p)) ((allPairs fs).filter isRouteOutsideCfg)

def checkRouteAttrs (vc : ValCk) (fs : List File) (api : Api) : Except Err Unit :=
  checkRouteAttrsG vc (fun k => api.alias? k) (fun k => api.type? k) (fuelA fs) (fuelT fs) fs

/-- `generate_IR()` with the attributes of routes -/
def compileFull (rx : String → Bool) (vc : ValCk) (fs : List File) : Except Err Api :=
  match compile rx fs with
  | .error e => .error e
  | .ok api => match checkRouteAttrs vc (mergeFiles fs) api with
    | .error e => .error e
    | .ok () => .ok api

/-- the rules for `stone_cfg` and route attributes: `stone_cfg` defines no route and no type but a struct `Route`;
every attribute a route sets is a field of `Route` or of an ancestor of `Route`; a field without default whose type
is not nullable is set by every route; a value other than `null` for a nullable attribute is set only for
attributes whose type (aliases and nullables unfolded) is a primitive type other than Void or a union, and passes the
value test -/
def routeAttrsLegal (rx : String → Bool) (vc : ValCk) (fs : List File) : Bool :=
  isOk (validateCfg fs) &&
  match schemaFields (typeS rx fs) (fuelT fs) fs with
  | .error _ => false
  | .ok schema => ((allPairs fs).filter isRouteOutsideCfg).all fun p =>
      isOk (routeAttrs vc (aliasS rx fs) (typeS rx fs) (fuelA fs) (fuelT fs) schema (attrsOf p))

/-- the set of spec files obeys every rule, those for route attributes included -/
def LegalFull (rx : String → Bool) (vc : ValCk) (fs : List File) : Bool :=
  Legal rx fs && routeAttrsLegal rx vc (mergeFiles fs)

end StoneVerif.FeCompile
