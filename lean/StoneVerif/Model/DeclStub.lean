import StoneVerif.Gen.Tables
/-
Declaration-level model of the PEP 484 stub generator and of the runtime module generator (C15):

* `fmtClass` / `fmtFunc` / `fmtVar` / `fmtNamespace` of stone/backends/python_helpers.py over an
  abstract `Naming` (the two word-splitting functions of stone/backends/helpers.py); the concrete
  `pyNaming` follows `split_words` character by character (ASCII).
* `mapTy` = `map_stone_type_to_python_type` (stone/backends/python_type_mapping.py), same branch
  order, with the `override_dict` keys as flags and the stub backend's callbacks inlined
  (`_get_pep_484_type_mapping_callbacks`). It returns the type expression *and* the imports the
  callbacks register with the `ImportTracker` while the expression is built. The callback for
  user-defined types (since the repair of C15-stub-indirect-namespace-import) registers the import of
  the namespace module of a class of another namespace unless `get_imported_namespaces` has it; the
  model records the reference (`Reg.nsRef`) and applies that test where the placeholder is filled
  (`placeholderImports`), where the import list of the namespace is at hand: same statements.
* `stubNs` = `PythonTypeStubsBackend._generate_base_namespace_module`: what the `.pyi` of one
  namespace declares, as data (classes with base / `__init__` parameters / members with annotation
  trees, module-level names, and the import list = fixed imports + namespace imports + the
  placeholder `imports_needed_for_typing` filled with everything registered while emitting).
* `rtNs` = the same view of `PythonTypesBackend._generate_base_namespace_module` (names only).
* Specification level, NOT following the code: `pep484` (Stone type → PEP 484 type, written from
  PEP 484 and the property text), `judged*` (which names the property compares).

What is data here and a method of the API description there: `ns.types` is
`namespace.linearize_data_types()`, `ns.aliases` is `linearize_aliases()`, `ns.imports` is
`get_imported_namespaces(consider_annotation_types=True)` (names), a field's `hasDefault` is
`field.has_default`. `Struct.all_fields` (required fields of the whole chain first, then the
optional ones) IS modelled (`allFields`).

Not modelled: documentation, blank lines, the text layout (C18 covers emission), the private
reflection attributes python_types assigns after the class bodies (`_all_fields_`, `_tagmap`, …).
-/
namespace StoneVerif.DeclStub

/-! ## 1. Identifier formatting (python_helpers.py, helpers.py) -/

/-- the two word-based formatters of stone/backends/helpers.py -/
structure Naming where
  pascal : String → String
  underscores : String → String

def reserved : List String := Tables.stubReservedKeywords

def renameIfReserved (s : String) : String := if s ∈ reserved then s ++ "_" else s

def fmtClass (N : Naming) (name : String) (checkReserved : Bool := false) : String :=
  let s := N.pascal name
  if checkReserved then renameIfReserved s else s

def fmtFunc (N : Naming) (name : String) (checkReserved : Bool := false) (version : Nat := 1) : String :=
  let n := N.underscores name
  let n := if checkReserved then renameIfReserved n else n
  if version > 1 then n ++ "_v" ++ toString version else n

def fmtVar (N : Naming) (name : String) (checkReserved : Bool := false) : String :=
  let s := N.underscores name
  if checkReserved then renameIfReserved s else s

def fmtNamespace (name : String) : String := renameIfReserved name

/-! ### `split_words`, concretely (ASCII) -/

def isLowerDigit (c : Char) : Bool :=
  (decide (97 ≤ c.toNat) && decide (c.toNat ≤ 122)) || (decide (48 ≤ c.toNat) && decide (c.toNat ≤ 57))
def isUpperC (c : Char) : Bool := decide (65 ≤ c.toNat) && decide (c.toNat ≤ 90)
def isSep (c : Char) : Bool := c == '-' || c == '_' || c == '/'

/-- `re.split('[-_/]+', name)` -/
def splitSepsAux : List Char → List Char → Bool → List (List Char)
  | [], cur, _ => [cur.reverse]
  | c :: rest, cur, inSep =>
    if isSep c then
      (if inSep then splitSepsAux rest cur true else cur.reverse :: splitSepsAux rest [] true)
    else splitSepsAux rest (c :: cur) false

/-- `findall` of `^[a-z0-9]+|[A-Z][a-z0-9]+|[A-Z]+(?=[A-Z][a-z0-9])|[A-Z]+$` on one piece:
alternatives in order at every position, one character is skipped where none matches. -/
def capWords : Nat → Bool → List Char → List (List Char)
  | 0, _, _ => []
  | _, _, [] => []
  | fuel + 1, atStart, c :: rest =>
    let s := c :: rest
    if atStart && isLowerDigit c then
      let m := s.takeWhile isLowerDigit
      m :: capWords fuel false (s.drop m.length)
    else if isUpperC c then
      match rest with
      | [] => [[c]]
      | d :: _ =>
        if isLowerDigit d then
          let m := c :: rest.takeWhile isLowerDigit
          m :: capWords fuel false (s.drop m.length)
        else
          let u := s.takeWhile isUpperC
          match s.drop u.length with
          | [] => [u]
          | e :: _ =>
            if isLowerDigit e && decide (2 ≤ u.length) then
              u.take (u.length - 1) :: capWords fuel false (s.drop (u.length - 1))
            else capWords fuel false rest
    else capWords fuel false rest

def splitWords (name : List Char) : List (List Char) :=
  (splitSepsAux name [] false).flatMap fun w =>
    match capWords (w.length + 1) true w with
    | [] => [w]
    | vs => vs

def lowerWord (w : List Char) : List Char := w.map Char.toLower
def capitalizeWord : List Char → List Char
  | [] => []
  | c :: r => c.toUpper :: r.map Char.toLower

def pascalOf (s : String) : String :=
  String.ofList ((splitWords s.toList).flatMap capitalizeWord)
def underscoresOf (s : String) : String :=
  String.ofList (List.intercalate ['_'] ((splitWords s.toList).map lowerWord))

/-- `fmt_pascal` / `fmt_underscores` of the code under test -/
def pyNaming : Naming := ⟨pascalOf, underscoresOf⟩

/-! ## 2. The API description (what the generators read) -/

abbrev QName := String × String      -- (namespace, name)

inductive StoneTy where
  | string | bytes | boolean | float | integer | void | timestamp
  | alias (ns name : String) (target : StoneTy)
  | user (ns name : String)
  | list (t : StoneTy)
  | map (k v : StoneTy)
  | nullable (t : StoneTy)
  deriving Repr, Inhabited, DecidableEq

structure Field where
  name : String
  ty : StoneTy
  hasDefault : Bool := false
  deriving Repr, Inhabited

inductive TyKind where
  | struct | union
  deriving Repr, DecidableEq, Inhabited

structure TypeDef where
  kind : TyKind
  name : String
  parent : Option QName := none
  fields : List Field := []          -- own fields / own tags (Void type = tag without value)
  deriving Repr, Inhabited

structure AliasDef where
  name : String
  ty : StoneTy
  deriving Repr, Inhabited

structure RouteDef where
  name : String
  version : Nat := 1
  deriving Repr, Inhabited

structure AnnoTypeDef where
  name : String
  params : List Field := []
  deriving Repr, Inhabited

structure Namespace where
  name : String
  imports : List String := []
  annoTypes : List AnnoTypeDef := []
  types : List TypeDef := []
  aliases : List AliasDef := []
  routes : List RouteDef := []
  /-- some route attribute value of the namespace is a `datetime.datetime` (a Timestamp attribute) -/
  tsRouteAttr : Bool := false
  deriving Repr, Inhabited

structure Api where
  namespaces : List Namespace
  deriving Repr, Inhabited

def lookupNs (api : Api) (n : String) : Option Namespace := api.namespaces.find? (·.name == n)

def lookupType (api : Api) (k : QName) : Option TypeDef :=
  match lookupNs api k.1 with
  | none => none
  | some ns => ns.types.find? (·.name == k.2)

def parentDef (api : Api) (t : TypeDef) : Option TypeDef :=
  match t.parent with
  | none => none
  | some k => lookupType api k

/-- upper bound on the length of any inheritance chain -/
def Api.fuel (api : Api) : Nat := (api.namespaces.map (·.types.length)).sum + 1

def isNullableTy : StoneTy → Bool
  | .nullable _ => true
  | _ => false
def isVoidTy : StoneTy → Bool
  | .void => true
  | _ => false

/-- `unwrap_aliases(t)[0]` -/
def unwrapAliases : StoneTy → StoneTy
  | .alias _ _ t => unwrapAliases t
  | t => t
def isUserTy : StoneTy → Bool
  | .user _ _ => true
  | _ => false

def isRequired (f : Field) : Bool := !isNullableTy f.ty && !f.hasDefault
def isOptional (f : Field) : Bool := isNullableTy f.ty || f.hasDefault

/-- `Struct._filter_fields`: super types first -/
def filterFields (api : Api) (p : Field → Bool) : Nat → TypeDef → List Field
  | 0, t => t.fields.filter p
  | n + 1, t =>
    (match parentDef api t with
     | none => []
     | some q => filterFields api p n q) ++ t.fields.filter p

/-- `Struct.all_fields = all_required_fields + all_optional_fields` -/
def allFields (api : Api) (n : Nat) (t : TypeDef) : List Field :=
  filterFields api isRequired n t ++ filterFields api isOptional n t

/-- the chain above `t` ends within `n` steps and every ancestor is of the same kind
(what the frontend guarantees; evaluated on every API description the harness dumps) -/
def chainOK (api : Api) : Nat → TypeDef → Bool
  | 0, t => (parentDef api t).isNone
  | n + 1, t =>
    match parentDef api t with
    | none => true
    | some q => (q.kind == t.kind) && chainOK api n q

/-! ## 3. Type expressions -/

/-- the shape of a Python annotation (`ast`): `Name`, `Attribute`, `Subscript`, `Tuple`, `List` of
two, the constant `None`; `docList` / `docMap` are the *non-type* texts the mapping returns without
overrides (`list of [T]`, `dict of [K:V]`, used by python_types in comments only). -/
inductive TExpr where
  | name (s : String)
  | attr (base : TExpr) (a : String)
  | sub (f : TExpr) (arg : TExpr)
  | tup (a b : TExpr)
  | lst (a b : TExpr)
  | none
  | docList (t : TExpr)
  | docMap (k v : TExpr)
  deriving Repr, Inhabited, DecidableEq

/-- the names an expression needs in scope (the root of every attribute chain) -/
def TExpr.names : TExpr → List String
  | .name s => [s]
  | .attr b _ => b.names
  | .sub f a => f.names ++ a.names
  | .tup a b => a.names ++ b.names
  | .lst a b => a.names ++ b.names
  | .none => []
  | .docList t => t.names
  | .docMap k v => k.names ++ v.names

/-- an `import_tracker._register_*` call -/
inductive Reg where
  | typing (name : String)
  | adhoc (stmt : String)
  /-- `upon_encountering_user_defined` met a class of another namespace: it registers the statement
  `from <package> import <fmt_namespace(ns)>` unless the namespace is among the imported ones -/
  | nsRef (ns : String)
  deriving Repr, DecidableEq, Inhabited

/-- which keys `override_dict` has -/
structure Overrides where
  string : Bool
  timestamp : Bool
  list : Bool
  map : Bool
  nullable : Bool
  user : Bool
  deriving Repr, DecidableEq

def hasCallback (k : String) : Bool := Tables.stubOverrideCallbacks.any (·.1 == k)

/-- `callback_dict` of `_get_pep_484_type_mapping_callbacks` -/
def stubOverrides : Overrides :=
  { string := hasCallback "String", timestamp := hasCallback "Timestamp", list := hasCallback "List",
    map := hasCallback "Map", nullable := hasCallback "Nullable", user := hasCallback "UserDefined" }

def noOverrides : Overrides := ⟨false, false, false, false, false, false⟩

def tDatetime : TExpr := .attr (.name "datetime") "datetime"

/-- `map_stone_type_to_python_type(ns, data_type, override_dict)`; second component = what the
callbacks register while the text is built -/
def mapTy (N : Naming) (ov : Overrides) (ns : String) : StoneTy → TExpr × List Reg
  | .string => if ov.string then (.name "Text", [.typing "Text"]) else (.name "str", [])
  | .bytes => (.name "bytes", [])
  | .boolean => (.name "bool", [])
  | .float => (.name "float", [])
  | .integer => (.name "int", [])
  | .void => (.none, [])
  | .timestamp =>
    -- the callback calls the mapping again WITHOUT overrides: 'datetime.datetime'
    if ov.timestamp then (tDatetime, [.adhoc "import datetime"]) else (tDatetime, [])
  | .alias _ _ t => mapTy N ov ns t
  | .user tns name =>
    -- the callback registers, then calls the mapping again WITHOUT overrides
    let cls := fmtClass N name
    if tns != ns then (.attr (.name (fmtNamespace tns)) cls, if ov.user then [.nsRef tns] else []) else (.name cls, [])
  | .list t =>
    let r := mapTy N ov ns t
    if ov.list then (.sub (.name "List") r.1, .typing "List" :: r.2) else (.docList r.1, r.2)
  | .map k v =>
    let rk := mapTy N ov ns k
    let rv := mapTy N ov ns v
    if ov.map then (.sub (.name "Dict") (.tup rk.1 rv.1), .typing "Dict" :: (rk.2 ++ rv.2))
    else (.docMap rk.1 rv.1, rk.2 ++ rv.2)
  | .nullable t =>
    let r := mapTy N ov ns t
    if ov.nullable then (.sub (.name "Optional") r.1, .typing "Optional" :: r.2)
    else (.sub (.name "Optional") r.1, r.2)

/-- `PythonTypeStubsBackend.map_stone_type_to_pep484_type` -/
def mapStoneType (N : Naming) (ns : String) (t : StoneTy) : TExpr × List Reg := mapTy N stubOverrides ns t

/-! ### Specification: Stone type → PEP 484 type (independent of the code) -/

/-- PEP 484 / `typing`: `bool int float str bytes`, `datetime.datetime`, `List[T]`, `Dict[K, V]`,
`Optional[T]`, `None`; a user type is its generated class (`cls name`), written `module.Class` when
it lives in another namespace module (`modOf ns`); an alias denotes what its target denotes.
`strTy` is the spelling of the text type (`str`; `typing.Text` is the same type). -/
def pep484S (strTy : TExpr) (cls : String → String) (modOf : String → String) (ns : String) : StoneTy → TExpr
  | .boolean => .name "bool"
  | .integer => .name "int"
  | .float => .name "float"
  | .string => strTy
  | .bytes => .name "bytes"
  | .timestamp => .attr (.name "datetime") "datetime"
  | .void => .none
  | .list t => .sub (.name "List") (pep484S strTy cls modOf ns t)
  | .map k v => .sub (.name "Dict") (.tup (pep484S strTy cls modOf ns k) (pep484S strTy cls modOf ns v))
  | .nullable t => .sub (.name "Optional") (pep484S strTy cls modOf ns t)
  | .user tns name => if tns = ns then .name (cls name) else .attr (.name (modOf tns)) (cls name)
  | .alias _ _ t => pep484S strTy cls modOf ns t

def pep484 (N : Naming) (ns : String) (t : StoneTy) : TExpr :=
  pep484S (.name "str") (fun n => fmtClass N n) fmtNamespace ns t

/-- `Text` read as `str` (PEP 484: `typing.Text` is an alias of `str` in Python 3) -/
def normText : TExpr → TExpr
  | .name s => if s = "Text" then .name "str" else .name s
  | .attr b a => .attr b a          -- module paths are not rewritten
  | .sub f a => .sub (normText f) (normText a)
  | .tup a b => .tup (normText a) (normText b)
  | .lst a b => .lst (normText a) (normText b)
  | .none => .none
  | .docList t => .docList (normText t)
  | .docMap k v => .docMap (normText k) (normText v)

/-- no user class reachable in `t` is called `Text` -/
def textFree (N : Naming) : StoneTy → Bool
  | .user _ name => fmtClass N name != "Text"
  | .alias _ _ t => textFree N t
  | .list t => textFree N t
  | .map k v => textFree N k && textFree N v
  | .nullable t => textFree N t
  | _ => true

/-- user types reachable in `t` with aliases resolved (what the mapping can mention) -/
def resolvedUsers : StoneTy → List QName
  | .user ns name => [(ns, name)]
  | .alias _ _ t => resolvedUsers t
  | .list t => resolvedUsers t
  | .map k v => resolvedUsers k ++ resolvedUsers v
  | .nullable t => resolvedUsers t
  | _ => []

/-- user types and aliases `t` mentions *directly* (what the spec text of the namespace names, hence
what the frontend records an import for) -/
def directRefs : StoneTy → List QName
  | .user ns name => [(ns, name)]
  | .alias ns name _ => [(ns, name)]
  | .list t => directRefs t
  | .map k v => directRefs k ++ directRefs v
  | .nullable t => directRefs t
  | _ => []

/-! ## 4. Declarations -/

structure ParamDecl where
  name : String
  ann : TExpr
  deriving Repr, DecidableEq, Inhabited

inductive MKind where
  | attr | method | classmethod | property
  deriving Repr, DecidableEq, Inhabited

structure Member where
  kind : MKind
  name : String
  ann : TExpr := .none                -- attribute annotation / return annotation
  params : List ParamDecl := []       -- after self / cls
  deriving Repr, DecidableEq, Inhabited

inductive CKind where
  | struct | union | annotationType
  deriving Repr, DecidableEq, Inhabited

structure ClassDecl where
  kind : CKind
  name : String
  base : TExpr
  init : Option (List ParamDecl)      -- parameters of `__init__` after self, when the class body defines one
  members : List Member
  deriving Repr, DecidableEq, Inhabited

inductive ModItem where
  | typeVar (name : String)
  | cls (c : ClassDecl)
  | validator (name : String) (ann : TExpr)
  | aliasName (name : String) (target : TExpr)
  | route (name : String) (ann : TExpr)
  | other (name : String)
  deriving Repr, DecidableEq, Inhabited

inductive Import where
  | typing (names : List String)      -- from typing import (…)
  | adhoc (stmt : String)             -- a registered statement, e.g. `import datetime`
  | lib (module asName : String)      -- from stone.backends.python_rsrc import <module> as <asName>
  | ns (modName : String)             -- from <package> import <modName>
  | future (name : String)            -- from __future__ import <name>
  deriving Repr, DecidableEq, Inhabited

structure ModDecl where
  file : String
  imports : List Import
  items : List ModItem
  deriving Repr, Inhabited

abbrev W (α : Type) := α × List Reg

def tBB (a : String) : TExpr := .attr (.name "bb") a
def tBV (a : String) : TExpr := .attr (.name "bv") a
def tOptional (t : TExpr) : TExpr := .sub (.name "Optional") t

/-! ### 4a. python_type_stubs.py -/

/-- `_class_declaration_for_type` (identical text in both backends) -/
def classBase (N : Naming) (ns : String) (t : TypeDef) : TExpr :=
  match t.parent with
  | some (pns, pname) =>
    -- class_name_for_data_type(parent, ns) → prefix_with_ns_if_necessary
    if pns == ns then .name (fmtClass N pname) else .attr (.name (fmtNamespace pns)) (fmtClass N pname)
  | none =>
    match t.kind with
    | .struct => tBB "Struct"
    | .union => tBB "Union"

/-- `_generate_struct_or_union_class_custom_annotations` -/
def customAnnotationsMember : W Member :=
  ({ kind := .method, name := "_process_custom_annotations", ann := .none,
     params := [⟨"annotation_type", .sub (.name "Type") (.name "T")⟩,
                ⟨"field_path", .name "Text"⟩,
                ⟨"processor", .sub (.name "Callable") (.tup (.lst (.name "T") (.name "U")) (.name "U"))⟩] },
   [.typing "Type", .typing "Text", .typing "Callable"])

/-- `_generate_struct_class_init`: one parameter per field of `all_fields` -/
def stubInitParam (N : Naming) (ns : String) (f : Field) : W ParamDecl :=
  let r := mapStoneType N ns f.ty
  if f.hasDefault then (⟨fmtVar N f.name true, tOptional r.1⟩, r.2 ++ [.typing "Optional"])
  else (⟨fmtVar N f.name true, r.1⟩, r.2)

/-- `_generate_struct_class_properties` -/
def stubFieldAttr (N : Naming) (ns : String) (f : Field) : W Member :=
  let r := mapStoneType N ns f.ty
  ({ kind := .attr, name := fmtFunc N f.name true, ann := .sub (tBB "Attribute") r.1 }, r.2)

def unzipW {α : Type} (l : List (W α)) : W (List α) := (l.map (·.1), l.flatMap (·.2))

/-- `_generate_struct_class` + `_generate_validator_for` -/
def stubStruct (N : Naming) (api : Api) (ns : String) (t : TypeDef) : W (List ModItem) :=
  let all := allFields api api.fuel t
  let ps := unzipW (all.map (stubInitParam N ns))
  let as := unzipW (all.map (stubFieldAttr N ns))
  let ca := customAnnotationsMember
  ([.cls { kind := .struct, name := fmtClass N t.name, base := classBase N ns t, init := some ps.1,
           members := as.1 ++ [ca.1] },
    .validator (fmtClass N t.name ++ "_validator") (tBV "Validator")],
   ps.2 ++ as.2 ++ ca.2)

/-- `_generate_union_class_vars` -/
def stubUnionVars (N : Naming) (t : TypeDef) : List Member :=
  (t.fields.filter (fun f => isVoidTy f.ty)).map fun f =>
    { kind := .attr, name := fmtVar N f.name, ann := .name (fmtClass N t.name) }

/-- `_generate_union_class_is_set` -/
def stubUnionIsSet (N : Naming) (t : TypeDef) : List Member :=
  t.fields.map fun f => { kind := .method, name := "is_" ++ fmtFunc N f.name, ann := .name "bool" }

/-- `_generate_union_class_variant_creators` -/
def stubUnionCreators (N : Naming) (ns : String) (t : TypeDef) : W (List Member) :=
  unzipW ((t.fields.filter (fun f => !isVoidTy f.ty)).map fun f =>
    let r := mapStoneType N ns f.ty
    ({ kind := .classmethod, name := fmtFunc N f.name true, ann := .name (fmtClass N t.name),
       params := [⟨"val", r.1⟩] }, r.2))

/-- `_generate_union_class_get_helpers` -/
def stubUnionGetters (N : Naming) (ns : String) (t : TypeDef) : W (List Member) :=
  unzipW ((t.fields.filter (fun f => !isVoidTy f.ty)).map fun f =>
    let r := mapStoneType N ns f.ty
    ({ kind := .method, name := "get_" ++ fmtFunc N f.name, ann := r.1 }, r.2))

/-- `_generate_union_class` + `_generate_validator_for` -/
def stubUnion (N : Naming) (ns : String) (t : TypeDef) : W (List ModItem) :=
  let cr := stubUnionCreators N ns t
  let ge := stubUnionGetters N ns t
  let ca := customAnnotationsMember
  ([.cls { kind := .union, name := fmtClass N t.name, base := classBase N ns t, init := none,
           members := stubUnionVars N t ++ stubUnionIsSet N t ++ cr.1 ++ ge.1 ++ [ca.1] },
    .validator (fmtClass N t.name ++ "_validator") (tBV "Validator")],
   cr.2 ++ ge.2 ++ ca.2)

def stubType (N : Naming) (api : Api) (ns : String) (t : TypeDef) : W (List ModItem) :=
  match t.kind with
  | .struct => stubStruct N api ns t
  | .union => stubUnion N ns t

/-- `_generate_annotation_type_class_init` -/
def stubAnnoParam (N : Naming) (ns : String) (p : Field) : W ParamDecl :=
  let r := mapStoneType N ns p.ty
  if !isNullableTy p.ty then (⟨fmtVar N p.name true, tOptional r.1⟩, r.2 ++ [.typing "Optional"])
  else (⟨fmtVar N p.name true, r.1⟩, r.2)

/-- `_generate_annotation_type_class_properties` -/
def stubAnnoProp (N : Naming) (ns : String) (p : Field) : W Member :=
  let r := mapStoneType N ns p.ty
  ({ kind := .property, name := fmtVar N p.name true, ann := r.1 }, r.2)

/-- `_generate_annotation_type_class` -/
def stubAnnoType (N : Naming) (ns : String) (a : AnnoTypeDef) : W (List ModItem) :=
  let ps := unzipW (a.params.map (stubAnnoParam N ns))
  let pr := unzipW (a.params.map (stubAnnoProp N ns))
  ([.cls { kind := .annotationType, name := fmtClass N a.name, base := .name "object", init := some ps.1,
           members := pr.1 }], ps.2 ++ pr.2)

/-- `class_name_for_data_type(alias.data_type, namespace)` for an alias target (an alias or a user type) -/
def aliasTargetName (N : Naming) (ns : String) : StoneTy → TExpr
  | .alias tns name _ => if tns == ns then .name (fmtClass N name) else .attr (.name (fmtNamespace tns)) (fmtClass N name)
  | .user tns name => if tns == ns then .name (fmtClass N name) else .attr (.name (fmtNamespace tns)) (fmtClass N name)
  | _ => .none      -- unreachable: the caller checked that the unwrapped target is user defined

/-- `_generate_alias_definition` (stub): validator and class alias are named after `fmt_class(alias.name)` -/
def stubAlias (N : Naming) (ns : String) (a : AliasDef) : List ModItem :=
  .validator (fmtClass N a.name ++ "_validator") (tBV "Validator") ::
    (if isUserTy (unwrapAliases a.ty) then [.aliasName (fmtClass N a.name) (aliasTargetName N ns a.ty)] else [])

/-- `check_route_name_conflict`: the first route whose generated name was already taken -/
def routeConflict (N : Naming) : List String → List RouteDef → Option String
  | _, [] => none
  | seen, r :: rest =>
    let n := fmtFunc N r.name false r.version
    if n ∈ seen then some n else routeConflict N (n :: seen) rest

/-- `_generate_routes` -/
def stubRoutes (N : Naming) (ns : Namespace) : List ModItem :=
  ns.routes.map fun r => .route (fmtFunc N r.name false r.version) (tBB "Route")

/-- a set as a list: one occurrence of every element -/
def dedup : List String → List String
  | [] => []
  | x :: xs => if x ∈ dedup xs then dedup xs else x :: dedup xs

def typingNames (regs : List Reg) : List String :=
  dedup (regs.filterMap fun r => match r with | .typing n => some n | _ => none)
def adhocStmts (regs : List Reg) : List String :=
  dedup (regs.filterMap fun r => match r with | .adhoc s => some s | _ => none)
/-- the namespaces whose import the user-defined callback registers: referenced, and not among
`get_imported_namespaces(consider_annotation_types=True)` (`imps`) -/
def extraNamespaces (imps : List String) (regs : List Reg) : List String :=
  dedup (regs.filterMap fun r => match r with | .nsRef n => if n ∈ imps then none else some n | _ => none)

/-- `_generate_imports_needed_for_typing`: the text stored for the placeholder
`imports_needed_for_typing` = everything registered since `import_tracker.clear()`. The registered
statements are emitted sorted; the order of imports is not part of this model (C12's subject). -/
def placeholderImports (imps : List String) (regs : List Reg) : List Import :=
  (if (typingNames regs).isEmpty then [] else [.typing (typingNames regs)]) ++
  (extraNamespaces imps regs).map (fun n => Import.ns (fmtNamespace n)) ++
  (adhocStmts regs).map .adhoc

/-- `_generate_typevars` -/
def stubTypevars : W (List ModItem) := ([.typeVar "T", .typeVar "U"], [.typing "TypeVar"])

def flatW {α : Type} (l : List (W (List α))) : W (List α) := (l.flatMap (·.1), l.flatMap (·.2))

/-- everything between `emit_placeholder` and `add_named_placeholder`, with what it registers -/
def stubBody (N : Naming) (api : Api) (ns : Namespace) : W (List ModItem) :=
  let tv := stubTypevars
  let at_ := flatW (ns.annoTypes.map (stubAnnoType N ns.name))
  let ty := flatW (ns.types.map (stubType N api ns.name))
  let al := ns.aliases.flatMap (stubAlias N ns.name)
  (tv.1 ++ at_.1 ++ ty.1 ++ al ++ stubRoutes N ns, tv.2 ++ at_.2 ++ ty.2)

/-- `_generate_base_namespace_module` of the stub backend. `import_tracker.clear()` = the
registrations start empty for every namespace. -/
def stubNs (N : Naming) (api : Api) (ns : Namespace) : Except String ModDecl :=
  match routeConflict N [] ns.routes with
  | some n => .error s!"route name conflict: {n}"
  | none =>
    let b := stubBody N api ns
    .ok { file := fmtNamespace ns.name ++ ".pyi",
          imports := placeholderImports ns.imports b.2 ++
            [.lib "stone_base" "bb", .lib "stone_validators" "bv"] ++
            ns.imports.map (fun n => Import.ns (fmtNamespace n)),
          items := b.1 }

/-! ### 4b. python_types.py (names only) -/

def rtMember (k : MKind) (n : String) : Member := { kind := k, name := n }
def rtParam (n : String) : ParamDecl := ⟨n, .none⟩

/-- `_generate_struct_class`: `__init__` takes `all_fields`, the class body defines the OWN fields -/
def rtStruct (N : Naming) (api : Api) (ns : String) (t : TypeDef) : List ModItem :=
  [.cls { kind := .struct, name := fmtClass N t.name, base := classBase N ns t,
          init := some ((allFields api api.fuel t).map fun f => rtParam (fmtVar N f.name true)),
          members := t.fields.map (fun f => rtMember .attr (fmtFunc N f.name true)) ++
                     [rtMember .method "_process_custom_annotations"] },
   .validator (fmtClass N t.name ++ "_validator") .none]

/-- `_generate_union_class` (class body) followed by `_generate_union_class_symbol_creators` (the
attributes assigned after the class definitions) -/
def rtUnion (N : Naming) (ns : String) (t : TypeDef) : List ModItem :=
  [.cls { kind := .union, name := fmtClass N t.name, base := classBase N ns t, init := none,
          members :=
            (t.fields.filter (fun f => isVoidTy f.ty)).map (fun f => rtMember .attr (fmtVar N f.name)) ++
            (t.fields.filter (fun f => !isVoidTy f.ty)).map (fun f => rtMember .classmethod (fmtFunc N f.name true)) ++
            t.fields.map (fun f => rtMember .method ("is_" ++ fmtFunc N f.name)) ++
            (t.fields.filter (fun f => !isVoidTy f.ty)).map (fun f => rtMember .method ("get_" ++ fmtFunc N f.name)) ++
            [rtMember .method "_process_custom_annotations"] ++
            (t.fields.filter (fun f => isVoidTy f.ty)).map (fun f => rtMember .attr (fmtFunc N f.name)) },
   .validator (fmtClass N t.name ++ "_validator") .none]

def rtType (N : Naming) (api : Api) (ns : String) (t : TypeDef) : List ModItem :=
  match t.kind with
  | .struct => rtStruct N api ns t
  | .union => rtUnion N ns t

/-- `_generate_annotation_type_class` -/
def rtAnnoType (N : Naming) (a : AnnoTypeDef) : List ModItem :=
  [.cls { kind := .annotationType, name := fmtClass N a.name, base := tBB "AnnotationType",
          init := some (a.params.map fun p => rtParam (fmtVar N p.name true)),
          members := a.params.map fun p => rtMember .property (fmtFunc N p.name true) }]

/-- `_generate_alias_definition` (runtime): the validator is named after `fmt_class(alias.name)`
(the name its users refer to; before the repair of D20 it was `alias.name` itself), and so is the
class alias of an alias of a struct or union (since the repair of D39, in both backends) -/
def rtAlias (N : Naming) (ns : String) (a : AliasDef) : List ModItem :=
  .validator (fmtClass N a.name ++ "_validator") .none ::
    (if isUserTy (unwrapAliases a.ty) then [.aliasName (fmtClass N a.name) (aliasTargetName N ns a.ty)] else [])

def rtRoutes (N : Naming) (ns : Namespace) : List ModItem :=
  (ns.routes.map fun r => .route (fmtFunc N r.name false r.version) .none) ++ [.other "ROUTES"]

def rtNs (N : Naming) (api : Api) (ns : Namespace) : Except String ModDecl :=
  match routeConflict N [] ns.routes with
  | some n => .error s!"route name conflict: {n}"
  | none =>
    .ok { file := fmtNamespace ns.name ++ ".py",
          imports := [.future "unicode_literals", .lib "stone_base" "bb", .lib "stone_validators" "bv"] ++
            -- Timestamp route attributes are printed as `datetime.datetime(...)`
            (if ns.tsRouteAttr then [.adhoc "import datetime"] else []) ++
            ns.imports.map (fun n => Import.ns (fmtNamespace n)),
          items := ns.annoTypes.flatMap (rtAnnoType N) ++ ns.types.flatMap (rtType N api ns.name) ++
                   ns.aliases.flatMap (rtAlias N ns.name) ++ rtRoutes N ns }

/-! ## 5. What the property compares (specification level) -/

/-- the kinds of module-level names the statement enumerates -/
inductive JKind where
  | cls | validator | aliasName | route
  deriving Repr, DecidableEq, Inhabited

/-- judged module-level names: classes of structs and unions, `<Name>_validator`, alias names, route
objects. Type variables, `ROUTES`, annotation-type classes are support definitions (recorded). -/
def judgedItem : ModItem → List (JKind × String)
  | .cls c => if c.kind = .annotationType then [] else [(.cls, c.name)]
  | .validator n _ => [(.validator, n)]
  | .aliasName n _ => [(.aliasName, n)]
  | .route n _ => [(.route, n)]
  | _ => []

def judgedNames (m : ModDecl) : List (JKind × String) := m.items.flatMap judgedItem

/-- The judged names written directly from the API description (the statement's enumeration): per
struct / union its class and `<Class>_validator`, per alias a validator (named by `aliasValidator`)
and, when the alias denotes a struct or union, the class-formatted alias name, per route its object. -/
def judgedSpec (N : Naming) (ns : Namespace) (aliasValidator : String → String) : List (JKind × String) :=
  ns.types.flatMap (fun t => [(JKind.cls, fmtClass N t.name), (JKind.validator, fmtClass N t.name ++ "_validator")]) ++
  ns.aliases.flatMap (fun a => (JKind.validator, aliasValidator a.name) ::
    (if isUserTy (unwrapAliases a.ty) then [(JKind.aliasName, fmtClass N a.name)] else [])) ++
  ns.routes.map (fun r => (JKind.route, fmtFunc N r.name false r.version))

/-- a public member = field attribute, void-tag attribute, `is_*`, `get_*`, tag constructor -/
def isPublic (n : String) : Bool :=
  match n.toList with
  | '_' :: _ => false
  | _ => true

def judgedMember (m : Member) : List (MKind × String) := if isPublic m.name then [(m.kind, m.name)] else []

/-- own judged members of the class generated for `t` on the stub side / on the runtime side -/
def classOf (items : List ModItem) : Option ClassDecl :=
  items.findSome? fun i => match i with | .cls c => some c | _ => none

def stubOwn (N : Naming) (api : Api) (ns : String) (t : TypeDef) : List (MKind × String) :=
  match classOf (stubType N api ns t).1 with
  | some c => c.members.flatMap judgedMember
  | none => []
def rtOwn (N : Naming) (api : Api) (ns : String) (t : TypeDef) : List (MKind × String) :=
  match classOf (rtType N api ns t) with
  | some c => c.members.flatMap judgedMember
  | none => []

/-- members with inheritance resolved: own members, then those of the class generated for the parent
(`ns` of an ancestor = the namespace it is declared in) -/
def resolve (own : String → TypeDef → List (MKind × String)) (api : Api) : Nat → String → TypeDef → List (MKind × String)
  | 0, ns, t => own ns t
  | n + 1, ns, t =>
    own ns t ++
      (match t.parent with
       | none => []
       | some k => match lookupType api k with
         | none => []
         | some q => resolve own api n k.1 q)

/-- constructor parameter names with inheritance resolved (first class of the chain whose body
defines `__init__`; `none` = inherited from the hand-written library class) -/
def ctorParams (items : List ModItem) : Option (List String) :=
  match classOf items with
  | some c => c.init.map (·.map (·.name))
  | none => none

def resolveCtor (items : String → TypeDef → List ModItem) (api : Api) : Nat → String → TypeDef → Option (List String)
  | 0, ns, t => ctorParams (items ns t)
  | n + 1, ns, t =>
    match ctorParams (items ns t) with
    | some l => some l
    | none =>
      match t.parent with
      | none => none
      | some k => match lookupType api k with
        | none => none
        | some q => resolveCtor items api n k.1 q

/-! ### names used / imported / defined -/

def Member.annNames (m : Member) : List String := m.ann.names ++ m.params.flatMap (·.ann.names)
def ClassDecl.annNames (c : ClassDecl) : List String :=
  (match c.init with | some ps => ps.flatMap (·.ann.names) | none => []) ++ c.members.flatMap Member.annNames

/-- every name an *annotation* of the module needs in scope -/
def ModItem.annNames : ModItem → List String
  | .cls c => c.annNames
  | .validator _ a => a.names
  | .route _ a => a.names
  | _ => []

def ModDecl.annNames (m : ModDecl) : List String := m.items.flatMap ModItem.annNames

/-- the name an ad-hoc import statement binds (`import X` binds `X`) -/
def adhocBinds (stmt : String) : List String :=
  match stmt.toList with
  | 'i' :: 'm' :: 'p' :: 'o' :: 'r' :: 't' :: ' ' :: rest => [String.ofList rest]
  | _ => []

def Import.binds : Import → List String
  | .typing names => names
  | .adhoc s => adhocBinds s
  | .lib _ a => [a]
  | .ns m => [m]
  | .future n => [n]

def ModDecl.imported (m : ModDecl) : List String := m.imports.flatMap Import.binds

def ModItem.defines : ModItem → List String
  | .typeVar n => [n]
  | .cls c => [c.name]
  | .validator n _ => [n]
  | .aliasName n _ => [n]
  | .route n _ => [n]
  | .other n => [n]

def ModDecl.defined (m : ModDecl) : List String := m.items.flatMap ModItem.defines

/-- builtins the mapping may use without import -/
def pyBuiltins : List String := ["bool", "int", "float", "bytes", "str", "object"]

/-- the names used in annotations that are neither imported, nor defined, nor builtins -/
def ModDecl.unresolved (m : ModDecl) : List String :=
  m.annNames.filter fun x => !(m.imported.contains x || m.defined.contains x || pyBuiltins.contains x)

/-! ### well-formedness (guaranteed by the frontend; evaluated on every dumped description) -/

/-- the type expressions the stub of `ns` annotates with: fields of `all_fields` of every struct
(inherited ones included), tags of every union, parameters of every annotation type -/
def annotatedTypes (api : Api) (ns : Namespace) : List StoneTy :=
  ns.types.flatMap (fun t => match t.kind with
    | .struct => (allFields api api.fuel t).map (·.ty)
    | .union => t.fields.map (·.ty)) ++
  ns.annoTypes.flatMap (fun a => a.params.map (·.ty))

/-- every user type the annotations of `ns` can mention (aliases resolved) is a class of `ns` or
lives in a namespace `ns` imports. No longer a hypothesis of any theorem (since the repair of
C15-stub-indirect-namespace-import the stub imports the other namespaces itself); recorded by the
harness. -/
def refsCovered (api : Api) (ns : Namespace) : Bool :=
  (annotatedTypes api ns).all fun t => (resolvedUsers t).all fun k =>
    if k.1 == ns.name then ns.types.any (·.name == k.2) else ns.imports.contains k.1

/-- every user type of `ns` ITSELF that its annotations can mention (aliases resolved, inherited
fields included) is one of its classes: a reference into a namespace is to something it defines -/
def ownRefsDefined (api : Api) (ns : Namespace) : Bool :=
  (annotatedTypes api ns).all fun t => (resolvedUsers t).all fun k =>
    k.1 != ns.name || ns.types.any (·.name == k.2)

/-- the same for what the namespace's own text mentions directly (own fields, own tags, parameters):
this is what the frontend's import bookkeeping guarantees -/
def directCovered (ns : Namespace) : Bool :=
  (ns.types.flatMap (fun t => t.fields.map (·.ty)) ++ ns.annoTypes.flatMap (fun a => a.params.map (·.ty))).all
    fun t => (directRefs t).all fun k =>
      if k.1 == ns.name then (ns.types.any (·.name == k.2) || ns.aliases.any (·.name == k.2))
      else ns.imports.contains k.1

def chainsOK (api : Api) : Bool :=
  api.namespaces.all fun ns => ns.types.all fun t => chainOK api api.fuel t

/-- alias names the class formatter leaves unchanged (no longer a hypothesis of any theorem since the
repair of D20; recorded by the harness) -/
def aliasNamesStable (N : Naming) (ns : Namespace) : Bool := ns.aliases.all fun a => fmtClass N a.name == a.name

end StoneVerif.DeclStub
