/-
Model of the command-line route selection of stone (C19):

* `FilterExprLexer` / `FilterExprParser` / `FilterExpr*.eval` of stone/cli_helpers.py
  (character-level lexer following ply's rule order, shift/reduce parser with `and` tighter than
  `or`, both left associative, Python `==` on literals),
* the `-w` / `-b` / `-f` / `-a` blocks of `stone.cli.main` and `ApiNamespace.add_route`
  (stone/ir/api.py),
* specification-level definitions written from the property text (`evalSpec`, `GExpr`, `index`).

Import-free: this file is linked into the correspondence driver.

Domain notes (what the model does NOT reproduce; the harness stays inside, the theorems say so):
* characters: ASCII semantics of `\d`, `\b`, `[a-zA-Z_]`. Python's `str` patterns are Unicode aware
  (`\d` matches Arabic-Indic digits, `\b` sees `é` as a word character); outside string literals the
  model is only claimed for ASCII input.
* floats: a FLOAT literal is kept as the exact decimal `m * 10^e` it denotes (`Lit.float m e`),
  equality is equality of values (`1 = 1.0 = 10e-1`, `True = 1`), like Python compares `int` with
  `float`. Python rounds a literal to the nearest IEEE double first, so the model differs when two
  different decimals round to the same double (more than 15 significant digits, overflow `1e400`,
  underflow) or when an integer above 2^53 is compared with a float. The correspondence harness
  compares evaluations only on literals with at most 15 significant digits, exponents within ±200
  and integers below 2^53, where Python's `==` coincides with exact equality; lexing is compared
  on everything (the exact decimal is converted with `float()` on the Python side).
-/
namespace StoneVerif.Cli

abbrev Name := List Char

/-! ## Literals and Python's `==` -/

/-- A literal of the filter language / a route attribute value.
`other` stands for an attribute value of any other Python type (bytes, datetime, a union tag
reference): it is never produced by the lexer and is unequal to every literal. -/
inductive Lit where
  | null
  | bool (b : Bool)
  | int (n : Int)
  | float (m : Int) (e : Int)      -- the decimal `m * 10^e`
  | str (s : List Char)
  | other
  deriving DecidableEq, Repr, Inhabited

/-- Numeric view used by Python's `==`: `bool` is a subclass of `int`, `int` and `float` compare by
value. -/
def Lit.num? : Lit → Option (Int × Int)
  | .bool b => some (if b then 1 else 0, 0)
  | .int n => some (n, 0)
  | .float m e => some (m, e)
  | _ => none

/-- `m1 * 10^e1 = m2 * 10^e2`, decided over the integers. -/
def decEq10 (m1 e1 m2 e2 : Int) : Bool :=
  let e := min e1 e2
  m1 * 10 ^ (e1 - e).toNat == m2 * 10 ^ (e2 - e).toNat

/-- Python `a == b` for the value kinds that occur. -/
def pyEq (a b : Lit) : Bool :=
  match a.num?, b.num? with
  | some (m1, e1), some (m2, e2) => decEq10 m1 e1 m2 e2
  | none, none =>
    match a, b with
    | .null, .null => true
    | .str x, .str y => x == y
    | _, _ => false
  | _, _ => false

/-! ## Lexer (FilterExprLexer) -/

inductive Tok where
  | id (s : Name)
  | lpar | rpar | and | or | neq | eq
  | lit (l : Lit)                   -- BOOLEAN | FLOAT | INTEGER | NULL | STRING with its value
  deriving DecidableEq, Repr, Inhabited

/-- `\d` (ASCII): `0`..`9` -/
def isDigit (c : Char) : Bool := 48 ≤ c.toNat && c.toNat ≤ 57
/-- `[a-zA-Z]` -/
def isLetter (c : Char) : Bool := (65 ≤ c.toNat && c.toNat ≤ 90) || (97 ≤ c.toNat && c.toNat ≤ 122)
/-- `[a-zA-Z_]` -/
def isIdStart (c : Char) : Bool := isLetter c || c.toNat = 95
/-- `[a-zA-Z0-9_-]` -/
def isIdChar (c : Char) : Bool := isLetter c || isDigit c || c.toNat = 95 || c.toNat = 45
/-- `\w` (ASCII) -/
def isWord (c : Char) : Bool := isLetter c || isDigit c || c.toNat = 95

/-- length of the longest prefix whose characters satisfy `p` (a greedy `x*`) -/
def countWhile (p : Char → Bool) : List Char → Nat
  | [] => 0
  | c :: cs => if p c then countWhile p cs + 1 else 0

def natOfDigits (ds : List Char) : Nat := ds.foldl (fun a c => 10 * a + (c.toNat - 48)) 0

/-- `\b` in front of a word character: the previous character is absent or not a word character -/
def boundaryBefore : Option Char → Bool
  | none => true
  | some p => !isWord p

/-- `\b` behind a word character -/
def boundaryAfter : List Char → Bool
  | [] => true
  | c :: _ => !isWord c

/-- `\bW\b` at the current position, for a word `W` -/
def wordAt (w : List Char) (prev : Option Char) (cs : List Char) : Bool :=
  boundaryBefore prev && w.isPrefixOf cs && boundaryAfter (cs.drop w.length)

def signLen : List Char → Nat
  | '-' :: _ => 1
  | _ => 0

/-- length of a match of `e-?\d+` at the head, 0 if there is none -/
def expLen : List Char → Nat
  | 'e' :: r =>
    let s := signLen r
    let d := countWhile isDigit (r.drop s)
    if d = 0 then 0 else 1 + s + d
  | _ => 0

/-- `-?\d+(\.\d*(e-?\d+)?|e-?\d+)`: length of the match. The greedy loops never need to give
characters back: after fewer digits the next character is a digit, which neither `\.` nor `e`
accepts. -/
def matchFloat (cs : List Char) : Option Nat :=
  let s := signLen cs
  let r0 := cs.drop s
  let d := countWhile isDigit r0
  if d = 0 then none else
  match r0.drop d with
  | '.' :: r2 =>
    let f := countWhile isDigit r2
    some (s + d + 1 + f + expLen (r2.drop f))
  | 'e' :: r2 =>
    match expLen ('e' :: r2) with
    | 0 => none
    | k => some (s + d + k)
  | _ => none

/-- `-?\d+` -/
def matchInt (cs : List Char) : Option Nat :=
  let s := signLen cs
  let d := countWhile isDigit (cs.drop s)
  if d = 0 then none else some (s + d)

/-- body of `\"([^\\"]|(\\.))*\"` after the opening quote: length up to the closing quote.
`.` does not match a newline (ply compiles with `re.VERBOSE` only); `[^\\"]` does. Every character
has exactly one way to be consumed, so there is no backtracking. -/
def strBodyLen : List Char → Option Nat
  | [] => none
  | '"' :: _ => some 0
  | ['\\'] => none
  | '\\' :: c :: r => if c = '\n' then none else (strBodyLen r).map (· + 2)
  | _ :: r => (strBodyLen r).map (· + 1)

/-- `float(text)` as an exact decimal -/
def floatVal (t : List Char) : Lit :=
  let s := signLen t
  let r0 := t.drop s
  let ip := r0.takeWhile isDigit
  let r1 := r0.dropWhile isDigit
  let fp := match r1 with
    | '.' :: r => r.takeWhile isDigit
    | _ => []
  let r2 := match r1 with
    | '.' :: r => r.dropWhile isDigit
    | _ => r1
  let ex : Int := match r2 with
    | 'e' :: '-' :: x => - (natOfDigits x : Int)
    | 'e' :: x => (natOfDigits x : Int)
    | _ => 0
  let m : Int := (natOfDigits (ip ++ fp) : Int)
  .float (if s = 1 then -m else m) (ex - fp.length)

/-- `int(text)` -/
def intVal (t : List Char) : Lit :=
  let s := signLen t
  let m : Int := (natOfDigits (t.drop s) : Int)
  .int (if s = 1 then -m else m)

inductive Item where
  | tok (t : Tok)
  | err (c : Char)          -- `t_error`: "Illegal character", one character skipped
  | skip                    -- `t_ignore`
  deriving DecidableEq, Repr

/-- One step of `Lexer.token()` at a non-empty position: the item and the number of characters
consumed *minus one*. Rule order = ply's master regular expression: the function rules in
definition order (BOOLEAN, NULL, FLOAT, INTEGER, STRING, ID), then the string rules by decreasing
regex length (LPAR, NEQ, RPAR, EQ); the first alternative that matches wins (not the longest). -/
def lexStep (prev : Option Char) (c : Char) (cs : List Char) : Item × Nat :=
  let all := c :: cs
  if c = ' ' then (.skip, 0)
  else if wordAt ['t', 'r', 'u', 'e'] prev all then (.tok (.lit (.bool true)), 3)
  else if wordAt ['f', 'a', 'l', 's', 'e'] prev all then (.tok (.lit (.bool false)), 4)
  else if wordAt ['n', 'u', 'l', 'l'] prev all then (.tok (.lit .null), 3)
  else match matchFloat all with
  | some n => (.tok (.lit (floatVal (all.take n))), n - 1)
  | none =>
  match matchInt all with
  | some n => (.tok (.lit (intVal (all.take n))), n - 1)
  | none =>
  if c = '"' then
    match strBodyLen cs with
    | some k => (.tok (.lit (.str (cs.take k))), k + 1)
    | none => (.err c, 0)
  else if isIdStart c then
    let k := countWhile isIdChar cs
    let name := c :: cs.take k
    -- KEYWORDS lookup inside t_ID
    if name = ['a', 'n', 'd'] then (.tok .and, k)
    else if name = ['o', 'r'] then (.tok .or, k)
    else (.tok (.id name), k)
  else if c = '(' then (.tok .lpar, 0)
  else if c = '!' && cs.head? = some '=' then (.tok .neq, 1)
  else if c = ')' then (.tok .rpar, 0)
  else if c = '=' then (.tok .eq, 0)
  else (.err c, 0)

/-- The item stream of a whole input. `prev` is the character in front of the position. -/
def lexAux (prev : Option Char) : List Char → List Item
  | [] => []
  | c :: cs =>
    let r := lexStep prev c cs
    r.1 :: lexAux ((c :: cs)[r.2]?) ((c :: cs).drop (r.2 + 1))
termination_by cs => cs.length
decreasing_by simp; omega

def itemsToks : List Item → List Tok
  | [] => []
  | .tok t :: r => t :: itemsToks r
  | _ :: r => itemsToks r

def itemsErrs : List Item → List Char
  | [] => []
  | .err c :: r => c :: itemsErrs r
  | _ :: r => itemsErrs r

structure Lexed where
  toks : List Tok
  errors : List Char          -- one entry per "Illegal character" message
  deriving Repr

def lex (s : List Char) : Lexed :=
  let items := lexAux none s
  ⟨itemsToks items, itemsErrs items⟩

/-! ## Parser (FilterExprParser) -/

inductive Op where
  | eq | neq
  deriving DecidableEq, Repr

inductive Conj where
  | and | or
  deriving DecidableEq, Repr

/-- `FilterExprPredicate(op, lhs, rhs)` / `FilterExprConjunction(conj, lhs, rhs)` -/
inductive Expr where
  | pred (op : Op) (attr : Name) (rhs : Lit)
  | conj (c : Conj) (lhs rhs : Expr)
  deriving DecidableEq, Repr

instance : Inhabited Expr := ⟨.pred .eq [] .null⟩

/-- What `p_error` is called with. -/
inductive ParseError where
  | unexpected (t : Tok)
  | unexpectedEnd
  deriving DecidableEq, Repr

def mkAnd : Option Expr → Expr → Expr
  | none, e => e
  | some a, e => .conj .and a e

def mkOr : Option Expr → Expr → Expr
  | none, e => e
  | some o, e => .conj .or o e

/-- Parser state inside one parenthesis level. `o` is the finished left operand of a pending `or`,
`a` the finished left operand of a pending `and` (which binds tighter, so it is kept apart).
`want`: an operand must follow. `got`: an operand has just been completed. -/
inductive PState where
  | want (o a : Option Expr)
  | got (o : Option Expr) (a : Expr)
  deriving Repr

/-- a suspended level: the accumulators in front of an opening parenthesis -/
abbrev Frame := Option Expr × Option Expr

/-- The shift/reduce run of the LALR automaton that yacc builds from the grammar
`expr : pred | LPAR expr RPAR | expr OR expr | expr AND expr`, `pred : ID op primitive` with
`precedence = (('left', 'OR'), ('left', 'AND'))`: on `and` after an operand keep accumulating the
conjunction; on `or`, `)` or the end first reduce the conjunction, then the disjunction. A token
that no action is defined for is a syntax error (the first call of `p_error`). -/
def run : PState → List Frame → List Tok → Except ParseError Expr
  | .want o a, st, .lpar :: ts => run (.want none none) ((o, a) :: st) ts
  | .want o a, st, .id x :: .eq :: .lit l :: ts => run (.got o (mkAnd a (.pred .eq x l))) st ts
  | .want o a, st, .id x :: .neq :: .lit l :: ts => run (.got o (mkAnd a (.pred .neq x l))) st ts
  | .want _ _, _, .id _ :: .eq :: t :: _ => .error (.unexpected t)
  | .want _ _, _, .id _ :: .neq :: t :: _ => .error (.unexpected t)
  | .want _ _, _, [.id _, .eq] => .error .unexpectedEnd
  | .want _ _, _, [.id _, .neq] => .error .unexpectedEnd
  | .want _ _, _, .id _ :: t :: _ => .error (.unexpected t)
  | .want _ _, _, [.id _] => .error .unexpectedEnd
  | .want _ _, _, t :: _ => .error (.unexpected t)
  | .want _ _, _, [] => .error .unexpectedEnd
  | .got o a, st, .and :: ts => run (.want o (some a)) st ts
  | .got o a, st, .or :: ts => run (.want (some (mkOr o a)) none) st ts
  | .got o a, (o', a') :: st, .rpar :: ts => run (.got o' (mkAnd a' (mkOr o a))) st ts
  | .got _ _, [], .rpar :: _ => .error (.unexpected .rpar)
  | .got _ _, _, t :: _ => .error (.unexpected t)
  | .got o a, [], [] => .ok (mkOr o a)
  | .got _ _, _ :: _, [] => .error .unexpectedEnd

def parseToks (ts : List Tok) : Except ParseError Expr := run (.want none none) [] ts

inductive FilterError where
  | illegalChars (cs : List Char)                      -- lexer.errors non-empty
  | syntax (e : ParseError)                            -- parser.errors non-empty
  deriving DecidableEq, Repr

/-- `parse_route_attr_filter(text)`: the tree when the error list is empty. (When the real error
list is non-empty the tree yacc may still return after error recovery is never used: `cli.main`
exits.) -/
def parseFilter (s : List Char) : Except FilterError Expr :=
  let l := lex s
  match parseToks l.toks with
  | .ok e => if l.errors = [] then .ok e else .error (.illegalChars l.errors)
  | .error pe => if l.errors = [] then .error (.syntax pe) else .error (.illegalChars l.errors)

/-! ## Evaluation -/

abbrev Attrs := List (Name × Lit)

/-- `route.attrs.get(name, None)` -/
def attrGet (r : Attrs) (k : Name) : Lit := (r.lookup k).getD .null

/-- `FilterExprPredicate.eval` / `FilterExprConjunction.eval` -/
def Expr.eval : Expr → Attrs → Bool
  | .pred .eq a v, r => pyEq (attrGet r a) v
  | .pred .neq a v, r => !pyEq (attrGet r a) v
  | .conj .and l rr, r => l.eval r && rr.eval r
  | .conj .or l rr, r => l.eval r || rr.eval r

/-! ### Reference evaluator, written from the property text

"ordinary boolean semantics (`=` and `!=` on typed literals, …, an absent attribute equal to null)".
A value and a literal of the same kind are equal when they are the same value; anything is equal to
`null` exactly when it is null / absent; comparisons across kinds are unspecified (`none`). The
connectives are the strong Kleene ones: a result is specified when it does not depend on the
unspecified operands. -/

inductive Kind where
  | null | bool | int | float | str | other
  deriving DecidableEq, Repr

def Lit.kind : Lit → Kind
  | .null => .null
  | .bool _ => .bool
  | .int _ => .int
  | .float _ _ => .float
  | .str _ => .str
  | .other => .other

def specEq (v lit : Lit) : Option Bool :=
  match v, lit with
  | .null, .null => some true
  | .null, _ => some false
  | _, .null => some false
  | .bool a, .bool b => some (a == b)
  | .int a, .int b => some (a == b)
  | .float m1 e1, .float m2 e2 => some (decEq10 m1 e1 m2 e2)
  | .str a, .str b => some (a == b)
  | _, _ => none

def kAnd : Option Bool → Option Bool → Option Bool
  | some false, _ => some false
  | _, some false => some false
  | some true, some true => some true
  | _, _ => none

def kOr : Option Bool → Option Bool → Option Bool
  | some true, _ => some true
  | _, some true => some true
  | some false, some false => some false
  | _, _ => none

/-- the value an attribute has for a route: absent reads as null -/
def attrSpec (r : Attrs) (k : Name) : Lit :=
  match r.lookup k with
  | none => .null
  | some v => v

def evalSpec : Expr → Attrs → Option Bool
  | .pred .eq a v, r => specEq (attrSpec r a) v
  | .pred .neq a v, r => (specEq (attrSpec r a) v).map (!·)
  | .conj .and l rr, r => kAnd (evalSpec l r) (evalSpec rr r)
  | .conj .or l rr, r => kOr (evalSpec l r) (evalSpec rr r)

/-! ### The grammar as a specification (the `p_*` docstrings) -/

inductive GExpr : List Tok → Prop where
  | predEq (x : Name) (l : Lit) : GExpr [.id x, .eq, .lit l]
  | predNeq (x : Name) (l : Lit) : GExpr [.id x, .neq, .lit l]
  | parens {ts} : GExpr ts → GExpr (.lpar :: ts ++ [.rpar])
  | or {a b} : GExpr a → GExpr b → GExpr (a ++ .or :: b)
  | and {a b} : GExpr a → GExpr b → GExpr (a ++ .and :: b)

/-! ### Printing (specification level): expression text a user can write

`SExpr` is an expression as written: literals with their spelling, and explicit, possibly redundant,
parentheses. Printing adds the parentheses precedence requires (an `or` directly under `and`). A
tree without `paren` nodes is the minimal parenthesisation, a tree with `paren` around every
operand the full one. -/

/-- the spelling of a literal -/
inductive LitSyn where
  | null | true | false
  /-- `-?\d+`: sign and digits -/
  | int (neg : Bool) (digits : List Char)
  /-- `-?\d+\.\d*` / `-?\d+(\.\d*)?e-?\d+`: sign, integer digits, fraction digits after a point (if
  any point), exponent sign and digits (if any exponent) -/
  | float (neg : Bool) (ip : List Char) (fp : Option (List Char)) (ex : Option (Bool × List Char))
  /-- the body between the quotes -/
  | str (body : List Char)
  deriving DecidableEq, Repr

def signText (neg : Bool) : List Char := if neg then ['-'] else []

def LitSyn.text : LitSyn → List Char
  | .null => ['n', 'u', 'l', 'l']
  | .true => ['t', 'r', 'u', 'e']
  | .false => ['f', 'a', 'l', 's', 'e']
  | .int neg ds => signText neg ++ ds
  | .float neg ip fp ex =>
    signText neg ++ ip
      ++ (match fp with | some f => '.' :: f | none => [])
      ++ (match ex with | some (n, x) => 'e' :: (signText n ++ x) | none => [])
  | .str body => '"' :: body ++ ['"']

/-- the value the lexer attaches (`int(text)`, `float(text)`, the raw body) -/
def LitSyn.val : LitSyn → Lit
  | .null => .null
  | .true => .bool Bool.true
  | .false => .bool Bool.false
  | .int neg ds => intVal (signText neg ++ ds)
  | .float neg ip fp ex => floatVal (LitSyn.float neg ip fp ex).text
  | .str body => .str body

/-- an identifier spelling that starts with one of the words `true`, `false`, `null` followed by a
non-word character (which can only be `-`) is lexed as that word first -/
def reservedStart : Name → Bool
  | 't' :: 'r' :: 'u' :: 'e' :: r => boundaryAfter r
  | 'f' :: 'a' :: 'l' :: 's' :: 'e' :: r => boundaryAfter r
  | 'n' :: 'u' :: 'l' :: 'l' :: r => boundaryAfter r
  | _ => false

/-- `[a-zA-Z_][a-zA-Z0-9_-]*` that the lexer returns as an ID with this very name -/
def idOk : Name → Bool
  | [] => false
  | c :: cs => isIdStart c && cs.all isIdChar && !reservedStart (c :: cs)
      && decide (c :: cs ≠ ['a', 'n', 'd']) && decide (c :: cs ≠ ['o', 'r'])

/-- `([^\\"]|(\\.))*` -/
def strBodyOk : List Char → Bool
  | [] => true
  | '"' :: _ => false
  | ['\\'] => false
  | '\\' :: c :: r => c ≠ '\n' && strBodyOk r
  | _ :: r => strBodyOk r

def digitsOk (ds : List Char) : Bool := !ds.isEmpty && ds.all isDigit

def LitSyn.wf : LitSyn → Bool
  | .null => Bool.true
  | .true => Bool.true
  | .false => Bool.true
  | .int _ ds => digitsOk ds
  | .float _ ip fp ex =>
    digitsOk ip && (fp.isSome || ex.isSome)
      && (match fp with | some f => f.all isDigit | none => Bool.true)
      && (match ex with | some (_, x) => digitsOk x | none => Bool.true)
  | .str body => strBodyOk body

def Op.tok : Op → Tok
  | .eq => .eq
  | .neq => .neq

def Conj.tok : Conj → Tok
  | .and => .and
  | .or => .or

def Op.text : Op → List Char
  | .eq => ['=']
  | .neq => ['!', '=']

def Conj.text : Conj → List Char
  | .and => ['a', 'n', 'd']
  | .or => ['o', 'r']

inductive SExpr where
  | atom (op : Op) (attr : Name) (lit : LitSyn)
  | paren (p : SExpr)
  | conj (c : Conj) (l r : SExpr)
  deriving Repr

/-- the meaning of a written expression, by ordinary reading -/
def SExpr.strip : SExpr → Expr
  | .atom op a l => .pred op a l.val
  | .paren p => p.strip
  | .conj c l r => .conj c l.strip r.strip

def SExpr.isOr : SExpr → Bool
  | .conj .or _ _ => true
  | _ => false

/-- a spelled token -/
inductive STok where
  | id (s : Name)
  | lpar | rpar
  | conj (c : Conj)
  | op (o : Op)
  | lit (l : LitSyn)
  deriving Repr

def STok.tok : STok → Tok
  | .id s => .id s
  | .lpar => .lpar
  | .rpar => .rpar
  | .conj c => c.tok
  | .op o => o.tok
  | .lit l => .lit l.val

def STok.text : STok → List Char
  | .id s => s
  | .lpar => ['(']
  | .rpar => [')']
  | .conj c => c.text
  | .op o => o.text
  | .lit l => l.text

def STok.wf : STok → Bool
  | .id s => idOk s
  | .lit l => l.wf
  | _ => Bool.true

def sparens (ts : List STok) : List STok := .lpar :: ts ++ [.rpar]

/-- spelled tokens of a written expression -/
def SExpr.stoks : SExpr → List STok
  | .atom op a l => [.id a, .op op, .lit l]
  | .paren p => sparens p.stoks
  | .conj .or l r => l.stoks ++ .conj .or :: r.stoks
  | .conj .and l r =>
    (if l.isOr then sparens l.stoks else l.stoks) ++ .conj .and ::
      (if r.isOr then sparens r.stoks else r.stoks)

/-- the text: every token followed by one blank -/
def render : List STok → List Char
  | [] => []
  | t :: ts => t.text ++ ' ' :: render ts

/-- every identifier and literal of the written expression is spelled as the lexer expects -/
def SExpr.wf : SExpr → Bool
  | .atom _ a l => idOk a && l.wf
  | .paren p => p.wf
  | .conj _ l r => l.wf && r.wf

def SExpr.text (s : SExpr) : List Char := render s.stoks

/-- flat sequences `a₀ c₁ a₁ c₂ a₂ …` without parentheses -/
structure Atom where
  op : Op
  attr : Name
  lit : Lit
  deriving Repr

def Atom.toks (a : Atom) : List Tok := [.id a.attr, a.op.tok, .lit a.lit]
def Atom.expr (a : Atom) : Expr := .pred a.op a.attr a.lit

def flatToks (a : Atom) (rest : List (Conj × Atom)) : List Tok :=
  a.toks ++ rest.flatMap (fun p => p.1.tok :: p.2.toks)

/-- the disjunction of the maximal `and`-groups of a flat sequence; `cur` is the value of the group
being read -/
def orOfAnds (val : Atom → Bool) (cur : Bool) : List (Conj × Atom) → Bool
  | [] => cur
  | (.and, b) :: rest => orOfAnds val (cur && val b) rest
  | (.or, b) :: rest => cur || orOfAnds val (val b) rest

/-! ## `cli.main`: what the backend gets to see -/

/-- Python dict assignment `d[k] = v` on an insertion-ordered association list -/
def dictSet {κ ν} [DecidableEq κ] (k : κ) (v : ν) : List (κ × ν) → List (κ × ν)
  | [] => [(k, v)]
  | (k', v') :: rest => if k' = k then (k', v) :: rest else (k', v') :: dictSet k v rest

structure Route where
  name : Name
  version : Int
  attrs : Attrs
  deriving DecidableEq, Repr

structure Namespace where
  name : Name
  routes : List Route
  /-- `route_by_name`: name ↦ the version-1 route -/
  routeByName : List (Name × Route)
  /-- `routes_by_name`: name ↦ `ApiRoutesByVersion.at_version` -/
  routesByName : List (Name × List (Int × Route))
  /-- opaque signatures of `data_types` (never touched by the pruning) -/
  dataTypes : List Name
  deriving DecidableEq, Repr

structure Api where
  /-- `api.namespaces` (an OrderedDict keyed by namespace name) -/
  namespaces : List Namespace
  /-- names of `api.route_schema.fields`, in order -/
  schema : List Name
  /-- keys of `api.route_schema._fields_by_name` -/
  schemaByName : List Name
  /-- names of the fields `stone_cfg.Route` inherits (`all_fields` minus `fields`); routes carry values
  for them, `cli.main` accepts them with `-a` but cannot take them out of the schema -/
  schemaInherited : List Name := []
  deriving DecidableEq, Repr

/-- every attribute a route can carry: the fields of `stone_cfg.Route`, inherited ones included
(`route_schema.all_fields`) -/
def Api.allFields (api : Api) : List Name := api.schemaInherited ++ api.schema

structure Opts where
  /-- `-f`; `none` when the option is absent -/
  filter : Option (List Char) := none
  /-- `-w` (argparse `append`) -/
  whitelist : List Name := []
  /-- `-b` -/
  blacklist : List Name := []
  /-- `-a` -/
  attributes : List Name := []
  deriving Repr

inductive CliError where
  | routeFilter (e : FilterError)          -- "Error(s) in route filter:"
  | whitelistMissing (n : Name)            -- "Whitelisted namespace missing from spec"
  | blacklistMissing (n : Name)            -- "Blacklisted namespace missing from spec"
  | attributeUndefined (cands : List Name) -- "Attribute not defined in stone_cfg.Route" (one of cands)
  deriving DecidableEq, Repr

def allAttributes : Name := [':', 'a', 'l', 'l']

def Api.hasNamespace (api : Api) (n : Name) : Bool := api.namespaces.any (fun ns => ns.name = n)

/-- `namespace.routes = []; namespace.route_by_name = {}; namespace.routes_by_name = {}` -/
def Namespace.clearRoutes (ns : Namespace) : Namespace :=
  { ns with routes := [], routeByName := [], routesByName := [] }

/-- `ApiNamespace.add_route` -/
def Namespace.addRoute (ns : Namespace) (r : Route) : Namespace :=
  let rbn := if r.version = 1 then dictSet r.name r ns.routeByName else ns.routeByName
  let inner := (ns.routesByName.lookup r.name).getD []
  { ns with
    routes := ns.routes ++ [r]
    routeByName := rbn
    routesByName := dictSet r.name (dictSet r.version r inner) ns.routesByName }

/-- `if args.filter_by_route_attr:` … `parse_route_attr_filter` … `sys.exit(1)` on errors.
An empty string is falsy in Python: no filter. -/
def stageParse (o : Opts) : Except CliError (Option Expr) :=
  match o.filter with
  | none => .ok none
  | some [] => .ok none
  | some (c :: cs) =>
    match parseFilter (c :: cs) with
    | .ok e => .ok (some e)
    | .error fe => .error (.routeFilter fe)

/-- `if args.whitelist_namespace_routes:` -/
def stageWhitelist (w : List Name) (api : Api) : Except CliError Api :=
  if w = [] then .ok api else
  match w.find? (fun n => !api.hasNamespace n) with
  | some n => .error (.whitelistMissing n)
  | none => .ok { api with namespaces := api.namespaces.map fun ns =>
      if ns.name ∉ w then ns.clearRoutes else ns }

/-- `if args.blacklist_namespace_routes:` — the loop clears while it checks, the first unknown
name exits -/
def stageBlacklist (b : List Name) (api : Api) : Except CliError Api :=
  match b.find? (fun n => !api.hasNamespace n) with
  | some n => .error (.blacklistMissing n)
  | none => .ok { api with namespaces := api.namespaces.map fun ns =>
      if ns.name ∈ b then ns.clearRoutes else ns }

/-- `if route_filter:` — keep the routes the expression accepts, rebuild the tables with
`add_route` -/
def Namespace.filterRoutes (e : Expr) (ns : Namespace) : Namespace :=
  (ns.routes.filter (fun r => e.eval r.attrs)).foldl Namespace.addRoute ns.clearRoutes

def stageFilter (f : Option Expr) (api : Api) : Api :=
  match f with
  | none => api
  | some e => { api with namespaces := api.namespaces.map (Namespace.filterRoutes e) }

/-- the set `attrs` of `main` before the schema loop (as a list; order is immaterial):
`attrs.remove(':all'); attrs.update(names of route_schema.all_fields)` -/
def wantedAttrs (a : List Name) (all : List Name) : List Name :=
  if a = [] then [] else if allAttributes ∈ a then a.filter (fun n => n ≠ allAttributes) ++ all else a

def Route.restrict (keep : List Name) (r : Route) : Route :=
  { r with attrs := r.attrs.filter (fun kv => kv.1 ∈ keep) }

/-- The tables hold references to the route objects of `routes`; deleting keys from `route.attrs`
in place is therefore visible through the tables too. -/
def Namespace.restrict (keep : List Name) (ns : Namespace) : Namespace :=
  { ns with
    routes := ns.routes.map (Route.restrict keep)
    routeByName := ns.routeByName.map fun kv => (kv.1, kv.2.restrict keep)
    routesByName := ns.routesByName.map fun kv => (kv.1, kv.2.map fun vr => (vr.1, vr.2.restrict keep)) }

/-- `if args.attribute:` … the three loops … "Attribute not defined in stone_cfg.Route" -/
def stageAttrs (a : List Name) (api : Api) : Except CliError Api :=
  let attrs := wantedAttrs a api.allFields
  -- the schema loop takes the selected own fields out of `attrs`, `difference_update` the inherited ones
  let left := (attrs.filter (fun n => n ∉ api.allFields)).eraseDups
  if left ≠ [] then .error (.attributeUndefined left) else
  .ok { namespaces := api.namespaces.map (Namespace.restrict attrs)
        schema := api.schema.filter (fun n => n ∈ attrs)
        schemaByName := api.schemaByName.filter (fun n => n ∈ attrs)
        schemaInherited := api.schemaInherited }

/-- The `Api` handed to the backend, or the error `main` exits with. The filter is parsed before
the specs are compiled, the other blocks run in the order of the source. -/
def prune (o : Opts) (api : Api) : Except CliError Api := do
  let f ← stageParse o
  let api ← stageWhitelist o.whitelist api
  let api ← stageBlacklist o.blacklist api
  stageAttrs o.attributes (stageFilter f api)

/-! ### Specification-level index of a route list -/

/-- the tables `add_route` builds for a route list, from scratch -/
def index (rs : List Route) : List (Name × Route) × List (Name × List (Int × Route)) :=
  let ns := rs.foldl Namespace.addRoute ⟨[], [], [], [], []⟩
  (ns.routeByName, ns.routesByName)

/-- by-name tables agree with the route list -/
def Namespace.Consistent (ns : Namespace) : Prop :=
  (ns.routeByName, ns.routesByName) = index ns.routes

def Api.Consistent (api : Api) : Prop := ∀ ns ∈ api.namespaces, ns.Consistent

/-- the last element of a list that satisfies `p` (specification of a dictionary built by
successive assignments: later entries win) -/
def lastMatch (p : Route → Bool) (rs : List Route) : Option Route :=
  rs.foldl (fun acc r => if p r then some r else acc) none

/-! ### What the property says the backend sees (specification level) -/

/-- a namespace shows no routes: not named by a non-empty `-w`, or named by `-b` -/
def hidden (o : Opts) (n : Name) : Bool :=
  (o.whitelist ≠ [] && !(n ∈ o.whitelist)) || n ∈ o.blacklist

/-- a route passes the (parsed) filter -/
def pass (f : Option Expr) (r : Route) : Bool :=
  match f with
  | none => true
  | some e => e.eval r.attrs

/-- the namespace as the property describes it: selected routes in their order with the visible
attributes only, tables = index of that list, everything else untouched -/
def Namespace.pruned (o : Opts) (f : Option Expr) (keep : List Name) (ns : Namespace) : Namespace :=
  let rs := if hidden o ns.name then [] else (ns.routes.filter (pass f)).map (Route.restrict keep)
  { name := ns.name, routes := rs, routeByName := (index rs).1, routesByName := (index rs).2,
    dataTypes := ns.dataTypes }

def pruneSpec (o : Opts) (f : Option Expr) (api : Api) : Api :=
  let keep := wantedAttrs o.attributes api.allFields
  { namespaces := api.namespaces.map (Namespace.pruned o f keep)
    schema := api.schema.filter (fun n => n ∈ keep)
    schemaByName := api.schemaByName.filter (fun n => n ∈ keep)
    schemaInherited := api.schemaInherited }

/-- the selection the property speaks of: the names given with `-a`, all attributes with `:all` -/
def wantedAll (a : List Name) (api : Api) : List Name :=
  if a = [] then [] else if allAttributes ∈ a then api.allFields else a

end StoneVerif.Cli
