import StoneVerif.Gen.Tables
/-!
# Type instantiation: the arguments of the built-in types (C01 "legal ... type arguments", C03 crash layer)

Code-following part (`instantiate`, `resolveBuiltin`) models, as the code is in the repository now,

* `p_kw_args_update` of stone/frontend/parser.py (a keyword argument given twice),
* `IRGenerator._instantiate_data_type` and the `Void?` test of `IRGenerator._resolve_type`
  (stone/frontend/ir_generator.py): positional / keyword bookkeeping from the `__init__` signature
  (`Tables.feInitSigs`, extracted from stone/ir/data_types.py),
* the `__init__` parameter checks of `_BoundedInteger`, `_BoundedFloat`, `String`, `Timestamp`, `List`, `Map`
  (stone/ir/data_types.py).  Every comparison in them is guarded by an `isinstance` test of its operand, so the only
  exception besides `ParameterError` (which `_instantiate_data_type` turns into `InvalidSpec`) that the constructor
  call could raise is the `TypeError` of a call with the wrong number of arguments -- the positional bookkeeping in
  front of it excludes that (`instantiate_no_crash`).

Specification-level part (`legalArgs`, `legalRef`): written from the "Basic Types" table of docs/lang_ref.rst
(required = bold = positional, optional = keyword, kinds and ranges); it does not follow the code.

Values.  An argument is a literal or an already resolved type (`_resolve_args` resolves nested references first).
The only observation any `__init__` makes on a type-valued argument is `isinstance(·, String)`, so a type argument is
`Arg.ty isString`.  `null` in an argument list is the lexer's `NullToken = object()`: not `None`, truthy, neither a
number nor a string.  A float is the exact value of the IEEE double the lexer produced (`float(text)`), a rational or
an infinity (`1e999` lexes to `inf`); NaN has no literal.  Python compares `int` with `float` exactly, so comparisons
are exact comparisons of rationals.  `float(int)` rounds to nearest-even and raises `OverflowError` from `2^1024 -
2^970` on (`floatOfInt`).  `bool` is a `numbers.Integral` (value 0 / 1) in Python; the language reference is silent
about booleans as numeric arguments, so the specification follows the implementation there (not judged).
Whether a pattern compiles (`re.compile` raises neither `re.error` nor `OverflowError`) is the external parameter `rx`.
-/
namespace StoneVerif.FeParams

/-! ## Python-side values -/

/-- the built-in types of `IRGenerator.data_types` (`Tables.feBuiltinTypes`) -/
inductive TyKind where
  | bytes | boolean | float32 | float64 | int32 | int64 | list | map | string | timestamp | uint32 | uint64 | void
  deriving DecidableEq, Repr, Inhabited

def TyKind.pyName : TyKind → String
  | .bytes => "Bytes" | .boolean => "Boolean" | .float32 => "Float32" | .float64 => "Float64"
  | .int32 => "Int32" | .int64 => "Int64" | .list => "List" | .map => "Map" | .string => "String"
  | .timestamp => "Timestamp" | .uint32 => "UInt32" | .uint64 => "UInt64" | .void => "Void"

def TyKind.all : List TyKind :=
  [.bytes, .boolean, .float32, .float64, .int32, .int64, .list, .map, .string, .timestamp, .uint32, .uint64, .void]

def TyKind.ofName? (s : String) : Option TyKind := TyKind.all.find? (·.pyName == s)

/-- value of a Python `float` that a literal can denote: `num / den` (`den > 0`) or an infinity -/
inductive FVal where
  | fin (num : Int) (den : Nat)
  | pinf
  | ninf
  deriving DecidableEq, Repr, Inhabited

/-- exact `a < b` -/
def FVal.lt : FVal → FVal → Bool
  | .fin n d, .fin n' d' => n * (d' : Int) < n' * (d : Int)
  | .fin _ _, .pinf => true
  | .ninf, .fin _ _ => true
  | .ninf, .pinf => true
  | _, _ => false

/-- the double with IEEE-754 bit pattern `b` (NaN patterns do not occur in the tables) -/
def fvalOfBits (b : Nat) : FVal :=
  let neg := (b >>> 63) % 2 == 1
  let e := (b >>> 52) % 2048
  let m := b % 2 ^ 52
  if e == 2047 then (if neg then .ninf else .pinf)
  else
    let mant : Nat := if e == 0 then m else m + 2 ^ 52
    let ex : Int := if e == 0 then -1074 else (e : Int) - 1075
    let sgn : Int := if neg then -1 else 1
    if ex ≥ 0 then .fin (sgn * (mant * 2 ^ ex.toNat : Nat)) 1 else .fin (sgn * mant) (2 ^ (-ex).toNat)

/-- Python `float(n)` for an `int`: round to nearest, ties to even; `none` = `OverflowError` -/
def floatOfInt (n : Int) : Option FVal :=
  let a := n.natAbs
  if a < 2 ^ 53 then some (.fin n 1) else
  let sh := Nat.log2 a + 1 - 53
  let q := a >>> sh
  let r := a % 2 ^ sh
  let half := 2 ^ (sh - 1)
  let q' := if r > half || (r == half && q % 2 == 1) then q + 1 else q
  let v := q' * 2 ^ sh
  if v ≥ 2 ^ 1024 then none else some (.fin (if n < 0 then -(v : Int) else v) 1)

/-- an argument of a type reference after `_resolve_args` -/
inductive Arg where
  | int (i : Int)
  | float (f : FVal)
  | str (s : String)
  | bool (b : Bool)
  | null                       -- `NullToken`, an opaque `object()`
  | ty (isString : Bool)       -- a `DataType` instance; `isString` = `isinstance(·, String)`
  deriving DecidableEq, Repr, Inhabited

/-- `isinstance(a, numbers.Integral)`, with the value -/
def Arg.integral? : Arg → Option Int
  | .int i => some i
  | .bool b => some (if b then 1 else 0)
  | _ => none

inductive Num where
  | i (n : Int)
  | f (x : FVal)
  deriving DecidableEq, Repr

/-- `isinstance(a, numbers.Real)`, with the value -/
def Arg.num? : Arg → Option Num
  | .int i => some (.i i)
  | .bool b => some (.i (if b then 1 else 0))
  | .float x => some (.f x)
  | _ => none

def Arg.isTy : Arg → Bool
  | .ty _ => true
  | _ => false

def Arg.isStr : Arg → Bool
  | .str _ => true
  | _ => false

/-! ## Errors -/

inductive PyExc where
  | typeError | attributeError | assertionError | keyError | valueError | notImplementedError | indexError
  deriving DecidableEq, Repr, Inhabited

/-- which `InvalidSpec` (the message template; compared softly) -/
inductive Reason where
  | dupKeyword            -- parser: "Keyword argument '%s' defined more than once."
  | missingPositional     -- "Missing positional argument %s for %s type"
  | tooManyPositional     -- "Too many positional arguments for %s type"
  | unknownKeyword        -- "Unknown argument %s to %s type."
  | positionalAsKeyword   -- "Positional argument %s cannot be specified as a keyword argument."
  | badArgument           -- "Bad argument to %s type: %s"  (a ParameterError)
  | voidNullable          -- "Void cannot be marked nullable."
  deriving DecidableEq, Repr, Inhabited

inductive FeErr where
  | specerr (r : Reason)
  | crash (e : PyExc)
  deriving DecidableEq, Repr, Inhabited

/-! ## The instantiated type -/

/-- what the constructed `DataType` instance stores -/
inductive TyVal where
  | plain (k : TyKind)                                              -- Bytes, Boolean, Void
  | int (k : TyKind) (lo hi : Option Int)
  | float (k : TyKind) (lo hi : Option FVal)
  | string (minLen maxLen : Option Int) (pattern : Option Arg)
  | timestamp (fmt : String)
  | list (elem : Arg) (minItems maxItems : Option Int)
  | map (key val : Arg)
  deriving DecidableEq, Repr, Inhabited

def TyVal.isString : TyVal → Bool
  | .string .. => true
  | _ => false

/-! ## Tables -/

/-- `(get_args(cls.__init__).args without self, len(defaults))` -/
def initSig (k : TyKind) : List String × Nat := (Tables.feInitSigs.lookup k.pyName).getD ([], 0)

def intLimits (k : TyKind) : Int × Int := (Tables.irIntBounds.lookup k.pyName).getD (0, 0)

/-- `(cls.minimum, cls.maximum)` of a float class -/
def floatLimits (k : TyKind) : Option FVal × Option FVal :=
  match Tables.irFloatBounds.lookup k.pyName with
  | some (lo, hi) => (lo.map fvalOfBits, hi.map fvalOfBits)
  | none => (none, none)

def nodupKeys : List (String × Arg) → Bool
  | [] => true
  | (k, _) :: rest => !(rest.any (·.1 == k)) && nodupKeys rest

/-! ## `_instantiate_data_type`, following the code -/

/-- the `for key in kw_args` loop: first unknown key / first positional parameter given by keyword -/
def checkKw (names : List String) (numReq : Nat) : List (String × Arg) → Option Reason
  | [] => none
  | (key, _) :: rest =>
    match names.idxOf? key with
    | none => some .unknownKeyword
    | some i => if i < numReq then some .positionalAsKeyword else checkKw names numReq rest

def bad {α} : Except FeErr α := .error (.specerr .badArgument)

/-- `_BoundedInteger.__init__`, one bound: integral and inside the width of the type (both ends are tested for
`min_value` and for `max_value`) -/
def intBound (lim : Int × Int) : Option Arg → Except FeErr (Option Int)
  | none => .ok none
  | some a =>
    match a.integral? with
    | none => bad
    | some v => if v < lim.1 || lim.2 < v then bad else .ok (some v)

/-- `x < minimum` or `x > maximum` where a class without limits (`Float64`) tests nothing -/
def outsideF (lim : Option FVal × Option FVal) (x : FVal) : Bool :=
  (match lim.1 with | some l => x.lt l | none => false) || (match lim.2 with | some h => h.lt x | none => false)

/-- `_BoundedFloat.__init__`, one bound: a real number, converted with `float()`, inside the class limits -/
def floatBound (lim : Option FVal × Option FVal) : Option Arg → Except FeErr (Option FVal)
  | none => .ok none
  | some a =>
    match a.num? with
    | none => bad
    | some n =>
      let conv : Option FVal := match n with
        | .f x => some x
        | .i i => floatOfInt i
      match conv with
      | none => bad                      -- OverflowError -> ParameterError
      | some x => if outsideF lim x then bad else .ok (some x)

/-- `String.__init__` / `List.__init__`, one length: integral and not below `least` -/
def lenBound (least : Int) : Option Arg → Except FeErr (Option Int)
  | none => .ok none
  | some a =>
    match a.integral? with
    | none => bad
    | some v => if v < least then bad else .ok (some v)

def optIntTruthy : Option Int → Bool
  | some v => v != 0
  | none => false

/-- `String.__init__`, the pattern: `if pattern is not None:` a string that `re.compile` accepts (`re.error` and
`OverflowError` both become `ParameterError`) -/
def patternArg (rx : String → Bool) : Option Arg → Except FeErr (Option Arg)
  | none => .ok none
  | some p =>
    match p with
    | .str s => if rx s then .ok (some p) else bad
    | _ => bad

/-- the constructor call `data_type_class(*pos_args, **kw_args)` -/
def construct (rx : String → Bool) (k : TyKind) (pos : List Arg) (kw : List (String × Arg)) : Except FeErr TyVal :=
  match k, pos with
  | .bytes, [] => .ok (.plain k)
  | .boolean, [] => .ok (.plain k)
  | .void, [] => .ok (.plain k)
  | .int32, [] | .int64, [] | .uint32, [] | .uint64, [] => do
    let lo ← intBound (intLimits k) (kw.lookup "min_value")
    let hi ← intBound (intLimits k) (kw.lookup "max_value")
    .ok (.int k lo hi)
  | .float32, [] | .float64, [] => do
    let lo ← floatBound (floatLimits k) (kw.lookup "min_value")
    let hi ← floatBound (floatLimits k) (kw.lookup "max_value")
    .ok (.float k lo hi)
  | .string, [] => do
    let mn ← lenBound 0 (kw.lookup "min_length")
    let mx ← lenBound 1 (kw.lookup "max_length")
    if optIntTruthy mn && optIntTruthy mx && (mx.getD 0 < mn.getD 0) then bad else
    let p ← patternArg rx (kw.lookup "pattern")
    .ok (.string mn mx p)
  | .timestamp, [a] =>
    match a with
    | .str s => .ok (.timestamp s)
    | _ => bad
  | .list, [a] =>
    if !a.isTy then bad else do            -- "data_type must be a data type"
    let mn ← lenBound 0 (kw.lookup "min_items")
    let mx ← lenBound 1 (kw.lookup "max_items")
    if optIntTruthy mn && optIntTruthy mx && (mx.getD 0 < mn.getD 0) then bad else
    .ok (.list a mn mx)
  | .map, [key, val] =>
    match key with
    | .ty true => if !val.isTy then bad else .ok (.map key val)   -- "value_data_type must be a data type"
    | _ => bad
  | _, _ => .error (.crash .typeError)     -- a call with the wrong number of arguments

/-- parser duplicate-keyword check, then `_instantiate_data_type` -/
def instantiate (rx : String → Bool) (k : TyKind) (pos : List Arg) (kw : List (String × Arg)) : Except FeErr TyVal :=
  if !nodupKeys kw then .error (.specerr .dupKeyword) else
  let (names, numDefaults) := initSig k
  let numReq := names.length - numDefaults
  if numReq > pos.length then .error (.specerr .missingPositional)
  else if numReq < pos.length then .error (.specerr .tooManyPositional)
  else
    match checkKw names numReq kw with
    | some r => .error (.specerr r)
    | none => construct rx k pos kw

/-- the builtin-class branch of `_resolve_type`: `Void?` is refused before instantiation; a builtin is never an
alias of a nullable, so `?` then just wraps. Result: the type and whether it is wrapped in `Nullable`. -/
def resolveBuiltin (rx : String → Bool) (k : TyKind) (pos : List Arg) (kw : List (String × Arg)) (nullable : Bool) :
    Except FeErr (TyVal × Bool) :=
  if k == .void && nullable then .error (.specerr .voidNullable) else do
    let t ← instantiate rx k pos kw
    .ok (t, nullable)

/-! ## Specification level: the "Basic Types" table of docs/lang_ref.rst -/

/-- what an argument must be -/
inductive ArgKind where
  | intBound (k : TyKind)     -- an integer inside the width of `k`            (Int32 ... UInt64: min_value, max_value)
  | realBound (k : TyKind)    -- a real number representable in `k`            (Float32, Float64: min_value, max_value)
  | length (least : Int)      -- an integer `≥ least`                          (min_* ≥ 0, max_* > 0)
  | regex                     -- a string that is a regular expression         (String: pattern)
  | str                       -- a string                                      (Timestamp: format)
  | anyType                   -- "a primitive or composite type"               (List: data_type, Map: value_data_type)
  | stringType                -- "an instance of the String base type"        (Map: key_data_type)
  deriving DecidableEq, Repr

/-- required (bold, positional) arguments -/
def required : TyKind → List ArgKind
  | .list => [.anyType]
  | .map => [.stringType, .anyType]
  | .timestamp => [.str]
  | _ => []

/-- optional (keyword) arguments -/
def optional : TyKind → List (String × ArgKind)
  | .float32 => [("min_value", .realBound .float32), ("max_value", .realBound .float32)]
  | .float64 => [("min_value", .realBound .float64), ("max_value", .realBound .float64)]
  | .int32 => [("min_value", .intBound .int32), ("max_value", .intBound .int32)]
  | .int64 => [("min_value", .intBound .int64), ("max_value", .intBound .int64)]
  | .uint32 => [("min_value", .intBound .uint32), ("max_value", .intBound .uint32)]
  | .uint64 => [("min_value", .intBound .uint64), ("max_value", .intBound .uint64)]
  | .list => [("min_items", .length 0), ("max_items", .length 1)]
  | .string => [("min_length", .length 0), ("max_length", .length 1), ("pattern", .regex)]
  | _ => []

/-- `x` lies inside `[lo, hi]` where a missing limit is no limit -/
def withinF (lim : Option FVal × Option FVal) (x : FVal) : Bool :=
  (match lim.1 with | some l => !x.lt l | none => true) && (match lim.2 with | some h => !h.lt x | none => true)

def ArgKind.admits (rx : String → Bool) : ArgKind → Arg → Bool
  | .intBound k, a =>
    match a.integral? with
    | some v => (intLimits k).1 ≤ v && v ≤ (intLimits k).2
    | none => false
  | .realBound k, a =>
    match a.num? with
    | some (.f x) => withinF (floatLimits k) x
    | some (.i i) => match floatOfInt i with
      | some x => withinF (floatLimits k) x
      | none => false
    | none => false
  | .length least, a =>
    match a.integral? with
    | some v => least ≤ v
    | none => false
  | .regex, .str s => rx s
  | .regex, _ => false
  | .str, a => a.isStr
  | .anyType, a => a.isTy
  | .stringType, a => a == .ty true

def allAdmit (rx : String → Bool) : List ArgKind → List Arg → Bool
  | [], [] => true
  | k :: ks, a :: as => k.admits rx a && allAdmit rx ks as
  | _, _ => false

/-- lower and upper length given together: `min ≤ max` -/
def lengthsOrdered (kw : List (String × Arg)) (lo hi : String) : Bool :=
  match (kw.lookup lo).bind Arg.integral?, (kw.lookup hi).bind Arg.integral? with
  | some a, some b => a ≤ b
  | _, _ => true

/-- The argument list `(pos, kw)` is legal for the built-in type `k`: no keyword twice, exactly the required
arguments positionally and of their kinds, every keyword is an optional argument of `k` of its kind, lengths
ordered. -/
def legalArgs (rx : String → Bool) (k : TyKind) (pos : List Arg) (kw : List (String × Arg)) : Bool :=
  nodupKeys kw
  && allAdmit rx (required k) pos
  && kw.all (fun p => ((optional k).lookup p.1).isSome)
  && (optional k).all (fun o => match kw.lookup o.1 with | some a => o.2.admits rx a | none => true)
  && (match k with
      | .string => lengthsOrdered kw "min_length" "max_length"
      | .list => lengthsOrdered kw "min_items" "max_items"
      | _ => true)

/-- a reference `K(args)` / `K(args)?` to a built-in type is legal: legal arguments, and `Void` is never nullable -/
def legalRef (rx : String → Bool) (k : TyKind) (pos : List Arg) (kw : List (String × Arg)) (nullable : Bool) : Bool :=
  legalArgs rx k pos kw && !(k == .void && nullable)

end StoneVerif.FeParams
