import StoneVerif.Model.Rt.Ir
import StoneVerif.Model.Rt.Validate
import StoneVerif.Model.Rt.Decode
import StoneVerif.Model.Rt.Encode
import StoneVerif.Model.Rt.Spec
import StoneVerif.Gen.Tables
/-
C10 model: the COMPILE-TIME side of defaults and examples.

Code-following part (stone/frontend/ir_generator.py `_create_struct_field`, `_populate_field_defaults`;
stone/ir/data_types.py `<Type>.check`, `<Type>.check_example`, `Struct._add_example_helper`,
`Struct._compute_example_flat_helper`, `Union._add_example`, `Union._compute_example`;
stone/backends/python_types.py `_generate_struct_attributes_defaults`, `_generate_python_value`,
`_generate_union_class_symbol_creators`):

* `check`          : `data_type.check(val)` for a literal of the spec,
* `fieldDefault`   : what `_create_struct_field` + `_populate_field_defaults` do with `f T = lit`
                     (result: the value stored by `field.set_default`, after the `float()` coercion),
* `pyOfStored`     : the Python value the generated module assigns to `Cls.f.default`,
* `checkExample`   : `data_type.check_example(ex_field)`,
* `addStructExample` / `structExampleDoc`, `addUnionExample` / `unionExampleDoc` : the flat part of
                     `_add_example*` / `_compute_example*` (examples that do not refer to other examples),
* `envOfC`         : the class tables python_types generates for a compile-time API description.

Where Python raises `InvalidSpec` the model answers `invalid`; any other exception class escaping the
compiler is `crash <class>`. Since the frontend repairs (notes/c03_fix_notes.md) no entry point of this model
(`fieldDefault`, `addStructExample`, `unionExample`) can answer `crash` on a type the compiler can build
(`tyKnown`): `Props/C10.lean` proves it (`checkDefault_no_crash`, `example_check_no_crash`). What is left of
`crash` are `List/Map/Struct.check` (`raise NotImplementedError`, no longer reachable: a default on such a
field is refused before) and the answers for class names that are in no table (no real input has them).

External calls of the compile-time side are the fields of `CExt`; the numeric ones (`float(int)`,
comparisons, NaN/Inf tests) are shared with the runtime's `Ext`.

Import-free apart from the RT model and the generated tables: linked into the driver.
-/
namespace StoneVerif.IrCheck
open StoneVerif.Rt

/-- A literal of the spec language as the parser hands it to the IR generator
(`AstTagRef` carries only the tag: the union is always the field's declared type,
`TagRef(field.data_type, tag)`). -/
inductive Lit where
  | null
  | bool (b : Bool)
  | int (n : Int)
  | flt (bits : FBits)
  | str (s : String)
  | tagref (tag : String)
deriving DecidableEq, Repr, Inhabited

inductive CheckErr where
  | invalid (hint : String)      -- InvalidSpec
  | crash (exc : String)         -- any other exception class escaping the compiler
deriving DecidableEq, Repr, Inhabited

abbrev CR := Except CheckErr

def invalid {α} (hint : String) : CR α := .error (.invalid hint)
def ccrash {α} (exc : String) : CR α := .error (.crash exc)

/-- External calls made only at compile time. -/
structure CExt where
  /-- `float(n) == n`: the integer converts to a double without loss -/
  intExact : Int → Bool
  /-- `datetime.datetime.strptime(s, fmt)` succeeds (arguments: format, text) -/
  strptimeOk : String → String → Bool

/-! ## compile-time description of user types -/

structure CTag where
  name : String
  ty : IrTy                       -- `.void` for a tag without a type
  omitted : Option String := none
deriving Repr, Inhabited

structure CUnion where
  cls : String
  chain : List (String × List CTag)     -- root first: (class, own tags)
  catchAll : Option String := none
deriving Repr, Inhabited

structure CField where
  name : String
  ty : IrTy
  dflt : Option Lit := none       -- `field.default` when `field.has_default`
  omitted : Option String := none
deriving Repr, Inhabited

structure CStruct where
  cls : String
  chain : List (String × List CField)   -- root first: (class, own fields in declaration order)
  subtypes : Option (List (List String × String × Bool)) := none
  catchAll : Bool := false
deriving Repr, Inhabited

structure CApi where
  structs : List CStruct
  unions : List CUnion
deriving Repr, Inhabited

def CApi.union? (api : CApi) (c : String) : Option CUnion := api.unions.find? (·.cls == c)
def CApi.struct? (api : CApi) (c : String) : Option CStruct := api.structs.find? (·.cls == c)

/-- `is_void_type(field.data_type)`: the literal `Void` only (an alias of Void does not count) -/
def isVoidLit : IrTy → Bool
  | .void => true
  | _ => false

/-- `Union.all_fields`: the parent's, then the own -/
def CUnion.allTags (u : CUnion) : List CTag := u.chain.flatMap (·.2)

/-- the class whose body declares `tag` (where `_generate_union_class_symbol_creators` puts
`Cls.tag = Cls('tag')`) -/
def CUnion.declClass (u : CUnion) (tag : String) : Option String :=
  (u.chain.find? fun (_, tags) => tags.any (·.name == tag)).map (·.1)

/-! ## `data_types.<Type>.check` -/

def irIntBounds (cls : String) : Option (Int × Int) :=
  (Tables.irIntBounds.find? (·.1 == cls)).map (·.2)

def irFloatBounds (cls : String) : Option (Option FBits × Option FBits) :=
  (Tables.irFloatBounds.find? (·.1 == cls)).map (·.2)

/-- `_BoundedInteger.check` once the value is known to be an integer -/
def checkIntVal (cls : String) (mn mx : Option Int) (n : Int) : CR Unit :=
  match irIntBounds cls with
  | none => ccrash "TypeError"                   -- `minimum`/`maximum` are None on the abstract class
  | some (lo, hi) =>
    if !(lo ≤ n && n ≤ hi) then invalid "not within range"
    else if (match mn with | some m => decide (n < m) | none => false) then invalid "less than min_value"
    else if (match mx with | some m => decide (m < n) | none => false) then invalid "greater than max_value"
    else .ok ()

/-- `_BoundedFloat.check` once the value is a Python float -/
def checkFloatVal (E : Ext) (cls : String) (mn mx : Option FBits) (x : FBits) : CR Unit :=
  if E.fltIsNan x || E.fltIsInf x then invalid "nan/inf values are not supported"
  else match irFloatBounds cls with
  | none => ccrash "UnknownFloatClass"
  | some (tlo, thi) =>
    if (match tlo with | some m => E.fltLt x m | none => false) then invalid "less than the type's minimum"
    else if (match thi with | some m => E.fltLt m x | none => false) then invalid "greater than the type's maximum"
    else if (match mn with | some m => E.fltLt x m | none => false) then invalid "less than min_value"
    else if (match mx with | some m => E.fltLt m x | none => false) then invalid "greater than max_value"
    else .ok ()

/-- `data_type.check(val)` for a literal. `us` = the unions of the API (for `Union.check`). -/
def check (E : Ext) (C : CExt) (us : List CUnion) : IrTy → Lit → CR Unit
  | .bool, l => match l with
    | .bool _ => .ok ()
    | _ => invalid "not a valid boolean"
  | .int cls mn mx, l => match l with
    | .int n => checkIntVal cls mn mx n
    | .bool _ => invalid "boolean is not a valid integer"          -- refused before the numbers.Integral test
    | _ => invalid "not a valid integer"
  | .float cls mn mx, l => match l with
    | .flt x => checkFloatVal E cls mn mx x
    | .int n => match E.fltOfInt n with
      | some x => if C.intExact n then checkFloatVal E cls mn mx x
                  else invalid "cannot be represented as a float exactly"
      | none => invalid "too large for float"
    | .bool _ => invalid "boolean is not a valid real number"
    | _ => invalid "not a valid real number"
  | .str minLen maxLen pat, l => match l with
    | .str s =>
      if !geOpt maxLen s.length then invalid "has more than max_length characters"
      else if !leOpt minLen s.length then invalid "has fewer than min_length characters"
      else match pat with
        | some p => if p ≠ "" && !E.patMatch p s then invalid "did not match pattern" else .ok ()   -- `fullmatch`
        | none => .ok ()
    | _ => invalid "not a valid string"
  | .bytes, l => match l with
    | .str _ => .ok ()
    | _ => invalid "not valid bytes"
  | .ts fmt, l => match l with
    | .str s => if C.strptimeOk fmt s then .ok () else invalid "does not match format"
    | _ => invalid "timestamp must be specified as a string"
  | .void, l => match l with
    | .null => .ok ()
    | _ => invalid "void type can only be null"
  | .list .., _ => ccrash "NotImplementedError"
  | .map .., _ => ccrash "NotImplementedError"
  | .struct .., _ => ccrash "NotImplementedError"
  | .union cls, l => match l with
    | .tagref tag => match us.find? (·.cls == cls) with
      | none => ccrash "UnknownUnion"
      | some u => match u.allTags.find? (·.name == tag) with
        | some t => if isVoidLit t.ty then .ok () else invalid "invalid reference to non-void option"
        | none => invalid "invalid reference to unknown tag"
    | _ => invalid "not a valid union tag"
  | .nullable t, l => match l with
    | .null => .ok ()
    | _ => check E C us t l
  | .alias _ _ t, l => check E C us t l

/-- `unwrap_aliases(data_type)[0]` -/
def unwrapAliases : IrTy → IrTy
  | .alias _ _ t => unwrapAliases t
  | t => t

/-- `unwrap(data_type)[0]`: every alias and every Nullable removed -/
def unwrapAll : IrTy → IrTy
  | .alias _ _ t => unwrapAll t
  | .nullable t => unwrapAll t
  | t => t

/-- `is_primitive_type(t) or is_union_type(t)` (Void is a Primitive) -/
def defaultable : IrTy → Bool
  | .bool | .int .. | .float .. | .str .. | .bytes | .ts _ | .void | .union _ => true
  | _ => false

/-- `if field.data_type.name in ('Float32', 'Float64') and isinstance(default_value, (int, float)):
default_value = float(default_value)` — literally these two classes (an alias of a float type keeps the
literal as written), numbers only (bool is an int); `OverflowError` is caught and reported as InvalidSpec. -/
def coerceDefault (E : Ext) (t : IrTy) (lit : Lit) : CR Lit :=
  match t, lit with
  | .float _ _ _, .int n => match E.fltOfInt n with
    | some x => .ok (.flt x)
    | none => invalid "int too large to convert to float"
  | .float _ _ _, .bool b => match E.fltOfInt (if b then 1 else 0) with
    | some x => .ok (.flt x)
    | none => invalid "int too large to convert to float"
  | _, l => .ok l

/-- the body of `_populate_field_defaults` for one field `f T = lit`: the stored default -/
def populateDefault (E : Ext) (C : CExt) (us : List CUnion) (t : IrTy) (lit : Lit) : CR Lit :=
  -- an alias of Void is Void too (refused like the literal `f Void`; for every field, defaulted or not)
  if isVoidLit (unwrapAliases t) then invalid "Struct field cannot have a Void type"
  -- an alias of a nullable type is nullable too (refused like the literal `T?`)
  else if (unwrapAliases t).isNullableLit then invalid "Field cannot be a nullable type and have a default specified"
  -- only a primitive or a union (behind aliases) can carry a default: List / Map / struct are refused here
  else if !defaultable (unwrapAll t) then invalid "Field cannot have a default: only fields of a primitive or union type can"
  else match check E C us t lit with                  -- the literal as written; `ValueError` from `check` is caught
    | .error e => .error e
    | .ok _ => coerceDefault E t lit                  -- (cannot fail any more: `check` has converted the number already)

/-- `_create_struct_field` (refusals that involve the default) followed by `_populate_field_defaults`. -/
def fieldDefault (E : Ext) (C : CExt) (us : List CUnion) (t : IrTy) (lit : Lit) : CR Lit :=
  match t with
  | .void => invalid "Struct field cannot have a Void type"
  | .nullable _ => invalid "Field cannot be a nullable type and have a default specified"
  | _ => populateDefault E C us t lit

/-- The compile-time check alone (the task's `checkDefault`). -/
def checkDefault (E : Ext) (C : CExt) (us : List CUnion) (t : IrTy) (lit : Lit) : CR Unit :=
  (fieldDefault E C us t lit).map fun _ => ()

/-! ## `_generate_python_value` -/

/-- the union class that `class_name_for_data_type(value.union_data_type)` names at import time:
the union itself or an alias bound to its class (`Alias = Cls` is emitted only when the alias chain
ends in a user type; through a Nullable no class is bound and the module does not import). -/
def unionOfTy : IrTy → Option String
  | .union c => some c
  | .alias _ _ t => unionOfTy t
  | _ => none

/-- The Python value the generated module assigns to `Cls.f.default` for a stored default:
`fmt_obj(literal)`, or for a tag reference the ready class attribute `<Union>.<tag>`, which
`_generate_union_class_symbol_creators` sets to `<Declaring class>('<tag>')`. -/
def pyOfStored (us : List CUnion) (t : IrTy) : Lit → Option PyVal
  | .null => some .none
  | .bool b => some (.bool b)
  | .int n => some (.int n)
  | .flt x => some (.flt x)
  | .str s => some (.str s)
  | .tagref tag => do
    let c ← unionOfTy t
    let u ← us.find? (·.cls == c)
    let d ← u.declClass tag
    pure (.union d tag .none)

/-- literal ↦ default value of the generated class (the task's `pyOfLit`); `none` when the compiler
refuses the default or the generated expression cannot be evaluated. -/
def pyOfLit (E : Ext) (C : CExt) (us : List CUnion) (t : IrTy) (lit : Lit) : Option PyVal :=
  match fieldDefault E C us t lit with
  | .ok d => pyOfStored us t d
  | .error _ => none

/-! ## examples -/

/-- the value of one example member as written (no references followed) -/
inductive ExVal where
  | lit (l : Lit)
  | list (xs : List ExVal)
  | map (kvs : List (String × ExVal))
  | ref (label : String)                 -- AstExampleRef
deriving Repr, Inhabited

def firstErr {α} (f : α → CR Unit) : List α → CR Unit
  | [] => .ok ()
  | x :: xs => match f x with
    | .error e => .error e
    | .ok _ => firstErr f xs

/-- `check(ex_field.value)` with `ValueError` turned into `InvalidSpec` (the primitives' `check_example`) -/
def checkPrimExample (E : Ext) (C : CExt) (us : List CUnion) (t : IrTy) (v : ExVal) : CR Unit :=
  match v with
  | .lit l => match check E C us t l with
    | .ok _ => .ok ()
    | .error (.invalid h) => invalid h
    | .error (.crash e) => ccrash e
  | _ => invalid "wrong kind of value"

/-- `data_type.check_example(ex_field)` -/
def checkExample (E : Ext) (C : CExt) (us : List CUnion) : IrTy → ExVal → CR Unit
  | .nullable t, v => match v with
    | .lit .null => .ok ()
    | _ => checkExample E C us t v
  | .alias _ _ t, v => checkExample E C us t v
  | .void, v => match v with
    | .lit .null => .ok ()
    | _ => invalid "example of void type must be null"
  | .bytes, v => match v with
    | .lit (.str s) => match E.b64dec s with
      | some (some h) => if E.b64enc h == s then .ok () else invalid "not the base64 encoding of its bytes"
      | _ => invalid "not base64-encoded bytes"
    | _ => invalid "not valid bytes"
  | .list t mn mx, v => match v with
    | .list xs =>
      if !geOpt mx xs.length then invalid "list has more than max_items items"
      else if !leOpt mn xs.length then invalid "list has fewer than min_items items"
      else firstErr (fun x => checkExample E C us t x) xs
    | _ => invalid "not a valid list"
  | .map k vt, v => match v with
    | .map kvs => firstErr (fun (p : String × ExVal) =>
        match checkExample E C us k (.lit (.str p.1)) with
        | .error e => .error e
        | .ok _ => checkExample E C us vt p.2) kvs
    | _ => invalid "not a valid map"
  | .struct .., v => match v with
    | .ref _ => .ok ()
    | _ => invalid "example must reference label"
  | .union _, v => match v with
    | .ref _ => .ok ()
    | _ => invalid "example must reference label"
  | .bool, v => checkPrimExample E C us .bool v
  | .int c a b, v => checkPrimExample E C us (.int c a b) v
  | .float c a b, v => checkPrimExample E C us (.float c a b) v
  | .str a b p, v => checkPrimExample E C us (.str a b p) v
  | .ts f, v => checkPrimExample E C us (.ts f) v

/-- `is_nullable_type(f.data_type)` / `isinstance(field.data_type, Nullable)` -/
def CField.optional (f : CField) : Bool := f.ty.isNullableLit || f.dflt.isSome

/-- `Struct.all_fields`: required fields of every level (root first), then the optional ones -/
def CStruct.allFields (s : CStruct) : List CField :=
  s.chain.flatMap (fun l => l.2.filter (!·.optional)) ++ s.chain.flatMap (fun l => l.2.filter (·.optional))

def exLookup (k : String) : List (String × ExVal) → Option ExVal
  | [] => none
  | (k', v) :: rest => if k' == k then some v else exLookup k rest

/-- `Struct._add_example_helper` (struct without enumerated subtypes) -/
def addStructExample (E : Ext) (C : CExt) (us : List CUnion) (s : CStruct) (ex : List (String × ExVal)) : CR Unit :=
  let all := s.allFields
  if ex.any (fun (k, _) => !all.any (·.name == k)) then invalid "example has unknown field" else
  firstErr (fun (f : CField) => match exLookup f.name ex with
    | some v => (match checkExample E C us f.ty v with
      | .error (.invalid h) => invalid ("Bad example for field: " ++ h)
      | r => r)
    | none => if f.dflt.isSome || f.ty.isNullableLit then .ok () else invalid "Missing field in example") all

def jsonOfLit : Lit → JVal
  | .null => .null
  | .bool b => .bool b
  | .int n => .int n
  | .flt x => .flt x
  | .str s => .str s
  | .tagref tag => .obj [(".tag", .str tag)]      -- `union._compute_example(tag)` of a void tag

mutual
/-- `get_json_val` on a value without references (the identity on literals, lists and maps);
`none` = the value refers to another example (outside this model) -/
def jsonOfEx : ExVal → Option JVal
  | .lit l => some (jsonOfLit l)
  | .list xs => (jsonOfExList xs).map .arr
  | .map kvs => (jsonOfExKvs kvs).map .obj
  | .ref _ => none
def jsonOfExList : List ExVal → Option (List JVal)
  | [] => some []
  | x :: xs => match jsonOfEx x, jsonOfExList xs with
    | some j, some js => some (j :: js)
    | _, _ => none
def jsonOfExKvs : List (String × ExVal) → Option (List (String × JVal))
  | [] => some []
  | (k, x) :: rest => match jsonOfEx x, jsonOfExKvs rest with
    | some j, some js => some ((k, j) :: js)
    | _, _ => none
end

def isNullEx : ExVal → Bool
  | .lit .null => true
  | _ => false

/-- one member of `Struct._compute_example_flat_helper`'s loop; outer `none` = reference (unmodelled),
inner `none` = no key in the document -/
def structExampleMember (ex : List (String × ExVal)) (f : CField) : Option (Option (String × JVal)) :=
  match exLookup f.name ex with
  | some v => if isNullEx v then some none else (jsonOfEx v).map fun j => some (f.name, j)
  | none => match f.dflt with
    | some d => some (some (f.name, jsonOfLit d))
    | none => some none

def collectMembers : List (Option (Option (String × JVal))) → Option (List (String × JVal))
  | [] => some []
  | none :: _ => none
  | some none :: rest => collectMembers rest
  | some (some kv) :: rest => (collectMembers rest).map (kv :: ·)

/-- `Struct._compute_example_flat_helper(label).value` for an example without references -/
def structExampleDoc (s : CStruct) (ex : List (String × ExVal)) : Option JVal :=
  (collectMembers (s.allFields.map (structExampleMember ex))).map .obj

/-- `Union._add_example` -/
def addUnionExample (E : Ext) (C : CExt) (us : List CUnion) (u : CUnion) (ex : List (String × ExVal)) : CR Unit :=
  match ex with
  | [(tag, v)] => match u.allTags.find? (·.name == tag) with
    | none => invalid "Unknown tag in example"
    | some t => match checkExample E C us t.ty v with
      | .error (.invalid h) => invalid ("Bad example for field: " ++ h)
      | r => r
  | _ => invalid "Example for union must specify exactly one tag"

def unwrapNullable : IrTy → IrTy
  | .nullable t => t
  | t => t

/-- `Union._compute_example(label).value` for a raw example without references -/
def unionExampleDoc (u : CUnion) (ex : List (String × ExVal)) : Option JVal :=
  match ex with
  | [(tag, v)] => match u.allTags.find? (·.name == tag) with
    | none => none
    | some t => match jsonOfEx v with
      | none => none                                            -- a reference (outside this model)
      | some .null => some (.obj [(".tag", .str tag)])          -- `inner_ex_val is None`: only the tag
      | some j => match unwrapNullable t.ty with
        | .struct _ false => none      -- `ex_val.update(inner_ex_val)`: the value of a reference (a literal is refused by the check)
        | _ => some (.obj [(".tag", .str tag), (tag, j)])
  | _ => none

/-- `Union._add_example` followed by `Union._compute_example` for one raw example: the computed document
(`none` when it follows references). A `null` written for a nullable member — also one that is a plain
struct — gives the tag alone. -/
def unionExample (E : Ext) (C : CExt) (us : List CUnion) (u : CUnion) (ex : List (String × ExVal)) : CR (Option JVal) :=
  match addUnionExample E C us u ex with
  | .error e => .error e
  | .ok _ => .ok (unionExampleDoc u ex)

/-! ## the class tables of the generated module -/

def fieldDefOfC (us : List CUnion) (f : CField) : Option FieldDef := do
  let vt ← validatorOf f.ty
  let d ← match f.dflt with
    | none => some none
    | some l => (pyOfStored us f.ty l).map some
  pure { name := f.name, ty := vt, attrNullable := f.ty.isNullableLit, attrUserDefined := f.ty.isUserDefinedLit,
         dflt := d, omitted := f.omitted }

def tagDefOfC (t : CTag) : Option TagDef := do
  let vt ← validatorOf t.ty
  pure { name := t.name, ty := vt, omitted := t.omitted }

def structDefOfC (us : List CUnion) (s : CStruct) : Option StructDef := do
  let levels ← s.chain.mapM fun (c, fs) => do
    let fds ← fs.mapM (fieldDefOfC us)
    pure ({ cls := c, fields := fds } : Level)
  pure { cls := s.cls, levels, subtypes := s.subtypes, catchAll := s.catchAll }

def unionDefOfC (u : CUnion) : Option UnionDef := do
  let levels ← u.chain.mapM fun (c, ts) => do
    let tds ← ts.mapM tagDefOfC
    pure ({ cls := c, tags := tds } : ULevel)
  pure { cls := u.cls, levels, catchAll := u.catchAll }

/-- What python_types makes of the API: validators by `generate_validator_constructor`, attribute
flags by `_generate_struct_class_properties`, defaults by `_generate_struct_attributes_defaults`.
`none` = some generated expression cannot be evaluated. -/
def envOfC (api : CApi) : Option Env := do
  let structs ← api.structs.mapM (structDefOfC api.unions)
  let unions ← api.unions.mapM unionDefOfC
  pure { structs, unions }

/-! ## specification-level: what the property demands of a default -/

/-- the class names a type mentions are names the compiler knows: the four integer and two float classes of the
translator's tables, unions of the API (every type the real compiler builds; evaluated by the driver on every
input). The model's `crash` answers for unknown names cannot occur on such a type. -/
def tyKnown (us : List CUnion) : IrTy → Bool
  | .int cls _ _ => (irIntBounds cls).isSome
  | .float cls _ _ => (irFloatBounds cls).isSome
  | .union c => (us.find? (·.cls == c)).isSome
  | .list t _ _ => tyKnown us t
  | .map k v => tyKnown us k && tyKnown us v
  | .nullable t => tyKnown us t
  | .alias _ _ t => tyKnown us t
  | _ => true

/-- `tyKnown` of every field and tag type of the API -/
def apiKnown (api : CApi) : Bool :=
  api.structs.all (fun s => s.chain.all fun l => l.2.all fun f => tyKnown api.unions f.ty) &&
  api.unions.all (fun u => u.chain.all fun l => l.2.all fun t => tyKnown api.unions t.ty)

/-- the default is accepted by the field's validator and comes back as the value the documented
normalisation gives (identical, except a number in a float position which is returned as a float) -/
def acceptedAs (E : Ext) (v v' : PyVal) : Prop :=
  v' = v ∨ ∃ x, fltOf E v = some (some x) ∧ v' = .flt x

/-- types whose compile-time check and runtime check are the same predicate up to the pattern law:
no Timestamp and no Bytes below aliases / `?` (their literal is text, the runtime wants a datetime /
bytes object) -/
def noTextual : IrTy → Bool
  | .ts _ => false
  | .bytes => false
  | .nullable t => noTextual t
  | .alias _ _ t => noTextual t
  | _ => true

/-- the pattern of a (possibly aliased / nullable) String type -/
def patternOf : IrTy → Option String
  | .str _ _ p => p
  | .nullable t => patternOf t
  | .alias _ _ t => patternOf t
  | _ => none

/-- every union of `us` has its class chain in `env`, with the same classes in the same order
(what `envOfC` produces; evaluated by the driver on real environments) -/
def unionsAgree (us : List CUnion) (env : Env) : Bool :=
  us.all fun u => match env.union? u.cls with
    | some d => d.levels.map (·.cls) == u.chain.map (·.1)
    | none => false

/-- exact literal kinds: the JSON number/boolean written is the one the encoder emits
(a float position holds a float literal, an integer position an integer literal) -/
def exactKind : IrTy → Lit → Bool
  | .bool, .bool _ => true
  | .int .., .int _ => true
  | .float .., .flt _ => true
  | .str .., .str _ => true
  | .nullable t, l => (match l with | .null => true | _ => exactKind t l)
  | _, _ => false

/-- the scalar field types covered by `example_roundtrip_partial` -/
def scalarTy : IrTy → Bool
  | .bool | .int .. | .float .. | .str .. => true
  | .nullable .bool | .nullable (.int ..) | .nullable (.float ..) | .nullable (.str ..) => true
  | _ => false

end StoneVerif.IrCheck
