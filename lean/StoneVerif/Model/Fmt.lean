/-
Model of the brace escaping of `Backend.emit_raw` and of the subset of `str.format` that
`Backend.output_buffer_to_string` relies on (stone/backend.py).

Import-free: this file is linked into the correspondence driver.
-/
namespace StoneVerif.Fmt

/-- `s.replace('{', '{{').replace('}', '}}')` -/
def escape : List Char → List Char
  | [] => []
  | '{' :: cs => '{' :: '{' :: escape cs
  | '}' :: cs => '}' :: '}' :: escape cs
  | c :: cs => c :: escape cs

/-- Scan a replacement-field name up to the closing brace. A nested `{` is outside the modelled
subset (Python would start a nested field): `none`. -/
def takeName : List Char → List Char → Option (List Char × List Char)
  | acc, '}' :: cs => some (acc.reverse, cs)
  | _, '{' :: _ => none
  | acc, c :: cs => takeName (c :: acc) cs
  | _, [] => none

theorem takeName_length : ∀ acc cs n r, takeName acc cs = some (n, r) → r.length < cs.length := by
  intro acc cs
  induction cs generalizing acc with
  | nil => intro n r h; simp [takeName] at h
  | cons c cs ih =>
    intro n r h
    by_cases h1 : c = '}'
    · subst h1; simp [takeName] at h; obtain ⟨_, rfl⟩ := h; simp
    · by_cases h2 : c = '{'
      · subst h2; simp [takeName] at h
      · rw [takeName] at h
        · have := ih _ _ _ h; simp; omega
        · exact h1
        · exact h2

/-- The state of `str.format`'s automatic field numbering: remaining positional arguments. -/
structure Args where
  pos : List (List Char)
  named : List (List Char × List Char)

def lookupNamed : List (List Char × List Char) → List Char → Option (List Char)
  | [], _ => none
  | (k, v) :: rest, n => if k = n then some v else lookupNamed rest n

/-- `''.join(output).format(*pos, **named)` for the subset `{{`, `}}`, `{}`, `{name}`.
`none` = Python raises (KeyError / IndexError / ValueError "Single '}' encountered"). -/
def pyFormat (named : List (List Char × List Char)) : List (List Char) → List Char → Option (List Char)
  | _, [] => some []
  | pos, '{' :: '{' :: cs => (pyFormat named pos cs).map ('{' :: ·)
  | pos, '}' :: '}' :: cs => (pyFormat named pos cs).map ('}' :: ·)
  | pos, '{' :: cs =>
    match h : takeName [] cs with
    | some (n, rest) =>
      have : rest.length < cs.length := takeName_length _ _ _ _ h
      if n = [] then
        match pos with
        | v :: pos' => (pyFormat named pos' rest).map (v ++ ·)
        | [] => none
      else
        match lookupNamed named n with
        | some v => (pyFormat named pos rest).map (v ++ ·)
        | none => none
    | none => none
  | _, '}' :: _ => none
  | pos, c :: cs => (pyFormat named pos cs).map (c :: ·)
termination_by _ cs => cs.length
decreasing_by all_goals simp_wf <;> omega

end StoneVerif.Fmt

namespace StoneVerif.Fmt

/-- What the output buffer is made of, seen from the specification side: literal text (whatever
`emit_raw` was given) and replacement fields (`emit_placeholder`). -/
inductive Seg where
  | lit (text : List Char)
  | field (name : List Char)

/-- how each segment is stored in `Backend.output` -/
def encodeSeg : Seg → List Char
  | .lit t => escape t
  | .field n => '{' :: n ++ ['}']

/-- `''.join(self.output)` for a buffer built from these segments -/
def renderSegs (segs : List Seg) : List Char := (segs.map encodeSeg).flatten

/-- Specification of the final text: literals verbatim, `{}` fields replaced by the next positional
placeholder, `{name}` fields by the registered text; `none` when a placeholder was never registered. -/
def expand (named : List (List Char × List Char)) : List (List Char) → List Seg → Option (List Char)
  | _, [] => some []
  | pos, .lit t :: rest => (expand named pos rest).map (t ++ ·)
  | pos, .field n :: rest =>
    if n = [] then
      match pos with
      | v :: pos' => (expand named pos' rest).map (v ++ ·)
      | [] => none
    else
      match lookupNamed named n with
      | some v => (expand named pos rest).map (v ++ ·)
      | none => none

/-- Field names inside the modelled subset of `str.format`: no brace, no conversion / format-spec /
attribute / index syntax, not a number (a number would be an explicit positional index). The
harness only generates such names. -/
def validNameChar (c : Char) : Bool :=
  c.isAlphanum || c == '_'

def validName : List Char → Bool
  | [] => true
  | c :: cs => (c.isAlpha || c == '_') && cs.all validNameChar

end StoneVerif.Fmt
