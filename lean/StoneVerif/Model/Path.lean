/-
Model of the POSIX path functions `stone/backend.py` relies on for output containment
(`os.path.join`, `normpath`, `abspath`, `relpath`, `isabs`, `basename`, `dirname`) and of
`_relative_output_path` itself. Strings are `List Char` (Python `str` = code points).

Every function follows the control flow of CPython 3.12 `posixpath.py` (the pure-Python `normpath`;
the C accelerator `_path_normpath` is specified to agree with it). `os.getcwd()` is a parameter
(`cwd`, absolute and normalised, as the kernel returns it).

Import-free: this file is linked into the correspondence driver.
-/
namespace StoneVerif.Path

abbrev Str := List Char

def sep : Char := '/'
def dot : Str := ['.']
def dotdot : Str := ['.', '.']

/-- `s.split(c)`: always at least one piece. -/
def splitOn (c : Char) : Str → List Str
  | [] => [[]]
  | x :: xs =>
    if x = c then [] :: splitOn c xs
    else match splitOn c xs with
      | w :: ws => (x :: w) :: ws
      | [] => [[x]]

/-- `sep.join(parts)` -/
def joinSep (s : Str) : List Str → Str
  | [] => []
  | [a] => a
  | a :: rest => a ++ s ++ joinSep s rest

/-- `p.startswith('/')` = `os.path.isabs(p)` -/
def isAbs : Str → Bool
  | '/' :: _ => true
  | _ => false

def endsWithSep : Str → Bool
  | [] => false
  | [c] => c == '/'
  | _ :: cs => endsWithSep cs

/-- one iteration of the loop of `posixpath.join` -/
def join2 (path b : Str) : Str :=
  if isAbs b then b
  else if path = [] ∨ endsWithSep path = true then path ++ b
  else path ++ sep :: b

/-- `os.path.join(a, *p)` -/
def joinMany (a : Str) (p : List Str) : Str := p.foldl join2 a

/-- number of initial slashes kept by `normpath`: 0 (relative), 1, or 2 (exactly two leading slashes) -/
def initialSlashes : Str → Nat
  | '/' :: '/' :: '/' :: _ => 1
  | '/' :: '/' :: _ => 2
  | '/' :: _ => 1
  | _ => 0

/-- Body of the `for comp in comps` loop of `normpath`; `acc` is `new_comps` reversed. -/
def normStep (abs : Bool) (acc : List Str) (comp : Str) : List Str :=
  if comp = [] ∨ comp = dot then acc
  else if comp ≠ dotdot ∨ (abs = false ∧ acc = []) ∨ acc.head? = some dotdot then comp :: acc
  else match acc with
    | _ :: t => t
    | [] => acc

def normComps (abs : Bool) (comps : List Str) : List Str :=
  (comps.foldl (normStep abs) []).reverse

/-- `os.path.normpath(path)` -/
def normpath (path : Str) : Str :=
  if path = [] then dot
  else
    let n := initialSlashes path
    let comps := normComps (n != 0) (splitOn sep path)
    let out := List.replicate n sep ++ joinSep [sep] comps
    if out = [] then dot else out

/-- `os.path.abspath(path)` with `os.getcwd() = cwd` -/
def abspath (cwd path : Str) : Str :=
  if isAbs path then normpath path else normpath (join2 cwd path)

/-- `[x for x in p.split('/') if x]` -/
def nonEmptyComps (p : Str) : List Str := (splitOn sep p).filter (· ≠ [])

/-- `len(os.path.commonprefix([a, b]))` for two lists -/
def commonLen : List Str → List Str → Nat
  | a :: as, b :: bs => if a = b then commonLen as bs + 1 else 0
  | _, _ => 0

/-- `os.path.relpath(path, start)`; `none` = `ValueError("no path specified")` -/
def relpath (cwd path start : Str) : Option Str :=
  if path = [] then none
  else
    let startList := nonEmptyComps (abspath cwd start)
    let pathList := nonEmptyComps (abspath cwd path)
    let i := commonLen startList pathList
    let relList := List.replicate (startList.length - i) dotdot ++ pathList.drop i
    match relList with
    | [] => some dot
    | a :: rest => some (joinMany a rest)

def startsWith : Str → Str → Bool
  | [], _ => true
  | _ :: _, [] => false
  | p :: ps, c :: cs => p == c && startsWith ps cs

/-- The three-way test of `_relative_output_path`:
`rel == os.pardir or rel.startswith(os.pardir + os.sep) or os.path.isabs(rel)`. -/
def escapes (rel : Str) : Bool :=
  rel == dotdot || startsWith (dotdot ++ [sep]) rel || isAbs rel

/-- `stone.backend._relative_output_path(output_root, output_path)`;
`.error ()` = the `AssertionError` (or `relpath`'s `ValueError`). -/
def relativeOutputPath (cwd root path : Str) : Except Unit Str :=
  let rootPath := abspath cwd root
  let fullPath := abspath cwd path
  match relpath cwd fullPath rootPath with
  | none => .error ()
  | some rel => if escapes rel then .error () else .ok rel    -- `.replace(os.sep, '/')` is the identity on POSIX

/-- `p.rfind('/') + 1` split: (head including the last slash, tail) -/
def splitLastSep (p : Str) : Str × Str :=
  match splitOn sep p with
  | [] => ([], p)
  | parts => (joinSep [sep] (parts.dropLast) ++ (if parts.length > 1 then [sep] else []), parts.getLast?.getD [])

/-- `os.path.basename(p)` -/
def basename (p : Str) : Str := (splitLastSep p).2

def rstripSep (p : Str) : Str := (p.reverse.dropWhile (· == sep)).reverse

/-- `os.path.dirname(p)` -/
def dirname (p : Str) : Str :=
  let head := (splitLastSep p).1
  if head ≠ [] ∧ head.any (· != sep) then rstripSep head else head

/-- Components of the absolute, normalised form of `p`: what the containment theorems talk about. -/
def absComps (cwd p : Str) : List Str := nonEmptyComps (abspath cwd p)

end StoneVerif.Path
