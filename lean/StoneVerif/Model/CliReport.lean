import StoneVerif.Gen.Tables
/-!
# How the command line answers a spec error (C03, last sentence)

`stone/cli.py`, `main()`:

    except InvalidSpec as e:
        print('{}:{}: error: {}'.format(e.path, e.lineno, e.msg), file=sys.stderr)
        ...
        sys.exit(1)

The three fields of an `InvalidSpec` are `msg : str`, `lineno : int | None`, `path : str | None`
(`stone/frontend/exception.py`).  The format operation is *data* here (`Tables.cliSpecErrorStyle`,
`Tables.cliSpecErrorTemplate`, `Tables.cliSpecErrorFields`, copied from the handler by the translator) and this
file is an interpreter of Python's two format operations on the three kinds of value a field can hold, with
Python's partiality explicit:

* `str.format` with automatically numbered `{}` fields: never depends on the *kind* of a value; too few arguments
  is an IndexError, a lone brace a ValueError;
* `%`: `%s` takes anything, `%d` / `%i` need a number (`None` or a string is a TypeError), too few or too many
  arguments is a TypeError, a `%` at the end a ValueError.

Anything else (`{0}`, `{!r}`, `{:>4}`, `%r`, `%5d`, a field that is not one of the three) is `unmodelled`: the
theorem of Props/C03.lean then does not go through and the check falls back on testing.
-/
namespace StoneVerif.CliReport

/-- a value handed to a format operation -/
inductive PyVal where
  | none
  | int (i : Int)
  | str (s : List Char)
  deriving Repr, DecidableEq

inductive Exc where
  | typeError | valueError | indexError
  deriving Repr, DecidableEq

inductive Err where
  | crash (e : Exc)
  | unmodelled
  deriving Repr, DecidableEq

/-- `str(v)` -/
def pyStr : PyVal → List Char
  | .none => "None".toList
  | .int i => (toString i).toList
  | .str s => s

/-- `'{}'`-style: `template.format(*args)`, left to right as CPython's formatter goes -/
def runFormat : List Char → List PyVal → Except Err (List Char)
  | [], _ => .ok []
  | c :: r, args =>
    if c = '{' then
      match r, args with
      | '{' :: r', _ => (fun o => '{' :: o) <$> runFormat r' args
      | '}' :: r', a :: as => (fun o => pyStr a ++ o) <$> runFormat r' as
      | '}' :: _, [] => .error (.crash .indexError)
      | _, _ => if r.contains '}' then .error .unmodelled else .error (.crash .valueError)
    else if c = '}' then
      match r with
      | '}' :: r' => (fun o => '}' :: o) <$> runFormat r' args
      | _ => .error (.crash .valueError)
    else (fun o => c :: o) <$> runFormat r args

/-- `%`-style: `template % args` (`args` = the elements of the tuple on the right, or the single value) -/
def runPercent : List Char → List PyVal → Except Err (List Char)
  | [], [] => .ok []
  | [], _ :: _ => .error (.crash .typeError)            -- not all arguments converted
  | c :: r, args =>
    if c = '%' then
      match r, args with
      | '%' :: r', _ => (fun o => '%' :: o) <$> runPercent r' args
      | [], _ => .error (.crash .valueError)             -- incomplete format
      | k :: r', a :: as =>
        if k = 's' then (fun o => pyStr a ++ o) <$> runPercent r' as
        else if k = 'd' ∨ k = 'i' then
          match a with
          | .int i => (fun o => (toString i).toList ++ o) <$> runPercent r' as
          | _ => .error (.crash .typeError)              -- %d format: a real number is required
        else .error .unmodelled
      | k :: _, [] =>
        if k = 's' ∨ k = 'd' ∨ k = 'i' then .error (.crash .typeError)   -- not enough arguments
        else .error .unmodelled
    else (fun o => c :: o) <$> runPercent r args

/-- the fields of an `InvalidSpec` -/
structure SpecErr where
  path : Option (List Char)
  line : Option Int
  msg : List Char
  deriving Repr

def pathVal (e : SpecErr) : PyVal := match e.path with | none => .none | some p => .str p
def lineVal (e : SpecErr) : PyVal := match e.line with | none => .none | some l => .int l

def fieldVal (e : SpecErr) (name : String) : Option PyVal :=
  if name = "path" then some (pathVal e)
  else if name = "lineno" then some (lineVal e)
  else if name = "msg" then some (.str e.msg)
  else none

def run (style : String) (tpl : List Char) (args : List PyVal) : Except Err (List Char) :=
  if style = "format" then runFormat tpl args
  else if style = "percent" then runPercent tpl args
  else .error .unmodelled

/-- the first line the handler prints (code-following: the operation the handler holds, on the fields it passes) -/
def answer (style tpl : String) (fields : List String) (e : SpecErr) : Except Err (List Char) :=
  match fields.mapM (fieldVal e) with
  | none => .error .unmodelled
  | some args => run style tpl.toList args

/-- the answer of the handler of the tree under test -/
def cliAnswer (e : SpecErr) : Except Err (List Char) :=
  answer Tables.cliSpecErrorStyle Tables.cliSpecErrorTemplate Tables.cliSpecErrorFields e

/-- Specification level (property text: "the command line always answers a bad spec with
`path:line: error: message`"): the path and the line of the error, when it has them, then the message.  What
stands in the place of a path or a line the error does not have is left open. -/
def Answers (out : List Char) (e : SpecErr) : Prop :=
  ∃ a b : List Char, out = a ++ ':' :: (b ++ (": error: ".toList ++ e.msg)) ∧
    (∀ p, e.path = some p → a = p) ∧ (∀ l, e.line = some l → b = (toString l).toList)

end StoneVerif.CliReport
