import StoneVerif.Model.Graph
import StoneVerif.Lemmas.GraphOrder
import StoneVerif.Lemmas.GraphAliasOrder
/-!
# C02 — the API description is a faithful, closed image

This file is shared: each group of theorems sits in its own delimited section.
-/
namespace StoneVerif.C02
open StoneVerif.Graph

/-! ==========================================================================================
## SECTION "ordering": linearizations, `normalize`, `all_fields`
(models: `linearizeDataTypes`, `linearizeAliases`, `normalize`, `allFields` of `Model/Graph.lean`,
following `stone/ir/api.py` and `Struct.all_fields` / `Union.all_fields`; tied to the code by the
suites `graph.linearize`, `graph.normalize`, `graph.allfields`)
========================================================================================== -/

/-- the list names nodes of the namespace `self` -/
def OwnList (g : Graph) (self : String) (ids : List Id) : Prop :=
  ∀ x ∈ ids, ∃ nd, g.node? x = some nd ∧ nd.ns = self

/-- a link that stays in the namespace stays in the list (a parent / alias target declared in the
namespace is listed by the namespace) -/
def LinkClosed (g : Graph) (self : String) (link : Node → Option Id) (ids : List Id) : Prop :=
  ∀ a nd p np, a ∈ ids → g.node? a = some nd → link nd = some p → g.node? p = some np → np.ns = self → p ∈ ids

/-- the decidable checks the driver evaluates on every dump imply the side conditions -/
theorem ownList_of_check (g : Graph) (self : String) (ids : List Id) (h : ownListB g self ids = true) :
    OwnList g self ids := by
  intro x hx
  simp only [ownListB, List.all_eq_true] at h
  have := h x hx
  split at this
  · rename_i nd hnd
    exact ⟨nd, hnd, by simpa using this⟩
  · simp at this

theorem linkClosed_of_check (g : Graph) (self : String) (link : Node → Option Id) (ids : List Id)
    (h : linkClosedB g self link ids = true) : LinkClosed g self link ids := by
  intro a nd p np ha hnd hp hnp hns
  simp only [linkClosedB, List.all_eq_true] at h
  have := h a ha
  simp only [hnd, hp, hnp, Bool.or_eq_true, bne_iff_ne, ne_eq] at this
  rcases this with h' | h'
  · exact absurd hns h'
  · simpa using h'

/-- `linearize_data_types()` returns a permutation of `data_types` (names unique). -/
theorem linearize_types_perm (g : Graph) (self : String) (ids out : List Id)
    (h : linearizeDataTypes g self ids = .ok out) (hnd : ids.Nodup) (hown : OwnList g self ids)
    (hclosed : LinkClosed g self parentLink ids) : out.Perm ids :=
  (linAll_perm h hnd hown hclosed).1

/-- A parent declared in the same namespace precedes its child. Acyclicity of parents enters as the
hypothesis that the walk ended within the fuel (`= .ok out`), which `linearize_types_total` derives
from a rank function. With `linearize_types_perm` (`out` has no repetition) "sublist `[p, t]`" means
"`p` strictly before `t`". -/
theorem linearize_types_parent_first (g : Graph) (self : String) (ids out : List Id)
    (h : linearizeDataTypes g self ids = .ok out) (hnd : ids.Nodup) (hown : OwnList g self ids)
    (hclosed : LinkClosed g self parentLink ids) :
    ∀ t ∈ out, ∀ nd, g.node? t = some nd → ∀ p, nd.parent = some p → ∀ np, g.node? p = some np →
      np.ns = self → List.Sublist [p, t] out :=
  (linAll_perm h hnd hown hclosed).2

/-- acyclic parents (a rank that decreases towards the root, below the fuel) make the walk total -/
theorem linearize_types_total (g : Graph) (self : String) (ids : List Id) (rank : Id → Nat)
    (hrank : ∀ a nd p, g.node? a = some nd → nd.parent = some p → rank p < rank a)
    (hnodes : ∀ a nd p, g.node? a = some nd → nd.parent = some p → ∃ np, g.node? p = some np)
    (hb : ∀ x ∈ ids, rank x < g.chainFuel) (hids : ∀ x ∈ ids, ∃ nd, g.node? x = some nd) :
    ∃ out, linearizeDataTypes g self ids = .ok out :=
  linAll_total rank hrank hnodes hb hids []

/-- an alias of the namespace mentioned (at any depth) by a listed alias is listed -/
def AliasClosed (g : Graph) (self : String) (ids : List Id) : Prop :=
  ∀ x nd a, x ∈ ids → g.node? x = some nd → a ∈ referencedAliases g nd.target → SameNs g self a → a ∈ ids

/-- aliases are acyclic: a rank that decreases from an alias of the namespace to every alias of the
namespace its target mentions -/
def AliasRank (g : Graph) (self : String) (rank : Id → Nat) : Prop :=
  ∀ x nd a, g.node? x = some nd → nd.ns = self → a ∈ referencedAliases g nd.target → SameNs g self a →
    rank a < rank x

theorem aliasClosed_of_check (g : Graph) (self : String) (ids : List Id) (h : aliasClosedB g self ids = true) :
    AliasClosed g self ids := by
  intro x nd a hx hnd ha ⟨na, hna, hns⟩
  simp only [aliasClosedB, List.all_eq_true] at h
  have := h x hx
  simp only [hnd, List.all_eq_true] at this
  have := this a ha
  simp only [hna, Bool.or_eq_true, bne_iff_ne, ne_eq] at this
  rcases this with h' | h'
  · exact absurd hns h'
  · simpa using h'

/-- `linearize_aliases()` returns a permutation of `aliases` (acyclic aliases). -/
theorem linearize_aliases_perm (g : Graph) (self : String) (ids out : List Id) (rank : Id → Nat)
    (h : linearizeAliases g self ids = .ok out) (hrank : AliasRank g self rank) (hnd : ids.Nodup)
    (hown : OwnList g self ids) (hclosed : AliasClosed g self ids) : out.Perm ids :=
  (linearizeAliases_inv h hrank hnd hown hclosed).1

/-- Every alias of the same namespace mentioned ANYWHERE in an alias's target expression - directly or
inside `List`, `Map`, `Nullable` - precedes it (acyclic aliases). -/
theorem linearize_aliases_target_first (g : Graph) (self : String) (ids out : List Id) (rank : Id → Nat)
    (h : linearizeAliases g self ids = .ok out) (hrank : AliasRank g self rank) (hnd : ids.Nodup)
    (hown : OwnList g self ids) (hclosed : AliasClosed g self ids) :
    ∀ t ∈ out, ∀ nd, g.node? t = some nd → ∀ a ∈ nd.target.refs, g.isAliasId a = true → SameNs g self a →
      List.Sublist [a, t] out := by
  intro t ht nd hnd' a ha hal hs
  exact (linearizeAliases_inv h hrank hnd hown hclosed).2 t ht nd hnd' a
    (by simp only [referencedAliases, List.mem_filter]; exact ⟨ha, hal⟩) hs

/-- the direct case of `linearize_aliases_target_first` -/
theorem linearize_aliases_direct_target_first (g : Graph) (self : String) (ids out : List Id) (rank : Id → Nat)
    (h : linearizeAliases g self ids = .ok out) (hrank : AliasRank g self rank) (hnd : ids.Nodup)
    (hown : OwnList g self ids) (hclosed : AliasClosed g self ids) :
    ∀ t ∈ out, ∀ nd, g.node? t = some nd → ∀ p, nd.target = .ref p → g.isAliasId p = true →
      SameNs g self p → List.Sublist [p, t] out := by
  intro t ht nd hnd' p hp hal hs
  exact linearize_aliases_target_first g self ids out rank h hrank hnd hown hclosed t ht nd hnd' p
    (by simp [hp, TyExpr.refs]) hal hs

/-- acyclic aliases make the walk total -/
theorem linearize_aliases_total (g : Graph) (self : String) (ids : List Id) (rank : Id → Nat)
    (hrank : AliasRank g self rank) (hids : ∀ x ∈ ids, ∃ nd, g.node? x = some nd)
    (hb : ∀ x ∈ ids, rank x < g.chainFuel) : ∃ out, linearizeAliases g self ids = .ok out :=
  linearizeAliases_total hrank hids hb

/-- hand spec `graph_order`: `alias A = Z?`, `alias B = C`, `alias C = D`, `alias D = String`,
`alias L = List(M)`, `alias M = Map(String, N)`, `alias N = Int32`, `alias Z = String`;
`struct Top`, `struct Mid extends Top`, `struct Child extends Mid` -/
def gOrder : Graph :=
  { nodes := [
      { id := "o.A", kind := .alias, ns := "o", name := "A", target := .nullable (.ref "o.Z") },
      { id := "o.B", kind := .alias, ns := "o", name := "B", target := .ref "o.C" },
      { id := "o.C", kind := .alias, ns := "o", name := "C", target := .ref "o.D" },
      { id := "o.D", kind := .alias, ns := "o", name := "D" },
      { id := "o.L", kind := .alias, ns := "o", name := "L", target := .list (.ref "o.M") },
      { id := "o.M", kind := .alias, ns := "o", name := "M", target := .map .prim (.ref "o.N") },
      { id := "o.N", kind := .alias, ns := "o", name := "N" },
      { id := "o.Z", kind := .alias, ns := "o", name := "Z" },
      { id := "o.Child", kind := .struct, ns := "o", name := "Child", parent := some "o.Mid",
        fields := [{ name := "c" }, { name := "d", hasDefault := true }, { name := "e", ty := .nullable .prim }] },
      { id := "o.Mid", kind := .struct, ns := "o", name := "Mid", parent := some "o.Top",
        fields := [{ name := "m1", ty := .nullable .prim }, { name := "m2" }] },
      { id := "o.Top", kind := .struct, ns := "o", name := "Top",
        fields := [{ name := "t1", hasDefault := true }, { name := "t2" }] }],
    namespaces := [{ name := "o", aliases := ["o.A", "o.B", "o.C", "o.D", "o.L", "o.M", "o.N", "o.Z"],
                     dataTypes := ["o.Child", "o.Mid", "o.Top"] }] }

/-- REGRESSION (was a witness of the defect repaired in /repo commit "linearize_aliases places aliases
mentioned inside List, Map and Nullable first"): `A = Z?` now comes after `Z`, `L = List(M)` after `M`,
`M = Map(String, N)` after `N`; direct chains as before (`D`, `C`, `B`). -/
example : ((linearizeAliases gOrder "o" ["o.A", "o.B", "o.C", "o.D", "o.L", "o.M", "o.N", "o.Z"]).toOption
      = some ["o.Z", "o.A", "o.D", "o.C", "o.B", "o.N", "o.M", "o.L"])
    ∧ "o.Z" ∈ (TyExpr.nullable (.ref "o.Z")).refs := by decide

/-- non-vacuity: `gOrder` satisfies the side conditions of the alias theorems (rank = length of the chain below) -/
example : aliasClosedB gOrder "o" ["o.A", "o.B", "o.C", "o.D", "o.L", "o.M", "o.N", "o.Z"] = true ∧
    ownListB gOrder "o" ["o.A", "o.B", "o.C", "o.D", "o.L", "o.M", "o.N", "o.Z"] = true := by decide

/-- non-vacuity of the hypotheses of the linearization theorems, and a parent chain placed root first -/
example : (linearizeDataTypes gOrder "o" ["o.Child", "o.Mid", "o.Top"]).toOption = some ["o.Top", "o.Mid", "o.Child"] := by
  decide

/-- After `normalize`: namespaces by name, routes by (name, version), data types, aliases, annotations and
annotation types by name. -/
theorem normalize_sorted (g : Graph) :
    ((normalize g).namespaces.map (·.name)).Pairwise (· ≤ ·) ∧
    ∀ n ∈ (normalize g).namespaces,
      n.routes.Pairwise (fun a b => g.nameOf a < g.nameOf b ∨
        (g.nameOf a = g.nameOf b ∧ g.versionOf a ≤ g.versionOf b)) ∧
      n.dataTypes.Pairwise (fun a b => g.nameOf a ≤ g.nameOf b) ∧
      n.aliases.Pairwise (fun a b => g.nameOf a ≤ g.nameOf b) ∧
      n.annotations.Pairwise (· ≤ ·) ∧ n.annotationTypes.Pairwise (· ≤ ·) := by
  have hname : ∀ l : List Id, (l.mergeSort (leName g)).Pairwise (fun a b => g.nameOf a ≤ g.nameOf b) := by
    intro l
    have := List.pairwise_mergeSort (le := leName g)
      (fun a b c => leStr_trans _ _ _) (fun a b => leStr_total _ _) l
    simpa [leName, leStr] using this
  constructor
  · simp only [normalize, List.map_map]
    have h := List.pairwise_mergeSort (le := fun a b : Namespace => leStr a.name b.name)
      (fun a b c => leStr_trans _ _ _) (fun a b => leStr_total _ _) g.namespaces
    rw [List.pairwise_map]
    refine h.imp ?_
    intro a b hab
    simpa [Namespace.normalize, leStr] using hab
  · intro n hn
    simp only [normalize, List.mem_map] at hn
    obtain ⟨m, _, rfl⟩ := hn
    have hstr : ∀ l : List String, (l.mergeSort leStr).Pairwise (· ≤ ·) := by
      intro l
      have := List.pairwise_mergeSort (le := leStr) leStr_trans leStr_total l
      simpa [leStr] using this
    refine ⟨?_, hname _, hname _, hstr _, hstr _⟩
    have := List.pairwise_mergeSort (le := leRoute g) (leRoute_trans g) (leRoute_total g) m.routes
    simpa [Namespace.normalize, leRoute_iff] using this

/-- `normalize` only reorders: the same namespaces, and in each the same routes, data types, aliases -/
theorem normalize_perm (g : Graph) :
    ((normalize g).namespaces.map (·.name)).Perm (g.namespaces.map (·.name)) ∧
    ∀ n : Namespace, ((n.normalize g).routes.Perm n.routes ∧ (n.normalize g).dataTypes.Perm n.dataTypes ∧
      (n.normalize g).aliases.Perm n.aliases ∧ (n.normalize g).annotations.Perm n.annotations ∧
      (n.normalize g).annotationTypes.Perm n.annotationTypes) := by
  constructor
  · simp only [normalize, List.map_map]
    have : (fun n : Namespace => n.name) ∘ Namespace.normalize g = fun n => n.name := by
      funext n; simp [Namespace.normalize]
    simp only [Function.comp_def] at this ⊢
    simp only [Namespace.normalize]
    exact (List.mergeSort_perm _ _).map _
  · intro n
    exact ⟨List.mergeSort_perm _ _, List.mergeSort_perm _ _, List.mergeSort_perm _ _, List.mergeSort_perm _ _,
      List.mergeSort_perm _ _⟩

/-- `all_fields` as documented: with `c` the inheritance chain (root first), a struct lists the
required fields of `c` (ancestors first), then the optional fields of `c` (ancestors first), where
optional = nullable or defaulted; a union lists the tags of `c` (ancestors first). Either way it is
a rearrangement of all fields of the chain. -/
theorem all_fields_order (g : Graph) (id : Id) (nd : Node) (fs : List (Id × Field))
    (hnd : g.node? id = some nd) (h : allFields g id = .ok fs) :
    ∃ c, chainUp g g.chainFuel id = .ok c ∧
      (nd.kind = .struct →
        allRequired g id = .ok (chainFields (fun f => !f.isOptional) c) ∧
        allOptional g id = .ok (chainFields (fun f => f.isOptional) c) ∧
        fs = chainFields (fun f => !f.isOptional) c ++ chainFields (fun f => f.isOptional) c) ∧
      (nd.kind = .union → fs = chainFields (fun _ => true) c) ∧
      fs.Perm (chainFields (fun _ => true) c) := by
  simp only [allFields, hnd] at h
  split at h
  · rename_i hk
    split at h
    · rename_i r o hr ho
      obtain ⟨c1, hc1, hl1⟩ := filterFields_chain hr
      obtain ⟨c2, hc2, hl2⟩ := filterFields_chain ho
      have hc : c2 = c1 := by rw [hc1] at hc2; exact (Except.ok.inj hc2).symm
      subst hc
      have hfs : r ++ o = fs := by simpa using h
      subst hfs hl1 hl2
      refine ⟨c2, hc1, ?_, ?_, ?_⟩
      · intro _
        exact ⟨hr, ho, rfl⟩
      · intro hu; rw [hk] at hu; cases hu
      · exact chainFields_split_perm (fun f => f.isOptional) c2
    · simp at h
    · simp at h
  · rename_i hk
    obtain ⟨c, hc, hl⟩ := filterFields_chain h
    subst hl
    refine ⟨c, hc, ?_, fun _ => rfl, List.Perm.refl _⟩
    intro hs; rw [hk] at hs; cases hs
  · simp at h

/-- `Child extends Mid extends Top`: required of Top, Mid, Child, then optional of Top, Mid, Child -/
example : (allFields gOrder "o.Child").toOption.map (fun l => l.map (fun of => (of.1, of.2.name))) =
    some [("o.Top", "t2"), ("o.Mid", "m2"), ("o.Child", "c"),
          ("o.Top", "t1"), ("o.Mid", "m1"), ("o.Child", "d"), ("o.Child", "e")] := by decide

/-! ============================ END OF SECTION "ordering" ================================== -/

end StoneVerif.C02
