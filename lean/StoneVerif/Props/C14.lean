import StoneVerif.Model.DeclPyClient
import StoneVerif.Lemmas.DeclPyClient
import StoneVerif.Gen.Tables
/-!
# C14 — generated Python client methods send the right route and argument

Property theorems over `StoneVerif.DeclPyClient` (the model of `python_client.py`, of `Struct.all_fields`
under `remove_aliases_from_api`, of the `__init__` python_types generates, and of Python call binding and name
resolution). Helper lemmas: `Lemmas/DeclPyClient.lean`.

Every hypothesis that the real generator does not establish is explicit and has a reachable counterexample
(`example`s below, computed with the model by `decide`; the harness reports the same inputs on the real code):
`hygienic` (no module name the body uses is hidden by a parameter), `StructArgOk`
(`noNullableAlias`: python_types and python_client agree on which fields are optional), `nsPrefixFree`, and
`loadModule = ok` (no duplicate / keyword parameter). `defaultsWellTyped` (a tag default refers to the union of its
field, by name or through any alias) is what the frontend builds. Three former hypotheses are gone with the repairs
of the generator (regression `example`s below): string defaults that pprint wraps, tag defaults declared through an
alias of another namespace, route namespaces without data types.
-/
namespace StoneVerif.C14
open StoneVerif.DeclPyClient

/-! ## `required_positional_optional_keyword` -/

/-- The parameters python_client derives from a struct argument are exactly the ones the property text
describes: the required fields in declaration order (super types first) without a default, then the optional
ones in declaration order carrying the spec default (`None` for nullable fields). -/
theorem struct_params_eq_spec (api : Api) (r : Ref) (hwt : defaultsWellTyped api r = true) :
    (allFields stripFirst api r).mapM fieldParam = .ok (specParams api r) := by
  have h1 : (allFields stripFirst api r).mapM fieldParam = .ok ((allFields stripFirst api r).map specParam) :=
    mapM_ok_of_forall _ _ _ (fun f hf => fieldParam_spec f (wellTyped_field hwt (mem_allFields.mp hf)))
  rw [h1]
  congr 1
  unfold allFields specParams
  rw [List.map_append]
  have e1 : isRequired stripFirst = specRequired := funext isRequired_strip
  rw [e1]
  congr 1
  · apply List.map_congr_left
    intro f hf
    have := (List.mem_filter.mp hf).2
    simp [specParam, this]
  · apply List.map_congr_left
    intro f hf
    have := (List.mem_filter.mp hf).2
    simp only [Bool.not_eq_true'] at this
    simp [specParam, this]

/-- `required_positional_optional_keyword`: the method of a route with a struct argument has, after `self`
(and the upload body `f`), the parameters `specParams`. -/
theorem required_positional_optional_keyword (api : Api) (ns : Namespace) (r : Route) (m : Method)
    (sns sname : Name) (harg : specUnalias r.arg = .struct sns sname)
    (hstrip : stripFirst r.arg = .struct sns sname)
    (hwt : defaultsWellTyped api (sns, sname) = true)
    (hm : routeMethod api ns r false = .ok m) :
    m.params = (if r.style = some "upload".toList then [⟨['f'], none⟩] else []) ++ specParams api (sns, sname) := by
  have _ := harg
  unfold routeMethod argParamsOf at hm
  rw [hstrip] at hm
  simp only [struct_params_eq_spec api (sns, sname) hwt, Except.map] at hm
  cases hm
  simp [mkMethod, styleIs]

/-- the hypothesis `hstrip` of the previous theorem is not an extra assumption: it follows from the spec-level one
whenever the backend produced a method at all -/
theorem strip_of_unalias_struct (api : Api) (ns : Namespace) (r : Route) (m : Method) (sns sname : Name)
    (harg : specUnalias r.arg = .struct sns sname) (hm : routeMethod api ns r false = .ok m) :
    stripFirst r.arg = .struct sns sname := by
  rcases stripFirst_head r.arg with e | ⟨x, y, e, _⟩ | ⟨x, y, e, _⟩
  · rw [e, harg]
  · unfold routeMethod argParamsOf at hm; rw [e] at hm; cases hm
  · unfold routeMethod argParamsOf at hm; rw [e] at hm; cases hm

/-! ## `ctor_params_line_up` -/

/-- Both generators walk `all_fields`; python_types sees the aliases, python_client does not. When no field type
is an alias of a nullable type the two walks give the same list (`allFields_views_agree`), so the positional
construction in the method body (`arg = ns.T(p₁, …, pₙ)`) hands every parameter to the
`__init__` parameter of the same field: the two cooperating sites line up. -/
theorem ctor_params_line_up (api : Api) (ns : Namespace) (r : Route) (m : Method) (toFile : Bool)
    (hm : routeMethod api ns r toFile = .ok m) (mod cls : Name) (ty : Ref) (args : List Name)
    (hb : m.argBuild = .ctor mod cls ty args) (h : noNullableAlias api ty = true) :
    args.map fmtVarR = structCtorParams api ty ∧ (mod, cls) = typesClassOf ty := by
  unfold routeMethod at hm
  cases hp : argParamsOf api ns r with
  | error e => rw [hp] at hm; cases hm
  | ok ps =>
    rw [hp] at hm
    simp only [Except.map] at hm
    cases hm
    simp only [mkMethod, argBuildOf] at hb
    split at hb
    · rename_i sns sname _
      cases hb
      refine ⟨?_, rfl⟩
      simp only [structCtorParams, ← allFields_views_agree api (sns, sname) h, List.map_map]
      rfl
    · cases hb
    · cases hb

/-- … and the hypothesis is needed: `alias OptText = String?`, `struct A (id String, note OptText, last String)`.
python_types orders `__init__(id, note, last)` (an alias is not `Nullable`), python_client calls `A(id, last, note)`. -/
def exNullAlias : Api :=
  { namespaces := [{ name := "al".toList, dataTypes := ["A".toList], aliases := [("OptText".toList, .nullable (.prim "String".toList))], routes :=
      [{ name := "r".toList, version := 1, arg := .struct "al".toList "A".toList, result := .void, deprecated := none, style := none }] }]
    structs := [{ ref := ("al".toList, "A".toList), parent := none, fields := [
      ⟨"id".toList, .prim "String".toList, none⟩,
      ⟨"note".toList, .alias "al".toList "OptText".toList (.nullable (.prim "String".toList)), none⟩,
      ⟨"last".toList, .prim "String".toList, none⟩] }] }

example : structCtorParams exNullAlias ("al".toList, "A".toList) = ["id".toList, "note".toList, "last".toList] := by decide

example : (allFields stripFirst exNullAlias ("al".toList, "A".toList)).map (·.name) = ["id".toList, "last".toList, "note".toList] := by
  decide

example : noNullableAlias exNullAlias ("al".toList, "A".toList) = false := by decide

/-! ## `client_call_builds_arg` -/

/-- the hypotheses about a struct argument type that the generator does not establish itself -/
def StructArgOk (api : Api) (ty : Ref) : Prop :=
  noNullableAlias api ty = true ∧
  ∀ f ∈ declFields api ty, ∀ f' ∈ declFields api ty, fmtVarR f'.name = fmtVarR f.name → f'.name = f.name

/-- `client_call_builds_arg`: for the method the backend generates for a route whose argument is a struct, a
union or Void, and every complete binding `σ` of its parameters (in particular every `σ` produced by `bindArgs`,
see the corollary), running the body issues exactly one request: the route object python_types defines for that
route version, the namespace name, the struct built directly from the bound values through the types module's
class (equal field by field) - the union value itself, or nothing for Void -, the upload body for upload routes;
it warns iff the route is deprecated and returns the request's result, or None when the result type is Void.
Hypotheses the generator does not establish: `hygienic` (the module names the body uses are imported and not
hidden by a parameter) and `StructArgOk` (python_types and python_client agree on which fields are optional). -/
theorem client_call_builds_arg (api : Api) (cm : ClientModule) (ns : Namespace) (r : Route) (m : Method)
    (hm : routeMethod api ns r false = .ok m)
    (hyg : hygienic cm m = true)
    (hst : ∀ sns sname, stripFirst r.arg = .struct sns sname → StructArgOk api (sns, sname))
    (σ : List (Name × Val)) (hσ : σ.map (·.1) = m.params.map (·.name)) :
    runMethod api cm m σ = .ok (expectedOutcome api ns r σ) := by
  unfold routeMethod at hm
  cases hp : argParamsOf api ns r with
  | error e => rw [hp] at hm; cases hm
  | ok ps =>
    rw [hp] at hm
    simp only [Except.map] at hm
    cases hm
    -- the upload body
    have hbody : ∃ b, bodyArg (mkMethod api ns r false ps) σ = .ok b ∧
        b = (if r.style == some "upload".toList then lookup σ ['f'] else none) := by
      unfold bodyArg
      cases hu : styleIs r "upload"
      · refine ⟨none, by simp [mkMethod, hu], ?_⟩
        simp only [styleIs] at hu
        rw [hu]
        rfl
      · obtain ⟨v, hv, hl⟩ := lookupLocal_of_key (σ := σ) (n := ['f']) (by rw [hσ]; simp [mkMethod, hu])
        refine ⟨some v, by simp only [mkMethod, hu, hl, Except.map, ↓reduceIte], ?_⟩
        simp only [styleIs] at hu
        rw [hu, hv]
        rfl
    obtain ⟨b, hb, hbeq⟩ := hbody
    have hvoid := strip_isVoid r.result
    unfold argParamsOf at hp
    cases harg : stripFirst r.arg with
    | struct sns sname =>
      rw [harg] at hp
      simp only at hp
      obtain ⟨hna, hinj⟩ := hst sns sname harg
      have hab : (mkMethod api ns r false ps).argBuild = .ctor (fmtNamespace sns) (fmtClass sname) (sns, sname)
          ((allFields stripFirst api (sns, sname)).map (·.name)) := by simp [mkMethod, argBuildOf, harg]
      have hmod := resolveGlobal_ok hyg (ctorMod_mem_globalsUsed hab)
      have hnames := argParams_names_struct api (sns, sname) ps hp
      have hkeys : ∀ f ∈ declFields api (sns, sname), f.name ∈ σ.map (·.1) := by
        intro f hf
        rw [hσ]
        have : f.name ∈ ps.map (·.name) := by
          rw [hnames]
          exact List.mem_map_of_mem (mem_allFields.mpr hf)
        simp only [mkMethod, List.map_append, List.mem_append]
        exact .inr this
      have hargs : ((allFields stripFirst api (sns, sname)).map (·.name)).mapM (lookupLocal σ)
          = .ok (((allFields stripFirst api (sns, sname)).map (·.name)).map (getV σ)) :=
        mapM_lookupLocal _ (by
          intro n hn
          obtain ⟨f, hf, rfl⟩ := List.mem_map.mp hn
          exact hkeys f (mem_allFields.mp hf))
      have hctor := ctorApply_direct api (sns, sname) σ hna hinj hkeys
      simp only [typesClassOf] at hctor
      have hbuild : buildArg api cm (mkMethod api ns r false ps) σ = .ok (structDirect api (sns, sname) σ) := by
        unfold buildArg
        rw [hab]
        simp only [hmod, hargs, hctor]
      rw [runMethod_steps api cm _ σ _ b hyg rfl hbuild hb]
      simp only [expectedOutcome, expectedRequest, strip_struct harg, hbeq, mkMethod, typesRouteObj, hvoid]
    | union uns uname =>
      rw [harg] at hp
      simp only at hp
      cases hp
      obtain ⟨v, hv, hl⟩ := lookupLocal_of_key (σ := σ) (n := "arg".toList) (by rw [hσ]; simp [mkMethod])
      have hbuild : buildArg api cm (mkMethod api ns r false [⟨"arg".toList, none⟩]) σ = .ok (.value v) := by
        unfold buildArg
        have hab : (mkMethod api ns r false [⟨"arg".toList, none⟩]).argBuild = .union := by
          simp only [mkMethod, argBuildOf, harg]
        rw [hab]
        simp only [hl, Except.map]
      rw [runMethod_steps api cm _ σ _ b hyg rfl hbuild hb]
      simp only [expectedOutcome, expectedRequest, strip_union harg, hbeq, mkMethod, typesRouteObj, hvoid, hv]
    | void =>
      rw [harg] at hp
      simp only at hp
      cases hp
      have hbuild : buildArg api cm (mkMethod api ns r false []) σ = .ok .none := by
        unfold buildArg
        have hab : (mkMethod api ns r false []).argBuild = .void := by
          simp only [mkMethod, argBuildOf, harg]
        rw [hab]
      rw [runMethod_steps api cm _ σ _ b hyg rfl hbuild hb]
      simp only [expectedOutcome, expectedRequest, strip_void harg, hbeq, mkMethod, typesRouteObj, hvoid]
    | prim n => rw [harg] at hp; cases hp
    | nullable t => rw [harg] at hp; cases hp
    | list t => rw [harg] at hp; cases hp
    | map k v => rw [harg] at hp; cases hp
    | alias a b t => rw [harg] at hp; cases hp

/-- `client_call_builds_arg` for a binding produced by Python's call rules -/
theorem client_call_via_bindArgs (api : Api) (cm : ClientModule) (ns : Namespace) (r : Route) (m : Method)
    (hm : routeMethod api ns r false = .ok m) (hyg : hygienic cm m = true)
    (hst : ∀ sns sname, stripFirst r.arg = .struct sns sname → StructArgOk api (sns, sname))
    (ps : List BParam) (hps : ps.map (·.1) = m.params.map (·.name))
    (call : Call) (σ : List (Name × Val)) (hb : bindArgs ps call = .ok σ) :
    runMethod api cm m σ = .ok (expectedOutcome api ns r σ) :=
  client_call_builds_arg api cm ns r m hm hyg hst σ (by rw [bindArgs_keys ps call σ hb, hps])

/-- positional arguments bind the leading parameters in order, the others take their defaults -/
theorem bind_positional_prefix : ∀ (ps : List BParam) (vs : List Val),
    vs.length ≤ ps.length → (∀ p ∈ ps.drop vs.length, p.2.isSome) →
    bindArgs ps ⟨vs, []⟩ = .ok ((ps.take vs.length).map (·.1) |>.zip vs |>.append
      ((ps.drop vs.length).map fun p => (p.1, p.2.getD .none))) := by
  intro ps vs hlen hd
  simp only [bindArgs, hasDup, List.map_nil, List.any_nil, Bool.false_eq_true, ↓reduceIte]
  induction ps generalizing vs with
  | nil =>
    cases vs with
    | nil => rfl
    | cons v vs => simp at hlen
  | cons p ps ih =>
    cases vs with
    | nil =>
      have hp : p.2.isSome := hd p (by simp)
      have := ih [] (by simp) (fun q hq => hd q (by simp at hq ⊢; exact .inr hq))
      simp only [List.length_nil, List.take_zero, List.map_nil, List.zip_nil_left, List.drop_zero, List.append_eq,
        List.nil_append] at this ⊢
      cases hv : p.2 with
      | none => rw [hv] at hp; cases hp
      | some d => simp [bindGo, lookup, hv, this, Except.map]
    | cons v vs =>
      have := ih vs (by simpa using hlen) (fun q hq => hd q (by simpa using hq))
      simp only [List.append_eq] at this
      simp [bindGo, lookup, this, Except.map]

/-! ## `method_names_injective`, one method per route version -/

/-- Inside one namespace that passes `check_route_name_conflict`, two routes with the same method name are the
same route. -/
theorem method_names_injective_in_namespace (ns : Namespace) (h : routeNameConflict ns = false)
    (r1 r2 : Route) (h1 : r1 ∈ ns.routes) (h2 : r2 ∈ ns.routes) (he : mainName ns r1 = mainName ns r2) : r1 = r2 := by
  have hnd := (conflict_go_false [] ns.routes h).1
  apply inj_of_nodup_map _ _ hnd r1 h1 r2 h2
  exact List.append_cancel_left he

/-- `method_names_injective`: under `check_route_name_conflict` (per namespace, what the backend checks) and when no
namespace's prefix `<ns>_` is a prefix of another's (what it does not check), the method name determines the
route version: namespace, route and version. -/
theorem method_names_injective (api : Api)
    (hconf : ∀ ns ∈ api.namespaces, routeNameConflict ns = false)
    (hpf : nsPrefixFree api = true)
    (huniq : ∀ a ∈ api.namespaces, ∀ b ∈ api.namespaces, a.name = b.name → a = b)
    (ns1 ns2 : Namespace) (h1 : ns1 ∈ api.namespaces) (h2 : ns2 ∈ api.namespaces)
    (r1 r2 : Route) (hr1 : r1 ∈ ns1.routes) (hr2 : r2 ∈ ns2.routes)
    (he : mainName ns1 r1 = mainName ns2 r2) : ns1 = ns2 ∧ r1 = r2 := by
  have hns : ns1 = ns2 := by
    apply huniq ns1 h1 ns2 h2
    have hp := (List.all_eq_true.mp hpf)
    have h12 := (List.all_eq_true.mp (hp ns1 h1)) ns2 h2
    have h21 := (List.all_eq_true.mp (hp ns2 h2)) ns1 h1
    simp only [Bool.or_eq_true, beq_iff_eq, Bool.not_eq_true'] at h12 h21
    unfold mainName at he
    rcases isPrefix_of_append_eq _ _ _ _ he with hpre | hpre
    · rcases h12 with h | h
      · exact h
      · rw [hpre] at h; cases h
    · rcases h21 with h | h
      · exact h.symm
      · rw [hpre] at h; cases h
  subst hns
  exact ⟨rfl, method_names_injective_in_namespace ns1 (hconf ns1 h1) r1 r2 hr1 hr2 he⟩

/-- "offers one method per route version": when the backend produces a module at all, every route version of
every namespace has its method in the class. -/
theorem offers_method_per_route (api : Api) (cm : ClientModule) (h : pyClient api = .ok cm)
    (ns : Namespace) (hns : ns ∈ api.namespaces) (r : Route) (hr : r ∈ ns.routes) :
    ∃ m ∈ cm.methods, routeMethod api ns r false = .ok m ∧ m.name = mainName ns r := by
  unfold pyClient at h
  obtain ⟨mss, hmss, rfl⟩ := except_map_ok h
  have hin : ns ∈ api.namespaces.filter (fun ns => !ns.routes.isEmpty) := by
    apply List.mem_filter.mpr
    refine ⟨hns, ?_⟩
    cases hrs : ns.routes with
    | nil => rw [hrs] at hr; cases hr
    | cons _ _ => rfl
  obtain ⟨ms, hms, hnsm⟩ := mapM_ok_mem' _ _ _ hmss ns hin
  unfold nsMethods at hnsm
  split at hnsm
  · cases hnsm
  · obtain ⟨lss, hlss, rfl⟩ := except_map_ok hnsm
    obtain ⟨l, hl, hrl⟩ := mapM_ok_mem' _ _ _ hlss r hr
    obtain ⟨m, hm, hrm⟩ := routeMethods_main hrl
    refine ⟨m, ?_, hrm, (routeMethod_name hrm).1⟩
    simp only [List.mem_flatten]
    exact ⟨lss.flatten, hms, List.mem_flatten.mpr ⟨l, hl, hm⟩⟩

/-- … and nothing else: every method of the class is the method (or the `_to_file` twin) of a route of a
namespace that passed `check_route_name_conflict`. -/
theorem methods_come_from_routes (api : Api) (cm : ClientModule) (h : pyClient api = .ok cm)
    (m : Method) (hm : m ∈ cm.methods) :
    ∃ ns ∈ api.namespaces, routeNameConflict ns = false ∧ ∃ r ∈ ns.routes, ∃ tf, routeMethod api ns r tf = .ok m := by
  unfold pyClient at h
  obtain ⟨mss, hmss, rfl⟩ := except_map_ok h
  simp only [List.mem_flatten] at hm
  obtain ⟨ms, hms, hmms⟩ := hm
  obtain ⟨ns, hns, hnsm⟩ := mapM_ok_mem _ _ _ hmss ms hms
  have hns' := (List.mem_filter.mp hns).1
  unfold nsMethods at hnsm
  split at hnsm
  · cases hnsm
  · rename_i hc
    obtain ⟨lss, hlss, rfl⟩ := except_map_ok hnsm
    obtain ⟨l, hl, hml⟩ := List.mem_flatten.mp hmms
    obtain ⟨r, hr, hrl⟩ := mapM_ok_mem _ _ _ hlss l hl
    obtain ⟨tf, htf⟩ := routeMethods_all hrl m hml
    exact ⟨ns, hns', by simpa using hc, r, hr, tf, htf⟩

/-- `hygienic` in terms of the spec: no parameter / local of the method has the name of a module the body uses.
The modules themselves are imported: the route's namespace because it has routes (since the repair of
c14-namespace-without-data-types-not-imported; only namespaces with data types used to be imported), the namespace
of a struct argument because it defines that struct. -/
theorem hygienic_of_spec (api : Api) (cm : ClientModule) (h : pyClient api = .ok cm)
    (ns : Namespace) (hns : ns ∈ api.namespaces) (r : Route) (hr : r ∈ ns.routes) (m : Method)
    (hm : routeMethod api ns r false = .ok m)
    (harg : ∀ sns sname, stripFirst r.arg = .struct sns sname → ∃ ns' ∈ api.namespaces, ns'.name = sns ∧ ns'.hasDataTypes = true)
    (hfree : ∀ n ∈ globalsUsed m, n ∉ localNames m) :
    hygienic cm m = true := by
  unfold pyClient at h
  obtain ⟨mss, _, rfl⟩ := except_map_ok h
  have himp : ∀ ns' ∈ api.namespaces, (ns'.hasDataTypes || !ns'.routes.isEmpty) = true →
      fmtNamespace ns'.name ∈ moduleGlobals { imports := (api.namespaces.filter (fun ns => ns.hasDataTypes || !ns.routes.isEmpty)).map (fun ns => fmtNamespace ns.name),
                                               importsWarnings := api.namespaces.any (fun ns => ns.routes.any (·.deprecated.isSome)),
                                               methods := mss.flatten } := by
    intro ns' hn ht
    unfold moduleGlobals
    apply List.mem_append_right
    exact List.mem_map.mpr ⟨ns', List.mem_filter.mpr ⟨hn, ht⟩, rfl⟩
  unfold routeMethod at hm
  cases hp : argParamsOf api ns r with
  | error e => rw [hp] at hm; cases hm
  | ok ps =>
    rw [hp] at hm
    simp only [Except.map] at hm
    cases hm
    unfold hygienic
    apply List.all_eq_true.mpr
    intro n hn
    have hloc := hfree n hn
    simp only [Bool.and_eq_true, Bool.not_eq_true', List.contains_eq_mem, decide_eq_false_iff_not, decide_eq_true_eq]
    refine ⟨hloc, ?_⟩
    unfold globalsUsed at hn
    simp only [List.mem_append] at hn
    rcases hn with (hn | hn) | hn
    · -- warnings
      split at hn
      · rename_i hd
        simp only [List.mem_singleton] at hn
        subst hn
        unfold moduleGlobals
        apply List.mem_append_left
        apply List.mem_append_right
        have : (api.namespaces.any fun ns => ns.routes.any (·.deprecated.isSome)) = true := by
          apply List.any_eq_true.mpr
          refine ⟨ns, hns, List.any_eq_true.mpr ⟨r, hr, ?_⟩⟩
          simpa [mkMethod] using hd
        simp [this]
      · cases hn
    · -- the module of the argument struct
      simp only [mkMethod, argBuildOf] at hn
      cases hs : stripFirst r.arg with
      | struct sns sname =>
        rw [hs] at hn
        simp only [List.mem_singleton] at hn
        subst hn
        obtain ⟨ns', hn', rfl, ht'⟩ := harg sns sname hs
        exact himp ns' hn' (by simp [ht'])
      | union a b => rw [hs] at hn; cases hn
      | void => rw [hs] at hn; cases hn
      | prim a => rw [hs] at hn; cases hn
      | nullable a => rw [hs] at hn; cases hn
      | list a => rw [hs] at hn; cases hn
      | map a b => rw [hs] at hn; cases hn
      | alias a b c => rw [hs] at hn; cases hn
    · -- the module of the route object
      simp only [mkMethod, List.mem_singleton] at hn
      subst hn
      refine himp ns hns ?_
      cases hrs : ns.routes with
      | nil => rw [hrs] at hr; cases hr
      | cons _ _ => simp

/-! ## literal tables of the code -/

/-- The literals the model was written from, as the translator finds them in the repository under test: the two
word-splitting regexes of helpers.py, `_reserved_keywords` and the `_v{}` suffix of python_helpers.py, the key of
`check_route_name_conflict`, and in python_client.py the `style` values tested, the `_to_file` twin, the parameter
literals of `_generate_route_method_decl`, the arguments of `self.request`, the return statements, the method
name, the import condition and the abstract `request` signature. Editing any of them breaks this theorem. -/
theorem tables_pinned :
    Tables.helpersWordRegexes =
      [("_split_words_capitalization_re", "^[a-z0-9]+|[A-Z][a-z0-9]+|[A-Z]+(?=[A-Z][a-z0-9])|[A-Z]+$"),
       ("_split_words_dashes_re", "[-_/]+")] ∧
    Tables.pyHelpersReservedKeywords.map String.toList = reservedKeywords ∧
    Tables.fmtFuncVersionFormats = ["{}_v{}"] ∧ Tables.fmtFuncDefaultVersion = 1 ∧
    Tables.routeNameConflictKey = ["fmt_func(route.name, version=route.version)"] ∧
    Tables.pyClientStyleTestsHelper = ["upload", "download"] ∧
    Tables.pyClientStyleTestsRoutes = ["download", "download"] ∧
    Tables.pyClientToFileDecl = [("extra_args", "['download_path']"), ("method_name_suffix", "'_to_file'")] ∧
    Tables.pyClientDeclArgs = ["['self']", "'f'", "'arg'", "'{}=None'.format(field.name)", "arg", "field.name"] ∧
    Tables.pyClientRequestArgs =
      ["['{}.{}'.format(fmt_namespace(namespace.name), fmt_func(route.name, version=route.version)), \"'{}'\".format(namespace.name), 'arg']",
       "'f'", "'None'"] ∧
    Tables.pyClientBodyLines =
      ["'arg = None'", "'self._save_body_to_file(download_path, r[1])'", "'return None'", "'return r[0]'", "'return None'",
       "'return r'"] ∧
    Tables.pyClientMethodName =
      ["fmt_func(route.name + method_name_suffix, version=route.version)", "fmt_underscores(namespace.name)"] ∧
    Tables.pyClientImportTest = ["namespace.data_types or namespace.routes"] ∧
    Tables.pyClientRequestSignature = ["def request(self, route, namespace, request_arg, request_binary, timeout=None):"] :=
  ⟨rfl, by decide, rfl, rfl, rfl, rfl, rfl, rfl, rfl, rfl, rfl, rfl, rfl, rfl⟩

/-! ## a concrete instance (non-vacuity) and the reachable counterexamples of the hypotheses -/

private def s (x : String) : Name := x.toList
private def str : Ty := .prim (s "String")

/-- `common`: union WriteMode, struct PathRoot(root_id, limit = 25, trace?); `files`: struct UploadArg extends
common.PathRoot (path, mode common.WriteMode = add), upload-style deprecated route `upload:2(UploadArg, Void)`,
route `get(UploadArgAlias, PathRoot)`, `pick(WriteMode, Void)`, `noop(Void, Void)`. -/
def exApi : Api :=
  { namespaces := [
      { name := s "common", dataTypes := [s "PathRoot", s "WriteMode"], aliases := [], routes := [] },
      { name := s "files", dataTypes := [s "UploadArg"],
        aliases := [(s "UploadArgAlias", .struct (s "files") (s "UploadArg"))],
        routes := [
          { name := s "get", version := 1, arg := .alias (s "files") (s "UploadArgAlias") (.struct (s "files") (s "UploadArg")),
            result := .struct (s "common") (s "PathRoot"), deprecated := none, style := none },
          { name := s "noop", version := 1, arg := .void, result := .void, deprecated := none, style := some (s "rpc") },
          { name := s "pick", version := 1, arg := .union (s "common") (s "WriteMode"), result := .void,
            deprecated := some none, style := none },
          { name := s "upload", version := 2, arg := .struct (s "files") (s "UploadArg"), result := .void,
            deprecated := some (some (s "upload", 3)), style := some (s "upload") }] }]
    structs := [
      { ref := (s "common", s "PathRoot"), parent := none, fields := [
          ⟨s "root_id", str, none⟩, ⟨s "limit", .prim (s "UInt32"), some (.int 25)⟩, ⟨s "trace", .nullable str, none⟩] },
      { ref := (s "files", s "UploadArg"), parent := some (s "common", s "PathRoot"), fields := [
          ⟨s "path", str, none⟩,
          ⟨s "mode", .union (s "common") (s "WriteMode"), some (.tag (.union (s "common") (s "WriteMode")) (s "add"))⟩] }] }

/-- run `f` on the generated module -/
def withModule (api : Api) (f : ClientModule → Bool) : Bool :=
  match pyClient api with
  | .ok cm => f cm
  | .error _ => false

def loadResult (api : Api) (cm : ClientModule) : Option PyErr :=
  match loadModule api cm with
  | .ok _ => none
  | .error e => some e

def callOk (api : Api) (method : String) (c : Call) (want : Outcome) : Bool :=
  withModule api fun cm =>
    match classAttr cm method.toList with
    | some m => (match callMethod api cm m c with | .ok o => o == want | .error _ => false)
    | none => false

def callErr (api : Api) (method : String) (c : Call) (want : PyErr) : Bool :=
  withModule api fun cm =>
    match classAttr cm method.toList with
    | some m => (match callMethod api cm m c with | .ok _ => false | .error e => e == want)
    | none => false

example : (pyClientMethods exApi).map (·.name) =
    [s "files_get", s "files_noop", s "files_pick", s "files_upload_v2"] := by decide

-- every hypothesis of `client_call_builds_arg` holds of this instance
example : withModule exApi (fun cm => cm.methods.all (hygienic cm) && (loadResult exApi cm == none)) = true := by decide
example : noNullableAlias exApi (s "files", s "UploadArg") = true ∧ defaultsWellTyped exApi (s "files", s "UploadArg") = true ∧
    nsPrefixFree exApi = true := by decide

-- parameters: upload body, required fields (parents first), optional ones with their defaults
example : withModule exApi (fun cm => (classAttr cm (s "files_upload_v2")).map (·.params) ==
    some [⟨s "f", none⟩, ⟨s "root_id", none⟩, ⟨s "path", none⟩, ⟨s "limit", some (.lit (.int 25))⟩,
          ⟨s "trace", some .pyNone⟩, ⟨s "mode", some (.tagAttr (s "common") (s "WriteMode") (s "add"))⟩]) = true := by decide

-- `files_upload_v2(body, root, path='p', trace=t)`: one request, struct built field by field, default passed on, warning
example : callOk exApi "files_upload_v2" ⟨[.tok 0, .tok 1], [(s "path", .tok 2), (s "trace", .tok 3)]⟩
    { requests := [{ route := (s "files", s "upload_v2"), ns := s "files"
                     arg := .struct (s "files") (s "UploadArg")
                       [(s "root_id", .tok 1), (s "limit", .lit (.int 25)), (s "trace", .tok 3), (s "path", .tok 2),
                        (s "mode", .tagObj (s "common", s "WriteMode") (s "add"))]
                     body := some (.tok 0) }]
      warned := true, saved := none, ret := .none } = true := by decide

example : callOk exApi "files_pick" ⟨[], [(s "arg", .tok 7)]⟩
    { requests := [{ route := (s "files", s "pick"), ns := s "files", arg := .value (.tok 7), body := none }]
      warned := true, saved := none, ret := .none } = true := by decide

example : callOk exApi "files_get" ⟨[.tok 1, .tok 2, .none], []⟩
    { requests := [{ route := (s "files", s "get"), ns := s "files"
                     arg := .struct (s "files") (s "UploadArg")
                       [(s "root_id", .tok 1), (s "path", .tok 2), (s "mode", .tagObj (s "common", s "WriteMode") (s "add"))]
                     body := none }]
      warned := false, saved := none, ret := .result } = true := by decide

-- call binding errors
example : callErr exApi "files_noop" ⟨[.tok 0], []⟩ .typeError = true := by decide
example : callErr exApi "files_get" ⟨[.tok 0], [(s "root_id", .tok 1)]⟩ .typeError = true := by decide
example : callErr exApi "files_get" ⟨[.tok 0], []⟩ .typeError = true := by decide
example : callErr exApi "files_get" ⟨[.tok 0, .tok 1], [(s "nope", .tok 1)]⟩ .typeError = true := by decide

/-! ### the hypotheses are needed (each of these is reported on the real code by the harness) -/

/-- D17: an upload-style route whose argument struct has a field `f` -/
def exDupF : Api :=
  { namespaces := [{ name := s "files", dataTypes := [s "PutArg"], aliases := [], routes :=
      [{ name := s "put", version := 1, arg := .struct (s "files") (s "PutArg"), result := .void, deprecated := none,
         style := some (s "upload") }] }]
    structs := [{ ref := (s "files", s "PutArg"), parent := none, fields := [⟨s "path", str, none⟩, ⟨s "f", str, none⟩] }] }

example : withModule exDupF (fun cm => loadResult exDupF cm == some (.syntaxError (s "files_put") (s "duplicate"))) = true := by
  decide

/-- regression of c14-string-default-with-blank: a string default with a blank used to be printed with
`pprint.pformat(width=1)`, which wraps it; `emit` refused the line and the spec had no client at all. It is printed
with `repr` now (as python_types does since 0ee41ed): the method carries the default. -/
def exBlankDefault : Api :=
  { namespaces := [{ name := s "b", dataTypes := [s "A"], aliases := [], routes :=
      [{ name := s "r", version := 1, arg := .struct (s "b") (s "A"), result := .void, deprecated := none, style := none }] }]
    structs := [{ ref := (s "b", s "A"), parent := none, fields :=
      [⟨s "path", str, none⟩, ⟨s "label", str, some (.str (s "two words"))⟩] }] }

example : withModule exBlankDefault (fun cm => (classAttr cm (s "b_r")).map (·.params) ==
    some [⟨s "path", none⟩, ⟨s "label", some (.lit (.str (s "two words")))⟩]) = true := by decide
example : callOk exBlankDefault "b_r" ⟨[.tok 0], []⟩
    { requests := [{ route := (s "b", s "r"), ns := s "b"
                     arg := .struct (s "b") (s "A") [(s "path", .tok 0), (s "label", .lit (.str (s "two words")))], body := none }]
      warned := false, saved := none, ret := .none } = true := by decide

/-- regression of c14-namespace-without-data-types-not-imported: a namespace with routes but no data types used not
to be imported (`hygienic` failed, every call raised NameError); it is imported now and the call issues the request -/
def exNoImport : Api :=
  { namespaces := [{ name := s "check", dataTypes := [], aliases := [], routes :=
      [{ name := s "ping", version := 1, arg := .void, result := .void, deprecated := none, style := none }] }]
    structs := [] }

example : withModule exNoImport (fun cm => cm.imports == [s "check"] && cm.methods.all (hygienic cm)) = true := by decide
example : callOk exNoImport "check_ping" ⟨[], []⟩
    { requests := [{ route := (s "check", s "ping"), ns := s "check", arg := .none, body := none }]
      warned := false, saved := none, ret := .none } = true := by decide

/-- a field named like the module the body needs -/
def exShadow : Api :=
  { namespaces := [{ name := s "sh", dataTypes := [s "A"], aliases := [], routes :=
      [{ name := s "ra", version := 1, arg := .struct (s "sh") (s "A"), result := .void, deprecated := none, style := none }] }]
    structs := [{ ref := (s "sh", s "A"), parent := none, fields := [⟨s "sh", str, none⟩] }] }

example : callErr exShadow "sh_ra" ⟨[.tok 0], []⟩ (.shadowed (s "sh")) = true := by decide

/-- `exNullAlias` (above): the request carries `last` in the field `note` -/
example : callOk exNullAlias "al_r" ⟨[.tok 0, .tok 1, .tok 2], []⟩
    { requests := [{ route := (s "al", s "r"), ns := s "al"
                     arg := .struct (s "al") (s "A") [(s "id", .tok 0), (s "note", .tok 1), (s "last", .tok 2)], body := none }]
      warned := false, saved := none, ret := .none } = true := by decide
example : structDirect exNullAlias (s "al", s "A") [(s "id", .tok 0), (s "last", .tok 1), (s "note", .tok 2)] =
    .struct (s "al") (s "A") [(s "id", .tok 0), (s "note", .tok 2), (s "last", .tok 1)] := by decide

/-- `team` + `log_get` and `team_log` + `get` -/
def exNsClash : Api :=
  { namespaces := [
      { name := s "team", dataTypes := [], aliases := [], routes :=
        [{ name := s "log_get", version := 1, arg := .void, result := .void, deprecated := none, style := none }] },
      { name := s "team_log", dataTypes := [], aliases := [], routes :=
        [{ name := s "get", version := 1, arg := .void, result := .void, deprecated := none, style := none }] }]
    structs := [] }

example : (pyClientMethods exNsClash).map (·.name) = [s "team_log_get", s "team_log_get"] ∧ nsPrefixFree exNsClash = false := by
  decide

/-- regression of c14-tag-default-foreign-alias-*: a tag default declared through an alias that lives in another
namespace than the union used to be written `common.ForeignMode.add` (the alias's name in the union's module:
AttributeError on import, or another class's tag); the alias is unwrapped now: `common.WriteMode.add` -/
def exForeignAlias : Api :=
  { namespaces := [
      { name := s "common", dataTypes := [s "WriteMode"], aliases := [], routes := [] },
      { name := s "files", dataTypes := [s "Arg"], aliases := [(s "ForeignMode", .union (s "common") (s "WriteMode"))], routes :=
        [{ name := s "put", version := 1, arg := .struct (s "files") (s "Arg"), result := .void, deprecated := none, style := none }] }]
    structs := [{ ref := (s "files", s "Arg"), parent := none, fields := [
      ⟨s "mode", .alias (s "files") (s "ForeignMode") (.union (s "common") (s "WriteMode")),
        some (.tag (.alias (s "files") (s "ForeignMode") (.union (s "common") (s "WriteMode"))) (s "add"))⟩] }] }

example : withModule exForeignAlias (fun cm => loadResult exForeignAlias cm == none &&
    (classAttr cm (s "files_put")).map (·.params) ==
      some [⟨s "mode", some (.tagAttr (s "common") (s "WriteMode") (s "add"))⟩]) = true := by decide
example : callOk exForeignAlias "files_put" ⟨[], []⟩
    { requests := [{ route := (s "files", s "put"), ns := s "files"
                     arg := .struct (s "files") (s "Arg") [(s "mode", .tagObj (s "common", s "WriteMode") (s "add"))], body := none }]
      warned := false, saved := none, ret := .none } = true := by decide
example : defaultsWellTyped exForeignAlias (s "files", s "Arg") = true := by decide

end StoneVerif.C14
