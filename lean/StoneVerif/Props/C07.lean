import StoneVerif.Model.Rt.Compat
/-! Property theorems for C07 (backwards-compatible changes keep peers interoperable). -/
namespace StoneVerif.C07
open StoneVerif.Rt StoneVerif.Rt.Compat

/-- the A-view of `None` is `None` at every type -/
theorem view_none (ρ : Rho) (A : Env) (t : PTy) : view ρ A t .none = .none := by
  unfold view; rfl

end StoneVerif.C07
