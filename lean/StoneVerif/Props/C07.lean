import StoneVerif.Lemmas.RtCompatFwd4
import StoneVerif.Lemmas.RtCompatBwd6
import StoneVerif.Lemmas.RtCompatRefl
import StoneVerif.Lemmas.RtCompatStrict
import StoneVerif.Lemmas.RtCompatTrans
import StoneVerif.Lemmas.RtCompatEdits
import StoneVerif.Lemmas.RtCompatRename
import StoneVerif.Props.C06
import StoneVerif.Lemmas.RtRoundTrip
import StoneVerif.Lemmas.RtCompatWire2
/-!
Property theorems for C07: backwards-compatible changes (docs/evolve_spec.rst) keep peers interoperable.

Setting: two environments `A` (older spec) and `B` (newer spec), a one-to-one correspondence `ρ` between their class
references, and `subB ρ A B tA tB` ("A is an older version of B at this type": `compatEnv ρ A B` — every related pair
of classes differs only by listed compatible changes — and `tySub ρ tA tB`), all from `Model/Rt/Compat.lean`.
`view ρ A tA v` is the A-view of a B-value (unknown fields dropped, unknown tags read as the catch-all with `None`,
unknown subtypes read as the base struct, payloads of tags that are Void in A forgotten).

Hypotheses on the environments (each evaluated by the driver on every pair the harness generates):
`envWF` of both (what an accepted spec guarantees), `envWFX A` and `envWFU B` (a subclass inherits its ancestors'
attribute descriptors unchanged).
-/
namespace StoneVerif.C07
open StoneVerif.Rt StoneVerif.Rt.Compat
open StoneVerif.Rt.RoundTrip (envRT ExtLaws valWF ambiguousEmpty canon Good decode_wire_canon)

/-- the hypotheses about the two environments, bundled -/
def Ctx (ρ : Rho) (A B : Env) : Prop := StoneVerif.Rt.Compat.Ctx ρ A B

theorem ctx_of {ρ : Rho} {A B : Env} {tA tB : PTy} (hs : subB ρ A B tA tB = true)
    (hA : envWF A = true) (hB : envWF B = true) (hxA : envWFX A = true) (huB : envWFU B = true) :
    StoneVerif.Rt.Compat.Ctx ρ A B ∧ tySub ρ tA tB = true := by
  simp only [subB, Bool.and_eq_true] at hs
  exact ⟨⟨hs.1, hA, hB, hxA, huB⟩, hs.2⟩

/-- FORWARD COMPATIBILITY, message form (full generality: every type, every nesting, both of B's modes).
Whatever document the decoder of the newer spec accepts — in particular everything its encoder writes — the lenient
decoder of the older spec accepts as well, and what it builds is the A-view of what the newer decoder built: unknown
fields dropped, unknown tags read as the catch-all, unknown subtypes read as the base struct, payloads of tags that are
Void in the older spec ignored. -/
theorem forward_compat_msg (E : Ext) {ρ : Rho} {A B : Env} {tA tB : PTy} (hs : subB ρ A B tA tB = true)
    (hA : envWF A = true) (hB : envWF B = true) (hxA : envWFX A = true) (huB : envWFU B = true)
    (hw : tyWF A tA = true) (j : JVal) (sB : Bool) (w : PyVal)
    (h : decode E B [] sB tB j = .ok w) :
    decode E A [] false tA j = .ok (view ρ A tA w) := by
  obtain ⟨cx, hty⟩ := ctx_of hs hA hB hxA huB
  exact decode_sub E cx j tA tB false sB w hty hw (fun h => by cases h) h

/-- FORWARD COMPATIBILITY, wire form.  `hrt` is the round trip of the newer spec on its own message (C04 / C05 for B:
`decode (wire v)` succeeds); given that, the older spec reads the message as the A-view of what B itself reads back.
Kept for reference (it needs no hypothesis on the value); the full statement of DESIGN.md, with `hrt` discharged by C04's
round-trip theorem for B, is `forward_compat` / `forward_compat_eq` below. -/
theorem forward_compat_partial (E : Ext) {ρ : Rho} {A B : Env} {tA tB : PTy} (hs : subB ρ A B tA tB = true)
    (hA : envWF A = true) (hB : envWF B = true) (hxA : envWFX A = true) (huB : envWFU B = true)
    (hw : tyWF A tA = true) (v w : PyVal) (sB : Bool)
    (hrt : decode E B [] sB tB (wire E B tB v) = .ok w) :
    decode E A [] false tA (wire E B tB v) = .ok (view ρ A tA w) :=
  forward_compat_msg E hs hA hB hxA huB hw _ sB w hrt

/-- FORWARD COMPATIBILITY, wire form, full statement.
A peer on the newer spec `B` serialises a valid value `v` of type `tB`; a peer on the older spec `A` (lenient decoding, the
mode `evolve_spec.rst` prescribes for receivers) accepts the message and builds the A-view of `canon B tB v` — the value
B's own decoder returns for the message, equal to `v` under Python `==` (C04: `decode_wire`, `round_trip`).
Hypotheses: those of `forward_compat_msg` on the pair of specs, and those of C04's round-trip theorem on the sender's side
(`envRT B`, `ExtLaws E B`, `tyWF B tB`, `validB`, `normalB`, `valWF`, not `ambiguousEmpty`).  All but `ExtLaws` are
decidable; the harness evaluates the first group on every generated pair (`compat.hyp`, `compat.sub`, `compat.wire`) and
the C04 group on real data in C04's own suite (`rt.*`), not on the pairs of the compat suite. -/
theorem forward_compat (E : Ext) {ρ : Rho} {A B : Env} {tA tB : PTy} (hs : subB ρ A B tA tB = true)
    (hA : envWF A = true) (hB : envWF B = true) (hxA : envWFX A = true) (huB : envWFU B = true)
    (hw : tyWF A tA = true) (hrtB : envRT B = true) (hE : ExtLaws E B) (v : PyVal)
    (htB : tyWF B tB = true) (hv : validB E B tB v = true) (hn : normalB B tB v = true)
    (hvw : valWF E B tB v = true) (hamb : ambiguousEmpty B tB v = false) :
    decode E A [] false tA (wire E B tB v) = .ok (view ρ A tA (canon B tB v)) :=
  forward_compat_msg E hs hA hB hxA huB hw _ false _
    (decode_wire_canon hB hrtB hE false tB v ⟨htB, hv, hn, hvw, hamb⟩)

/-- ... and what the older peer built is equal (Python `==`) to the A-view of a value equal to the original: the two
facts side by side, as DESIGN.md states the property. -/
theorem forward_compat_eq (E : Ext) {ρ : Rho} {A B : Env} {tA tB : PTy} (hs : subB ρ A B tA tB = true)
    (hA : envWF A = true) (hB : envWF B = true) (hxA : envWFX A = true) (huB : envWFU B = true)
    (hw : tyWF A tA = true) (hrtB : envRT B = true) (hE : ExtLaws E B) (v : PyVal)
    (htB : tyWF B tB = true) (hv : validB E B tB v = true) (hn : normalB B tB v = true)
    (hvw : valWF E B tB v = true) (hamb : ambiguousEmpty B tB v = false) :
    ∃ v', pyEq E B v v' = true ∧ (∀ sB, decode E B [] sB tB (wire E B tB v) = .ok v') ∧
      decode E A [] false tA (wire E B tB v) = .ok (view ρ A tA v') :=
  ⟨canon B tB v, RoundTrip.pyEq_canon hB hrtB hE tB v ⟨htB, hv, hn, hvw, hamb⟩,
    fun sB => decode_wire_canon hB hrtB hE sB tB v ⟨htB, hv, hn, hvw, hamb⟩,
    forward_compat E hs hA hB hxA huB hw hrtB hE v htB hv hn hvw hamb⟩

/-- STRICT DECODING ACCEPTS WHAT IT KNOWS (one half of `strict_rejects_iff`, message form, full generality).
A document that the newer spec's decoder accepts and that contains nothing the older spec does not know at this type
(`knownDoc`: every member is a field, every tag a tag, every subtype listed, Void tags bare) is accepted by the older
spec's *strict* decoder too, as the same A-view.  Contrapositive: strict decoding under A refuses only B-messages that
contain something A does not know.
The converse half is `strict_accepts_only_known`; both together: `strict_rejects_iff`. -/
theorem strict_accepts_known (E : Ext) {ρ : Rho} {A B : Env} {tA tB : PTy} (hs : subB ρ A B tA tB = true)
    (hA : envWF A = true) (hB : envWF B = true) (hxA : envWFX A = true) (huB : envWFU B = true)
    (hw : tyWF A tA = true) (j : JVal) (sB : Bool) (w : PyVal)
    (h : decode E B [] sB tB j = .ok w) (hk : knownDoc A tA j = true) :
    decode E A [] true tA j = .ok (view ρ A tA w) := by
  obtain ⟨cx, hty⟩ := ctx_of hs hA hB hxA huB
  exact decode_sub E cx j tA tB true sB w hty hw (fun _ => hk) h

/-- STRICT DECODING ACCEPTS WHAT IT KNOWS, wire form: when the message B's encoder writes for a valid `v` contains nothing
the older spec does not know, the older spec's strict decoder accepts it too, as the same A-view. -/
theorem strict_accepts_known_wire (E : Ext) {ρ : Rho} {A B : Env} {tA tB : PTy} (hs : subB ρ A B tA tB = true)
    (hA : envWF A = true) (hB : envWF B = true) (hxA : envWFX A = true) (huB : envWFU B = true)
    (hw : tyWF A tA = true) (hrtB : envRT B = true) (hE : ExtLaws E B) (v : PyVal)
    (htB : tyWF B tB = true) (hv : validB E B tB v = true) (hn : normalB B tB v = true)
    (hvw : valWF E B tB v = true) (hamb : ambiguousEmpty B tB v = false)
    (hk : knownDoc A tA (wire E B tB v) = true) :
    decode E A [] true tA (wire E B tB v) = .ok (view ρ A tA (canon B tB v)) :=
  strict_accepts_known E hs hA hB hxA huB hw _ false _
    (decode_wire_canon hB hrtB hE false tB v ⟨htB, hv, hn, hvw, hamb⟩) hk

/-- BACKWARD COMPATIBILITY, message form (full generality: every type, every nesting, every combination of modes).
A document in the form the older spec's encoder writes (`tightDoc`: nothing the older spec does not know, Void tags bare)
that the older spec's decoder accepts, and that uses no tag that is Void in A and non-nullable in B (`nvrDoc`: the
direction the guide does not promise), is accepted by the newer spec's decoder — strict or lenient — as the same value
seen under the newer spec: same slots, the new fields unset (reading them gives `None` / the declared default through
`attrGet`). -/
theorem backward_compat_msg (E : Ext) {ρ : Rho} {A B : Env} {tA tB : PTy} (hs : subB ρ A B tA tB = true)
    (hA : envWF A = true) (hB : envWF B = true) (hxA : envWFX A = true) (huB : envWFU B = true)
    (hw : tyWF A tA = true) (j : JVal) (sA sB : Bool) (w : PyVal)
    (ht : tightDoc A tA j = true) (hn : nvrDoc ρ A B tA j = true)
    (h : decode E A [] sA tA j = .ok w) :
    decode E B [] sB tB j = .ok (lift ρ B tB w) := by
  obtain ⟨cx, hty⟩ := ctx_of hs hA hB hxA huB
  exact decode_lift E cx j tA tB sA sB w hty hw ht hn h

/-- BACKWARD COMPATIBILITY, wire form.  `hrt`: the older spec reads its own message back (C04 / C05 for A); `ht`, `hn`:
the message is in encoder form and uses no Void-to-required tag — both decidable, evaluated by the driver on the real
encoding of every case (`compat.tight`, `compat.nvrdoc`).  Kept for reference; the full statement of DESIGN.md (from
`validB E A tA v` and `noVoidToRequired ρ A B tA v`) is `backward_compat` / `backward_compat_eq` below, which discharge
`hrt` by C04's round trip for A, `ht` by `wire_tight` and `hn` by `wire_nvr` (the induction over `wire`). -/
theorem backward_compat_partial (E : Ext) {ρ : Rho} {A B : Env} {tA tB : PTy} (hs : subB ρ A B tA tB = true)
    (hA : envWF A = true) (hB : envWF B = true) (hxA : envWFX A = true) (huB : envWFU B = true)
    (hw : tyWF A tA = true) (v w : PyVal) (sA strict : Bool)
    (hrt : decode E A [] sA tA (wire E A tA v) = .ok w)
    (ht : tightDoc A tA (wire E A tA v) = true) (hn : nvrDoc ρ A B tA (wire E A tA v) = true) :
    decode E B [] strict tB (wire E A tA v) = .ok (lift ρ B tB w) :=
  backward_compat_msg E hs hA hB hxA huB hw _ sA strict w ht hn hrt

/-- THE SENDER'S OWN MESSAGE IS IN ENCODER FORM: for a valid value (in C04's domain) the wire form contains nothing the
sender's spec does not know, Void tags bare — the hypothesis `ht` of `backward_compat_partial`, now a theorem. -/
theorem wire_tight (E : Ext) {A : Env} (hA : envWF A = true) (tA : PTy) (v : PyVal)
    (htA : tyWF A tA = true) (hv : validB E A tA v = true) (hn : normalB A tA v = true)
    (hvw : valWF E A tA v = true) (hamb : ambiguousEmpty A tA v = false) :
    tightDoc A tA (wire E A tA v) = true :=
  tightDoc_wire hA tA v ⟨htA, hv, hn, hvw, hamb⟩

/-- ... and on it the message-level `nvrDoc` (hypothesis `hn` of `backward_compat_partial`) says exactly what the
value-level `noVoidToRequired` of DESIGN.md says. -/
theorem wire_nvr (E : Ext) (ρ : Rho) {A : Env} (B : Env) (hA : envWF A = true) (tA : PTy) (v : PyVal)
    (htA : tyWF A tA = true) (hv : validB E A tA v = true) (hn : normalB A tA v = true)
    (hvw : valWF E A tA v = true) (hamb : ambiguousEmpty A tA v = false) :
    nvrDoc ρ A B tA (wire E A tA v) = noVoidToRequired ρ A B tA v :=
  nvrDoc_wire ρ B hA tA v ⟨htA, hv, hn, hvw, hamb⟩

/-- BACKWARD COMPATIBILITY, wire form, full statement.
A peer on the older spec `A` serialises a valid value `v` of type `tA` in which no union value sits on a tag that is Void
in `A` and has a non-nullable type in `B` (`noVoidToRequired`: the one direction the guide does not promise); a peer on the
newer spec `B` — strict or lenient — accepts the message and builds `canon A tA v` (what A's own decoder returns for it,
equal to `v` under Python `==`: C04) seen under `B`: same slots, instances of B's classes, the new fields unset.
Hypotheses: those of `backward_compat_msg` on the pair of specs, those of C04's round-trip theorem on the sender's side,
and `noVoidToRequired` (`compat.nvr` compares it with the same predicate computed from the IR in Python); decidable and
evaluated on real data as said at `forward_compat`, except `ExtLaws`. -/
theorem backward_compat (E : Ext) {ρ : Rho} {A B : Env} {tA tB : PTy} (hs : subB ρ A B tA tB = true)
    (hA : envWF A = true) (hB : envWF B = true) (hxA : envWFX A = true) (huB : envWFU B = true)
    (hrtA : envRT A = true) (hE : ExtLaws E A) (v : PyVal)
    (htA : tyWF A tA = true) (hv : validB E A tA v = true) (hn : normalB A tA v = true)
    (hvw : valWF E A tA v = true) (hamb : ambiguousEmpty A tA v = false)
    (hnv : noVoidToRequired ρ A B tA v = true) (strict : Bool) :
    decode E B [] strict tB (wire E A tA v) = .ok (lift ρ B tB (canon A tA v)) :=
  backward_compat_msg E hs hA hB hxA huB htA _ false strict _
    (wire_tight E hA tA v htA hv hn hvw hamb)
    (by rw [wire_nvr E ρ B hA tA v htA hv hn hvw hamb]; exact hnv)
    (decode_wire_canon hA hrtA hE false tA v ⟨htA, hv, hn, hvw, hamb⟩)

/-- ... with the equality to the original made explicit, as DESIGN.md states the property. -/
theorem backward_compat_eq (E : Ext) {ρ : Rho} {A B : Env} {tA tB : PTy} (hs : subB ρ A B tA tB = true)
    (hA : envWF A = true) (hB : envWF B = true) (hxA : envWFX A = true) (huB : envWFU B = true)
    (hrtA : envRT A = true) (hE : ExtLaws E A) (v : PyVal)
    (htA : tyWF A tA = true) (hv : validB E A tA v = true) (hn : normalB A tA v = true)
    (hvw : valWF E A tA v = true) (hamb : ambiguousEmpty A tA v = false)
    (hnv : noVoidToRequired ρ A B tA v = true) :
    ∃ v', pyEq E A v v' = true ∧ (∀ sA, decode E A [] sA tA (wire E A tA v) = .ok v') ∧
      ∀ sB, decode E B [] sB tB (wire E A tA v) = .ok (lift ρ B tB v') :=
  ⟨canon A tA v, RoundTrip.pyEq_canon hA hrtA hE tA v ⟨htA, hv, hn, hvw, hamb⟩,
    fun sA => decode_wire_canon hA hrtA hE sA tA v ⟨htA, hv, hn, hvw, hamb⟩,
    fun sB => backward_compat E hs hA hB hxA huB hrtA hE v htA hv hn hvw hamb hnv sB⟩

/-- What strict decoding accepts contains nothing unknown (one environment; documents as `json.loads` produces them:
no repeated keys). -/
theorem strict_accepts_only_known (E : Ext) {A : Env} (hA : envWF A = true) {tA : PTy} (hw : tyWF A tA = true)
    (j : JVal) (hnd : nodupKeys j = true) (w : PyVal) (h : decode E A [] true tA j = .ok w) :
    knownDoc A tA j = true :=
  known_of_strict E hA j tA w hw hnd h

/-- STRICT DECODING REJECTS PRECISELY THE MESSAGES THAT CONTAIN SOMETHING UNKNOWN (message form, full generality).
For every document `j` without repeated keys that the newer spec's decoder accepts (in particular every message encoded
under B): strict decoding under A fails — and then by the validation error, nothing else — exactly when `j` contains
something A does not know at this type (`knownDoc A tA j = false`: a member that is no field of the struct it is read
as, a tag or subtype A does not list, anything beside the tag of a tag that is Void in A).
`fieldFlagsWF A` (C06: the `bb.Attribute` flags agree with the validators) is needed only for "nothing else escapes".
The value-level `mentionsUnknown ρ A B tA tB v` of the model is tied to `knownDoc A tA (encoding of v)` by the harness on
every case (`compat.mentions` / `compat.known`), not by a theorem: hence the message form. -/
theorem strict_rejects_iff (E : Ext) {ρ : Rho} {A B : Env} {tA tB : PTy} (hs : subB ρ A B tA tB = true)
    (hA : envWF A = true) (hB : envWF B = true) (hxA : envWFX A = true) (huB : envWFU B = true)
    (hfA : fieldFlagsWF A = true) (hw : tyWF A tA = true) (j : JVal) (hnd : nodupKeys j = true) (sB : Bool) (w : PyVal)
    (h : decode E B [] sB tB j = .ok w) :
    (∃ e, decode E A [] true tA j = .error (.verr e)) ↔ knownDoc A tA j = false := by
  constructor
  · rintro ⟨e, he⟩
    cases hk : knownDoc A tA j with
    | false => rfl
    | true =>
      rw [strict_accepts_known E hs hA hB hxA huB hw j sB w h hk] at he
      cases he
  · intro hk
    cases hd : decode E A [] true tA j with
    | ok w' =>
      rw [strict_accepts_only_known E hA hw j hnd w' hd] at hk
      cases hk
    | error err =>
      cases err with
      | verr e => exact ⟨e, rfl⟩
      | crash e => exact absurd hd (StoneVerif.C06.decode_no_crash E A [] true tA j hA hfA hw e)

/-- `subB` is reflexive: every accepted spec is an older version of itself (identity correspondence). -/
theorem sub_refl {A : Env} (hA : envWF A = true) {t : PTy} (ht : tyWF A t = true) :
    subB (Rho.idOf A) A A t t = true := by
  simp [subB, compatEnv_refl hA, tySub_refl t ht]

/-- `subB` composes (under the composed correspondence): a history of any number of compatible edits is one compatible
change, so the theorems above cover 1-4 edits, or any number, without bound. -/
theorem sub_trans {ρ₁ ρ₂ : Rho} {A B C : Env} {tA tB tC : PTy} (h1 : subB ρ₁ A B tA tB = true) (h2 : subB ρ₂ B C tB tC = true)
    (hB : envWF B = true) (hC : envWF C = true) : subB (ρ₁.comp ρ₂) A C tA tC = true := by
  simp only [subB, Bool.and_eq_true] at h1 h2 ⊢
  exact ⟨compatEnv_trans h1.1 ⟨h2.1, hB, hC⟩, tySub_trans (compatEnv_wf h2.1) _ _ _ h1.2 h2.2⟩

/-! ## Each listed edit yields `subB`

Class level (any correspondence): the edited pair of classes satisfies `structSub` / `unionSub`; environment level for the
two edits that touch many classes at once (a field added to a class is inherited by all its descendants; a renaming changes
every reference). -/

/-- adding optional (`T?`) or defaulted fields, anywhere along the chain -/
theorem edit_add_optional_field {ρ : Rho} {A B : Env} {a b : String} {sa sb : StructDef}
    (hsa : A.struct? a = some sa) (hsb : B.struct? b = some sb)
    (hnd : nodupS (sb.allAttrs.map (·.name)) = true)
    (hkeep : ∀ f ∈ sa.allAttrs, f ∈ sb.allAttrs)
    (hnew : ∀ g ∈ sb.allAttrs, g ∈ sa.allAttrs ∨ newFieldOk B g = true)
    (hty : ∀ f ∈ sa.allAttrs, tySub ρ f.ty f.ty = true)
    (hsub : sa.subtypes = none ∧ sb.subtypes = none) :
    structSub ρ A B a b = true :=
  StoneVerif.Rt.Compat.edit_add_optional_field hsa hsb hnd hkeep hnew hty hsub

/-- the same edit on a whole environment: the field is inserted into the level of `cls` in every chain that contains it -/
theorem edit_add_optional_field_env {A : Env} (hA : envWF A = true) (g : FieldDef) (cls : String) (pos : Nat)
    (hB : envWF (addFieldEnv A g cls pos) = true) (hg : newFieldOk (addFieldEnv A g cls pos) g = true) {t : PTy}
    (ht : tyWF A t = true) :
    subB (Rho.idOf A) A (addFieldEnv A g cls pos) t t = true := by
  simp [subB, edit_add_field_env hA g cls pos hB hg, tySub_refl t ht]

/-- adding tags to an open union -/
theorem edit_add_tag_open {ρ : Rho} {A B : Env} {a b : String} {ua ub : UnionDef}
    (hua : A.union? a = some ua) (hub : B.union? b = some ub)
    (hnd : nodupS ((UnionDef.allTags ub).map (·.name)) = true)
    (hca : ua.catchAll = ub.catchAll) (hopen : ua.catchAll.isSome = true)
    (hkeep : ∀ t ∈ UnionDef.allTags ua, t ∈ UnionDef.allTags ub)
    (hty : ∀ t ∈ UnionDef.allTags ua, tySub ρ t.ty t.ty = true) :
    unionSub ρ A B a b = true :=
  StoneVerif.Rt.Compat.edit_add_tag_open hua hub hnd hca hopen hkeep hty

/-- giving Void tags a type -/
theorem edit_void_to_typed {ρ : Rho} {A B : Env} {a b : String} {ua ub : UnionDef}
    (hua : A.union? a = some ua) (hub : B.union? b = some ub) (hca : ua.catchAll = ub.catchAll)
    (hpair : ∀ t ∈ UnionDef.allTags ua, ∃ t', findTag t.name (UnionDef.allTags ub) = some t' ∧ t.omitted = t'.omitted ∧
      (tySub ρ t.ty t'.ty = true ∨ (isVoidT t.ty = true ∧ ua.catchAll ≠ some t.name)))
    (hnames : ∀ t' ∈ UnionDef.allTags ub, (findTag t'.name (UnionDef.allTags ua)).isSome = true) :
    unionSub ρ A B a b = true :=
  StoneVerif.Rt.Compat.edit_void_to_typed hua hub hca hpair hnames

/-- adding subtypes under a catch-all root -/
theorem edit_add_subtype_catch_all {ρ : Rho} {A B : Env} {a b : String} {sa sb : StructDef} {xa xb : List SubEntry}
    (hsa : A.struct? a = some sa) (hsb : B.struct? b = some sb)
    (hnd : nodupS (sb.allAttrs.map (·.name)) = true)
    (hattrs : sa.allAttrs = sb.allAttrs) (hty : ∀ f ∈ sa.allAttrs, tySub ρ f.ty f.ty = true)
    (hxa : sa.subtypes = some xa) (hxb : sb.subtypes = some xb)
    (hca : sa.catchAll = true) (hcb : sb.catchAll = true)
    (hkeep : ∀ e ∈ xa, ∃ e', findSub e.1 xb = some e' ∧ ρ.rel e.2.1 e'.2.1 = true ∧ e.2.2 = e'.2.2) :
    structSub ρ A B a b = true :=
  StoneVerif.Rt.Compat.edit_add_subtype_catch_all hsa hsb hnd hattrs hty hxa hxb hca hcb hkeep

/-- renaming types (one-to-one), on a whole environment; routes and aliases do not occur in environments at all (adding a
route, introducing or inlining an alias leaves the validator trees, hence `A` and `B`, identical: `sub_refl`) -/
theorem edit_rename {A : Env} (hA : envWF A = true) (r : String → String) (hinj : RenInj r A) {t : PTy}
    (ht : tyWF A t = true) : subB (Rho.ofRen r A) A (renEnv r A) t (renTy r t) = true := by
  simp [subB, edit_rename_env hA r hinj, tySub_ren t ht]

/-- the A-view of `None` is `None` at every type -/
theorem view_none (ρ : Rho) (A : Env) (t : PTy) : view ρ A t .none = .none :=
  StoneVerif.Rt.Compat.view_none ρ A t

/-! ## Non-vacuity: a small pair of environments with one edit of every listed kind -/

/-- external calls: any table will do (the theorems hold for every `Ext`) -/
def E0 : Ext where
  fltLt _ _ := false
  fltIsNan _ := false
  fltIsInf _ := false
  fltOfInt _ := some 0
  patMatch _ _ := true
  b64enc s := s
  b64dec s := some (some s)
  strftime _ _ := ""
  strptime _ _ := some 0
  md5 s := s
  reSearch _ _ := none
  strOfInt _ := ""
  strOfFlt _ := ""

def tInt : PTy := .int {} "Int32" (-5) 5
def tStrQ : PTy := .str { nullable := true } none none none
def fA : FieldDef := ⟨"a", tInt, false, false, none, none⟩
def fB : FieldDef := ⟨"b", tStrQ, true, false, none, none⟩                    -- added: b String?
def fC : FieldDef := ⟨"c", .bool {}, false, false, some (.bool true), none⟩   -- added: c Boolean = true
def fN : FieldDef := ⟨"n", .str {} none none none, false, false, none, none⟩
def fU : FieldDef := ⟨"u", .union {} "ns.U", false, true, none, none⟩

/-- the older spec -/
def envA : Env := ⟨
  [⟨"ns.S", [⟨"ns.S", [fA]⟩], none, false⟩,
   ⟨"ns.H", [⟨"ns.H", [fU]⟩], none, false⟩,
   ⟨"ns.R", [⟨"ns.R", [fA]⟩], some [(["file"], "ns.F", false)], true⟩,
   ⟨"ns.F", [⟨"ns.R", [fA]⟩, ⟨"ns.F", [fN]⟩], none, false⟩],
  [⟨"ns.U", [⟨"ns.U", [⟨"v", .void {}, none⟩, ⟨"w", .void {}, none⟩, ⟨"s", .struct {} "ns.S", none⟩,
      ⟨"other", .void {}, none⟩]⟩], some "other"⟩]⟩

/-- the newer spec: `ns.S` renamed `ns.T` with an optional and a defaulted field added; tag `n` added to the open union
`ns.U`, its Void tag `w` given a type; subtype `ns.G` added under the catch-all root `ns.R` -/
def envB : Env := ⟨
  [⟨"ns.T", [⟨"ns.T", [fA, fB, fC]⟩], none, false⟩,
   ⟨"ns.H", [⟨"ns.H", [fU]⟩], none, false⟩,
   ⟨"ns.R", [⟨"ns.R", [fA]⟩], some [(["file"], "ns.F", false), (["link"], "ns.G", false)], true⟩,
   ⟨"ns.F", [⟨"ns.R", [fA]⟩, ⟨"ns.F", [fN]⟩], none, false⟩,
   ⟨"ns.G", [⟨"ns.R", [fA]⟩, ⟨"ns.G", [fN]⟩], none, false⟩],
  [⟨"ns.U", [⟨"ns.U", [⟨"v", .void {}, none⟩, ⟨"w", tInt, none⟩, ⟨"n", tStrQ, none⟩, ⟨"s", .struct {} "ns.T", none⟩,
      ⟨"other", .void {}, none⟩]⟩], some "other"⟩]⟩

def rho0 : Rho := [("ns.S", "ns.T"), ("ns.H", "ns.H"), ("ns.R", "ns.R"), ("ns.F", "ns.F"), ("ns.U", "ns.U")]

/-- the hypotheses of the theorems hold of the pair, at every type of the older spec -/
example : envWF envA = true ∧ envWF envB = true ∧ envWFX envA = true ∧ envWFU envB = true ∧
    compatEnv rho0 envA envB = true := by decide +kernel
example : subB rho0 envA envB (.struct {} "ns.H") (.struct {} "ns.H") = true ∧
    subB rho0 envA envB (.tree {} "ns.R") (.tree {} "ns.R") = true ∧
    subB rho0 envA envB (.list {} (.union {} "ns.U") none none) (.list {} (.union {} "ns.U") none none) = true := by
  decide +kernel

/-- ... and the conclusions are not trivial: new fields inside a struct-typed union member inside a struct (dropped),
a new tag (read as `other`), a payload on a tag that was Void (forgotten), a new subtype (read as the base struct). -/
example :
    decode E0 envB [] false (.struct {} "ns.H")
      (.obj [("u", .obj [(".tag", .str "s"), ("a", .int 1), ("b", .str "x"), ("c", .bool false)])]) =
      .ok (.struct "ns.H" [("u", .union "ns.U" "s" (.struct "ns.T" [("a", .int 1), ("b", .str "x"), ("c", .bool false)]))]) ∧
    decode E0 envA [] false (.struct {} "ns.H")
      (.obj [("u", .obj [(".tag", .str "s"), ("a", .int 1), ("b", .str "x"), ("c", .bool false)])]) =
      .ok (.struct "ns.H" [("u", .union "ns.U" "s" (.struct "ns.S" [("a", .int 1)]))]) := ⟨rfl, rfl⟩
example :
    view rho0 envA (.struct {} "ns.H")
      (.struct "ns.H" [("u", .union "ns.U" "s" (.struct "ns.T" [("a", .int 1), ("b", .str "x"), ("c", .bool false)]))]) =
      .struct "ns.H" [("u", .union "ns.U" "s" (.struct "ns.S" [("a", .int 1)]))] := rfl
example :
    decode E0 envA [] false (.union {} "ns.U") (.obj [(".tag", .str "n"), ("n", .str "x")]) = .ok (.union "ns.U" "other" .none) ∧
    decode E0 envA [] false (.union {} "ns.U") (.obj [(".tag", .str "w"), ("w", .int 3)]) = .ok (.union "ns.U" "w" .none) ∧
    decode E0 envA [] false (.tree {} "ns.R") (.obj [(".tag", .str "link"), ("a", .int 2), ("n", .str "y")]) =
      .ok (.struct "ns.R" [("a", .int 2)]) ∧
    view rho0 envA (.union {} "ns.U") (.union "ns.U" "n" (.str "x")) = .union "ns.U" "other" .none ∧
    view rho0 envA (.union {} "ns.U") (.union "ns.U" "w" (.int 3)) = .union "ns.U" "w" .none ∧
    view rho0 envA (.tree {} "ns.R") (.struct "ns.G" [("a", .int 2), ("n", .str "y")]) = .struct "ns.R" [("a", .int 2)] := by
  exact ⟨rfl, rfl, rfl, rfl, rfl, rfl⟩

/-! ### the wire-form theorems on the pair: a value of the newer spec, serialised, read by the older spec -/

theorem E0_lawsB : ExtLaws E0 envB :=
  ⟨fun _ => rfl, fun _ => rfl, RoundTrip.dflt_refl_of_B (by decide +kernel)⟩
theorem E0_lawsA : ExtLaws E0 envA :=
  ⟨fun _ => rfl, fun _ => rfl, RoundTrip.dflt_refl_of_B (by decide +kernel)⟩

def tUs : PTy := .list {} (.union {} "ns.U") none none
/-- a list of union values of the newer spec: a struct member with the two added fields set, the added tag, the tag that
was Void with its new payload, and an untouched Void tag -/
def vB : PyVal := .list [.union "ns.U" "s" (.struct "ns.T" [("a", .int 1), ("b", .str "x"), ("c", .bool false)]),
  .union "ns.U" "n" (.str "x"), .union "ns.U" "w" (.int 3), .union "ns.U" "v" .none]

/-- the hypotheses of `forward_compat` hold of it -/
theorem vB_good : subB rho0 envA envB tUs tUs = true ∧ envRT envB = true ∧ tyWF envA tUs = true ∧ tyWF envB tUs = true ∧
    validB E0 envB tUs vB = true ∧ normalB envB tUs vB = true ∧ valWF E0 envB tUs vB = true ∧
    ambiguousEmpty envB tUs vB = false := by decide +kernel

/-- `forward_compat` instantiated ... -/
example : decode E0 envA [] false tUs (wire E0 envB tUs vB) = .ok (view rho0 envA tUs (canon envB tUs vB)) :=
  forward_compat E0 vB_good.1 (by decide +kernel) (by decide +kernel) (by decide +kernel) (by decide +kernel)
    vB_good.2.2.1 vB_good.2.1 E0_lawsB vB vB_good.2.2.2.1 vB_good.2.2.2.2.1 vB_good.2.2.2.2.2.1 vB_good.2.2.2.2.2.2.1
    vB_good.2.2.2.2.2.2.2
/-- ... and its conclusion is not trivial: the message carries the new fields, the new tag and the new payload; the older
peer's value has the fields dropped, the new tag read as `other`, the payload forgotten -/
example :
    wire E0 envB tUs vB = .arr [.obj [(".tag", .str "s"), ("a", .int 1), ("b", .str "x"), ("c", .bool false)],
      .obj [(".tag", .str "n"), ("n", .str "x")], .obj [(".tag", .str "w"), ("w", .int 3)], .obj [(".tag", .str "v")]] ∧
    view rho0 envA tUs (canon envB tUs vB) = .list [.union "ns.U" "s" (.struct "ns.S" [("a", .int 1)]),
      .union "ns.U" "other" .none, .union "ns.U" "w" .none, .union "ns.U" "v" .none] ∧
    knownDoc envA tUs (wire E0 envB tUs vB) = false := ⟨rfl, rfl, by decide +kernel⟩

/-- `strict_accepts_known_wire`: a value of the newer spec that uses nothing new is accepted by the older strict decoder -/
def vB' : PyVal := .list [.union "ns.U" "s" (.struct "ns.T" [("a", .int 1)]), .union "ns.U" "v" .none]
example : validB E0 envB tUs vB' = true ∧ normalB envB tUs vB' = true ∧ valWF E0 envB tUs vB' = true ∧
    ambiguousEmpty envB tUs vB' = false ∧ knownDoc envA tUs (wire E0 envB tUs vB') = true ∧
    decode E0 envA [] true tUs (wire E0 envB tUs vB') =
      .ok (.list [.union "ns.U" "s" (.struct "ns.S" [("a", .int 1)]), .union "ns.U" "v" .none]) :=
  ⟨by decide +kernel, by decide +kernel, by decide +kernel, by decide +kernel, by decide +kernel,
    by with_unfolding_all rfl⟩

/-- a list of union values of the older spec: a struct member and a Void tag -/
def vA : PyVal := .list [.union "ns.U" "s" (.struct "ns.S" [("a", .int 1)]), .union "ns.U" "v" .none]

/-- the hypotheses of `backward_compat` hold of it -/
theorem vA_good : envRT envA = true ∧ tyWF envA tUs = true ∧
    validB E0 envA tUs vA = true ∧ normalB envA tUs vA = true ∧ valWF E0 envA tUs vA = true ∧
    ambiguousEmpty envA tUs vA = false ∧ noVoidToRequired rho0 envA envB tUs vA = true := by decide +kernel

/-- `backward_compat` instantiated ... -/
example (strict : Bool) :
    decode E0 envB [] strict tUs (wire E0 envA tUs vA) = .ok (lift rho0 envB tUs (canon envA tUs vA)) :=
  backward_compat E0 vB_good.1 (by decide +kernel) (by decide +kernel) (by decide +kernel) (by decide +kernel)
    vA_good.1 E0_lawsA vA vA_good.2.1 vA_good.2.2.1 vA_good.2.2.2.1 vA_good.2.2.2.2.1 vA_good.2.2.2.2.2.1
    vA_good.2.2.2.2.2.2 strict
/-- ... and its conclusion is not trivial: the newer peer builds an instance of the renamed class `ns.T` with the added
fields unset (reading `c` gives the declared default through `attrGet`) -/
example :
    wire E0 envA tUs vA = .arr [.obj [(".tag", .str "s"), ("a", .int 1)], .obj [(".tag", .str "v")]] ∧
    lift rho0 envB tUs (canon envA tUs vA) =
      .list [.union "ns.U" "s" (.struct "ns.T" [("a", .int 1)]), .union "ns.U" "v" .none] := ⟨rfl, rfl⟩
/-- the same through a struct holding a union and through the enumerated subtypes -/
example : ∀ strict,
    (decode E0 envB [] strict (.tree {} "ns.R") (wire E0 envA (.tree {} "ns.R") (.struct "ns.F" [("a", .int 2), ("n", .str "y")])) =
      .ok (.struct "ns.F" [("a", .int 2), ("n", .str "y")])) ∧
    tightDoc envA (.tree {} "ns.R") (wire E0 envA (.tree {} "ns.R") (.struct "ns.F" [("a", .int 2), ("n", .str "y")])) = true := by
  intro strict; cases strict <;> exact ⟨by with_unfolding_all rfl, by decide +kernel⟩

/-- `wire_tight` / `wire_nvr` on the pair: the two message-level predicates evaluate as the theorems say, `nvrDoc` both ways -/
example : tightDoc envA tUs (wire E0 envA tUs vA) = true ∧ nvrDoc rho0 envA envB tUs (wire E0 envA tUs vA) = true ∧
    nvrDoc rho0 envA envB (.union {} "ns.U") (wire E0 envA (.union {} "ns.U") (.union "ns.U" "w" .none)) = false ∧
    noVoidToRequired rho0 envA envB (.union {} "ns.U") (.union "ns.U" "w" .none) = false := by decide +kernel

/-- `noVoidToRequired` is necessary: `w` is Void in `envA` and `Int32` in `envB` (a listed change, and harmless forwards);
the older peer's `U.w` is a valid value whose message the newer peer refuses, in both modes.  (The documented limit of
"giving a Void tag a type", not a defect.) -/
theorem void_to_required_witness :
    let v := PyVal.union "ns.U" "w" .none
    let t := PTy.union {} "ns.U"
    subB rho0 envA envB t t = true ∧ validB E0 envA t v = true ∧ normalB envA t v = true ∧ valWF E0 envA t v = true ∧
    ambiguousEmpty envA t v = false ∧ noVoidToRequired rho0 envA envB t v = false ∧
    (∀ strict, (match decode E0 envB [] strict t (wire E0 envA t v) with
      | .ok _ => false
      | .error e => e.isVerr) = true) := by decide +kernel

/-- each listed edit, alone, yields `compatEnv` (the harness additionally evaluates `compatEnv` on every generated pair) -/
def envS (fields : List FieldDef) : Env := ⟨[⟨"ns.S", [⟨"ns.S", fields⟩], none, false⟩], []⟩
def envU (tags : List TagDef) (ca : Option String) : Env := ⟨[], [⟨"ns.U", [⟨"ns.U", tags⟩], ca⟩]⟩
def tagsU : List TagDef := [⟨"v", .void {}, none⟩, ⟨"other", .void {}, none⟩]

example : compatEnv [("ns.S", "ns.S")] (envS [fA]) (envS [fA, fB]) = true := by decide +kernel          -- add optional field
example : compatEnv [("ns.S", "ns.S")] (envS [fA]) (envS [fC, fA]) = true := by decide +kernel          -- add defaulted field
example : compatEnv [("ns.S", "ns.S")] (envS [fA]) (envS [fA, fN]) = false := by decide +kernel         -- (a required one is refused)
example : compatEnv [("ns.U", "ns.U")] (envU tagsU (some "other")) (envU (⟨"n", tInt, none⟩ :: tagsU) (some "other")) = true := by
  decide +kernel                                                                                        -- add tag to open union
example : compatEnv [("ns.U", "ns.U")] (envU [⟨"v", .void {}, none⟩] none) (envU [⟨"v", .void {}, none⟩, ⟨"n", tInt, none⟩] none) = false := by
  decide +kernel                                                                                        -- (closed union: refused)
example : compatEnv [("ns.U", "ns.U")] (envU tagsU (some "other")) (envU [⟨"v", tInt, none⟩, ⟨"other", .void {}, none⟩] (some "other")) = true := by
  decide +kernel                                                                                        -- Void tag given a type
example : compatEnv [("ns.S", "ns.Renamed")] (envS [fA]) ⟨[⟨"ns.Renamed", [⟨"ns.Renamed", [fA]⟩], none, false⟩], []⟩ = true := by
  decide +kernel                                                                                        -- rename

/-- the environment-level edit lemmas apply to concrete edits -/
example : addFieldEnv (envS [fA]) fB "ns.S" 1 = envS [fA, fB] ∧ envWF (envS [fA]) = true ∧ envWF (envS [fA, fB]) = true ∧
    newFieldOk (envS [fA, fB]) fB = true := ⟨rfl, by decide +kernel, by decide +kernel, by decide +kernel⟩
example : RenInj (fun c => if c == "ns.S" then "ns.Renamed" else c) envA ∧
    ((renEnv (fun c => if c == "ns.S" then "ns.Renamed" else c) envA).struct? "ns.Renamed").isSome = true ∧
    renTy (fun c => if c == "ns.S" then "ns.Renamed" else c) (.list {} (.struct {} "ns.S") none none) =
      .list {} (.struct {} "ns.Renamed") none none := by
  refine ⟨?_, by decide +kernel, rfl⟩
  intro p hp q hq
  simp [Rho.idOf, envA] at hp hq
  rcases hp with rfl | rfl | rfl | rfl | rfl <;> rcases hq with rfl | rfl | rfl | rfl | rfl <;> decide

end StoneVerif.C07
