import StoneVerif.Lemmas.RtRoundTrip
import StoneVerif.Model.Rt.Encode
/-!
Property theorems for C04: decoding the JSON that serialising a valid value produces yields an equal value,
and serialising that result yields the same JSON again — strict and lenient, through the helper and the
`json_compat_obj_decode` entry point, for every type constructor (primitives, lists, maps, nullable, structs
with inheritance, enumerated subtypes, unions incl. struct-valued and union-valued members).

The theorems are stated over `wire` (Model/Rt/Spec.lean: json_serializer.rst as a function); C05 proves that the
encoder produces `wire`, so the two compose to the round trip of the property text.

Hypotheses (all decidable, evaluated on real data by the harness, except `ExtLaws`):
* `envWF env`, `tyWF env t`          what an accepted spec guarantees (Model/Rt/WF.lean)
* `envRT env`                        Model/Rt/RoundTripSpec.lean: attribute flags agree with the validators, subclasses
                                     inherit their parents' descriptors, and no field with an implicit validator
                                     default carries another explicit default (`nullable_alias_default_witness`
                                     shows the last clause is necessary: a genuine defect)
* `validB`, `normalB`                the value is valid and in stored form
* `valWF E env t v`                  unique attribute / key names, exact class at `Struct` positions
                                     (`subclass_witness`), no catch-all tag (`catch_all_witness`), timestamps
                                     representable in their format (`timestamp_witness`)
* `ambiguousEmpty env t v = false`   the documented exception (`ambiguous_empty_witness`)
* `ExtLaws E env`                    base64 round trip, irreflexivity of float `<`, reflexivity of `==` on
                                     declared defaults (decidable as `dfltsReflB`)
-/
namespace StoneVerif.C04
open StoneVerif.Rt StoneVerif.Rt.RoundTrip

/-- **C04, helper level.** Decoding the wire form of a valid value succeeds, in both modes, and yields a value
equal (Python `==`) to the original. -/
theorem decode_wire (E : Ext) (env : Env) (hwf : envWF env = true) (hrt : envRT env = true) (hE : ExtLaws E env)
    (strict : Bool) (t : PTy) (v : PyVal)
    (htwf : tyWF env t = true) (hv : validB E env t v = true) (hn : normalB env t v = true)
    (hvw : valWF E env t v = true) (hamb : ambiguousEmpty env t v = false) :
    ∃ v', decode E env [] strict t (wire E env t v) = .ok v' ∧ pyEq E env v v' = true :=
  have g : Good E env t v := ⟨htwf, hv, hn, hvw, hamb⟩
  ⟨canon env t v, decode_wire_canon hwf hrt hE strict t v g, pyEq_canon hwf hrt hE t v g⟩

/-- **C04, entry point.** The same through `json_compat_obj_decode` (which validates primitives and top-level
lists / maps / nullables in addition). -/
theorem jsonCompatObjDecode_wire (E : Ext) (env : Env) (hwf : envWF env = true) (hrt : envRT env = true)
    (hE : ExtLaws E env) (strict : Bool) (t : PTy) (v : PyVal)
    (htwf : tyWF env t = true) (hv : validB E env t v = true) (hn : normalB env t v = true)
    (hvw : valWF E env t v = true) (hamb : ambiguousEmpty env t v = false) :
    ∃ v', jsonCompatObjDecode E env [] strict t (wire E env t v) = .ok v' ∧ pyEq E env v v' = true :=
  have g : Good E env t v := ⟨htwf, hv, hn, hvw, hamb⟩
  ⟨canon env t v, jsonCompatObjDecode_wire_canon hwf hrt hE strict t v g, pyEq_canon hwf hrt hE t v g⟩

/-- **C04, complete statement.** One decoded value `v'` is returned by both entry points in both modes, it is
equal to the original, it passes the validator, it is again valid and in stored-normal form (so C05's
`encode_eq_wire` applies to it), and serialising it gives the same JSON again (so a second round trip changes
nothing). `v'` is the canonical form `canon env t v`. -/
theorem round_trip (E : Ext) (env : Env) (hwf : envWF env = true) (hrt : envRT env = true) (hE : ExtLaws E env)
    (t : PTy) (v : PyVal)
    (htwf : tyWF env t = true) (hv : validB E env t v = true) (hn : normalB env t v = true)
    (hvw : valWF E env t v = true) (hamb : ambiguousEmpty env t v = false) :
    ∃ v', (∀ strict, decode E env [] strict t (wire E env t v) = .ok v') ∧
      (∀ strict, jsonCompatObjDecode E env [] strict t (wire E env t v) = .ok v') ∧
      pyEq E env v v' = true ∧
      validate E env t v' = .ok v' ∧
      validB E env t v' = true ∧ normalB env t v' = true ∧
      wire E env t v' = wire E env t v :=
  have g : Good E env t v := ⟨htwf, hv, hn, hvw, hamb⟩
  ⟨canon env t v, fun strict => decode_wire_canon hwf hrt hE strict t v g,
    fun strict => jsonCompatObjDecode_wire_canon hwf hrt hE strict t v g,
    pyEq_canon hwf hrt hE t v g, validate_canon hwf hrt t v g,
    (canon_valid hwf hrt t v g).1, (canon_valid hwf hrt t v g).2, wire_canon hwf hrt t v g⟩

/-- **C04 in the words of the property**, given the encoder theorem of C05 for the type at hand
(`henc` is `C05.encode_eq_wire E env hwf hchain t · false htwf`): encoding a valid value succeeds with some
JSON `j`; decoding `j` (either entry point, either mode) yields a value equal to the original; and encoding
that result yields `j` again. -/
theorem encode_decode_encode (E : Ext) (env : Env) (hwf : envWF env = true) (hrt : envRT env = true)
    (hE : ExtLaws E env) (t : PTy) (v : PyVal)
    (htwf : tyWF env t = true) (hv : validB E env t v = true) (hn : normalB env t v = true)
    (hvw : valWF E env t v = true) (hamb : ambiguousEmpty env t v = false)
    (henc : ∀ w, validB E env t w = true → normalB env t w = true →
      encode E env [] false false t w = .ok (wire E env t w)) :
    ∃ j v', encode E env [] false false t v = .ok j ∧
      (∀ strict, decode E env [] strict t j = .ok v') ∧
      (∀ strict, jsonCompatObjDecode E env [] strict t j = .ok v') ∧
      pyEq E env v v' = true ∧
      encode E env [] false false t v' = .ok j := by
  obtain ⟨v', h1, h2, h3, _, h5, h6, h7⟩ := round_trip E env hwf hrt hE t v htwf hv hn hvw hamb
  exact ⟨wire E env t v, v', henc v hv hn, h1, h2, h3, by rw [henc v' h5 h6, h7]⟩

/-- Stability on its own: whatever a decoder returns for the wire form serialises to the same JSON. -/
theorem wire_stable (E : Ext) (env : Env) (hwf : envWF env = true) (hrt : envRT env = true) (hE : ExtLaws E env)
    (strict : Bool) (t : PTy) (v v' : PyVal)
    (htwf : tyWF env t = true) (hv : validB E env t v = true) (hn : normalB env t v = true)
    (hvw : valWF E env t v = true) (hamb : ambiguousEmpty env t v = false)
    (hdec : decode E env [] strict t (wire E env t v) = .ok v') :
    wire E env t v' = wire E env t v := by
  have g : Good E env t v := ⟨htwf, hv, hn, hvw, hamb⟩
  rw [decode_wire_canon hwf hrt hE strict t v g] at hdec
  cases hdec
  exact wire_canon hwf hrt t v g

/-! ## Non-vacuity: a concrete environment with inheritance, an enumerated-subtypes tree, and a union with
void / primitive / nullable / struct / nullable-struct / list / union / tree members and a catch-all. -/

def E0 : Ext where
  fltLt a b := a < b
  fltIsNan _ := false
  fltIsInf _ := false
  fltOfInt n := some n.toNat
  patMatch _ _ := true
  b64enc h := h
  b64dec s := some (some s)
  strftime _ _ := "t"
  strptime _ _ := some 3          -- only the timestamp with id 3 is representable
  md5 s := s
  reSearch _ _ := none
  strOfInt _ := ""
  strOfFlt _ := ""

def i32 : PTy := .int {} "Int32" (-2147483648) 2147483647
def nul : Flags := { nullable := true }
def lBase : Level := ⟨"ns.Base", [⟨"a", i32, false, false, none, none⟩,
  ⟨"b", .str nul none none none, true, false, none, none⟩]⟩
def lDer : Level := ⟨"ns.Derived", [
  ⟨"c", .list {} (.float {} "Float64" none none) none none, false, false, none, none⟩,
  ⟨"d", i32, false, false, some (.int 7), none⟩,
  ⟨"e", .struct nul "ns.Opt", true, true, none, none⟩,
  ⟨"t", .ts {} "%Y", false, false, none, none⟩,
  ⟨"m", .map {} (.str {} none none none) (.bytes {}), false, false, none, none⟩]⟩
def lOpt : Level := ⟨"ns.Opt", [⟨"x", .int nul "Int32" (-2147483648) 2147483647, true, false, none, none⟩]⟩
def lRoot : Level := ⟨"ns.Root", [⟨"r", i32, false, false, none, none⟩]⟩
def lLeaf : Level := ⟨"ns.Leaf", [⟨"l", .str {} none none none, false, false, none, none⟩]⟩

def env0 : Env where
  structs := [⟨"ns.Base", [lBase], none, false⟩, ⟨"ns.Derived", [lBase, lDer], none, false⟩,
    ⟨"ns.Opt", [lOpt], none, false⟩,
    ⟨"ns.Root", [lRoot], some [(["leaf"], "ns.Leaf", false)], false⟩,
    ⟨"ns.Leaf", [lRoot, lLeaf], none, false⟩]
  unions := [
    ⟨"ns.V", [⟨"ns.V", [⟨"a", .void {}, none⟩, ⟨"b", .str {} none none none, none⟩]⟩], none⟩,
    ⟨"ns.U", [⟨"ns.U", [⟨"v", .void {}, none⟩, ⟨"i", i32, none⟩, ⟨"ni", .int nul "Int32" 0 10, none⟩,
       ⟨"s", .struct {} "ns.Derived", none⟩, ⟨"no", .struct nul "ns.Opt", none⟩,
       ⟨"l", .list {} (.struct {} "ns.Opt") none none, none⟩, ⟨"uu", .union {} "ns.V", none⟩,
       ⟨"t", .tree {} "ns.Root", none⟩, ⟨"other", .void {}, none⟩]⟩], some "other"⟩]

/-- an instance of a struct that extends another: inherited field, list of floats, unset defaulted field,
all-optional struct member, timestamp, map of bytes -/
def vDer : PyVal := .struct "ns.Derived" [("a", .int 5), ("c", .list [.flt 3, .flt 4]), ("e", .struct "ns.Opt" []),
  ("t", .ts 3 true), ("m", .dict [(.str "k", .bytes "00ff")])]
def tU : PTy := .union {} "ns.U"
/-- a list of union values covering every kind of member -/
def tUs : PTy := .list {} tU none none
def vUs : PyVal := .list [.union "ns.U" "s" vDer, .union "ns.U" "v" .none, .union "ns.U" "i" (.bool true),
  .union "ns.U" "ni" .none, .union "ns.U" "ni" (.int 3), .union "ns.U" "no" .none,
  .union "ns.U" "no" (.struct "ns.Opt" [("x", .int 1)]),
  .union "ns.U" "l" (.list [.struct "ns.Opt" [], .struct "ns.Opt" [("x", .int 1)]]),
  .union "ns.U" "uu" (.union "ns.V" "b" (.str "q")), .union "ns.U" "uu" (.union "ns.V" "a" .none),
  .union "ns.U" "t" (.struct "ns.Leaf" [("r", .int 1), ("l", .str "z")])]

theorem E0_laws : ExtLaws E0 env0 :=
  ⟨fun _ => rfl, fun x => by simp [E0], dflt_refl_of_B (by decide +kernel)⟩

example : envWF env0 = true ∧ envRT env0 = true := by decide +kernel

/-- the hypotheses of `round_trip` hold of the concrete value -/
theorem vUs_good : tyWF env0 tUs = true ∧ validB E0 env0 tUs vUs = true ∧ normalB env0 tUs vUs = true ∧
    valWF E0 env0 tUs vUs = true ∧ ambiguousEmpty env0 tUs vUs = false := by decide +kernel

/-- and the conclusion evaluates as stated, in both modes and through both entry points -/
example : ∀ strict, (match decode E0 env0 [] strict tUs (wire E0 env0 tUs vUs),
      jsonCompatObjDecode E0 env0 [] strict tUs (wire E0 env0 tUs vUs) with
    | .ok v', .ok v'' => pyEq E0 env0 vUs v' && pyEq E0 env0 vUs v'' && !pyEq E0 env0 vUs (.list [])
    | _, _ => false) = true := by decide +kernel

/-- the code-following encoder feeding the decoder on the same value (what C05 ∘ C04 says) -/
example : ∀ strict, (match encode E0 env0 [] false false tUs vUs with
    | .ok j => (match decode E0 env0 [] strict tUs j with
      | .ok v' => pyEq E0 env0 vUs v'
      | .error _ => false)
    | .error _ => false) = true := by decide +kernel

/-- `round_trip` instantiated -/
example : ∃ v', (∀ strict, decode E0 env0 [] strict tUs (wire E0 env0 tUs vUs) = .ok v') ∧
    (∀ strict, jsonCompatObjDecode E0 env0 [] strict tUs (wire E0 env0 tUs vUs) = .ok v') ∧
    pyEq E0 env0 vUs v' = true ∧ validate E0 env0 tUs v' = .ok v' ∧
    validB E0 env0 tUs v' = true ∧ normalB env0 tUs v' = true ∧ wire E0 env0 tUs v' = wire E0 env0 tUs vUs :=
  round_trip E0 env0 (by decide +kernel) (by decide +kernel) E0_laws tUs vUs
    vUs_good.1 vUs_good.2.1 vUs_good.2.2.1 vUs_good.2.2.2.1 vUs_good.2.2.2.2

/-! ## The hypotheses are necessary: witnesses (each replayable on the Python) -/

/-- does decoding the wire form give back an equal value? -/
def roundTrips (E : Ext) (env : Env) (strict : Bool) (t : PTy) (v : PyVal) : Bool :=
  match decode E env [] strict t (wire E env t v) with
  | .ok v' => pyEq E env v v'
  | .error _ => false

/-- The documented exception (json_serializer.rst): a union member of nullable struct type carrying an instance
with no field set serialises as the bare tag and deserialises as `None`: `U.no(Opt())` comes back as `U.no(None)`. -/
theorem ambiguous_empty_witness :
    let v := PyVal.union "ns.U" "no" (.struct "ns.Opt" [])
    validB E0 env0 tU v = true ∧ normalB env0 tU v = true ∧ valWF E0 env0 tU v = true ∧
    ambiguousEmpty env0 tU v = true ∧
    (∀ strict, (match decode E0 env0 [] strict tU (wire E0 env0 tU v) with
      | .ok (.union _ "no" .none) => true
      | _ => false) = true) ∧
    (∀ strict, roundTrips E0 env0 strict tU v = false) := by decide +kernel

/-- The catch-all tag is a valid value of the union but cannot be sent: the decoder refuses it. -/
theorem catch_all_witness :
    let v := PyVal.union "ns.U" "other" .none
    validB E0 env0 tU v = true ∧ normalB env0 tU v = true ∧ ambiguousEmpty env0 tU v = false ∧
    valWF E0 env0 tU v = false ∧
    (∀ strict, (match decode E0 env0 [] strict tU (wire E0 env0 tU v) with
      | .ok _ => false
      | .error e => e.isVerr) = true) := by decide +kernel

/-- An instance of a subclass held where the parent class is declared is valid, but only the parent's fields are
serialised (documented in `Struct.validate_type_only`), so the decoded parent instance is not equal to it. -/
theorem subclass_witness :
    let t := PTy.struct {} "ns.Base"
    validB E0 env0 t vDer = true ∧ normalB env0 t vDer = true ∧ ambiguousEmpty env0 t vDer = false ∧
    valWF E0 env0 t vDer = false ∧
    (∀ strict, roundTrips E0 env0 strict t vDer = false) := by decide +kernel

/-- A timestamp that `strptime (strftime ·)` does not give back (e.g. microseconds under a format without `%f`). -/
theorem timestamp_witness :
    let t := PTy.ts {} "%Y"
    let v := PyVal.ts 4 true
    validB E0 env0 t v = true ∧ normalB env0 t v = true ∧ ambiguousEmpty env0 t v = false ∧
    valWF E0 env0 t v = false ∧
    (∀ strict, roundTrips E0 env0 strict t v = false) := by decide +kernel

/-- `alias NI = Int32?` / `struct S` / `f NI = 5`: the attribute is not nullable (the IR type is an alias), the
validator is, and the field has the default 5. `S()` reads `f == 5`, serialises as `{}`, and the decoder assigns
`get_default()` of the *validator* — `None` — so the decoded instance reads `f == None`. A genuine defect of the
runtime (replayed on the generated Python); `envRT` excludes it. -/
def envAlias : Env where
  structs := [⟨"ns.S", [⟨"ns.S", [⟨"f", .int nul "Int32" (-2147483648) 2147483647, false, false, some (.int 5), none⟩]⟩],
    none, false⟩]
  unions := []

theorem nullable_alias_default_witness :
    let t := PTy.struct {} "ns.S"
    let v := PyVal.struct "ns.S" []
    envWF envAlias = true ∧ envRT envAlias = false ∧ dfltsReflB E0 envAlias = true ∧ tyWF envAlias t = true ∧
    validB E0 envAlias t v = true ∧ normalB envAlias t v = true ∧ valWF E0 envAlias t v = true ∧
    ambiguousEmpty envAlias t v = false ∧
    (∀ strict, (match decode E0 envAlias [] strict t (wire E0 envAlias t v) with
      | .ok (.struct "ns.S" [("f", .none)]) => true
      | _ => false) = true) ∧
    (∀ strict, roundTrips E0 envAlias strict t v = false) := by decide +kernel

end StoneVerif.C04
