import StoneVerif.Model.Graph
/-! Property C20 (placeholder while the proofs are being written). -/
namespace StoneVerif.C20
open StoneVerif.Graph

theorem closure_contains_seeds_nil (g : Graph) : closure g [] = iter (succ g) g.nodes.length [] := rfl

end StoneVerif.C20
