import StoneVerif.Model.Graph
import StoneVerif.Lemmas.GraphComplete
import StoneVerif.Lemmas.GraphAliases
/-!
# C20 — a route whitelist yields a dependency-closed, minimal API

`Edge` is the dependency relation of the property text, `closure g seeds` the reference closure
(fuel = number of nodes), `whitelistFilter` the code-following model of
`IRGenerator._filter_namespaces_by_route_whitelist`.

Side conditions (all decidable, evaluated by the driver on every dump, `Model/Graph.lean`):
* `refsOk` - the dump is well formed (ids as documented, references name nodes);
* `docsAgree` - every doc string the walk parses yields, in the namespace it is parsed in, what its
  references denote where they were written;
* `tagDefaultsOk` - the union of a tag default is the unwrapped type of its field;
* `routeDocsClosed`, `seedDocRoutesKept` - the two kinds of doc edges the code does not follow.
-/
namespace StoneVerif.C20
open StoneVerif.Graph

/-! ## The reference closure -/

/-- `succ` computes exactly the edge relation -/
theorem edge_iff_mem_succ (g : Graph) (a b : Id) : Edge g a b ↔ b ∈ succ g a := Graph.edge_iff_mem_succ g a b

theorem closure_contains_seeds (g : Graph) (S : List Id) : ∀ s ∈ S, s ∈ closure g S :=
  closure_contains_seeds' g S

/-- the closure lies inside every closed set that contains the seeds -/
theorem closure_least (g : Graph) (S : List Id) (T : Id → Prop) (hS : ∀ s ∈ S, T s)
    (hT : ∀ t u, T t → Edge g t u → T u) : ∀ x ∈ closure g S, T x :=
  closure_least' g S T hS hT

/-- The fuel bound (number of nodes) suffices: `closure g S` is closed under the dependency
relation, on a well-formed dump, for seeds that are ids of the dump. -/
theorem closure_closed (g : Graph) (hwf : g.refsOk = true) (S : List Id) (hS : ∀ s ∈ S, s ∈ g.ids) :
    ∀ t ∈ closure g S, ∀ u, Edge g t u → u ∈ closure g S :=
  fun t ht u he => closure_closed' g hwf S hS t u ht he

theorem closure_mono (g : Graph) (hwf : g.refsOk = true) (S S' : List Id) (hS' : ∀ s ∈ S', s ∈ g.ids)
    (h : ∀ s ∈ S, s ∈ S') : ∀ x ∈ closure g S, x ∈ closure g S' :=
  closure_least g S (· ∈ closure g S') (fun s hs => closure_contains_seeds g S' s (h s hs))
    (fun t u ht he => closure_closed g hwf S' hS' t ht u he)

/-- the seeds of a whitelist are ids of the dump (so `closure_closed` applies to them) -/
theorem seeds_are_ids (g : Graph) (hwf : g.refsOk = true) (wl : Whitelist) : ∀ s ∈ seeds g wl, s ∈ g.ids :=
  seeds_mem_ids hwf wl

/-! ## Witness graphs (the hand-written specs `harness/specs/graph_m*`) -/

/-- `struct S`, `struct T`, `alias TA = T`, `route r (S, Void, Void)` -/
def gAlias : Graph :=
  { nodes := [
      { id := "a.S", kind := .struct, ns := "a", name := "S", fields := [{ name := "f" }] },
      { id := "a.T", kind := .struct, ns := "a", name := "T", fields := [{ name := "g" }] },
      { id := "a.TA", kind := .alias, ns := "a", name := "TA", target := .ref "a.T" },
      { id := "a.r:1", kind := .route, ns := "a", name := "r", arg := .ref "a.S" }],
    namespaces := [{ name := "a", routes := ["a.r:1"], dataTypes := ["a.S", "a.T"], aliases := ["a.TA"] }] }

/-- `struct Arg "Compare :route:`other`."`, `route main (Arg, ..)`,
`route other (OtherArg, ..) "Uses :type:`Mentioned`."` -/
def gRouteDoc : Graph :=
  { nodes := [
      { id := "d.Arg", kind := .struct, ns := "d", name := "Arg", fields := [{ name := "a" }],
        docRefs := [{ tag := "route", val := "other" }] },
      { id := "d.OtherArg", kind := .struct, ns := "d", name := "OtherArg", fields := [{ name := "b" }] },
      { id := "d.Mentioned", kind := .struct, ns := "d", name := "Mentioned", fields := [{ name := "c" }] },
      { id := "d.main:1", kind := .route, ns := "d", name := "main", arg := .ref "d.Arg" },
      { id := "d.other:1", kind := .route, ns := "d", name := "other", arg := .ref "d.OtherArg",
        docRefs := [{ tag := "type", val := "Mentioned" }] }],
    namespaces := [{ name := "d", routes := ["d.main:1", "d.other:1"],
                     dataTypes := ["d.Arg", "d.OtherArg", "d.Mentioned"] }] }

/-- `route main (Arg, ..) "See :route:`see_also:2`."`, `route see_also:2 (SeeArg, ..)` -/
def gSeedDoc : Graph :=
  { nodes := [
      { id := "e.Arg", kind := .struct, ns := "e", name := "Arg", fields := [{ name := "a" }] },
      { id := "e.SeeArg", kind := .struct, ns := "e", name := "SeeArg", fields := [{ name := "c" }] },
      { id := "e.main:1", kind := .route, ns := "e", name := "main", arg := .ref "e.Arg",
        docRefs := [{ tag := "route", val := "see_also:2" }] },
      { id := "e.see_also:2", kind := .route, ns := "e", name := "see_also", version := 2, arg := .ref "e.SeeArg" }],
    namespaces := [{ name := "e", routes := ["e.main:1", "e.see_also:2"], dataTypes := ["e.Arg", "e.SeeArg"] }] }

/-- namespace `base`: `struct P { f String "Documented with :type:`Q`." }`, `struct Q`;
namespace `derived`: `struct C extends base.P`, `struct Q`, `route r (C, ..)` -/
def gInherit : Graph :=
  { nodes := [
      { id := "base.P", kind := .struct, ns := "base", name := "P",
        fields := [{ name := "f", docRefs := [{ tag := "type", val := "Q" }] }] },
      { id := "base.Q", kind := .struct, ns := "base", name := "Q", fields := [{ name := "g" }] },
      { id := "derived.C", kind := .struct, ns := "derived", name := "C", parent := some "base.P",
        fields := [{ name := "h" }] },
      { id := "derived.Q", kind := .struct, ns := "derived", name := "Q", fields := [{ name := "x" }] },
      { id := "derived.r:1", kind := .route, ns := "derived", name := "r", arg := .ref "derived.C" }],
    namespaces := [{ name := "base", dataTypes := ["base.P", "base.Q"] },
                   { name := "derived", routes := ["derived.r:1"], dataTypes := ["derived.C", "derived.Q"] }] }

/-- the same without `derived.Q`: the real filter raises `KeyError('Q')` -/
def gInheritCrash : Graph :=
  { gInherit with
    nodes := gInherit.nodes.filter (fun n => n.id != "derived.Q")
    namespaces := [{ name := "base", dataTypes := ["base.P", "base.Q"] },
                   { name := "derived", routes := ["derived.r:1"], dataTypes := ["derived.C"] }] }

def wlOne (ns r : String) : Whitelist := { routes := [(ns, [r])], datatypes := [] }

def typesOf (g : Graph) (wl : Whitelist) : Option (List Id) := (whitelistFilter g wl).toOption.map (·.types)
def routesOf (g : Graph) (wl : Whitelist) : Option (List Id) := (whitelistFilter g wl).toOption.map (·.routes)
def aliasesOf (g : Graph) (wl : Whitelist) : Option (List Id) := (whitelistFilter g wl).toOption.map (·.aliases)

/-! ## The filter against the closure -/

/-- MINIMALITY (full): no data type and no route outside the closure is retained. -/
theorem filter_subset_closure (g : Graph) (wl : Whitelist) (r : Filtered) (hwf : g.refsOk = true)
    (hda : docsAgree g = true) (h : whitelistFilter g wl = .ok r) :
    (∀ t ∈ r.types, t ∈ closure g (seeds g wl)) ∧ (∀ rt ∈ r.routes, rt ∈ closure g (seeds g wl)) :=
  filter_sound hwf hda h (closure_closed' g hwf _ (seeds_mem_ids hwf wl)) (closure_contains_seeds g _)

/-- Regression (formerly the witness that `docsAgree` fails on real dumps): an inherited member's doc used to be read in
the namespace of the child, so that `derived.Q` was retained instead of `base.Q`. The walk now reads it with its
owner: the dump satisfies `docsAgree` and the retained data types are those of the closure. -/
example : gInherit.refsOk = true ∧ docsAgree gInherit = true ∧
    typesOf gInherit (wlOne "derived" "r") = some ["derived.C", "base.P", "base.Q"] ∧
    closure gInherit (seeds gInherit (wlOne "derived" "r")) = ["derived.r:1", "derived.C", "base.P", "base.Q"] := by
  decide

/-- ... and when the child namespace has no such name the filter used to fail with `KeyError('Q')`; it succeeds. -/
example : typesOf gInheritCrash (wlOne "derived" "r") = some ["derived.C", "base.P", "base.Q"] := by decide

/-- the filter's `types` are data types, and each is a marked node of the walk -/
theorem filter_types_are_types (g : Graph) (wl : Whitelist) (r : Filtered) (hwf : g.refsOk = true)
    (hda : docsAgree g = true) (h : whitelistFilter g wl = .ok r) :
    ∀ t ∈ r.types, g.isTypeId t = true := by
  obtain ⟨st, wlRoutes, hrun, e1, _, _⟩ := filterRun_of_ok hwf hda h
  intro t ht
  rw [e1] at ht
  exact ((hrun.inv.types t).1 ht).2

/-- a whitelisted route is no data type -/
theorem wl_route_not_type {g : Graph} (hwf : g.refsOk = true) {wl : Whitelist} {t : Id}
    (hk : t ∈ wlAllRouteIds g wl) (hty : g.isTypeId t = true) : False := by
  obtain ⟨_, _, _, nd, hnd, hkr, _⟩ := wl_route_kind hwf hk
  obtain ⟨n', hn', ht'⟩ := isTypeId_iff.1 hty
  rw [hnd] at hn'; cases hn'
  simp [Node.isType, hkr] at ht'

/--
On a well-formed dump the data types retained by `whitelistFilter` are exactly the data types of
`closure g (seeds g wl)`. `docsAgree` (the code-level reading of every doc string denotes what the references
mean in the namespace that declares them) and `tagDefaultsOk` hold of every dump of a compiled Api; the driver
evaluates them on each. (Until the walk was repaired the statement was FALSE of the code for the docs of routes
that are kept because a doc refers to them and for docs of inherited members; it carried the hypothesis
`routeDocsClosed` and was called `filter_eq_closure_partial`.)
-/
theorem filter_eq_closure (g : Graph) (wl : Whitelist) (r : Filtered) (hwf : g.refsOk = true)
    (hda : docsAgree g = true) (htd : tagDefaultsOk g = true)
    (h : whitelistFilter g wl = .ok r) :
    ∀ t, t ∈ r.types ↔ (t ∈ closure g (seeds g wl) ∧ g.isTypeId t = true) := by
  intro t
  constructor
  · intro ht
    exact ⟨(filter_subset_closure g wl r hwf hda h).1 t ht, filter_types_are_types g wl r hwf hda h t ht⟩
  · rintro ⟨hc, hty⟩
    obtain ⟨st, wlRoutes, hrun, e1, _, _⟩ := filterRun_of_ok hwf hda h
    have hk := closure_least g _ (Known g wl st) (seeds_known hrun) (known_closed hwf hda htd hrun) t hc
    rw [e1]
    rcases hk with hk | hk
    · exact (hrun.inv.types t).2 ⟨hk, hty⟩
    · exact (wl_route_not_type hwf hk hty).elim

/-- non-vacuity: the hypotheses of `filter_eq_closure` hold on a graph where the filter removes a type -/
example : gAlias.refsOk = true ∧ docsAgree gAlias = true ∧ tagDefaultsOk gAlias = true ∧
    typesOf gAlias (wlOne "a" "r") = some ["a.S"] := by decide

/-- Regression (formerly the witness that `routeDocsClosed` cannot be dropped): `d.other` is kept because the doc of
`d.Arg` refers to it; its own doc refers to `d.Mentioned`, which is in the closure - and is now retained. -/
example : gRouteDoc.refsOk = true ∧ docsAgree gRouteDoc = true ∧ routeDocsClosed gRouteDoc (wlOne "d" "main") = false ∧
    typesOf gRouteDoc (wlOne "d" "main") = some ["d.Arg", "d.OtherArg", "d.Mentioned"] ∧
    routesOf gRouteDoc (wlOne "d" "main") = some ["d.main:1", "d.other:1"] ∧
    "d.Mentioned" ∈ closure gRouteDoc (seeds gRouteDoc (wlOne "d" "main")) := by decide

/--
The routes retained are exactly the routes of the closure. (Formerly `filter_routes_eq_closure_partial`, with the
hypotheses `routeDocsClosed` and `seedDocRoutesKept`: a route referred to by the doc of a whitelisted route or
namespace contributed its types and was dropped itself.)
-/
theorem filter_routes_eq_closure (g : Graph) (wl : Whitelist) (r : Filtered) (hwf : g.refsOk = true)
    (hda : docsAgree g = true) (htd : tagDefaultsOk g = true) (h : whitelistFilter g wl = .ok r) :
    ∀ x, x ∈ r.routes ↔ (x ∈ closure g (seeds g wl) ∧ g.isRouteId x = true) := by
  obtain ⟨st, wlRoutes, hrun, _, e2, _⟩ := filterRun_of_ok hwf hda h
  have hmem : ∀ x, x ∈ r.routes ↔ (x ∈ wlAllRouteIds g wl ∨ x ∈ st.routes) := by
    intro x
    rw [e2, mem_addAll, hrun.wlr]
    simp
  intro x
  constructor
  · intro hx
    refine ⟨(filter_subset_closure g wl r hwf hda h).2 x hx, ?_⟩
    rcases (hmem x).1 hx with h' | h'
    · obtain ⟨_, _, _, nd, hnd, hkr, _⟩ := wl_route_kind hwf h'
      exact isRouteId_iff.2 ⟨nd, hnd, by simp [Node.isRoute, hkr]⟩
    · exact ((hrun.inv.routes x).1 h').2
  · rintro ⟨hc, hr⟩
    have hk := closure_least g _ (Known g wl st) (seeds_known hrun) (known_closed hwf hda htd hrun) x hc
    rcases hk with hk | hk
    · exact (hmem x).2 (Or.inr ((hrun.inv.routes x).2 ⟨hk, hr⟩))
    · exact (hmem x).2 (Or.inl hk)

/-- Regression (formerly the witness that `seedDocRoutesKept` cannot be dropped): `e.see_also:2` is referred to by the
doc of the whitelisted `e.main`; its argument type was retained and the route was not - now both are. -/
example : gSeedDoc.refsOk = true ∧ docsAgree gSeedDoc = true ∧
    seedDocRoutesKept gSeedDoc (wlOne "e" "main") = false ∧
    typesOf gSeedDoc (wlOne "e" "main") = some ["e.Arg", "e.SeeArg"] ∧
    routesOf gSeedDoc (wlOne "e" "main") = some ["e.main:1", "e.see_also:2"] ∧
    "e.see_also:2" ∈ closure gSeedDoc (seeds gSeedDoc (wlOne "e" "main")) := by decide

/-! ## Whitelisted items are kept -/

/-- every whitelisted route (`"*"` = all routes of the namespace, `name`, `name:version`) is retained -/
theorem routes_kept (g : Graph) (wl : Whitelist) (r : Filtered) (hwf : g.refsOk = true)
    (hda : docsAgree g = true) (h : whitelistFilter g wl = .ok r) :
    ∀ p ∈ wl.routes, ∀ rt ∈ wlRouteIds g p.1 p.2, rt ∈ r.routes := by
  obtain ⟨st, wlRoutes, hrun, _, e2, _⟩ := filterRun_of_ok hwf hda h
  intro p hp rt hrt
  rw [e2, mem_addAll, hrun.wlr]
  refine Or.inr (List.mem_append_left _ ?_)
  simp only [wlAllRouteIds, List.mem_flatMap]
  exact ⟨p, hp, hrt⟩

/-- every whitelisted data type is retained -/
theorem types_kept (g : Graph) (wl : Whitelist) (r : Filtered) (hwf : g.refsOk = true)
    (hda : docsAgree g = true) (h : whitelistFilter g wl = .ok r) :
    ∀ p ∈ wl.datatypes, ∀ name ∈ p.2, ∀ t, g.typeByName p.1 name = some t → t ∈ r.types := by
  obtain ⟨st, wlRoutes, hrun, e1, _, _⟩ := filterRun_of_ok hwf hda h
  intro p hp name hname t ht
  rw [e1]
  have hs : Item.node t ∈ st.seen :=
    start_seen hrun (hrun.startTy p hp t (by simp only [List.mem_flatMap]; exact ⟨name, hname, by simp [ht]⟩))
  obtain ⟨n, hn, hty, _⟩ := typeByName_some ht
  exact (hrun.inv.types t).2 ⟨hs, isTypeId_iff.2 ⟨n, hn, hty⟩⟩

example : routesOf gAlias { routes := [("a", ["*"])], datatypes := [("a", ["T"])] } = some ["a.r:1"] ∧
    typesOf gAlias { routes := [("a", ["*"])], datatypes := [("a", ["T"])] } = some ["a.S", "a.T"] := by decide

/-! ## No dangling reference -/

/-- `hardRefs` lists exactly the held references -/
theorem mem_hardRefs_iff (g : Graph) (a b : Id) : b ∈ hardRefs g a ↔ HardEdge g a b := by
  constructor
  · intro h
    simp only [hardRefs] at h
    split at h
    · rename_i n hn
      simp only [Node.hardRefs] at h
      split at h
      · rename_i hk
        have ht : n.isType = true := by simp [Node.isType, hk]
        simp only [List.mem_append, List.mem_flatMap] at h
        rcases h with (⟨f, hf, hb⟩ | hp) | hs
        · exact .fieldType hn ht hf hb
        · exact .parent hn ht (by simpa [Option.mem_toList] using hp)
        · exact .subtype hn hk hs
      · rename_i hk
        have ht : n.isType = true := by simp [Node.isType, hk]
        simp only [List.mem_append, List.mem_flatMap] at h
        rcases h with ⟨f, hf, hb⟩ | hp
        · exact .fieldType hn ht hf hb
        · exact .parent hn ht (by simpa [Option.mem_toList] using hp)
      · rename_i hk
        exact .aliasTarget hn hk h
      · rename_i hk
        simp only [List.mem_append] at h
        rcases h with (h | h) | h
        · exact .routeArg hn hk h
        · exact .routeResult hn hk h
        · exact .routeError hn hk h
    · simp at h
  · intro h
    cases h with
    | fieldType hn ht hf hb =>
      rename_i n f
      simp only [hardRefs, hn, Node.hardRefs]
      simp only [Node.isType, Bool.or_eq_true, beq_iff_eq] at ht
      rcases ht with ht | ht <;> simp only [ht, List.mem_append, List.mem_flatMap]
      · exact Or.inl (Or.inl ⟨f, hf, hb⟩)
      · exact Or.inl ⟨f, hf, hb⟩
    | parent hn ht hp =>
      rename_i n
      simp only [hardRefs, hn, Node.hardRefs]
      simp only [Node.isType, Bool.or_eq_true, beq_iff_eq] at ht
      rcases ht with ht | ht <;> simp [ht, hp]
    | subtype hn hk hb => simp [hardRefs, hn, Node.hardRefs, hk, hb]
    | aliasTarget hn hk hb => simp [hardRefs, hn, Node.hardRefs, hk, hb]
    | routeArg hn hk hb => simp [hardRefs, hn, Node.hardRefs, hk, hb]
    | routeResult hn hk hb => simp [hardRefs, hn, Node.hardRefs, hk, hb]
    | routeError hn hk hb => simp [hardRefs, hn, Node.hardRefs, hk, hb]

/-- REGRESSION (D16, repaired in /repo by "a route whitelist drops the aliases of data types it
removed"; was the witness that every alias survived): `alias TA = T` goes when `T` goes (hand spec
`graph_m1_alias`), and stays when `T` is whitelisted. -/
example : aliasesOf gAlias (wlOne "a" "r") = some [] ∧ typesOf gAlias (wlOne "a" "r") = some ["a.S"] ∧
    "a.T" ∈ hardRefs gAlias "a.TA" ∧
    aliasesOf gAlias { routes := [], datatypes := [("a", ["T"])] } = some ["a.TA"] := by decide

/-- the items the filtered Api shows to a backend -/
def Retained (r : Filtered) (a : Id) : Prop := a ∈ r.types ∨ a ∈ r.routes ∨ a ∈ r.aliases

/-- an alias the walk reached is retained -/
theorem reached_aliases_retained (g : Graph) (wl : Whitelist) (r : Filtered) (hwf : g.refsOk = true)
    (hda : docsAgree g = true) (h : whitelistFilter g wl = .ok r) :
    ∀ a ∈ r.reachedAliases g, a ∈ r.aliases := by
  obtain ⟨st, wlRoutes, hrun, e1, e2, e4, hals⟩ := filterRun_of_ok hwf hda h
  obtain ⟨hall, hmem⟩ := filterAliases_mem hals
  intro a ha
  simp only [Filtered.reachedAliases, e4, List.mem_filterMap] at ha
  obtain ⟨it, hit, hx⟩ := ha
  cases it with
  | field o f c => simp at hx
  | node j =>
    simp only at hx
    split at hx
    · rename_i hal
      have : j = a := by simpa using hx
      subst this
      obtain ⟨nd, hnd, hk⟩ := isAliasId_iff.1 hal
      have hin : j ∈ g.allAliases := mem_allAliases.2 ⟨nd, hnd, hk⟩
      obtain ⟨nd', b, hnd', hb⟩ := hall j hin
      rw [hnd] at hnd'; cases hnd'
      refine (hmem j).2 ⟨hin, nd, hnd, ?_⟩
      -- everything the walk marked: data types are retained, aliases keep their targets marked
      have hb' : b = true := targetRetained_of_closed (fun i => Item.node i ∈ st.seen)
        (fun i n hi hn ht => (hrun.inv.types i).2 ⟨hi, isTypeId_iff.2 ⟨n, hn, ht⟩⟩)
        (fun i n hi hn hal' c hc => by
          have hkind : n.kind = .alias := by
            rcases kind_cases n with h' | h' | h'
            · simp [hal'] at h'
            · exact h'.2.2.2
            · simp [hal'] at h'
          exact known_closed_hard hwf hda hrun (Or.inl hi) (.aliasTarget hn hkind hc))
        hb
        (fun c hc => by
          have hkind : nd.kind = .alias := by
            rcases kind_cases nd with h' | h' | h'
            · simp [hk] at h'
            · exact h'.2.2.2
            · simp [hk] at h'
          exact known_closed_hard hwf hda hrun (Or.inl hit) (.aliasTarget hnd hkind hc))
      rw [← hb']; exact hb
    · simp at hx

/-- NO DANGLING REFERENCE: every reference held by a retained item - the field / tag types, parent
and enumerated subtypes of a data type, the signature of a route, the target of an alias - names a
retained item: a retained data type or a retained alias, unless the id is that of a route (no type expression of a
compiled Api names a route; then the route is retained). (Side condition as for `filter_subset_closure`:
`docsAgree`; the dangling-reference scan of the harness judges every case.) -/
theorem no_dangling (g : Graph) (wl : Whitelist) (r : Filtered) (hwf : g.refsOk = true)
    (hda : docsAgree g = true) (h : whitelistFilter g wl = .ok r) :
    ∀ a, Retained r a → ∀ b ∈ hardRefs g a,
      ((b ∈ r.types ∨ b ∈ r.aliases) ∨ (g.isRouteId b = true ∧ b ∈ r.routes)) := by
  obtain ⟨st, wlRoutes, hrun, e1, e2, e4, hals⟩ := filterRun_of_ok hwf hda h
  obtain ⟨hall, hmem⟩ := filterAliases_mem hals
  have hreached := reached_aliases_retained g wl r hwf hda h
  have hreachedIff : ∀ i, (Item.node i ∈ st.seen ∧ g.isAliasId i = true) → i ∈ r.reachedAliases g := by
    intro i ⟨h1, h2⟩
    simp only [Filtered.reachedAliases, e4, List.mem_filterMap]
    exact ⟨.node i, h1, by simp [h2]⟩
  -- a marked node is a retained data type, a retained alias or a retained route
  have hseen : ∀ b, Item.node b ∈ st.seen →
      ((b ∈ r.types ∨ b ∈ r.aliases) ∨ (g.isRouteId b = true ∧ b ∈ r.routes)) := by
    intro b hb
    obtain ⟨kids, he, _⟩ := seen_node hrun.inv hb
    obtain ⟨n, hn⟩ := expand_node_some he
    rcases kind_cases n with h' | h' | h'
    · left; left
      rw [e1]
      exact (hrun.inv.types b).2 ⟨hb, isTypeId_iff.2 ⟨n, hn, h'.1⟩⟩
    · left; right
      exact hreached b (hreachedIff b ⟨hb, isAliasId_iff.2 ⟨n, hn, h'.2.1⟩⟩)
    · right
      have hr : g.isRouteId b = true := isRouteId_iff.2 ⟨n, hn, h'.2.2.1⟩
      refine ⟨hr, ?_⟩
      rw [e2, mem_addAll]
      exact Or.inr (List.mem_append_right _ ((hrun.inv.routes b).2 ⟨hb, hr⟩))
  intro a ha b hb
  rcases ha with ha | ha | ha
  · rw [e1] at ha
    exact hseen b (known_closed_hard hwf hda hrun (Or.inl ((hrun.inv.types a).1 ha).1)
      ((mem_hardRefs_iff g a b).1 hb))
  · rw [e2, mem_addAll, hrun.wlr] at ha
    have hk : Known g wl st a := by
      rcases ha with ha | ha
      · simp at ha
      · rcases List.mem_append.1 ha with ha | ha
        · exact Or.inr ha
        · exact Or.inl ((hrun.inv.routes a).1 ha).1
    exact hseen b (known_closed_hard hwf hda hrun hk ((mem_hardRefs_iff g a b).1 hb))
  · -- a retained alias: its check was positive
    left
    obtain ⟨hin, nd, hnd, hcheck⟩ := (hmem a).1 ha
    obtain ⟨nd', hnd', hal⟩ := mem_allAliases.1 hin
    rw [hnd] at hnd'; cases hnd'
    have hkind : nd.kind = .alias := by
      rcases kind_cases nd with h' | h' | h'
      · simp [hal] at h'
      · exact h'.2.2.2
      · simp [hal] at h'
    have hb' : b ∈ nd.target.refs := by simpa [hardRefs, hnd, Node.hardRefs, hkind] using hb
    obtain ⟨nb, hnb, hcase⟩ := targetRetained_true hcheck b hb'
    rcases hcase with ⟨_, _, hret⟩ | ⟨halb, f', hf'⟩
    · left; rw [e1]; exact hret
    · right
      have hbin : b ∈ g.allAliases := mem_allAliases.2 ⟨nb, hnb, halb⟩
      obtain ⟨nb', bb, hnb', hbb⟩ := hall b hbin
      rw [hnb] at hnb'; cases hnb'
      have : bb = true := targetRetained_det hbb hf'
      exact (hmem b).2 ⟨hbin, nb, hnb, by rw [← this]; exact hbb⟩

/-- every retained alias is an alias of the dump whose whole target expression is retained: nothing
is invented, and what is dropped is dropped because a data type it mentions was removed -/
theorem aliases_kept_iff (g : Graph) (wl : Whitelist) (r : Filtered) (hwf : g.refsOk = true)
    (hda : docsAgree g = true) (h : whitelistFilter g wl = .ok r) :
    ∀ a, a ∈ r.aliases ↔ (g.isAliasId a = true ∧ ∃ nd, g.node? a = some nd ∧
      targetRetained g r.types (g.dfsFuel 0) nd.target.refs = .ok true) := by
  obtain ⟨st, wlRoutes, hrun, e1, e2, e4, hals⟩ := filterRun_of_ok hwf hda h
  obtain ⟨_, hmem⟩ := filterAliases_mem hals
  intro a
  rw [hmem a, e1]
  constructor
  · rintro ⟨hin, hrest⟩
    exact ⟨isAliasId_iff.2 (mem_allAliases.1 hin), hrest⟩
  · rintro ⟨hal, hrest⟩
    exact ⟨mem_allAliases.2 (isAliasId_iff.1 hal), hrest⟩

end StoneVerif.C20
