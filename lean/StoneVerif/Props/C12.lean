import StoneVerif.Lemmas.Order
/-!
# C12 -- code generation is deterministic

"Running any built-in backend on the same specs with the same arguments produces byte-identical files every time:
across separate processes with different hash seeds, into different output directories, and regardless of which
other specs or backends were run earlier in the same process."

What is proved here. The only things that differ between two such runs are (1) the order in which Python `set`s
(and dicts filled from sets) hand out their elements -- it follows string hashes (`PYTHONHASHSEED`) and object
addresses (process history) -- and (2) class-level state left behind by an earlier run. For (1) the models of
`Model/Order.lean` take that order as a parameter `π`, and the theorems below say that the text produced at each
site is the same for every `π` (`*_order_free`), under hypotheses that are spelled out; where a site was order-dependent
in the code and has been repaired, the former form is kept as a regression model with a concrete pair of orders that
give different text (`*_order_dependent`, proved by evaluation), and the repair is proved to agree with the former form
wherever that one was determined (`*_as_before`). `sites_covered` / `sort_sites_covered` tie the
list of modelled sites to the list the translator extracts from the source (`ex_setiter.py`): an unordered iteration
that is added to a backend and is not modelled breaks the build. For (2), `class_state_covered` pins the list of
class-level containers, and the two history theorems say when they cannot influence the output.

What is NOT proved (observed by the byte comparison of `harness/suites/determinism.py` instead): that the models
are the code (correspondence runs on the modelled lines only), everything outside the modelled sites, the
behaviour of CPython's hashing and allocation, and that the dependency search of the route whitelist visits the
same *set* of types whatever order it follows (`whitelist_types_order_free_partial` assumes it).
-/
namespace StoneVerif.C12
open StoneVerif StoneVerif.Order

/-! ## Coverage of the extracted tables -/

/-- every unsorted iteration over an unordered collection found in the generators is one of the modelled sites -/
theorem sites_covered : subsetB Tables.setIterSites modelledSites = true := by decide

/-- every `sorted(..)` / `.sort(..)` over an unordered collection has a classified key -/
theorem sort_sites_covered : subsetB Tables.setSortSites (modelledSortSites.map (·.1)) = true := by decide

/-- class attributes holding containers / objects that outlive a run -/
theorem class_state_covered : subsetB Tables.classMutableState modelledClassState = true := by decide

/-- none of the class-level containers is ever iterated (for / comprehension / `.items()` .. / `list(..)` ..): whatever
order they were filled in cannot reach the text through them -/
theorem class_state_never_iterated :
    (Tables.classStateUses.all fun r => r.2.2.2.1 != "iterate") = true := by decide

/-- the class-level tables of the frontend are lookup-only: `IRGenerator._init_argspecs` (a dict comprehension over the
LIST `data_types`, evaluated once when the class is created) is only ever read with `.get(cls)` -- never written,
never iterated -- and `default_env` is only ever `copy.copy`-ed -/
theorem frontend_class_state_lookup_only :
    Tables.classStateUses.filter (fun r => r.1 == "stone/frontend/ir_generator.py") =
      [("stone/frontend/ir_generator.py", "IRGenerator._get_or_create_env", "default_env", "other",
        "copy.copy(self.default_env)"),
       ("stone/frontend/ir_generator.py", "IRGenerator._instantiate_data_type", "_init_argspecs", "get", "")] := by decide

/-- the by-name dicts of `ApiNamespace` (whose insertion order can follow a set after whitelisting) are only used
for lookup; the single iteration is the one inside `get_imported_namespaces`, which sorts (`imports_order_free`) -/
theorem by_name_dicts_lookup_only :
    Tables.byNameDictIterations = [("stone/ir/api.py", "ApiNamespace.get_imported_namespaces", "_imported_namespaces")] := rfl

/-- no clock / pid / directory listing / `id()` / `hash()` / random source in the generators -/
theorem no_ambient_sources : Tables.ambientSources = [] := rfl

/-- the two sorted sites of the stub's import block are both in the extracted table: the typing names (#0) and the
ad-hoc import statements (#1, sorted since the stub repair). Dropping either `sorted(..)` moves the site into
`Tables.setIterSites`, where nothing models it, and `sites_covered` fails. -/
theorem stub_import_sites_sorted :
    (Tables.setSortSites.filter fun r => r.1 == "stone/backends/python_type_stubs.py") =
      [("stone/backends/python_type_stubs.py", "PythonTypeStubsBackend._generate_imports_needed_for_typing", 0, ""),
       ("stone/backends/python_type_stubs.py", "PythonTypeStubsBackend._generate_imports_needed_for_typing", 1, "")] ∧
    (Tables.setIterSites.filter fun r => r.1 == "stone/backends/python_type_stubs.py") = [] := by decide

/-- the class-level `ImportTracker` is cleared at the start of every namespace module: the `clear()` is a statement of
the method body and no statement before it contains a call (`first-call`), so nothing can register an import -- or
raise -- between entering the method and the clear -/
theorem tracker_cleared : Tables.importTrackerClearSites =
    [("stone/backends/python_type_stubs.py", "PythonTypeStubsBackend._generate_base_namespace_module", "first-call")] := rfl

/-! ## Sorting -/

/-- a sort of strings by themselves forgets the order they arrived in (sites of key class `.strings`:
manifest outputs, Obj-C import lists and auth types, `from typing import (..)`, whitelisted type names) -/
theorem sorted_strings_order_free {π₁ π₂ : List String} (hp : π₁.Perm π₂) :
    sortBy id strLe π₁ = sortBy id strLe π₂ :=
  sortBy_perm strLe_totalLe hp (fun _ _ _ _ h => h)

/-- general form: a sort with a key that is injective on the items forgets the arrival order -/
theorem sorted_site_order_free {α : Type} (key : α → String) {π₁ π₂ : List α} (hp : π₁.Perm π₂)
    (hinj : ∀ a ∈ π₁, ∀ b ∈ π₁, key a = key b → a = b) : sortBy key strLe π₁ = sortBy key strLe π₂ :=
  sortBy_perm strLe_totalLe hp hinj

/-- stability: items with equal keys leave the sort in the order they arrived -- which is why a non-injective key
does not repair an unordered input -/
theorem sorted_site_keeps_ties {α : Type} (key : α → String) (k : String) (π : List α) :
    cls key k (sortBy key strLe π) = cls key k π :=
  cls_sortBy strLe_totalLe k π

example : sortBy id strLe ["b", "a", "c"] = ["a", "b", "c"] := by decide

/-! ## Omitted callers: the loops of `_generate_struct_class_reflection_attributes` and
`_generate_union_class_reflection_attributes` (`sorted(.., key=_omitted_caller_sort_key)`) -/

/-- the per-caller tables are written in the same order whatever order the caller set is iterated in -- for EVERY set
of callers: the key `(str(caller), caller is not None)` tells any two members of `callers | {None}` apart, a caller
literally named `"None"` included (the hypothesis `some "None" ∉ π` of the theorem about the code before the repair
is gone) -/
theorem caller_loop_order_free {π₁ π₂ : List Caller} (hp : π₁.Perm π₂) :
    callerLoop π₁ = callerLoop π₂ :=
  sortBy_perm pairLe_totalLe hp (fun a _ b _ h => callerKey_inj a b h)

theorem struct_tables_order_free {π₁ π₂ : List Caller} (hp : π₁.Perm π₂) :
    structTableNames π₁ = structTableNames π₂ := by
  unfold structTableNames; rw [caller_loop_order_free hp]

theorem union_tables_order_free {π₁ π₂ : List Caller} (hp : π₁.Perm π₂) :
    unionTableNames π₁ = unionTableNames π₂ := by
  unfold unionTableNames; rw [caller_loop_order_free hp]

example : callerLoop [some "beta", none, some "alpha"] = [none, some "alpha", some "beta"] := by decide
example : unionTableNames [some "beta", none, some "alpha"] = ["_tagmap", "_alpha_tagmap", "_beta_tagmap"] := by decide

/-- regression (the witness of the repaired defect, now correct): `Omitted("None")` -- the public tables come first in
both iteration orders -/
example : unionTableNames [none, some "None"] = ["_tagmap", "_None_tagmap"] ∧
    unionTableNames [some "None", none] = ["_tagmap", "_None_tagmap"] := by decide

theorem pyStr_inj {π : List Caller} (hnone : some "None" ∉ π) :
    ∀ a ∈ π, ∀ b ∈ π, pyStr a = pyStr b → a = b := by
  intro a ha b hb h
  cases a with
  | none =>
    cases b with
    | none => rfl
    | some t =>
      simp only [pyStr] at h
      subst h
      exact absurd hb hnone
  | some s =>
    cases b with
    | none =>
      simp only [pyStr] at h
      subst h
      exact absurd ha hnone
    | some t =>
      simp only [pyStr] at h
      rw [h]

/-- the repair changes no generated file that was determined before it: where no omitted caller is literally named
`"None"` the loop visits the callers in the order `sorted(.., key=str)` gave -/
theorem caller_loop_as_before (π : List Caller) (hnone : some "None" ∉ π) : callerLoop π = callerLoopStr π := by
  unfold callerLoop callerLoopStr
  apply sortBy_le_congr
  intro a ha b hb
  unfold pairLe callerKey
  by_cases h : pyStr a = pyStr b
  · have hab := pyStr_inj hnone a ha b hb h
    subst hab
    simp [strLe_totalLe.refl]
  · simp [h]

/-- why the key had to change: with `key=str`, `str(None) == str("None")`, so a caller named `None` tied with the
public caller and the (stable) sort left the two in iteration order -/
theorem caller_loop_order_dependent :
    ∃ π₁ π₂ : List Caller, π₁.Perm π₂ ∧ callerLoopStr π₁ ≠ callerLoopStr π₂ :=
  ⟨[none, some "None"], [some "None", none], List.Perm.swap _ _ _, by decide⟩

/-! ## The `_permissioned_tagmaps` line (D15, repaired in /repo: the members are printed sorted) -/

/-- the form before the repair (the set itself was printed) is **order-dependent**: with two omitted callers the line
has two possible texts. Regression statement: it is why `sort_sites_covered` insists on the `sorted(..)` site. -/
theorem tagmaps_order_dependent :
    ∃ π₁ π₂ : List String, π₁.Perm π₂ ∧ π₁.Nodup ∧ tagmapsLine "U" π₁ ≠ tagmapsLine "U" π₂ :=
  ⟨["alpha", "beta"], ["beta", "alpha"], List.Perm.swap _ _ _, by decide, by decide⟩

/-- up to one omitted caller there is nothing to reorder -/
theorem tagmaps_order_free_small (cls : String) {π₁ π₂ : List String} (hp : π₁.Perm π₂) (h : π₁.length ≤ 1) :
    tagmapsLine cls π₁ = tagmapsLine cls π₂ := by
  have : π₁ = π₂ := by
    apply perm_eq_of_all_eq hp
    intro a ha b hb
    match π₁, h, ha, hb with
    | [x], _, ha, hb => simp at ha hb; rw [ha, hb]
  rw [this]

/-- the line as generated today (sorted members) is order-free -/
theorem tagmaps_sorted_order_free (cls : String) {π₁ π₂ : List String} (hp : π₁.Perm π₂) :
    tagmapsLineSorted cls π₁ = tagmapsLineSorted cls π₂ := by
  unfold tagmapsLineSorted; rw [sorted_strings_order_free hp]

example : tagmapsLine "U" ["alpha", "beta"] = ["U._permissioned_tagmaps = {'alpha', 'beta'}"] := by decide
example : tagmapsLine "U" [] = [] := by decide

/-! ## Custom annotation processors -/

theorem wrapProc_key (f : String) (p : Proc) : (wrapProc f p).key = p.key := rfl

/-- `remaining_annotations` does not depend on the iteration order of the set difference.
`hid`: an annotation is identified by its namespace and name (what the frontend guarantees: `annotation_by_name`). -/
theorem remaining_order_free {πr₁ πr₂ : List (String × Ann)} (hr : πr₁.Perm πr₂)
    (hid : ∀ a ∈ πr₁, ∀ b ∈ πr₁, a.2.key = b.2.key → a.2 = b.2) : remaining πr₁ = remaining πr₂ := by
  unfold remaining
  apply sortBy_perm strPairLe_totalLe (hr.map _)
  intro a ha b hb h
  obtain ⟨x, hx, rfl⟩ := List.mem_map.mp ha
  obtain ⟨y, hy, rfl⟩ := List.mem_map.mp hb
  exact hid x hx y hy h

/-- One activation of `_generate_custom_annotation_processors` maps class-equal inputs to class-equal outputs:
the induction step over the recursion through lists, maps and enumerated subtypes. The classes are those of the sort
key `(annotation type name, its namespace)`, i.e. of the annotation TYPE. Neither of the two hypotheses the theorem
about the code before the repairs needed (same-named annotation types are one type; annotations applied through an
alias chain have different type names) is left: only `hid`, the identification of an annotation by namespace and name. -/
theorem procsOf_classEq (ns : String) (k : Kind) {inner₁ inner₂ : List Proc} {πd₁ πd₂ πr₁ πr₂ : List (String × Ann)}
    (extras : List Ann)
    (hin : ClassEq Proc.key inner₁ inner₂) (hd : πd₁.Perm πd₂) (hr : πr₁.Perm πr₂)
    (hid : ∀ a ∈ πr₁, ∀ b ∈ πr₁, a.2.key = b.2.key → a.2 = b.2) :
    ClassEq Proc.key (procsOf ns k inner₁ πd₁ πr₁ extras) (procsOf ns k inner₂ πd₂ πr₂ extras) := by
  unfold procsOf
  apply ClassEq.append
  · apply ClassEq.append
    · cases k with
      | prim => exact ClassEq.refl _
      | composite =>
        apply ClassEq.dedupTy
        apply classEq_of_perm_of_inj (hd.map _)
        intro p hp q hq hpq
        obtain ⟨a, ha, rfl⟩ := List.mem_map.mp hp
        obtain ⟨b, hb, rfl⟩ := List.mem_map.mp hq
        have h1 : a.2.tyName = b.2.tyName := congrArg Prod.fst hpq
        have h2 : a.2.tyNs = b.2.tyNs := congrArg Prod.snd hpq
        simp only [structProc, h1, h2]
      | subtypes => exact ClassEq.dedupTy hin
      | list => exact ClassEq.map _ (wrapProc_key _) hin
      | map => exact ClassEq.map _ (wrapProc_key _) hin
    · rw [remaining_order_free hr hid]
      exact ClassEq.refl _
  · exact ClassEq.refl _

/-- the `if annotation_type is ..:` blocks emitted for one field do not depend on the iteration order of
`recursive_custom_annotations` (at any depth: `hin` is what this theorem gives for the nested activation) -/
theorem field_procs_order_free (ns : String) (k : Kind) {inner₁ inner₂ : List Proc}
    {πd₁ πd₂ πr₁ πr₂ : List (String × Ann)} (extras : List Ann)
    (hin : ClassEq Proc.key inner₁ inner₂) (hd : πd₁.Perm πd₂) (hr : πr₁.Perm πr₂)
    (hid : ∀ a ∈ πr₁, ∀ b ∈ πr₁, a.2.key = b.2.key → a.2 = b.2) :
    emitProcs ns (procsOf ns k inner₁ πd₁ πr₁ extras) = emitProcs ns (procsOf ns k inner₂ πd₂ πr₂ extras) := by
  unfold emitProcs
  rw [sortBy_congr strPairLe_totalLe (procsOf_classEq ns k extras hin hd hr hid)]

/-- annotation of type `Meta` on a field of a struct reached directly, `Note` on the alias the field is typed with -/
example : emitProcs "a" (procsOf "a" .composite [] [("S.x", ⟨"a", "Meta", "Meta(x='one')", "a", "M1"⟩)]
      [("A", ⟨"a", "Note", "Note()", "a", "N"⟩)] []) =
    [("Meta", "bb.make_struct_annotation_processor(Meta, processor)"), ("Note", "bb.partially_apply(processor, Note())")] := by
  decide

/-- regression (witness of a repaired defect, now correct): two annotations of one annotation type along an alias chain
(`alias A1 = String @M1`, `alias A2 = A1 @M2`, field `f A2`) -- the two `partially_apply` lines come in the order of the
annotations' names in both iteration orders of the set -/
example :
    emitProcs "a" (procsOf "a" .prim [] [] [("A1", ⟨"a", "Meta", "Meta(x='one')", "a", "M1"⟩),
      ("A2", ⟨"a", "Meta", "Meta(x='two')", "a", "M2"⟩)] []) =
      [("Meta", "bb.partially_apply(processor, Meta(x='one'))"), ("Meta", "bb.partially_apply(processor, Meta(x='two'))")] ∧
    emitProcs "a" (procsOf "a" .prim [] [] [("A2", ⟨"a", "Meta", "Meta(x='two')", "a", "M2"⟩),
      ("A1", ⟨"a", "Meta", "Meta(x='one')", "a", "M1"⟩)] []) =
      [("Meta", "bb.partially_apply(processor, Meta(x='one'))"), ("Meta", "bb.partially_apply(processor, Meta(x='two'))")] := by
  decide

/-- regression (witness of a repaired defect, now correct): annotation types of the same name defined in two namespaces,
both met inside one struct -- `a.Meta` before `b.Meta` in both iteration orders -/
example :
    emitProcs "c" (procsOf "c" .composite [] [("T.x", ⟨"a", "Meta", "a.Meta(x='one')", "c", "M1"⟩),
      ("T.y", ⟨"b", "Meta", "b.Meta(x='two')", "c", "M2"⟩)] [] []) =
      [("a.Meta", "bb.make_struct_annotation_processor(a.Meta, processor)"),
       ("b.Meta", "bb.make_struct_annotation_processor(b.Meta, processor)")] ∧
    emitProcs "c" (procsOf "c" .composite [] [("T.y", ⟨"b", "Meta", "b.Meta(x='two')", "c", "M2"⟩),
      ("T.x", ⟨"a", "Meta", "a.Meta(x='one')", "c", "M1"⟩)] [] []) =
      [("a.Meta", "bb.make_struct_annotation_processor(a.Meta, processor)"),
       ("b.Meta", "bb.make_struct_annotation_processor(b.Meta, processor)")] := by
  decide

/-- why `remaining_annotations` had to be sorted: yielded in the iteration order of the set difference
(`procsOfUnsorted`), two annotations of one annotation type tie on every key that looks at the type only, and the
emitted order of the two `partially_apply` lines follows the set -/
theorem procs_order_dependent_same_type :
    ∃ πr₁ πr₂ : List (String × Ann), πr₁.Perm πr₂ ∧ πr₁.Nodup ∧
      emitProcs "a" (procsOfUnsorted "a" .prim [] [] πr₁ []) ≠ emitProcs "a" (procsOfUnsorted "a" .prim [] [] πr₂ []) :=
  ⟨[("A1", ⟨"a", "Meta", "Meta(x='one')", "a", "M1"⟩), ("A2", ⟨"a", "Meta", "Meta(x='two')", "a", "M2"⟩)],
   [("A2", ⟨"a", "Meta", "Meta(x='two')", "a", "M2"⟩), ("A1", ⟨"a", "Meta", "Meta(x='one')", "a", "M1"⟩)],
   List.Perm.swap _ _ _, by decide, by decide⟩

/-- why the sort key had to include the namespace: sorted by the annotation type's NAME only (`emitProcsByName`),
annotation types of the same name defined in two namespaces, both met inside one struct, tie and follow the set -/
theorem procs_order_dependent_same_name :
    ∃ πd₁ πd₂ : List (String × Ann), πd₁.Perm πd₂ ∧ πd₁.Nodup ∧
      emitProcsByName "c" (procsOf "c" .composite [] πd₁ [] []) ≠ emitProcsByName "c" (procsOf "c" .composite [] πd₂ [] []) :=
  ⟨[("T.x", ⟨"a", "Meta", "a.Meta(x='one')", "c", "M1"⟩), ("T.y", ⟨"b", "Meta", "b.Meta(x='two')", "c", "M2"⟩)],
   [("T.y", ⟨"b", "Meta", "b.Meta(x='two')", "c", "M2"⟩), ("T.x", ⟨"a", "Meta", "a.Meta(x='one')", "c", "M1"⟩)],
   List.Perm.swap _ _ _, by decide, by decide⟩

/-- the new sort key changes nothing where the old one decided: when no two processors of a field belong to different
annotation types of the same name, sorting by `(name, namespace)` gives what sorting by `name` gave -/
theorem emit_procs_as_before (ns : String) (l : List Proc)
    (h : ∀ p ∈ l, ∀ q ∈ l, p.tyName = q.tyName → p.tyNs = q.tyNs) : emitProcs ns l = emitProcsByName ns l := by
  unfold emitProcs emitProcsByName
  congr 1
  apply sortBy_le_congr
  intro p hp q hq
  unfold strPairLe Proc.key
  by_cases hn : p.tyName = q.tyName
  · simp [hn, h p hp q hq hn, strLe_totalLe.refl]
  · simp [hn]

/-! ## Imported namespaces -/

/-- one iteration of the loop -/
def impStep (self : String) (st : Imports) (n : String) : Imports :=
  if n != self then addImported st n { annotationType := true } else st

theorem addAnnotationTypeImports_eq (self : String) (st : Imports) (π : List String) :
    addAnnotationTypeImports self st π = π.foldl (impStep self) st := rfl

theorem cls_impStep (self : String) (st : Imports) (n k : String) :
    cls Prod.fst k (impStep self st n) =
      if n ≠ self ∧ n = k then bump { annotationType := true } n (cls Prod.fst k st) else cls Prod.fst k st := by
  unfold impStep
  by_cases hn : n = self
  · simp [hn]
  · have : (n != self) = true := by simp [hn]
    rw [if_pos this, cls_addImported]
    simp [hn]

theorem impStep_congr (self n : String) {st₁ st₂ : Imports} (h : ClassEq Prod.fst st₁ st₂) :
    ClassEq Prod.fst (impStep self st₁ n) (impStep self st₂ n) := by
  intro k; rw [cls_impStep, cls_impStep, h k]

theorem impStep_swap (self x y : String) (st : Imports) :
    ClassEq Prod.fst (impStep self (impStep self st x) y) (impStep self (impStep self st y) x) := by
  intro k
  simp only [cls_impStep]
  by_cases h1 : x ≠ self ∧ x = k <;> by_cases h2 : y ≠ self ∧ y = k
  · obtain ⟨_, rfl⟩ := h1
    obtain ⟨_, rfl⟩ := h2
    rfl
  · simp [h1, h2]
  · simp [h1, h2]
  · simp [h1, h2]

theorem foldl_impStep_congr (self : String) (l : List String) {s₁ s₂ : Imports} (h : ClassEq Prod.fst s₁ s₂) :
    ClassEq Prod.fst (l.foldl (impStep self) s₁) (l.foldl (impStep self) s₂) := by
  induction l generalizing s₁ s₂ with
  | nil => exact h
  | cons z l ih => simp only [List.foldl_cons]; exact ih (impStep_congr self z h)

/-- adding imports in two orders gives dicts with the same entries per namespace -/
theorem addAnnotationTypeImports_classEq (self : String) {π₁ π₂ : List String} (hp : π₁.Perm π₂) :
    ∀ st₁ st₂ : Imports, ClassEq Prod.fst st₁ st₂ →
      ClassEq Prod.fst (addAnnotationTypeImports self st₁ π₁) (addAnnotationTypeImports self st₂ π₂) := by
  simp only [addAnnotationTypeImports_eq]
  induction hp with
  | nil => intro st₁ st₂ h; exact h
  | cons x _ ih =>
    intro st₁ st₂ h
    simp only [List.foldl_cons]
    exact ih _ _ (impStep_congr self x h)
  | swap x y l =>
    intro st₁ st₂ h
    simp only [List.foldl_cons]
    apply foldl_impStep_congr
    intro k
    rw [impStep_swap self y x st₁ k]
    exact impStep_congr self y (impStep_congr self x h) k
  | trans _ _ ih₁ ih₂ =>
    intro st₁ st₂ h
    exact fun k => (ih₁ st₁ st₁ (ClassEq.refl _) k).trans (ih₂ st₁ st₂ h k)

/-- `get_imported_namespaces(..)` (any flags) does not depend on the order in which the loop at the end of
`_populate_recursive_custom_annotations` meets the annotations -/
theorem imports_order_free (self : String) (st : Imports) (m a t : Bool) {π₁ π₂ : List String} (hp : π₁.Perm π₂) :
    importedNamespaces m a t (addAnnotationTypeImports self st π₁) =
      importedNamespaces m a t (addAnnotationTypeImports self st π₂) := by
  unfold importedNamespaces
  congr 1
  apply sortBy_congr strLe_totalLe
  intro k
  have h := addAnnotationTypeImports_classEq self hp st st (ClassEq.refl _) k
  unfold cls at h ⊢
  rw [List.filter_filter, List.filter_filter]
  have comm : ∀ l : Imports,
      l.filter (fun e => decide (e.1 = k) && keepImport m a t e.2) =
        (l.filter fun e => decide (e.1 = k)).filter fun e => keepImport m a t e.2 := by
    intro l; rw [List.filter_filter]; congr 1; funext e; exact Bool.and_comm _ _
  rw [comm, comm, h]

theorem import_lines_order_free (package self : String) (st : Imports) {π₁ π₂ : List String} (hp : π₁.Perm π₂) :
    importLines package self st π₁ = importLines package self st π₂ := by
  unfold importLines; rw [imports_order_free self st false false true hp]

example : importLines "pkg" "a" [("c", { dataType := true })] ["z", "a", "b", "z"] =
    ["from pkg import b", "from pkg import c", "from pkg import z"] := by decide

/-! ## Route argument / result / error types -/

/-- `get_namespaces_imported_by_route_io` -/
theorem route_io_namespaces_order_free {ρ₁ ρ₂ : List String} (hp : ρ₁.Perm ρ₂) :
    routeIoNamespaces ρ₁ = routeIoNamespaces ρ₂ :=
  sorted_strings_order_free hp

/-- `get_route_io_data_types` when no two referenced types share a bare name -/
theorem route_io_types_order_free {π₁ π₂ : List TyRef} (hp : π₁.Perm π₂)
    (hinj : ∀ a ∈ π₁, ∀ b ∈ π₁, a.2 = b.2 → a = b) : routeIoTypes π₁ = routeIoTypes π₂ :=
  sortBy_perm strLe_totalLe hp hinj

/-- the members of the second set do not depend on the order of the first -/
theorem route_io_foreign_members (self : String) {π₁ π₂ : List TyRef} (hp : π₁.Perm π₂) (x : String) :
    x ∈ routeIoForeign self π₁ ↔ x ∈ routeIoForeign self π₂ := by
  unfold routeIoForeign routeIoTypes
  simp only [List.mem_map, List.mem_filter, mem_sortBy]
  constructor
  · rintro ⟨t, ⟨ht, hf⟩, rfl⟩; exact ⟨t, ⟨hp.subset ht, hf⟩, rfl⟩
  · rintro ⟨t, ⟨ht, hf⟩, rfl⟩; exact ⟨t, ⟨hp.symm.subset ht, hf⟩, rfl⟩

/-- hence `get_namespaces_imported_by_route_io` is order-free end to end, same-named types or not -/
theorem route_io_namespaces_end_to_end (self : String) {π₁ π₂ : List TyRef} {ρ₁ ρ₂ : List String} (hp : π₁.Perm π₂)
    (h₁ : SetOrder ρ₁ (routeIoForeign self π₁)) (h₂ : SetOrder ρ₂ (routeIoForeign self π₂)) :
    routeIoNamespaces ρ₁ = routeIoNamespaces ρ₂ :=
  route_io_namespaces_order_free (SetOrder.perm h₁ h₂ (route_io_foreign_members self hp))

/-- order-dependent for same-named types of two namespaces (the bare name is the key): with `route r(x.T, y.T, Void)` in
namespace `m`, `m.get_route_io_data_types()` returns `x.T`, `y.T` in set (address) order -- observed on the real code.
NOT reachable from any built-in backend: the only caller inside stone is `get_namespaces_imported_by_route_io`, whose
result is order-free whatever the names (`route_io_namespaces_end_to_end`), so no generated file shows it; a custom
backend calling the API function directly would see it. -/
theorem route_io_types_order_dependent :
    ∃ π₁ π₂ : List TyRef, π₁.Perm π₂ ∧ π₁.Nodup ∧ routeIoTypes π₁ ≠ routeIoTypes π₂ :=
  ⟨[("a", "T"), ("b", "T")], [("b", "T"), ("a", "T")], List.Perm.swap _ _ _, by decide, by decide⟩

/-! ## Route whitelist -/

/-- `namespace.data_types` after `list(set(..))` and `normalize` depends only on which types were collected.
PARTIAL: that the two traversal orders of `_find_dependencies_recursive` (sites `for t in doc_types`, `for route in
routes`, `for route_type in route_types`, the start list built by `parse_data_types_from_doc_ref`) collect the same
*set* of types (`hsame`) is the textbook fact about depth-first search with a visited set; it is assumed here, not
proved (C20's closure theorems are about that search), and observed by the byte comparison with whitelists. -/
theorem whitelist_types_order_free_partial {v₁ v₂ π₁ π₂ : List String}
    (hsame : ∀ x, x ∈ v₁ ↔ x ∈ v₂) (h₁ : SetOrder π₁ v₁) (h₂ : SetOrder π₂ v₂) :
    filterDataTypes π₁ = filterDataTypes π₂ :=
  sorted_strings_order_free (SetOrder.perm h₁ h₂ hsame)

/-- `namespace.routes` after the filter: the route names pass through two sets (`output_routes_by_ns[..]`, iterated
in the order `out`, and `set(whitelisted_route_reprs + output_route_reprs)`, iterated in the order `π`) and are
sorted by `(name, version)` at the end -/
theorem whitelist_routes_order_free (lookup : String → String × Nat) (wl : List String)
    {out₁ out₂ : List (String × Nat)} {π₁ π₂ : List String} (hout : out₁.Perm out₂)
    (h₁ : SetOrder π₁ (wl ++ out₁.map routeRepr)) (h₂ : SetOrder π₂ (wl ++ out₂.map routeRepr)) :
    filterRoutes lookup π₁ = filterRoutes lookup π₂ := by
  unfold filterRoutes
  apply sortBy_perm pairLe_totalLe
  · apply List.Perm.map
    apply SetOrder.perm h₁ h₂
    intro x
    simp only [List.mem_append, List.mem_map]
    constructor
    · rintro (h | ⟨r, hr, rfl⟩)
      · exact Or.inl h
      · exact Or.inr ⟨r, hout.subset hr, rfl⟩
    · rintro (h | ⟨r, hr, rfl⟩)
      · exact Or.inl h
      · exact Or.inr ⟨r, hout.symm.subset hr, rfl⟩
  · intro _ _ _ _ h; exact h

example : filterRoutes (fun s => if s = "b:2" then ("b", 2) else (s, 1)) ["b:2", "c", "a"] =
    [("a", 1), ("b", 2), ("c", 1)] := by decide
example : SetOrder (dedup ["x", "y", "x"]) ["x", "y", "x"] := setOrder_dedup _

/-! ## python_type_stubs imports -/

theorem isEmpty_eq_of_perm {α : Type} {π₁ π₂ : List α} (hp : π₁.Perm π₂) : π₁.isEmpty = π₂.isEmpty := by
  cases π₁ with
  | nil => rw [List.Perm.nil_eq hp]
  | cons a t =>
    cases π₂ with
    | nil => exact absurd hp.symm (by simp)
    | cons b u => rfl

theorem typing_imports_order_free {π₁ π₂ : List String} (hp : π₁.Perm π₂) :
    typingImportLines π₁ = typingImportLines π₂ := by
  unfold typingImportLines
  rw [isEmpty_eq_of_perm hp, sorted_strings_order_free hp]

/-- the ad-hoc import statements of a stub (`import datetime`, `from <package> import <namespace>` for namespaces reached
only through an alias or an inherited field) are emitted sorted: the block is the same whatever order the set is
iterated in, for ANY set of registered statements (the hypothesis of the theorem about the code before the stub repair --
every registered line is the one literal the backend knew -- is gone) -/
theorem adhoc_order_free {π₁ π₂ : List String} (hp : π₁.Perm π₂) : adhocImportLines π₁ = adhocImportLines π₂ := by
  unfold adhocImportLines
  rw [isEmpty_eq_of_perm hp, sorted_strings_order_free hp]

/-- regression (now correct): the date import and two indirectly reached namespaces, registered in two orders -/
example :
    adhocImportLines ["import datetime", "from pk import d  # type: ignore", "from pk import c  # type: ignore"] =
      ["", "from pk import c  # type: ignore", "from pk import d  # type: ignore", "import datetime"] ∧
    adhocImportLines ["from pk import c  # type: ignore", "import datetime", "from pk import d  # type: ignore"] =
      ["", "from pk import c  # type: ignore", "from pk import d  # type: ignore", "import datetime"] := by decide

example : adhocImportLines [] = [] := by decide

/-- the block is the sorted statements behind one empty line, and only the members of the set count -/
theorem adhoc_lines_spec (π : List String) (h : π ≠ []) : adhocImportLines π = "" :: sortBy id strLe π := by
  unfold adhocImportLines
  cases π with
  | nil => exact absurd rfl h
  | cons a t => rfl

/-- why the statements had to be sorted once a second one could be registered: emitted in set order
(`adhocImportLinesUnsorted`, the code before the stub repair) two statements show the order -/
theorem adhoc_unsorted_order_dependent :
    ∃ π₁ π₂ : List String, π₁.Perm π₂ ∧ π₁.Nodup ∧ adhocImportLinesUnsorted π₁ ≠ adhocImportLinesUnsorted π₂ :=
  ⟨["import datetime", "from pk import c"], ["from pk import c", "import datetime"], List.Perm.swap _ _ _,
    by decide, by decide⟩

/-- up to one registered statement the sort changes nothing: stubs that needed only `import datetime` are as before -/
theorem adhoc_as_before (π : List String) (h : π.length ≤ 1) : adhocImportLines π = adhocImportLinesUnsorted π := by
  match π, h with
  | [], _ => rfl
  | [x], _ => rfl

/-! ## State that survives a run -/

/-- one write of `overlay` -/
def writeStep (c : Cache) (w : String × String) : Cache := (w.1, w.2) :: c.filter (fun e => e.1 != w.1)

theorem lookup_writeStep_same (c : Cache) (w : String × String) : lookup (writeStep c w) w.1 = some w.2 := by
  simp [lookup, writeStep]

theorem lookup_writeStep_other (c : Cache) (w : String × String) (k : String) (h : w.1 ≠ k) :
    lookup (writeStep c w) k = lookup c k := by
  unfold lookup writeStep
  have hne : ((w.1 == k) = false) := by simp [h]
  simp only [List.find?_cons, hne]
  congr 1
  rw [List.find?_filter]
  congr 1
  funext e
  by_cases h2 : e.1 = k
  · have h3 : ¬ k = w.1 := fun e => h e.symm
    simp [h2, h3]
  · simp [h2]

theorem lookup_foldl_other (ws : Cache) (c : Cache) (k : String) (h : k ∉ ws.map (·.1)) :
    lookup (ws.foldl writeStep c) k = lookup c k := by
  induction ws generalizing c with
  | nil => rfl
  | cons w ws ih =>
    simp only [List.map_cons, List.mem_cons, not_or] at h
    simp only [List.foldl_cons]
    rw [ih _ h.2, lookup_writeStep_other _ _ _ (fun e => h.1 e.symm)]

theorem lookup_overlay (writes old₁ old₂ : Cache) (k : String) (hk : k ∈ writes.map (·.1)) :
    lookup (overlay writes old₁) k = lookup (overlay writes old₂) k := by
  show lookup (writes.foldl writeStep old₁) k = lookup (writes.foldl writeStep old₂) k
  induction writes generalizing old₁ old₂ with
  | nil => simp at hk
  | cons w ws ih =>
    simp only [List.foldl_cons]
    by_cases hws : k ∈ ws.map (·.1)
    · exact ih _ _ hws
    · have hw : w.1 = k := by
        simp only [List.map_cons, List.mem_cons] at hk
        rcases hk with h | h
        · exact h.symm
        · exact absurd h hws
      rw [lookup_foldl_other _ _ _ hws, lookup_foldl_other _ _ _ hws, ← hw,
        lookup_writeStep_same, lookup_writeStep_same]

/-- a class-level cache keyed by type name (`obj_name_to_namespace`) that is rewritten for every data type of the
current api before it is read answers every query about a current type as a fresh cache would: what earlier runs
left behind is not visible -/
theorem class_cache_history_free (writes old : Cache) (k : String) (hk : k ∈ writes.map (·.1)) :
    lookup (overlay writes old) k = lookup (overlay writes []) k :=
  lookup_overlay writes old [] k hk

example : lookup (overlay [("Foo", "DBA")] [("Foo", "DBOLD"), ("Bar", "DBB")]) "Foo" = some "DBA" := by decide

/-- with `clear()` at the start of every module, the import block of a module depends on its own registrations only
(neither on the modules generated before it nor on earlier runs in the process) -/
theorem tracker_history_free (cur₁ cur₂ : List String) (mods : List (List String)) :
    trackerRun true cur₁ mods = trackerRun true cur₂ mods := by
  cases mods with
  | nil => rfl
  | cons r rest => simp only [trackerRun, trackerStep, if_true, List.nil_append]

/-- `clear()` moved to the end of the module is NOT equivalent: it is skipped when a build is aborted inside a module
(any backend exception), and what that build registered leaks into the first module of the next build in the process.
(`tracker_history_free` covers this situation for the clear-first form: its `cur₁` is arbitrary.) -/
theorem tracker_late_clear_depends_on_aborted_build :
    (trackerRunLate [] [(["List"], false), (["Text"], true)]).drop 1 ≠ trackerRunLate [] [(["Text"], true)] := by decide

/-- as long as every module completes the late clear goes unnoticed -- which is why only a history with an aborted
build can observe it -/
theorem tracker_late_clear_unnoticed_without_abort :
    (trackerRunLate [] [(["List"], true), (["Text"], true)]).drop 1 = trackerRunLate [] [(["Text"], true)] := by decide

/-- without it the class-level tracker carries names over (from the previous module, or the previous run) -/
theorem tracker_without_clear_depends_on_history :
    trackerRun false [] [["Text"]] ≠ trackerRun false ["List"] [["Text"]] := by decide

/-! ## All order-free sites of one generated Python module together -/

/-- element-wise permutation of two lists of sets -/
inductive PermAll {α : Type} : List (List α) → List (List α) → Prop
  | nil : PermAll [] []
  | cons {a b : List α} {l₁ l₂ : List (List α)} : a.Perm b → PermAll l₁ l₂ → PermAll (a :: l₁) (b :: l₂)

/-- the iteration orders a run picks at the modelled sites -/
structure SiteOrders where
  callers : List (List Caller)            -- one caller set per struct / union of the module
  annTypeNs : List String                 -- namespaces of the annotation types met in the namespace
  typing : List String                    -- stub: `cur_namespace_typing_imports`
  adhoc : List String                     -- stub: `cur_namespace_adhoc_imports`
  routes : List String                    -- whitelist: route names of the namespace
  types : List String                     -- whitelist: type names of the namespace

/-- two runs pick orders of the same sets -/
structure SiteOrders.Equiv (a b : SiteOrders) : Prop where
  callers : PermAll a.callers b.callers
  annTypeNs : a.annTypeNs.Perm b.annTypeNs
  typing : a.typing.Perm b.typing
  adhoc : a.adhoc.Perm b.adhoc
  routes : a.routes.Perm b.routes
  types : a.types.Perm b.types

/-- the text produced at the order-free sites (per-caller table names of every class, import lines, stub import
blocks, whitelisted routes and types) -/
def genSites (package self : String) (st : Imports) (lookup : String → String × Nat) (o : SiteOrders) : List String :=
  o.callers.flatMap unionTableNames ++ o.callers.flatMap structTableNames
  ++ importLines package self st o.annTypeNs
  ++ typingImportLines o.typing ++ adhocImportLines o.adhoc
  ++ (filterRoutes lookup o.routes).map routeRepr ++ filterDataTypes o.types

/-- **`gen_order_free`** -/
theorem gen_order_free (package self : String) (st : Imports) (lookup : String → String × Nat) {o₁ o₂ : SiteOrders}
    (he : o₁.Equiv o₂) : genSites package self st lookup o₁ = genSites package self st lookup o₂ := by
  unfold genSites
  have hc : ∀ (l₁ l₂ : List (List Caller)), PermAll l₁ l₂ →
      l₁.flatMap unionTableNames = l₂.flatMap unionTableNames ∧
      l₁.flatMap structTableNames = l₂.flatMap structTableNames := by
    intro l₁ l₂ h
    induction h with
    | nil => exact ⟨rfl, rfl⟩
    | cons hp _ ih =>
      simp only [List.flatMap_cons]
      rw [union_tables_order_free hp, struct_tables_order_free hp, ih.1, ih.2]
      exact ⟨rfl, rfl⟩
  obtain ⟨h1, h2⟩ := hc _ _ he.callers
  rw [h1, h2, import_lines_order_free package self st he.annTypeNs, typing_imports_order_free he.typing,
    adhoc_order_free he.adhoc]
  have hr : filterRoutes lookup o₁.routes = filterRoutes lookup o₂.routes := by
    unfold filterRoutes
    exact sortBy_perm pairLe_totalLe (he.routes.map _) (fun _ _ _ _ h => h)
  rw [hr, show filterDataTypes o₁.types = filterDataTypes o₂.types from sorted_strings_order_free he.types]

/-! ## What the output directory held before the run

"... into different output directories": a directory may already hold files (an earlier output, a copy whose line ends
were rewritten, stale files of the same names). `Model/Order.lean` models the one place every `Backend` writes a
generated file through (`output_to_relative_path`: `open(full_path, mode)` + `write`) on a directory given as
`path ↦ bytes`; the theorems say that every file opened with `wb` holds, after the run, exactly the promised bytes
whatever the directory held, and `fs_reads_pinned` / `output_modes_pinned` pin the list of places where the
generators look at the file system at all: a new "is it already there / unchanged?" test breaks the build.
NOT proved: that the model is the code (differential runs `order.outdir` of the harness and the byte comparison
into pre-populated directories), `shutil.copy` of resource files, the Swift backends' own writer (plain `open(.., "w")`). -/

/-- every place where the generators look at what the file system holds. Accounted for by hand:
* `Backend.output_to_relative_path`: `os.path.exists(directory)` guards `makedirs`; `open(full_path, mode)` with the
  modes of `output_modes_pinned` (`writeFile`);
* `Backend.copy_to_path` `isdir(dst)`: only selects the name recorded in the manifest;
* `Compiler.__init__` / `build`, `ObjCTypesBackend.generate`, `SwiftBaseBackend._write_output_in_target_folder`:
  existence tests of DIRECTORIES before creating them;
* tsd_client / tsd_types: the template, an input that lives in the output folder (`isfile` + read);
* obj_c_types / swift_types: the jazzy configuration (an input, `--documentation` only). -/
theorem fs_reads_pinned : Tables.fileSystemReads = [
    ("stone/backend.py", "Backend.copy_to_path", "path.isdir", "dst"),
    ("stone/backend.py", "Backend.output_to_relative_path", "open", "<mode: mode>"),
    ("stone/backend.py", "Backend.output_to_relative_path", "path.exists", "directory"),
    ("stone/backends/obj_c_types.py", "ObjCTypesBackend.generate", "open", "r"),
    ("stone/backends/obj_c_types.py", "ObjCTypesBackend.generate", "path.exists", "rsrc_output_folder"),
    ("stone/backends/swift.py", "SwiftBaseBackend._write_output_in_target_folder", "path.exists", "full_path"),
    ("stone/backends/swift_types.py", "SwiftTypesBackend._generate_jazzy_docs", "open", "r"),
    ("stone/backends/tsd_client.py", "TSDClientBackend.generate", "open", "r"),
    ("stone/backends/tsd_client.py", "TSDClientBackend.generate", "path.isfile", "template_path"),
    ("stone/backends/tsd_types.py", "TSDTypesBackend._read_template", "open", "r"),
    ("stone/backends/tsd_types.py", "TSDTypesBackend._read_template", "path.isfile", "template_path"),
    ("stone/compiler.py", "Compiler.__init__", "path.exists", "self.build_path"),
    ("stone/compiler.py", "Compiler.build", "path.exists", "self.build_path"),
    ("stone/compiler.py", "Compiler.build", "path.isdir", "self.build_path")] := rfl

/-- the modes handed to `output_to_relative_path`: the default and the one explicit one (the package marker) -/
theorem output_modes_pinned : Tables.outputFileModes = [
    ("stone/backend.py", "Backend.output_to_relative_path", "<default>", "wb"),
    ("stone/backends/python_types.py", "PythonTypesBackend.generate", "'__init__.py'", "ab")] := rfl

/-- every mode in use is one of the two modelled ones -/
theorem output_modes_modelled :
    (Tables.outputFileModes.all fun r => (modeOfString r.2.2.2).isSome) = true := by decide

/-- **refinement**: whatever the directory held, a file for which the specification promises bytes (`promised`:
opened with `wb` at least once) holds exactly those after the run -/
theorem build_meets_promise {ws : List Write} {p : String} {b : Bytes} (h : promised ws p = some b) (d : Dir) :
    dirGet (build d ws) p = some b :=
  build_meets_promise_aux p b ws d none (Or.inl rfl) h

/-- what a file opened with `wb` at least once holds after the run does not depend on what the directory held -/
theorem build_history_free {ws : List Write} {p : String} (h : ∃ w ∈ ws, w.path = p ∧ w.mode = .wb) (d₁ d₂ : Dir) :
    dirGet (build d₁ ws) p = dirGet (build d₂ ws) p := by
  have := promisedFrom_isSome p ws none (Or.inr h)
  obtain ⟨b, hb⟩ := Option.isSome_iff_exists.mp this
  rw [build_meets_promise hb d₁, build_meets_promise hb d₂]

example : promised [⟨"a.py", .wb, [120, 10]⟩, ⟨"__init__.py", .ab, []⟩, ⟨"a.py", .ab, [121]⟩] "a.py" = some [120, 10, 121] := by decide

/-- the regression: with the text-mode "unchanged?" test a CR LF copy of the output survives the run -/
theorem skip_text_compare_history_dependent :
    ∃ (d₁ d₂ : Dir) (ws : List Write) (p : String), (∃ w ∈ ws, w.path = p ∧ w.mode = .wb) ∧
      dirGet (buildSkipText d₁ ws) p ≠ dirGet (buildSkipText d₂ ws) p :=
  ⟨[], [("a.py", [120, 13, 10])], [⟨"a.py", .wb, [120, 10]⟩], "a.py", ⟨_, List.mem_singleton.mpr rfl, rfl, rfl⟩, by decide⟩

/-- an appending write does see what was there: nothing is promised for the package marker -/
example : dirGet (build [("__init__.py", [35])] [⟨"__init__.py", .ab, []⟩]) "__init__.py"
    ≠ dirGet (build [] [⟨"__init__.py", .ab, []⟩]) "__init__.py" := by decide

end StoneVerif.C12
