import StoneVerif.Lemmas.DeclPyTop
/-!
# C09 - generated Python modules load and expose the whole API

Model: `StoneVerif/Model/DeclPy.lean` (`pyTypesStmts`: the top-level statements of a generated namespace module
reduced to what they bind and which generated names they evaluate at import time; `importFrom`: CPython's import-time
semantics for such statement lists).  The model is tied to stone/backends/python_types.py by the `decl.py.stmts`
correspondence (every generated module is parsed with `ast` and reduced the same way) and by the table pins below.
-/
namespace StoneVerif.C09
open StoneVerif.DeclPy

/-! ## Pins to the source (the translator copies these from /repo on every run) -/

/-- `_generate_base_namespace_module` emits its sections in the order the model assumes. -/
theorem section_order_pinned : Tables.pyTypesModuleCalls = sectionOrder := by rfl

/-- the word splitter of the model was written from these two regular expressions -/
theorem split_words_res_pinned :
    Tables.pyTypesSplitWordsCapRe = "^[a-z0-9]+|[A-Z][a-z0-9]+|[A-Z]+(?=[A-Z][a-z0-9])|[A-Z]+$"
    ∧ Tables.pyTypesSplitWordsDashRe = "[-_/]+" := by decide

/-- the alias definition and the enumerated-subtypes mapping spell their targets through `fmt_class` /
`class_name_for_data_type`, like every reference to them (they used to print the raw name: repaired) -/
theorem raw_name_sites_pinned :
    Tables.pyTypesRawNameSites = ["alias_validator:'{}_validator'.format(fmt_class(alias.name))",
      "subtype_map:'{}._tag_to_subtype_ = '.format(class_name_for_data_type(data_type))",
      "subtype_map:'{}._pytype_to_tag_and_subtype_ = '.format(class_name_for_data_type(data_type))"] := by decide

/-- `_reserved_keywords` -/
theorem reserved_keywords_pinned :
    Tables.pyReservedKeywords = ["async", "break", "class", "continue", "for", "pass", "while"] := by decide

/-! ## The module exposes the whole API -/

/-- Every name the property text promises at module level is bound by a top-level statement: a class per struct
and union, `<Name>_validator` per type and alias, a route object per route version, `ROUTES`. (For ALL `Api`s.) -/
theorem exposes_all_globals (api : Api) (ns : Namespace) :
    ∀ n ∈ expectedGlobals ns, n ∈ (pyTypesStmts api ns).flatMap Stmt.globals := by
  intro n hn
  rw [globals_pyTypesStmts]
  simp only [expectedGlobals, bindNames, List.mem_append, List.mem_map, List.mem_flatMap, List.mem_cons,
    List.mem_singleton, List.mem_nil_iff, or_false] at hn ⊢
  rcases hn with (((⟨d, hd, rfl⟩ | ⟨d, hd, rfl⟩) | ⟨a, ha, rfl⟩) | ⟨r, hr, rfl⟩) | rfl
  · exact Or.inl (Or.inl (Or.inl (Or.inr ⟨d, hd, Or.inl rfl⟩)))
  · exact Or.inl (Or.inl (Or.inl (Or.inr ⟨d, hd, Or.inr rfl⟩)))
  · exact Or.inl (Or.inl (Or.inr ⟨a, ha, Or.inl rfl⟩))
  · exact Or.inl (Or.inr ⟨r, hr, rfl⟩)
  · exact Or.inr rfl

/-- Each struct and union is a class whose Python base is the class of its spec parent (through the parent's
module when it lives in another namespace; the runtime base class otherwise), whose body binds the promised
attributes of every OWN member (struct: an attribute per field; union: `is_<tag>` for every tag, `get_<tag>` and a
constructor method for every typed tag, an instance attribute for every void tag), and - for a struct - whose
constructor takes all fields including inherited ones; `<Name>_validator` is built from that class. -/
theorem exposes_all_classes (api : Api) (ns : Namespace) (d : DataType) (hd : d ∈ ns.types) :
    (∃ body ctor, Stmt.cls (fmtClass d.name) (expectedBase ns.name d) body ctor ∈ pyTypesStmts api ns
      ∧ (∀ f ∈ d.fields, ∀ a ∈ memberAttrs d.isStruct f, a ∈ body)
      ∧ (d.isStruct = true → ctor = some (expectedCtor api d)))
    ∧ Stmt.assign (fmtClass d.name ++ "_validator") none none [here (fmtClass d.name)] ∈ pyTypesStmts api ns :=
  ⟨class_stmt api ns d hd, type_validator api ns d hd⟩

/-- Inherited members: every attribute promised for a member declared by `d` or by ANY ancestor (to any depth,
across namespaces) is found by Python attribute lookup on the class of `d`: it is bound in the body of the class of
`d` or of a class reached by following the Python bases, which are the classes of the spec parents. -/
theorem exposes_all_inherited (api : Api) (ns : Namespace) (hns : ns ∈ api.namespaces) (d : DataType)
    (hd : d ∈ ns.types) (n : Nat) :
    ∀ kf ∈ chainMembersK api n d, ∀ a ∈ memberAttrs kf.1 kf.2, HasAttr api ns.name d a :=
  hasAttr_chain api n ns hns d hd

/-- the members `exposes_all_inherited` ranges over are exactly the own and inherited fields / tags -/
theorem chain_members_are_all_fields (api : Api) (n : Nat) (d : DataType) :
    (chainMembersK api n d).map (·.2) = chainFields api n d := chainMembersK_fields api n d

/-- Every alias has `<Name>_validator`. -/
theorem exposes_all_aliases (api : Api) (ns : Namespace) (a : Alias) (ha : a ∈ ns.aliases) :
    ∃ copy uses, Stmt.assign (fmtClass a.name ++ "_validator") none copy uses ∈ pyTypesStmts api ns :=
  alias_validator api ns a ha

/-- Every route version is a route object bound to `fmt_func(name, version)` whose expression evaluates the
validators of its argument, result and error types; `ROUTES` lists every one of them. -/
theorem exposes_all_routes (api : Api) (ns : Namespace) :
    (∃ uses, Stmt.assign "ROUTES" none none uses ∈ pyTypesStmts api ns
      ∧ ∀ r ∈ ns.routes, here (fmtFunc r.name false r.version) ∈ uses)
    ∧ ∀ r ∈ ns.routes, ∃ uses, Stmt.assign (fmtFunc r.name false r.version) none none uses ∈ pyTypesStmts api ns
        ∧ (∀ x ∈ tyRefs ns.name r.arg ++ tyRefs ns.name r.result ++ tyRefs ns.name r.error, x ∈ uses) :=
  routes_listed api ns

/-! ## No module-level name is bound twice -/

theorem nodup_of_nodupB : ∀ {l : List Name}, nodupB l = true → l.Nodup
  | [], _ => List.nodup_nil
  | x :: xs, h => by
    simp only [nodupB, Bool.and_eq_true, Bool.not_eq_true', List.contains_eq_mem, decide_eq_false_iff_not] at h
    exact List.nodup_cons.mpr ⟨h.1, nodup_of_nodupB h.2⟩

/-- The module-level names a generated module binds are, in order, the list `bindNames` (imports, annotation
types, classes and their validators, alias validators and class aliases, route objects, `ROUTES`); when those are
pairwise different - which the compiler's canonical-name rule is meant to ensure - nothing is bound twice. -/
theorem defines_once (api : Api) (ns : Namespace) (h : nodupB (bindNames api ns) = true) :
    ((pyTypesStmts api ns).flatMap Stmt.globals).Nodup := by
  rw [globals_pyTypesStmts]
  exact nodup_of_nodupB h

/-! ## The generated package imports -/

/-- **The generated package imports, whichever namespace module is imported first.** For every API description
that satisfies `apiWF` (decidable; evaluated by the driver on every explored spec) and whose import graph is
acyclic, importing the module of ANY namespace `first` into a fresh interpreter succeeds, and leaves that module
completely loaded (`Loaded`: classes, validators, reflection tables, aliases are all bound). -/
theorem import_safe (api : Api) (h : apiWF api = true) (hdag : Acyclic (importEdges api)) (first : Namespace)
    (hf : first ∈ api.namespaces) :
    ∃ st, importFrom (pyModules api) (fmtNamespace first.name) = .ok st ∧ Loaded api st first := by
  obtain ⟨st', hrun, _, hl⟩ := import_step h hdag (st := {}) ⟨stWF_empty, fun _ _ hs => by simp at hs⟩ hf
  exact ⟨st', hrun, hl⟩

/-- the same, read off the result: no exception -/
theorem import_safe_no_error (api : Api) (h : apiWF api = true) (hdag : Acyclic (importEdges api))
    (first : Namespace) (hf : first ∈ api.namespaces) :
    errOf (importFrom (pyModules api) (fmtNamespace first.name)) = none := by
  obtain ⟨st, hst, _⟩ := import_safe api h hdag first hf
  rw [hst]; rfl

/-- … and importing every other module afterwards (what the harness does in each fresh interpreter, and what the
driver reports as the model's verdict) succeeds too, with every module completely loaded. -/
theorem import_all_safe (api : Api) (h : apiWF api = true) (hdag : Acyclic (importEdges api)) (first : Namespace)
    (hf : first ∈ api.namespaces) :
    ∃ st, importAll (pyModules api) (fmtNamespace first.name) = .ok st
      ∧ ∀ ns ∈ api.namespaces, Loaded api st ns := by
  have key : ∀ (l : List Namespace), (∀ ns ∈ l, ns ∈ api.namespaces) → ∀ st, TopInv api st →
      ∃ st', (l.map modName).foldlM (fun st m => runMod (pyModules api) ((pyModules api).length + 1) st m) st = .ok st'
        ∧ TopInv api st' ∧ (∀ m ∈ st.started, m ∈ st'.started) ∧ ∀ ns ∈ l, modName ns ∈ st'.started := by
    intro l
    induction l with
    | nil => intro _ st hinv; exact ⟨st, rfl, hinv, fun _ h => h, fun _ h => by simp at h⟩
    | cons x xs ih =>
      intro hsub st hinv
      obtain ⟨st1, hrun, hinv1, hl1⟩ := import_step h hdag hinv (hsub x List.mem_cons_self)
      have hmono1 : ∀ m ∈ st.started, m ∈ st1.started := by
        intro m hm
        by_cases hst : modName x ∈ st.started
        · rw [runMod_started hst] at hrun; injection hrun with hrun; subst hrun; exact hm
        · -- the state only grows
          obtain ⟨rank, hrank⟩ := hdag
          obtain ⟨st1', hrun', hpost⟩ := load_module h rank hrank (rank x.name + 1) x (hsub x List.mem_cons_self)
            (Nat.lt_succ_self _) ((pyModules api).length + 1) st hinv.wf
            (by rw [pyModules_length]; exact Nat.lt_succ_of_le (unstartedIn_le_length _ _))
            (fun ns' hns' _ hs' => hinv.loaded ns' hns' hs') hst
          rw [hrun] at hrun'; injection hrun' with hrun'; subst hrun'
          exact hpost.le.started m hm
      obtain ⟨st2, hfold, hinv2, hmono2, hall2⟩ := ih (fun ns hns => hsub ns (List.mem_cons_of_mem _ hns)) st1 hinv1
      refine ⟨st2, ?_, hinv2, fun m hm => hmono2 m (hmono1 m hm), ?_⟩
      · simp only [List.map_cons, List.foldlM_cons, hrun, bind, Except.bind]
        exact hfold
      · intro ns hns
        rcases List.mem_cons.mp hns with rfl | hns
        · exact hmono2 _ hl1.started
        · exact hall2 ns hns
  obtain ⟨st', hfold, hinv', _, hall'⟩ := key (first :: api.namespaces)
    (fun ns hns => by rcases List.mem_cons.mp hns with rfl | hns; exact hf; exact hns) {}
    ⟨stWF_empty, fun _ _ hs => by simp at hs⟩
  refine ⟨st', ?_, fun ns hns => hinv'.loaded ns hns (hall' ns (List.mem_cons_of_mem _ hns))⟩
  have hnames : (pyModules api).map (·.1) = api.namespaces.map modName := by
    simp [pyModules, modName, Function.comp_def]
  unfold importAll
  rw [hnames]
  exact hfold


/-- the executable acyclicity test the driver reports (`"acyclic"`) is sound: it exhibits the ranking -/
theorem acyclic_of_acyclicB (api : Api) (h : acyclicB api = true) : Acyclic (importEdges api) := by
  refine ⟨rankFn (apiRanks api), fun e he => ?_⟩
  simp only [acyclicB, List.all_eq_true, decide_eq_true_eq] at h
  exact h e he

/-- both hypotheses in the form the driver evaluates them on every explored spec -/
theorem import_all_safe_checked (api : Api) (h : apiWF api = true) (hdag : acyclicB api = true) (first : Namespace)
    (hf : first ∈ api.namespaces) : errOf (importAll (pyModules api) (fmtNamespace first.name)) = none := by
  obtain ⟨st, hst, _⟩ := import_all_safe api h (acyclic_of_acyclicB api hdag) first hf
  rw [hst]; rfl

/-- Non-vacuity: two namespaces; a struct tree with an omitted caller, a struct and a union extending across the
namespace border, aliases of aliases ending in a class, a tag default reached through an alias, forward references,
a route. `apiWF` and acyclicity hold, so `import_safe` applies (and the import indeed succeeds, by evaluation). -/
def sampleApi : Api := { namespaces := [
  { name := "base",
    types := [
      { isStruct := true, name := "Root", subtypes := [("base", "Leaf")],
        fields := [{ name := "id", ty := .alias "base" "Id" }, { name := "hidden", ty := .nullable .prim, caller := some "internal" }] },
      { isStruct := true, name := "Leaf", parent := some ("base", "Root"),
        fields := [{ name := "later", ty := .list (.user "base" "Zed") }] },
      { isStruct := false, name := "Level", catchAll := true,
        fields := [{ name := "low", ty := .void }, { name := "custom", ty := .prim }, { name := "other", ty := .void }] },
      { isStruct := true, name := "Zed", fields := [{ name := "lvl", ty := .user "base" "Level", dflt := some (.tag (.user "base" "Level") "low") }] }],
    aliases := [{ name := "Id", ty := .prim }, { name := "LevelAlias", ty := .user "base" "Level" }] },
  { name := "top", imports := ["base"],
    types := [
      { isStruct := true, name := "Child", parent := some ("base", "Zed"),
        fields := [{ name := "pick", ty := .alias "top" "Lvl2", dflt := some (.tag (.alias "top" "Lvl2") "low") },
                   { name := "secret", ty := .prim, caller := some "internal", redact := true }] },
      { isStruct := false, name := "More", parent := some ("base", "Level"),
        fields := [{ name := "extreme", ty := .void }, { name := "detail", ty := .user "top" "Child" }] }],
    aliases := [{ name := "Lvl2", ty := .alias "base" "LevelAlias" }, { name := "Ids", ty := .list (.alias "base" "Id") }],
    routes := [{ name := "get_thing", version := 2, arg := .user "top" "Child", result := .alias "top" "Ids",
                 error := .user "top" "More", attrs := [("auth", .plain)] }] }] }

set_option maxRecDepth 100000 in
example : apiWF sampleApi = true ∧ acyclicB sampleApi = true
    ∧ errOf (importAll (pyModules sampleApi) "top") = none ∧ errOf (importAll (pyModules sampleApi) "base") = none := by
  refine ⟨by decide, by decide, by decide, by decide⟩

/-! ## Witnesses: why `import_safe` needs its hypotheses -/

/-- three namespaces importing each other in a circle (the compiler used to accept this - it only detected
two-namespace cycles; since the repair "an import cycle through three or more namespaces is a spec error" it refuses
it, so the real toolchain now supplies the acyclicity hypothesis; the witness stays as the model-level reason why
`import_safe` needs it) -/
def cycleApi : Api := { namespaces := [
  { name := "na", imports := ["nb"], types := [{ isStruct := true, name := "A", fields := [{ name := "f", ty := .user "nb" "B" }] }] },
  { name := "nb", imports := ["nc"], types := [{ isStruct := true, name := "B", fields := [{ name := "f", ty := .user "nc" "C" }] }] },
  { name := "nc", imports := ["na"], types := [{ isStruct := true, name := "C", fields := [{ name := "f", ty := .user "na" "A" }] }] }] }

set_option maxRecDepth 100000 in
/-- Without acyclicity the import fails although everything else is in order: importing `na` first runs `nb`, which
runs `nc`, which receives the still empty module `na` and evaluates `na.A_validator`. -/
theorem import_cycle_witness :
    apiWF cycleApi = true ∧ ¬ Acyclic (importEdges cycleApi)
    ∧ errOf (importFrom (pyModules cycleApi) "na") = some (.attrError "nc" ⟨some "na", "A_validator", none⟩) := by
  refine ⟨by decide, ?_, by decide⟩
  rintro ⟨rank, h⟩
  have h1 := h ("na", "nb") (by decide)
  have h2 := h ("nb", "nc") (by decide)
  have h3 := h ("nc", "na") (by decide)
  simp only at h1 h2 h3
  omega

/-- `alias A = List(Z)` with `Z` a later alias: `linearize_aliases` used to follow only direct alias → alias edges
and left `A` first (repaired: "linearize_aliases places aliases mentioned inside List, Map and Nullable first"; the
hand seeds `alias-order-*` are kept as regression inputs). The witness shows why `apiWF` asks for the order AT ANY
DEPTH. -/
def aliasOrderApi : Api := { namespaces := [
  { name := "n", aliases := [{ name := "A", ty := .list (.alias "n" "Z") }, { name := "Z", ty := .prim }] }] }

def aliasOrderFixedApi : Api := { namespaces := [
  { name := "n", aliases := [{ name := "Z", ty := .prim }, { name := "A", ty := .list (.alias "n" "Z") }] }] }

set_option maxRecDepth 100000 in
/-- The order hypothesis on aliases (every alias mentioned at ANY depth precedes) is needed: with `A` first the
module fails with NameError on `Z_validator`; with `Z` first it loads. -/
theorem alias_order_witness :
    apiWF aliasOrderApi = false
    ∧ errOf (importFrom (pyModules aliasOrderApi) "n") = some (.nameError "n" ⟨none, "Z_validator", none⟩)
    ∧ apiWF aliasOrderFixedApi = true
    ∧ errOf (importFrom (pyModules aliasOrderFixedApi) "n") = none := by
  refine ⟨by decide, by decide, by decide, by decide⟩

/-- `alias AS = String` used by a field (regression: it used to be defined as `AS_validator` and referenced as
`As_validator`) -/
def aliasNameApi : Api := { namespaces := [
  { name := "n", aliases := [{ name := "AS", ty := .prim }],
    types := [{ isStruct := true, name := "S", fields := [{ name := "f", ty := .alias "n" "AS" }] }] }] }

/-- `alias HTTPUnion = U` with a tag default through the alias, and a struct tree whose root is called `HTTPRoot`
(regression: class alias and subtype tables used to be spelled with the raw names) -/
def classAliasNameApi : Api := { namespaces := [
  { name := "n", aliases := [{ name := "HTTPUnion", ty := .user "n" "U" }],
    types := [{ isStruct := false, name := "U", fields := [{ name := "x", ty := .void }] },
              { isStruct := true, name := "S",
                fields := [{ name := "f", ty := .alias "n" "HTTPUnion", dflt := some (.tag (.alias "n" "HTTPUnion") "x") }] },
              { isStruct := true, name := "HTTPRoot", subtypes := [("n", "HTTPLeaf")] },
              { isStruct := true, name := "HTTPLeaf", parent := some ("n", "HTTPRoot") }] }] }

set_option maxRecDepth 100000 in
/-- Regression examples: names that are not fixed points of `fmt_class` are well-formed and load. -/
theorem alias_name_regression :
    apiWF aliasNameApi = true ∧ errOf (importFrom (pyModules aliasNameApi) "n") = none
    ∧ apiWF classAliasNameApi = true ∧ errOf (importFrom (pyModules classAliasNameApi) "n") = none := by
  refine ⟨by decide, by decide, by decide, by decide⟩

/-- a route attribute holding a union tag: `TagRef(Union(...), 'tag')` is printed into the module (listed finding
D37; printing it as `[ns.]U.tag` was tried and withdrawn: the import it needs can close an import cycle) -/
def tagRefAttrApi : Api := { namespaces := [
  { name := "n", routes := [{ name := "r", attrs := [("mode", .tagRef)] }] }] }

/-- a Timestamp route attribute (regression: `datetime` is now imported by the module) -/
def timestampAttrApi : Api := { namespaces := [
  { name := "n", routes := [{ name := "r", attrs := [("ts", .timestamp)] }] }] }

set_option maxRecDepth 100000 in
/-- The hypothesis that no route attribute is a union tag is needed; a Timestamp attribute is fine. -/
theorem route_attr_witness :
    apiWF tagRefAttrApi = false
    ∧ errOf (importFrom (pyModules tagRefAttrApi) "n") = some (.nameError "n" ⟨none, "TagRef", none⟩)
    ∧ apiWF timestampAttrApi = true ∧ errOf (importFrom (pyModules timestampAttrApi) "n") = none := by
  refine ⟨by decide, by decide, by decide, by decide⟩

end StoneVerif.C09
