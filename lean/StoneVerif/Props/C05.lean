import StoneVerif.Lemmas.RtWire
/-!
Property theorems for C05: the JSON produced for a valid value is the representation prescribed by
docs/json_serializer.rst.

* `wire` (Model/Rt/Spec.lean) is the document as a function; the shape theorems below (`wire_struct_keys`,
  `wire_union_shape`, `wire_subtype_tag`, `wire_prims`) show that it says what the property text says.
* `public_fields_table`: the table `encode_struct` walks is the list of public fields of the chain.
-/
namespace StoneVerif.C05
open StoneVerif.Rt

/-- The field table the serializer walks for a caller without permissions (`_all_fields_`, with the
assignment / inheritance semantics of the generated reflection code) is exactly the public fields declared
along the inheritance chain, parents first, in declaration order. (No well-formedness needed.) -/
theorem public_fields_table (s : StructDef) :
    s.fieldsFor [] = s.fieldsSpec [] ∧
    (s.allFieldsAttr none).getD [] = (s.levels.flatMap (·.fields)).filter (·.omitted == none) :=
  ⟨fieldsFor_nil s, allFieldsAttr_none_getD s⟩

/-- A struct is an object whose keys are the names of the public fields of the class, in declaration order
(parents first), that are set to a value other than None: one key per set field, unset optional fields omitted. -/
theorem wire_struct_keys (E : Ext) (env : Env) (fl : Flags) (cls c : String) (slots : List (String × PyVal)) :
    ∃ kvs, wire E env (.struct fl cls) (.struct c slots) = .obj kvs ∧
      kvs.map (·.1) = ((publicFields env cls).filter fun f => slotSet f.name slots).map (·.name) := by
  refine ⟨pick (publicFields env cls) (wireSlots E env (publicFields env cls) slots), by simp only [wire], ?_⟩
  rw [pick_keys]
  congr 1
  apply List.filter_congr
  intro f hf
  apply lookupW_wireSlots_isSome
  rw [List.find?_isSome]
  exact ⟨f, hf, by simp⟩

/-- The four union forms of json_serializer.rst, for a tag `td` the caller can see:
void member → tag only; unset (None) member → tag only; ordinary-struct member → `.tag` first, then the
struct's own members (flattened); anything else → `.tag` and the payload nested under the tag name. -/
theorem wire_union_shape (E : Ext) (env : Env) (fl : Flags) (cls c tag : String) (payload : PyVal) (td : TagDef)
    (htag : publicTag? env cls tag = some td) :
    (isVoidT td.ty = true → wire E env (.union fl cls) (.union c tag payload) = .obj [(".tag", .str tag)]) ∧
    (payload = .none → wire E env (.union fl cls) (.union c tag payload) = .obj [(".tag", .str tag)]) ∧
    (∀ fl' sc c' slots, td.ty = .struct fl' sc → payload = .struct c' slots →
      wire E env (.union fl cls) (.union c tag payload) =
        .obj ((".tag", .str tag) :: pick (publicFields env sc) (wireSlots E env (publicFields env sc) slots))) ∧
    (isVoidT td.ty = false → payload ≠ .none → (∀ fl' sc, td.ty ≠ .struct fl' sc) →
      wire E env (.union fl cls) (.union c tag payload) =
        .obj [(".tag", .str tag), (tag, wire E env td.ty payload)]) := by
  refine ⟨?_, ?_, ?_, ?_⟩
  · intro hv
    cases hty : td.ty <;> simp_all [isVoidT, wire]
  · rintro rfl
    cases hty : td.ty <;> simp [wire, htag, hty]
  · rintro fl' sc c' slots hty rfl
    simp [wire, htag, hty]
  · intro hv hp hns
    cases hty : td.ty <;> cases payload <;> simp_all [isVoidT, wire]

/-- A struct under an enumerated-subtype parent carries its subtype tag as `.tag`, first, followed by the
members of the instance's own class. -/
theorem wire_subtype_tag (E : Ext) (env : Env) (fl : Flags) (cls c tag : String) (slots : List (String × PyVal))
    (hleaf : leafTag? env cls c = some tag) :
    wire E env (.tree fl cls) (.struct c slots) =
      .obj ((".tag", .str tag) :: pick (publicFields env c) (wireSlots E env (publicFields env c) slots)) := by
  simp [wire, hleaf]

/-- Bytes are base64 strings, Timestamps strings in their declared format, integers and floats numbers,
Booleans booleans, Strings strings, Void (and an unset nullable) null, Lists arrays of the items'
representations, Maps objects from the keys to the values' representations. -/
theorem wire_prims (E : Ext) (env : Env) :
    (∀ t h, wire E env t (.bytes h) = .str (E.b64enc h)) ∧
    (∀ fl fmt id ok, wire E env (.ts fl fmt) (.ts id ok) = .str (E.strftime fmt id)) ∧
    (∀ t n, wire E env t (.int n) = .int n) ∧
    (∀ t x, wire E env t (.flt x) = .flt x) ∧
    (∀ fl b, wire E env (.bool fl) (.bool b) = .bool b) ∧
    (∀ t s, wire E env t (.str s) = .str s) ∧
    (∀ t, wire E env t .none = .null) ∧
    (∀ fl item lo hi xs, wire E env (.list fl item lo hi) (.list xs) = .arr (xs.map (wire E env item))) ∧
    (∀ fl kt vt (kvs : List (String × PyVal)),
      wire E env (.map fl kt vt) (.dict (kvs.map fun kx => (.str kx.1, kx.2))) =
        .obj (kvs.map fun kx => (kx.1, wire E env vt kx.2))) := by
  refine ⟨?_, ?_, ?_, ?_, ?_, ?_, ?_, ?_, ?_⟩ <;> intros <;>
    simp [wire, wireList_eq_map, wireDict_strKeys]

end StoneVerif.C05
