import StoneVerif.Lemmas.RtWireMain
/-!
Property theorems for C05: the JSON produced for a valid value is the representation prescribed by
docs/json_serializer.rst.

* `wire` (Model/Rt/Spec.lean) is the document as a function; the shape theorems below (`wire_struct_keys`,
  `wire_union_shape`, `wire_subtype_tag`, `wire_prims`) show that it says what the property text says.
* `public_fields_table`: the table `encode_struct` walks is the list of public fields of the chain.
* `encode_eq_wire` (headline): on every valid value in stored-normal form the code-following encoder succeeds
  and returns exactly `wire`. It needs one fact beyond `envWF`: `envWFX` (Model/Rt/WFExtra.lean) — the field
  table a class inherits is, field by field, the registered table of its ancestor. `envWF` compares the chains
  by class and field *names* only, and with that alone the statement is false
  (`encode_eq_wire_needs_chain`, witness `chainWitnessEnv`).
-/
namespace StoneVerif.C05
open StoneVerif.Rt

/-- The field table the serializer walks for a caller without permissions (`_all_fields_`, with the
assignment / inheritance semantics of the generated reflection code) is exactly the public fields declared
along the inheritance chain, parents first, in declaration order. (No well-formedness needed.) -/
theorem public_fields_table (s : StructDef) :
    s.fieldsFor [] = s.fieldsSpec [] ∧
    (s.allFieldsAttr none).getD [] = (s.levels.flatMap (·.fields)).filter (·.omitted == none) :=
  ⟨fieldsFor_nil s, allFieldsAttr_none_getD s⟩

/-- A struct is an object whose keys are the names of the public fields of the class, in declaration order
(parents first), that are set to a value other than None: one key per set field, unset optional fields omitted. -/
theorem wire_struct_keys (E : Ext) (env : Env) (fl : Flags) (cls c : String) (slots : List (String × PyVal)) :
    ∃ kvs, wire E env (.struct fl cls) (.struct c slots) = .obj kvs ∧
      kvs.map (·.1) = ((publicFields env cls).filter fun f => slotSet f.name slots).map (·.name) := by
  refine ⟨pick (publicFields env cls) (wireSlots E env (publicFields env cls) slots), by simp only [wire], ?_⟩
  rw [pick_keys]
  congr 1
  apply List.filter_congr
  intro f hf
  apply lookupW_wireSlots_isSome
  rw [List.find?_isSome]
  exact ⟨f, hf, by simp⟩

/-- The members of a struct, completely: for each public field of the class, in declaration order, that is set
to a value other than None, the pair of the field's name and the representation of that value at the field's
type ("recursively"). Field names of a class are unique in a well-formed environment. -/
theorem wire_struct_members (E : Ext) (env : Env) (hwf : envWF env = true) (fl : Flags) (cls c : String)
    (slots : List (String × PyVal)) :
    wire E env (.struct fl cls) (.struct c slots) =
      .obj ((publicFields env cls).filterMap fun f =>
        (firstSet f.name slots).map fun x => (f.name, wire E env f.ty x)) := by
  simp only [wire]
  rw [pick_wireSlots E env _ (publicFields_names_inj hwf cls)]

/-- The four union forms of json_serializer.rst, for a tag `td` the caller can see:
void member → tag only; unset (None) member → tag only; ordinary-struct member → `.tag` first, then the
struct's own members (flattened); anything else → `.tag` and the payload nested under the tag name. -/
theorem wire_union_shape (E : Ext) (env : Env) (fl : Flags) (cls c tag : String) (payload : PyVal) (td : TagDef)
    (htag : publicTag? env cls tag = some td) :
    (isVoidT td.ty = true → wire E env (.union fl cls) (.union c tag payload) = .obj [(".tag", .str tag)]) ∧
    (payload = .none → wire E env (.union fl cls) (.union c tag payload) = .obj [(".tag", .str tag)]) ∧
    (∀ fl' sc c' slots, td.ty = .struct fl' sc → payload = .struct c' slots →
      wire E env (.union fl cls) (.union c tag payload) =
        .obj ((".tag", .str tag) :: pick (publicFields env sc) (wireSlots E env (publicFields env sc) slots))) ∧
    (isVoidT td.ty = false → payload ≠ .none → (∀ fl' sc, td.ty ≠ .struct fl' sc) →
      wire E env (.union fl cls) (.union c tag payload) =
        .obj [(".tag", .str tag), (tag, wire E env td.ty payload)]) := by
  refine ⟨?_, ?_, ?_, ?_⟩
  · intro hv
    cases hty : td.ty <;> simp_all [isVoidT, wire]
  · rintro rfl
    cases hty : td.ty <;> simp [wire, htag, hty]
  · rintro fl' sc c' slots hty rfl
    simp [wire, htag, hty]
  · intro hv hp hns
    cases hty : td.ty <;> cases payload <;> simp_all [isVoidT, wire]

/-- A struct under an enumerated-subtype parent carries its subtype tag as `.tag`, first, followed by the
members of the instance's own class. -/
theorem wire_subtype_tag (E : Ext) (env : Env) (fl : Flags) (cls c tag : String) (slots : List (String × PyVal))
    (hleaf : leafTag? env cls c = some tag) :
    wire E env (.tree fl cls) (.struct c slots) =
      .obj ((".tag", .str tag) :: pick (publicFields env c) (wireSlots E env (publicFields env c) slots)) := by
  simp [wire, hleaf]

/-- Bytes are base64 strings, Timestamps strings in their declared format, integers and floats numbers,
Booleans booleans, Strings strings, Void (and an unset nullable) null, Lists arrays of the items'
representations, Maps objects from the keys to the values' representations. -/
theorem wire_prims (E : Ext) (env : Env) :
    (∀ t h, wire E env t (.bytes h) = .str (E.b64enc h)) ∧
    (∀ fl fmt id ok, wire E env (.ts fl fmt) (.ts id ok) = .str (E.strftime fmt id)) ∧
    (∀ t n, wire E env t (.int n) = .int n) ∧
    (∀ t x, wire E env t (.flt x) = .flt x) ∧
    (∀ fl b, wire E env (.bool fl) (.bool b) = .bool b) ∧
    (∀ t s, wire E env t (.str s) = .str s) ∧
    (∀ t, wire E env t .none = .null) ∧
    (∀ fl item lo hi xs, wire E env (.list fl item lo hi) (.list xs) = .arr (xs.map (wire E env item))) ∧
    (∀ fl kt vt (kvs : List (String × PyVal)),
      wire E env (.map fl kt vt) (.dict (kvs.map fun kx => (.str kx.1, kx.2))) =
        .obj (kvs.map fun kx => (kx.1, wire E env vt kx.2))) := by
  refine ⟨?_, ?_, ?_, ?_, ?_, ?_, ?_, ?_, ?_⟩ <;> intros <;>
    simp [wire, wireList_eq_map, wireDict_strKeys]

/-! ## The headline -/

/-- HEADLINE. For a caller without permissions and no redaction, on every valid value in stored-normal form,
`StoneToPythonPrimitiveSerializer.encode_sub` (model: `encode`) succeeds and produces exactly the
representation json_serializer.rst prescribes (`wire`), whatever the `norm` flag of the enclosing container.

`hchain : envWFX env = true` is the one hypothesis beyond the planned statement: every class of a struct's
chain is registered and its registered fields are, field by field (name, validator, nullable / has-default /
omitted-caller attributes), the first fields of the struct. Without it the statement is false of the model:
see `encode_eq_wire_needs_chain` below.

The statement as planned (false, kept for the record):
```
theorem encode_eq_wire (E : Ext) (env : Env) (hwf : envWF env = true) (t : PTy) (v : PyVal) (norm : Bool)
    (htwf : tyWF env t = true) (hv : validB E env t v = true) (hn : normalB env t v = true) :
    encode E env [] false norm t v = .ok (wire E env t v)
``` -/
theorem encode_eq_wire (E : Ext) (env : Env) (hwf : envWF env = true) (hchain : envWFX env = true)
    (t : PTy) (v : PyVal) (norm : Bool)
    (htwf : tyWF env t = true) (hv : validB E env t v = true) (hn : normalB env t v = true) :
    encode E env [] false norm t v = .ok (wire E env t v) :=
  encode_wire E env hwf hchain t v norm htwf hv hn

/-- the same for the entry point `json_compat_obj_encode(data_type, obj)` -/
theorem jsonCompatObjEncode_eq_wire (E : Ext) (env : Env) (hwf : envWF env = true) (hchain : envWFX env = true)
    (t : PTy) (v : PyVal)
    (htwf : tyWF env t = true) (hv : validB E env t v = true) (hn : normalB env t v = true) :
    jsonCompatObjEncode E env [] false t v = .ok (wire E env t v) :=
  encode_wire E env hwf hchain t v false htwf hv hn

/-- the companion statements for the items of a list, the entries of a map and the slots of a struct -/
theorem encode_parts_eq_wire (E : Ext) (env : Env) (hwf : envWF env = true) (hchain : envWFX env = true) :
    (∀ t xs, tyWF env t = true → validList E env t xs = true → normalList env t xs = true →
      encodeList E env [] false t xs = .ok (wireList E env t xs)) ∧
    (∀ fl a b p vt kvs, fl.nullable = false → tyWF env vt = true →
      validDict E env (.str fl a b p) vt kvs = true → normalDict env (.str fl a b p) vt kvs = true →
      encodeDict E env [] false (.str fl a b p) vt kvs = .ok (wireDict E env vt kvs)) ∧
    (∀ fields slots, (∀ f ∈ fields, tyWF env f.ty = true) → fields.all (fun f => attrHas f slots) = true →
      validSlots E env fields slots = true → normalSlots env fields slots = true →
      assembleStruct fields slots (encodeSlots E env [] false fields slots) =
        .ok (pick fields (wireSlots E env fields slots))) := by
  refine ⟨encodeList_wire E env hwf hchain, ?_, ?_⟩
  · intro fl a b p vt kvs hfl
    exact encodeDict_wire E env hwf hchain _ vt kvs (by simp [hfl])
  · intro fields slots hty hall hv hn
    rw [encodeSlots_wire E env hwf hchain fields slots hty hv hn]
    exact assembleStruct_ok fields slots _ hall

/-- What the serializer emits for a valid struct: an object with one key per set public field of the class, in
declaration order. -/
theorem encode_struct_keys (E : Ext) (env : Env) (hwf : envWF env = true) (hchain : envWFX env = true)
    (fl : Flags) (cls c : String) (slots : List (String × PyVal)) (norm : Bool)
    (htwf : tyWF env (.struct fl cls) = true) (hv : validB E env (.struct fl cls) (.struct c slots) = true)
    (hn : normalB env (.struct fl cls) (.struct c slots) = true) :
    ∃ kvs, encode E env [] false norm (.struct fl cls) (.struct c slots) = .ok (.obj kvs) ∧
      kvs.map (·.1) = ((publicFields env cls).filter fun f => slotSet f.name slots).map (·.name) := by
  obtain ⟨kvs, hw, hk⟩ := wire_struct_keys E env fl cls c slots
  exact ⟨kvs, by rw [encode_eq_wire E env hwf hchain _ _ norm htwf hv hn, hw], hk⟩

/-! ## The corner that `envWF` alone leaves open -/

/-- an `Ext` for the concrete examples (none of them consults it) -/
def exE : Ext where
  fltLt := fun _ _ => false
  fltIsNan := fun _ => false
  fltIsInf := fun _ => false
  fltOfInt := fun _ => none
  patMatch := fun _ _ => true
  b64enc := id
  b64dec := fun _ => none
  strftime := fun _ _ => ""
  strptime := fun _ _ => none
  md5 := id
  reSearch := fun _ _ => none
  strOfInt := fun _ => ""
  strOfFlt := fun _ => ""

def i64 : PTy := .int {} "Int64" (-9223372036854775808) 9223372036854775807

def fld (n : String) (t : PTy) (nullable : Bool := false) (dflt : Option PyVal := none) : FieldDef :=
  { name := n, ty := t, attrNullable := nullable, attrUserDefined := false, dflt := dflt, omitted := none }

/-- `ns.A` is registered with a required field `x`, but the copy of `ns.A`'s level inside the chain of its
subclass `ns.B` says `x` is nullable. `envWF` (names only) accepts this; no generated module looks like it. -/
def chainWitnessEnv : Env :=
  { structs := [
      { cls := "ns.A", levels := [{ cls := "ns.A", fields := [fld "x" i64] }], subtypes := none, catchAll := false },
      { cls := "ns.B", levels := [{ cls := "ns.A", fields := [fld "x" i64 (nullable := true)] },
                                  { cls := "ns.B", fields := [] }], subtypes := none, catchAll := false }],
    unions := [] }

/-- FINDING (about the model's `envWF`, not about the Python): with `envWF` alone the planned statement fails.
`B()` with nothing set is valid for `Struct(A)` by the table of its own class (where `x` is nullable), and
the encoder, reading `A`'s table, reports a missing required field. `envWFX` is false of this environment. -/
theorem encode_eq_wire_needs_chain :
    envWF chainWitnessEnv = true ∧ envWFX chainWitnessEnv = false ∧
    tyWF chainWitnessEnv (.struct {} "ns.A") = true ∧
    validB exE chainWitnessEnv (.struct {} "ns.A") (.struct "ns.B" []) = true ∧
    normalB chainWitnessEnv (.struct {} "ns.A") (.struct "ns.B" []) = true ∧
    (encode exE chainWitnessEnv [] false false (.struct {} "ns.A") (.struct "ns.B" [])).isOk = false := by
  decide +kernel

/-! ## Non-vacuity: the examples of json_serializer.rst -/

def lvA : Level := { cls := "ns.A", fields := [fld "w" i64] }

/-- the specs of json_serializer.rst: `Coordinate`, `SurveyAnswer`, the enumerated-subtypes tree `A`/`B`/`C`,
the unions `U` and `Infinity` -/
def docEnv : Env :=
  { structs := [
      { cls := "ns.Coordinate", levels := [{ cls := "ns.Coordinate", fields := [fld "x" i64, fld "y" i64] }],
        subtypes := none, catchAll := false },
      { cls := "ns.SurveyAnswer", levels := [{ cls := "ns.SurveyAnswer", fields :=
          [fld "age" i64, fld "name" (.str {} none none none) (dflt := some (.str "John Doe")),
           fld "address" (.str { nullable := true } none none none) (nullable := true)] }],
        subtypes := none, catchAll := false },
      { cls := "ns.A", levels := [lvA], subtypes := some [(["b"], "ns.B", false), (["c"], "ns.C", false)],
        catchAll := true },
      { cls := "ns.B", levels := [lvA, { cls := "ns.B", fields := [fld "x" i64] }], subtypes := none,
        catchAll := false },
      { cls := "ns.C", levels := [lvA, { cls := "ns.C", fields := [fld "y" i64] }], subtypes := none,
        catchAll := false }],
    unions := [
      { cls := "ns.U", levels := [{ cls := "ns.U", tags := [
          { name := "singularity", ty := .void {}, omitted := none },
          { name := "number", ty := i64, omitted := none },
          { name := "coord", ty := .struct { nullable := true } "ns.Coordinate", omitted := none },
          { name := "infinity", ty := .union {} "ns.Infinity", omitted := none }] }], catchAll := none },
      { cls := "ns.Infinity", levels := [{ cls := "ns.Infinity", tags := [
          { name := "positive", ty := .void {}, omitted := none },
          { name := "negative", ty := .void {}, omitted := none }] }], catchAll := none }] }

theorem docEnv_wf : envWF docEnv = true ∧ envWFX docEnv = true := by decide +kernel

/-- "Serializing `A` when it contains a struct `B` (with values of 1 for each field)" -/
example : encode exE docEnv [] false false (.tree {} "ns.A") (.struct "ns.B" [("x", .int 1), ("w", .int 1)]) =
    .ok (.obj [(".tag", .str "b"), ("w", .int 1), ("x", .int 1)]) := by
  rw [encode_eq_wire exE docEnv docEnv_wf.1 docEnv_wf.2 _ _ _ (by decide +kernel) (by decide +kernel)
    (by decide +kernel)]
  rfl

/-- `SurveyAnswer` with only `age` set: the unset optional fields are omitted -/
example : encode exE docEnv [] false false (.struct {} "ns.SurveyAnswer") (.struct "ns.SurveyAnswer" [("age", .int 28)]) =
    .ok (.obj [("age", .int 28)]) := by
  rw [encode_eq_wire exE docEnv docEnv_wf.1 docEnv_wf.2 _ _ _ (by decide +kernel) (by decide +kernel)
    (by decide +kernel)]
  rfl

/-- a list of `U`: void tag, primitive member, flattened struct member, unset nullable member, nested union -/
example : encode exE docEnv [] false false (.list {} (.union {} "ns.U") none none)
      (.list [.union "ns.U" "singularity" .none, .union "ns.U" "number" (.int 42),
              .union "ns.U" "coord" (.struct "ns.Coordinate" [("x", .int 1), ("y", .int 2)]),
              .union "ns.U" "coord" .none,
              .union "ns.U" "infinity" (.union "ns.Infinity" "positive" .none)]) =
    .ok (.arr [.obj [(".tag", .str "singularity")],
               .obj [(".tag", .str "number"), ("number", .int 42)],
               .obj [(".tag", .str "coord"), ("x", .int 1), ("y", .int 2)],
               .obj [(".tag", .str "coord")],
               .obj [(".tag", .str "infinity"), ("infinity", .obj [(".tag", .str "positive")])]]) := by
  rw [encode_eq_wire exE docEnv docEnv_wf.1 docEnv_wf.2 _ _ _ (by decide +kernel) (by decide +kernel)
    (by decide +kernel)]
  rfl

/-- the hypotheses of `encode_struct_keys` are satisfiable; slot order does not matter, declaration order does -/
example : ∃ kvs, encode exE docEnv [] false true (.struct {} "ns.SurveyAnswer")
      (.struct "ns.SurveyAnswer" [("address", .str "x"), ("age", .int 28)]) = .ok (.obj kvs) ∧
      kvs.map (·.1) = ["age", "address"] := by
  obtain ⟨kvs, h, hk⟩ := encode_struct_keys exE docEnv docEnv_wf.1 docEnv_wf.2 {} "ns.SurveyAnswer" "ns.SurveyAnswer"
    [("address", .str "x"), ("age", .int 28)] true (by decide +kernel) (by decide +kernel) (by decide +kernel)
  exact ⟨kvs, h, hk.trans (by decide +kernel)⟩

end StoneVerif.C05
