import StoneVerif.Lemmas.FeCompileEq
import StoneVerif.Lemmas.FeCompileClosed
import StoneVerif.Lemmas.FeCompileFaithful
import StoneVerif.Lemmas.FeCompileAcyclic
import StoneVerif.Lemmas.FeCompileOrder
import StoneVerif.Lemmas.FeCompileFuel
import StoneVerif.Lemmas.FeCompileAnnot
/-!
# C02 for the compile model: the Api is the image of the declarations

`compile` (Model/FeCompile.lean) follows `IRGenerator.generate_IR` of stone/frontend/ir_generator.py restricted to the
type graph; `denote` is the specification-level reading of the same declarations (docs/lang_ref.rst).
-/
namespace StoneVerif.C02Compile
open StoneVerif.FeCompile

/-- **Faithfulness.** Whenever the model of the IR generator accepts a set of spec files, the Api it builds -- types
with parents, members in declaration order with their type expressions, the implicit `other`, aliases, routes,
enumerated subtypes, per namespace in order of first mention -- is exactly what the declarations denote, whatever
the order in which types were populated on demand, aliases were set, and files were given. -/
theorem compile_eq_denote (rx : String → Bool) (fs : List File) (api : Api) (h : compile rx fs = .ok api) :
    denote rx fs = some api :=
  L.compile_denote (L.compile_core h)

/-- **Closure.** Every (namespace, name) that a member type, an alias target, a route type (through List / Map /
Nullable), a parent link or an enumerated-subtype link of the compiled Api mentions is a data type -- respectively an
alias -- that the Api holds in the namespace it names (`Api.closed`, a decidable statement: the driver evaluates it on
every compiled case as well). -/
theorem api_closed (rx : String → Bool) (fs : List File) (api : Api) (h : compile rx fs = .ok api) :
    api.closed = true :=
  L.denote_closed (L.compile_denote (L.compile_core h))

/-- **Members.** Namespace by namespace (order of first mention), type by type (declaration order), member by member
(declaration order): the compiled Api lists exactly the declared types with exactly the declared members, each with
the type its declared type expression denotes, plus only the implicit `other` -- and that only for unions declared
open; aliases likewise with their declared targets. The declared members of a type are its own followed by those of
its patches, in the order of files and declarations (`mergeFiles`). -/
theorem fields_faithful (rx : String → Bool) (fs : List File) (api : Api) (h : compile rx fs = .ok api) :
    Faithful rx (mergeFiles fs) api :=
  L.denote_faithful (L.compile_denote (L.compile_core h))

/-- **Acyclicity.** In a compiled Api no type is its own ancestor, and no alias is reached from its own target
through aliases, List, Map and Nullable (`Path` = one or more steps). For parents this is the depth-first population
with the visiting set `_resolution_in_progress` (a type enters the table after its parent); for aliases it is the
search of `Alias.set_attributes`, which runs against the targets set so far, and the fact that a target never
changes once set. (A struct or union MAY refer to itself through its members: nothing is claimed there.) -/
theorem api_acyclic (rx : String → Bool) (fs : List File) (api : Api) (h : compile rx fs = .ok api) :
    (∀ k, ¬ Path api.parentEdge k k) ∧ (∀ k, ¬ Path api.aliasEdge k k) :=
  L.compile_acyclic (L.compile_core h)

/-- **Order independence of the image** (partial). Two accepted inputs that hold the same declarations in every
namespace once the patches are merged -- distributed over other files, files given in another order, declarations in
another order (`SameDecls` of the merged files; the members two patches add to one type follow the order of the files) -- give every (namespace, name) the same data type (parent, members, catch-all) and the same alias.
Missing for the full statement `compile fs' ≈ compile fs`: that acceptance itself does not depend on the arrangement
(`compile fs = ok ↔ compile fs' = ok`, which needs the decidable `Legal` of compile_error_iff: not proved; the suites
layout / faithful test it), routes and enumerated-subtype tables per key, and the listing orders (which DO follow the
arrangement until `Api.normalize` sorts them: Props/C02.lean). -/
theorem compile_order_independent_partial (rx : String → Bool) (fs fs' : List File) (api api' : Api)
    (h : compile rx fs = .ok api) (h' : compile rx fs' = .ok api') (hs : SameDecls (mergeFiles fs) (mergeFiles fs'))
    (k : Key) :
    api.type? k = api'.type? k ∧ api.alias? k = api'.alias? k :=
  L.compile_order_independent (L.compile_core h) (L.compile_core h') hs k

/-- **The fuel of the depth-first population suffices.** `populate` models the on-demand population of parents
(`_resolve_type(.., enforce_fully_defined=True)` with `_resolution_in_progress`) by recursion on explicit fuel. With
fuel = number of type declarations + 1 -- what every pass uses -- it never answers `outOfFuel`: each recursive call
moves a registered type that is not in progress into the in-progress set. (`outOfFuel` is raised nowhere else; the
walks along alias chains, ancestors and imports have their own bounds `fuelAlias` / `fuelAncestors` / `fuelImports`,
for which nothing is proved: the correspondence suite counts a model answer of that kind as a disagreement.) -/
theorem populate_fuel_sufficient (rx : String → Bool) (fs : List File) (E : Env) (h : buildEnv fs = .ok E)
    (st : St) (key : Key) (d : TypeDecl) :
    populate rx E (populateFuel E) [key] st key d ≠ .error .outOfFuel :=
  L.populate_fuel_sufficient (L.buildEnv_ok h) st key d

/-- the built-in names the environment starts with are the classes of `IRGenerator.data_types` -/
theorem builtin_names_table : Tables.feBuiltinTypes = FeParams.TyKind.all.map (·.pyName) := by decide

/-- the reserved tag name: what `_populate_union_type_attributes` refuses as a declared tag and what it creates the
implicit catch-all under are the same name, the one the model uses -/
theorem catch_all_table :
    Tables.feCatchAllReserved = [otherField.name] ∧ Tables.feCatchAllCreated = [otherField.name] := by decide

/-- a built-in annotation type cannot be redefined (`Tables.feBuiltinAnnotations` is consulted) -/
theorem builtin_annotation_refused (name : String) (hn : name ∈ Tables.feBuiltinAnnotations) (st : RegSt) (ns : String)
    (hfree : lookupSym st.items ns name = none) : regDecl st ns (.annotType name) = .error .builtinAnnotation := by
  simp only [regDecl, hfree]
  simp [hn]

section Examples

def href (n : String) (nullable := false) : RefHead := { ns := none, name := n, kw := [], nullable := nullable }

/-- two files of one namespace, a forward parent in another namespace, an open union below a closed one, an alias
used before it is declared, a patch (under another spelling of the canonical name) -/
def sample : List File := [
  { ns := "na", decls := [
      .imp "nb",
      .type { name := "S", kind := .struct, «extends» := some (.leaf { ns := some "nb", name := "T", kw := [], nullable := false } []),
              fields := [{ name := "x", ty := some (.app1 (href "List") (.leaf (href "A" true) [])) }] },
      .alias "B" (.app2 (href "Map") (.leaf (href "String") []) (.leaf (href "A" true) [])),
      .alias "A" (.leaf (href "U") []) ] },
  { ns := "nb", decls := [
      .type { name := "T", kind := .struct, fields := [{ name := "y", ty := some (.leaf (href "Int32") []) }] } ] },
  { ns := "na", decls := [
      .type { name := "U", kind := .union false, «extends» := some (.leaf (href "V") []),
              fields := [{ name := "a", ty := none }] },
      .type { name := "V", kind := .union true, fields := [{ name := "b", ty := some (.leaf (href "S") []) }] },
      .route { name := "r", version := 1, arg := .leaf (href "S") [], result := .leaf (href "Void") [],
               error := some (.leaf (href "U") []) },
      .patch { name := "u", kind := .union false, fields := [{ name := "p", ty := some (.leaf (href "B") []) }] } ] } ]

example : (compile (fun _ => true) sample).toOption.isSome = true := by decide +kernel

example : (compile (fun _ => true) sample).toOption = denote (fun _ => true) sample := by decide +kernel

example : ((compile (fun _ => true) sample).toOption.map (·.closed)) = some true := by decide +kernel

/-- the relations `api_acyclic` speaks about are inhabited on the sample: `na.S` has the parent `nb.T`, `na.U` the
parent `na.V`; the alias `na.B` mentions the alias `na.A` -/
example : (compile (fun _ => true) sample).toOption.map (fun api =>
    ((api.type? ("na", "S")).bind (·.parent), (api.type? ("na", "U")).bind (·.parent),
     (api.alias? ("na", "B")).map (·.aliases))) =
    some (some ("nb", "T"), some ("na", "V"), some [("na", "A")]) := by decide +kernel

/-- the files of the sample in reverse order are accepted too and give `na.S` the same image (an instance of
`compile_order_independent_partial`; the populations happen in another order: `nb.T` first instead of on demand) -/
example : ((compile (fun _ => true) sample.reverse).toOption.bind (·.type? ("na", "S"))).isSome = true ∧
    (compile (fun _ => true) sample.reverse).toOption.bind (·.type? ("na", "S")) =
      (compile (fun _ => true) sample).toOption.bind (·.type? ("na", "S")) := by decide +kernel

example : (buildEnv sample).toOption.map populateFuel = some 5 := by decide +kernel

def errOf {α} : Except Err α → Option Err
  | .error e => some e
  | .ok _ => none

/-- a refused input: the statement is not about a model that accepts everything -/
example : errOf (compile (fun _ => true)
    [{ ns := "na", decls := [.alias "A" (.app1 (href "List") (.leaf (href "A") []))] }]) = some .aliasCycle := by
  decide +kernel

example : errOf (compile (fun _ => true)
    [{ ns := "na", decls := [.type { name := "S", kind := .struct, «extends» := some (.leaf (href "T") []) },
                             .type { name := "T", kind := .struct, «extends» := some (.leaf (href "S") []) }] }])
    = some .circular := by
  decide +kernel

end Examples

end StoneVerif.C02Compile
